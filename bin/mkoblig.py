#!/usr/bin/env python3
"""mkoblig.py <Oxx> <title> <table>:<key-prefix-or-key> ...
Freezes the CURRENT regenerated table entries as per-run obligations
(Examples checked by vm_compute against coq/gen on every run).  Run by hand
when a model is (re)written against the code; the result is committed."""
import re, sys, os, subprocess
V = os.path.dirname(os.path.dirname(os.path.abspath(__file__)))
subprocess.run([os.path.join(V, "bin/regen")], check=True, stdout=subprocess.DEVNULL)  # freeze what /repo says now
gen = open(os.path.join(V, "coq/gen/GenBodies.v")).read()
tables = {}
for m in re.finditer(r'Definition (\w+) : list \(string \* \(string \* string\)\) := \[\n(.*?)\n\]\.', gen, re.S):
    ents = []
    for line in m.group(2).splitlines():
        mm = re.match(r'\s*\(("(?:[^"]|"")*"), \(("(?:[^"]|"")*"), ("(?:[^"]|"")*")\)\);?\s*$', line)
        if mm:
            ents.append(mm.groups())
    tables[m.group(1)] = ents
inv = open(os.path.join(V, "coq/gen/GenInventory.v")).read()
invs = {m.group(1): m.group(2) for m in re.finditer(r'Definition (\w+) : list string := (\[.*?\n\])\.', inv, re.S)}
tabs = open(os.path.join(V, "coq/gen/GenTables.v")).read()
ptabs = {m.group(1): m.group(2) for m in re.finditer(r'Definition (\w+) : list \(string \* string\) := (\[.*?\n\])\.', tabs, re.S)}
name, title = sys.argv[1], sys.argv[2]
out = ["(* Per-run obligations %s: %s." % (name, title),
       "   The expected texts below were frozen from the source the models in this",
       "   development were written against (bin/mkoblig.py); coq/gen is regenerated",
       "   from /repo on every run and these Examples are re-checked by the kernel. *)",
       "From Coq Require Import String List Bool.", "From GV Require Import Base.Tables.",
       "From GVGen Require Import GenBodies GenInventory GenTables.", "Import ListNotations.", "Open Scope string_scope.", ""]
n = 0
for spec in sys.argv[3:]:
    tbl, key = spec.split(":", 1)
    if tbl == "inv":
        out.append("Example %s_inv_%s :\n  list_eqb %s %s = true.\nProof. vm_compute. reflexivity. Qed.\n" % (name, key, key, invs[key]))
        n += 1
        continue
    if tbl == "ptab":
        out.append("Example %s_tab_%s :\n  pairs_eqb %s %s = true.\nProof. vm_compute. reflexivity. Qed.\n" % (name, key, key, ptabs[key]))
        n += 1
        continue
    for (k, s, b) in tables[tbl]:
        kk = k.strip('"')
        if kk.endswith("._"):
            continue
        if kk == key or (key.endswith("*") and kk.startswith(key[:-1])):
            ident = re.sub(r'[^A-Za-z0-9]', '_', kk)
            out.append("Example %s_%s_%s :\n  has_body %s %s\n    %s\n    %s = true.\nProof. vm_compute. reflexivity. Qed.\n"
                       % (name, {"func_bodies": "body", "const_decls": "const", "type_decls": "type", "var_decls": "var"}[tbl], ident, tbl, k, s, b))
            n += 1
open(os.path.join(V, "coq/theories/Oblig/%s.v" % name), "w").write("\n".join(out))
print("wrote", n, "obligations")
