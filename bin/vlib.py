"""Shared machinery of the checks: building (Coq project, extraction, OCaml
drivers, Go harness against /repo's working tree), regeneration of coq/gen,
evidence, known findings, verdict lines."""
import fcntl
import hashlib
import json
import os
import re
import shutil
import subprocess
import sys
import tempfile
import time

VERIF = os.path.dirname(os.path.dirname(os.path.abspath(__file__)))
REPO = os.environ.get("VERIF_REPO", "/repo")
COQ = os.path.join(VERIF, "coq")
BUILD = os.path.join(VERIF, "build")
HARNESS = os.path.join(VERIF, "harness")

GOENV = dict(os.environ, GOFLAGS="-mod=mod", GOPROXY="off", GOSUMDB="off",
             GOTOOLCHAIN="local", CGO_ENABLED=os.environ.get("CGO_ENABLED", "1"))

TRUSTED_BASE = [
    "Coq 8.16.1 kernel (coqc, full .vo build via coq_makefile; vm_compute used in per-run Examples; no native_compute)",
    "axioms: none declared; Print Assumptions output of every property theorem is recorded in coverage.print_assumptions",
    "extraction: ExtrOcamlBasic only (bool, option, unit, list, prod, sumbool, sumor mapped to OCaml; N/Z/positive/nat/ascii/string stay Coq datatypes)",
    "OCaml 4.13.1 compiler and the line-protocol drivers under /verif/ocaml",
    "harness/cmd/srcextract (Go AST -> coq/gen/*.v: tables, guard inventory, effect skeletons) is an unverified translator",
    "Go toolchain go1.23.5, Go runtime, golang.org/x/sys/unix, Linux kernel + tmpfs, strace fault injection",
]


class Ctx:
    def __init__(self, prop, tier, seed):
        self.prop = prop
        self.tier = tier
        self.seed = seed
        self.t0 = time.time()
        self.scratch = tempfile.mkdtemp(prefix="verif-%s-" % prop)
        self.lines = []           # verdict lines printed
        self.violations = []      # (replay_path, suffix)
        self.known = []
        self.cov = {}
        self.assumptions = []

    def cleanup(self):
        shutil.rmtree(self.scratch, ignore_errors=True)


def sh(cmd, cwd=None, env=None, timeout=1800, input=None, check=False):
    """Run a command (list or shell string); returns (rc, stdout, stderr)."""
    shell = isinstance(cmd, str)
    try:
        p = subprocess.run(cmd, cwd=cwd, env=env or GOENV, shell=shell, timeout=timeout,
                           input=input, capture_output=True, text=True, errors="replace")
    except subprocess.TimeoutExpired as e:
        return 124, (e.stdout or b"").decode("utf8", "replace") if isinstance(e.stdout, bytes) else (e.stdout or ""), "TIMEOUT after %ss" % timeout
    if check and p.returncode != 0:
        raise RuntimeError("command failed (%d): %s\n%s\n%s" % (p.returncode, cmd, p.stdout[-4000:], p.stderr[-4000:]))
    return p.returncode, p.stdout, p.stderr


# ---------------------------------------------------------------- locking
class Lock:
    def __init__(self, name="coq/.lock"):
        self.path = os.path.join(VERIF, name)

    def __enter__(self):
        os.makedirs(os.path.dirname(self.path), exist_ok=True)
        self.f = open(self.path, "w")
        fcntl.flock(self.f, fcntl.LOCK_EX)
        return self

    def __exit__(self, *a):
        fcntl.flock(self.f, fcntl.LOCK_UN)
        self.f.close()


# ---------------------------------------------------------------- Go harness
def go_build(cmds):
    """Build harness commands against /repo's current working tree. Returns dict name->path."""
    out = {}
    os.makedirs(os.path.join(BUILD, "bin"), exist_ok=True)
    with Lock("build/.golock"):
        shutil.copyfile(os.path.join(REPO, "go.sum"), os.path.join(HARNESS, "go.sum"))
        for c in cmds:
            tags = []
            name = c
            if ":" in c:
                name, t = c.split(":", 1)
                tags = ["-tags", t]
            dst = os.path.join(BUILD, "bin", name + ("-race" if "race" in c else ""))
            extra = []
            if c.endswith("+race"):
                name = name.replace("+race", "")
            rc, o, e = sh(["go", "build"] + tags + extra + ["-o", dst, "./cmd/" + name], cwd=HARNESS, timeout=900)
            if rc != 0:
                raise BuildError("go build %s failed:\n%s%s" % (c, o, e))
            out[name] = dst
    return out


def go_build_race(name):
    os.makedirs(os.path.join(BUILD, "bin"), exist_ok=True)
    dst = os.path.join(BUILD, "bin", name + "-race")
    with Lock("build/.golock"):
        shutil.copyfile(os.path.join(REPO, "go.sum"), os.path.join(HARNESS, "go.sum"))
        rc, o, e = sh(["go", "build", "-race", "-o", dst, "./cmd/" + name], cwd=HARNESS, timeout=900)
    if rc != 0:
        raise BuildError("go build -race %s failed:\n%s%s" % (name, o, e))
    return dst


class LibraryCrash(Exception):
    def __init__(self, cmd, report):
        Exception.__init__(self, cmd + "\n" + report)
        self.cmd, self.report = cmd, report


class BuildError(Exception):
    pass


# ---------------------------------------------------------------- Coq project
def write_if_changed(path, content):
    try:
        if open(path).read() == content:
            return False
    except FileNotFoundError:
        pass
    os.makedirs(os.path.dirname(path), exist_ok=True)
    with open(path, "w") as f:
        f.write(content)
    return True


def build_goose():
    """cmd/goose built from /repo's working tree."""
    dst = os.path.join(BUILD, "bin", "goose")
    os.makedirs(os.path.dirname(dst), exist_ok=True)
    rc, o, e = sh(["go", "build", "-o", dst, "./cmd/goose"], cwd=REPO, timeout=900)
    if rc != 0:
        raise BuildError("go build ./cmd/goose failed:\n" + o + e)
    return dst


def gen_semantics(tmp):
    """Translate internal/examples/semantics with the goose built from the
    working tree; GenSemantics.v is that output, GenSemTests.v lists its
    test functions (the upstream semantics suite)."""
    goose = build_goose()
    out = tempfile.mkdtemp(prefix="verif-sem-")
    try:
        rc, o, e = sh([goose, "-out", out, "./internal/examples/semantics"], cwd=REPO, timeout=300)
        f = os.path.join(out, "github_com/goose_lang/goose/internal/examples/semantics.v")
        if rc != 0 or not os.path.exists(f):
            txt = "(* goose failed on internal/examples/semantics: rc=%d *)\n" % rc
            names = []
        else:
            txt = open(f).read()
            names = re.findall(r"^Definition ((?:failing_)?test[A-Za-z0-9_]*): val", txt, re.M)
        open(os.path.join(tmp, "GenSemantics.v"), "w").write(txt)
        good = [n for n in names if not n.startswith("failing_")]
        bad = [n for n in names if n.startswith("failing_")]
        fmt = lambda ns: "[" + "; ".join('("%s"%%string, %s)' % (n, n) for n in ns) + "]"
        open(os.path.join(tmp, "GenSemTests.v"), "w").write(
            "(* generated: the test functions of goose's output for internal/examples/semantics *)\n"
            "From Coq Require Import String List.\nFrom GV Require Import Lang.GlSyntax.\nFrom GVGen Require Import GenSemantics.\nImport ListNotations.\n"
            "Definition goose_translated_semantics : bool := %s.\n"
            "Definition sem_tests : list (string * val) := %s.\n"
            "Definition failing_sem_tests : list (string * val) := %s.\n" % ("true" if names else "false", fmt(good), fmt(bad)))
    finally:
        shutil.rmtree(out, ignore_errors=True)


def regenerate():
    """Run srcextract on /repo and rewrite coq/gen/*.v where content changed.
    Returns (ok, message)."""
    bins = go_build(["srcextract"])
    tmp = tempfile.mkdtemp(prefix="verif-gen-")
    try:
        rc, o, e = sh([bins["srcextract"], "-repo", REPO, "-out", tmp], timeout=300)
        if rc != 0:
            return False, "srcextract failed: " + o + e
        gen_semantics(tmp)
        for fn in sorted(os.listdir(tmp)):
            write_if_changed(os.path.join(COQ, "gen", fn), open(os.path.join(tmp, fn)).read())
        return True, o
    finally:
        shutil.rmtree(tmp, ignore_errors=True)


def coq_make(targets=None, timeout=3000):
    """make the Coq project (incremental). Returns (rc, output)."""
    if not os.path.exists(os.path.join(COQ, "Makefile")):
        sh("coq_makefile -f _CoqProject -o Makefile", cwd=COQ, check=True)
    cmd = ["make", "-j16", "-k"] + (targets or [])
    rc, o, e = sh(cmd, cwd=COQ, timeout=timeout, env=dict(os.environ, TIMED=""))
    return rc, o + e


def coq_obligations(ctx, vo_targets):
    """Regenerate coq/gen from /repo and re-check the given .vo targets
    (paths relative to coq/).  Returns list of failures [(target, message)]."""
    failures = []
    with Lock():
        ok, msg = regenerate()
        if not ok:
            return [("srcextract", msg)]
        rc, out = coq_make(vo_targets)
        if rc != 0:
            # find which files failed
            for m in re.finditer(r'File "\./([^"]+)", line (\d+), characters [^\n]*\n((?:.*\n){0,12})', out):
                failures.append((m.group(1) + ":" + m.group(2), m.group(3).strip()[:1500]))
            if not failures:
                failures.append(("make", out[-3000:]))
    return failures


def count_statements(vfile):
    """Theorem/Example/Corollary statements in a property file and its Print Assumptions lines."""
    txt = open(os.path.join(COQ, vfile)).read()
    names = re.findall(r'^(?:Theorem|Example|Corollary|Lemma)\s+([A-Za-z0-9_\']+)', txt, re.M)
    return names


def print_assumptions(vfile):
    """Re-run coqc on a property file to capture its Print Assumptions output."""
    tmpd = tempfile.mkdtemp(prefix="verif-pa-")
    tmpvo = os.path.join(tmpd, os.path.basename(vfile)[:-2] + ".vo")
    args = ["coqc", "-Q", "theories", "GV", "-Q", "gen", "GVGen"]
    if os.path.isdir(os.path.join(COQ, "shim")):
        args += ["-Q", "shim", "Perennial.goose_lang"]
    rc, o, e = sh(args + ["-w", "-notation-overridden", vfile, "-o", tmpvo], cwd=COQ, timeout=900)
    shutil.rmtree(tmpd, ignore_errors=True)
    res = []
    cur = None
    for line in o.splitlines():
        if line.startswith("Closed under the global context"):
            res.append("Closed under the global context")
        elif line.startswith("Axioms:"):
            cur = ["Axioms:"]
            res.append(cur)
        elif cur is not None and (line.startswith(" ") or ":" in line):
            cur.append(line.strip())
    flat = []
    for r in res:
        flat.append(r if isinstance(r, str) else " ".join(r))
    return rc, flat, (o + e)[-2000:]


# ---------------------------------------------------------------- extraction / OCaml drivers
def build_models():
    """Extract the models and build the OCaml drivers (under the coq lock)."""
    bdir = os.path.join(BUILD, "ocaml")
    os.makedirs(bdir, exist_ok=True)
    with Lock():
        ex = os.path.join(COQ, "extract")
        stamp = os.path.join(bdir, ".stamp")
        h = hashlib.sha256()
        for root in (os.path.join(COQ, "theories"), os.path.join(COQ, "gen"), ex, os.path.join(VERIF, "ocaml")):
            for dp, dn, fns in os.walk(root):
                for fn in sorted(fns):
                    if fn.endswith((".v", ".ml")) and fn not in ("models.ml",):
                        h.update(fn.encode())
                        h.update(open(os.path.join(dp, fn), "rb").read())
        digest = h.hexdigest()
        if os.path.exists(stamp) and open(stamp).read() == digest and all(
                os.path.exists(os.path.join(bdir, d)) for d in ocaml_drivers()):
            return bdir
        rc, o, e = sh(["coqc", "-Q", "../theories", "GV", "-Q", "../gen", "GVGen", "Extract.v"], cwd=ex, timeout=900)
        if rc != 0:
            raise BuildError("extraction failed:\n" + o + e)
        for fn in ("models.ml", "models.mli"):
            shutil.copyfile(os.path.join(ex, fn), os.path.join(bdir, fn))
        for fn in os.listdir(os.path.join(VERIF, "ocaml")):
            if fn.endswith(".ml"):
                shutil.copyfile(os.path.join(VERIF, "ocaml", fn), os.path.join(bdir, fn))
        for d in ocaml_drivers():
            rc, o, e = sh(["ocamlfind", "ocamlopt", "-package", "unix", "-linkpkg", "-inline", "100", "-w", "-a", "-o", d,
                           "models.mli", "models.ml", "common.ml", d + ".ml"], cwd=bdir, timeout=900)
            if rc != 0:
                raise BuildError("ocaml build of %s failed:\n%s%s" % (d, o, e))
        open(stamp, "w").write(digest)
    return bdir


def ocaml_drivers():
    return sorted(fn[:-3] for fn in os.listdir(os.path.join(VERIF, "ocaml"))
                  if fn.endswith("main.ml"))


# ---------------------------------------------------------------- known findings
def known_findings(prop):
    p = os.path.join(VERIF, "known_findings.json")
    if not os.path.exists(p):
        return []
    data = json.load(open(p))
    return [f for f in data.get("findings", []) if f["property"] == prop]


# ---------------------------------------------------------------- verdicts / evidence
def write_replay(ctx, name, obj):
    d = os.path.join(VERIF, "replays")
    os.makedirs(d, exist_ok=True)
    path = os.path.join(d, "%s-%s-%d.json" % (ctx.prop, name, ctx.seed))
    with open(path, "w") as f:
        json.dump(obj, f, indent=1)
    return path


def violation(ctx, name, obj, found_input):
    path = write_replay(ctx, name, obj)
    line = "VIOLATION property=%s replay=%s" % (ctx.prop, path)
    if not found_input:
        line += " no-failing-input-found"
    print(line, flush=True)
    ctx.violations.append(line)


def known_finding(ctx, what):
    line = "KNOWN-FINDING: property=%s %s" % (ctx.prop, what)
    print(line, flush=True)
    ctx.known.append(what)


def finish(ctx, level="proof"):
    cov = dict(ctx.cov)
    cov.setdefault("trusted_base", TRUSTED_BASE)
    cov.setdefault("checker_cmd", "coq_makefile -f _CoqProject -o Makefile && make -j16 (coqc 8.16.1), then bin/check %s --tier %s" % (ctx.prop, ctx.tier))
    ev = {
        "property_id": ctx.prop,
        "tier": ctx.tier,
        "seed": ctx.seed,
        "level": level,
        "coverage": cov,
        "assumptions": ctx.assumptions,
        "wall_s": round(time.time() - ctx.t0, 2),
        "violations": len(ctx.violations),
        "known_findings_reported": ctx.known,
    }
    os.makedirs(os.path.join(VERIF, "evidence"), exist_ok=True)
    with open(os.path.join(VERIF, "evidence", ctx.prop + ".json"), "w") as f:
        json.dump(ev, f, indent=1)
    ctx.cleanup()
    return 1 if ctx.violations else 0


def proof_stage(ctx, props_file, gen_targets=()):
    """Step 1 of the verdict procedure: regenerate, re-check obligations.
    Fills the proof coverage keys; returns the list of broken obligations."""
    vo = [props_file[:-2] + ".vo"] + [g[:-2] + ".vo" for g in gen_targets]
    failures = coq_obligations(ctx, vo)
    names = count_statements(props_file)
    gen_names = []
    for g in gen_targets:
        gen_names += count_statements(g)
    total = len(names) + len(gen_names)
    broken_files = set(f[0].split(":")[0] for f in failures)
    discharged = 0
    if props_file not in broken_files and not any(f[0] in ("make", "srcextract") for f in failures):
        discharged += len(names)
    for g in gen_targets:
        if g not in broken_files and not any(f[0] in ("make", "srcextract") for f in failures):
            discharged += len(count_statements(g))
    if failures and not broken_files:
        discharged = 0
    ctx.cov["obligations"] = total
    ctx.cov["discharged"] = discharged
    ctx.cov["theorems"] = names
    ctx.cov["per_run_obligations"] = gen_names
    if not failures:
        rc, pa, raw = print_assumptions(props_file)
        ctx.cov["print_assumptions"] = pa
        if any(x != "Closed under the global context" for x in pa):
            ctx.cov["axioms_note"] = "see print_assumptions"
    else:
        ctx.cov["broken_obligations"] = [{"where": f[0], "message": f[1]} for f in failures]
    return failures


def main_wrapper(prop, run):
    import argparse
    ap = argparse.ArgumentParser()
    ap.add_argument("--tier", default=os.environ.get("VERIF_TIER", "quick"))
    ap.add_argument("--replay", default=None)
    args = ap.parse_args(sys.argv[2:])
    seed = int(os.environ.get("VERIF_SEED", "1") or "1")
    ctx = Ctx(prop, args.tier if args.tier in ("quick", "thorough") else "quick", seed)
    ctx.replay = args.replay
    try:
        run(ctx)
    except LibraryCrash as e:
        print(str(e)[-3000:], file=sys.stderr)
        violation(ctx, "library-crash", {"kind": "the Go runtime ended the driver inside the library under test: an operation never returns "
                                                 "(all goroutines asleep) or the library corrupted its own state",
                                         "driver_cmd": e.cmd, "runtime_report": e.report}, True)
    except BuildError as e:
        # the tree does not build with the harness: the correspondence cannot be run
        print(str(e)[-3000:], file=sys.stderr)
        violation(ctx, "build", {"kind": "build-failure", "detail": str(e)[-3000:],
                                 "no_longer_checks": "harness build against /repo"}, False)
    rc = finish(ctx)
    sys.exit(rc)


# ---------------------------------------------------------------- driver | model pipelines
def pipeline(cmd, timeout=3000):
    """Run 'driver | modelmain'; returns (MISMATCH lines, stats of the DONE line)."""
    rc, out, err = sh(["bash", "-o", "pipefail", "-c", cmd], timeout=timeout)
    lines = out.splitlines()
    mism = [l for l in lines if l.startswith("MISMATCH")]
    done = [l for l in lines if l.startswith("DONE")]
    if rc != 0 or not done:
        i = err.find("fatal error:")
        if i >= 0 and REPO + "/" in err[i:]:
            # the Go runtime ended the driver inside the library under test (deadlock: an operation
            # never returns; concurrent map access): a failing execution, replayed by the command
            raise LibraryCrash(cmd, err[i:][:3000])
        raise BuildError("pipeline failed rc=%d: %s\n%s\n%s" % (rc, cmd, out[-1500:], err[-1500:]))
    stats = {}
    for kv in done[-1].split()[1:]:
        k, v = kv.split("=", 1)
        stats[k] = int(v) if v.lstrip("-").isdigit() else v
    return mism, stats


def history_lines(cmd, index, start="H", end="E"):
    """Extract the index-th history block (lines from a line starting with
    `start` to the `end` line) from a driver's output."""
    rc, out, err = sh(["bash", "-c", cmd], timeout=3000)
    cur, k = None, -1
    for l in out.splitlines():
        if l.split(" ", 1)[0] == start:
            k += 1
            cur = [] if k == index else None
        if cur is not None:
            cur.append(l if len(l) < 400 else l[:400] + "...")
            if l.strip() == end:
                return cur
    return cur or []
