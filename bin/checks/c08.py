"""C08 — the file header names exactly the FFI and the imports the package uses.
Obligations: Props/C08.v (visit = reachability through non-FFI packages;
choice; header/footer; Requires exact, duplicate free, sorted, order free;
path mapping) + Oblig/O08.v (the mirrored functions) + the regenerated
ffiMapping / builtinImports tables feed the executable model.
Correspondence: scratch modules with generated import graphs (FFIs direct,
transitive, hidden behind another FFI, two at once; imports spread and
repeated over files; dashed/dotted/trusted package paths) translated by the
real goose; header, footer, Requires, output path and exit status vs the model
run on the import graph reported by `go list -deps`."""
import os
import vlib


build_goose = vlib.build_goose


def run(ctx):
    failures = vlib.proof_stage(ctx, "theories/Props/C08.v", ["theories/Oblig/O08.v"])
    bins = vlib.go_build(["hdrdrv"])
    goose = build_goose()
    bdir = vlib.build_models()
    quick = ctx.tier == "quick"
    n = 60 if quick else 1500
    cmd = "%s -seed %d -n %d -goose %s -repo %s" % (bins["hdrdrv"], ctx.seed, n, goose, vlib.REPO)
    mism, st = vlib.pipeline(cmd + " | %s/hdrmain" % bdir, timeout=6000)
    ctx.cov.update({
        "evaluations": st["cases"], "distinct_nontrivial": st["nontrivial"],
        "rule": "a case is one scratch module: five helper packages (paths with '-', '.', a trusted_ package, a nested one) that randomly import an FFI "
                "(disk, async_disk — which itself imports disk —, a stand-in for grove_ffi) or each other, and a root package of 1-3 files importing random "
                "selections with repetition; translated by the real goose; non-trivial = the import graph has at least four non-standard-library packages",
        "samples": [vlib.history_lines("%s -seed %d -n 1 -goose %s -repo %s" % (bins["hdrdrv"], ctx.seed + 1, goose, vlib.REPO), 0, "P", "E")[:20]],
        "refused_two_ffis": st["refused_two_ffis"], "translated_with_ffi": st["with_ffi"], "require_lines_checked": st["require_lines"],
        "model_fuel_exhausted": st["fuel_exhausted"], "goose_crashes": st["crashes"], "mismatches": len(mism),
    })
    if st["fuel_exhausted"]:
        raise vlib.BuildError("model fuel exhausted on an import graph (harness limit)")
    if mism:
        idx = int(mism[0].split("case=")[1].split()[0])
        vlib.violation(ctx, "header", {"kind": "the header of the emitted file differs from the model proved to meet the property",
                                       "mismatch": mism[:8], "driver_cmd": cmd, "case_index": idx,
                                       "case": vlib.history_lines(cmd, idx, "P", "E")[:60]}, True)
    elif failures:
        for s in range(1, 4):
            cmd2 = "%s -seed %d -n 400 -goose %s -repo %s" % (bins["hdrdrv"], ctx.seed * 71 + s, goose, vlib.REPO)
            m2, st2 = vlib.pipeline(cmd2 + " | %s/hdrmain" % bdir, timeout=6000)
            ctx.cov["evaluations"] += st2["cases"]
            if m2:
                idx = int(m2[0].split("case=")[1].split()[0])
                vlib.violation(ctx, "header", {"kind": "the header of the emitted file differs from the model proved to meet the property",
                                               "mismatch": m2[:8], "driver_cmd": cmd2, "case_index": idx,
                                               "case": vlib.history_lines(cmd2, idx, "P", "E")[:60]}, True)
                return
        vlib.violation(ctx, "obligation", {"kind": "no longer checks", "no_longer_checks": [f[0] for f in failures],
                                           "messages": [f[1] for f in failures]}, False)
