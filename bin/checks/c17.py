"""C17 — goose command: exit status, file placement and partial output.
Obligations: Props/C17.v (exit status; exactly which files are written with
which contents; nothing for failed packages unless -ignore-errors; unchanged
files not rewritten; path injectivity partial/refuted) + Oblig/O17.v
(cmd/goose/main.go frozen).
Correspondence: scratch modules mixing translatable packages, a package with a
conversion error, a package that does not type-check, build-tagged files;
patterns (./..., single, lists, a pattern matching nothing), -dir, flag
combinations, prior states of the output directory (absent, identical,
different, unrelated file); exit status, final files, rewritten-or-not and
build-tag selection vs the model and `go list -tags goose`."""
import vlib
from checks.c08 import build_goose


def run(ctx):
    failures = vlib.proof_stage(ctx, "theories/Props/C17.v", ["theories/Oblig/O17.v"])
    bins = vlib.go_build(["clidrv"])
    goose = build_goose()
    bdir = vlib.build_models()
    quick = ctx.tier == "quick"
    n = 80 if quick else 2000
    cmd = "%s -seed %d -n %d -goose %s -repo %s" % (bins["clidrv"], ctx.seed, n, goose, vlib.REPO)
    mism, st = vlib.pipeline(cmd + " | %s/climain" % bdir, timeout=6000)
    ctx.cov.update({
        "evaluations": st["cases"], "distinct_nontrivial": st["nontrivial"],
        "rule": "a case is one scratch module (module path example.com/cm or example.com/cm/v2, optionally with a package in the module's root directory; good1 with goose / !goose tagged files, and randomly sub/good2, my-pkg, bad = one untranslatable function among "
                "translatable ones, broken = does not type-check) x a pattern set (./..., one package, a list, ./sub/... + one, a pattern matching nothing) x "
                "the loader directory (module root, or the sub-directory sub/ of the module; given by -dir from the root or from outside the module, or as the working directory with no -dir) x -ignore-errors x -typecheck x -source-comments x a prior state of the output directory (absent, result of an identical run, stale contents at "
                "the target paths, an unrelated file); the per-package results fed to the model come from translating each matched package alone; "
                "non-trivial = at least two packages matched",
        "samples": [vlib.history_lines("%s -seed %d -n 1 -goose %s -repo %s" % (bins["clidrv"], ctx.seed + 3, goose, vlib.REPO), 0, "K", "E")[:12]],
        "cases_with_failing_packages": st["cases_with_errors"], "unchanged_files_left_alone": st["unchanged_files_kept"], "mismatches": len(mism),
    })
    ctx.assumptions += ["package loading and pattern matching are golang.org/x/tools/go/packages' (compared with `go list -tags goose`, not modelled)"]
    def report(cmdx, ms):
        idx = int(ms[0].split("case=")[1].split()[0])
        vlib.violation(ctx, "cli", {"kind": "the goose command behaves differently from the model proved to meet the property", "mismatch": ms[:8],
                                    "driver_cmd": cmdx, "case_index": idx, "case": vlib.history_lines(cmdx, idx, "K", "E")[:40]}, True)
    # which packages count as failed must not depend on the workers' schedule: a race-detector build
    # of goose translates a module with translatable and untranslatable packages side by side
    from checks import c06
    cmdr, mr, str_ = c06.run_det(ctx, ctx.seed * 11 + 5, 9, 0, 0, 2 if quick else 10)
    races = [m for m in mr if "kind=data-race" in m]
    ctx.cov["race_detector_runs_of_goose_on_mixed_modules"] = str_.get("race_runs", 0)
    if races and not mism:
        import binascii
        rep = races[0].split("report=")[1].split()[0] if "report=" in races[0] else ""
        try:
            rep = binascii.unhexlify(rep).decode("utf8", "replace")[:2500]
        except Exception:
            pass
        vlib.violation(ctx, "race", {"kind": "data race between the per-package workers while translating packages with different outcomes (exit status and written files then depend on the schedule)",
                                     "driver_cmd": cmdr, "report": rep}, True)
        return
    if mism:
        report(cmd, mism)
    elif failures:
        for s in range(1, 4):
            cmd2 = "%s -seed %d -n 600 -goose %s -repo %s" % (bins["clidrv"], ctx.seed * 37 + s, goose, vlib.REPO)
            m2, st2 = vlib.pipeline(cmd2 + " | %s/climain" % bdir, timeout=6000)
            ctx.cov["evaluations"] += st2["cases"]
            if m2:
                report(cmd2, m2)
                return
        vlib.violation(ctx, "obligation", {"kind": "no longer checks", "no_longer_checks": [f[0] for f in failures],
                                           "messages": [f[1] for f in failures]}, False)
