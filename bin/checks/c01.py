"""C01 — accepted sequential programs keep their meaning in GooseLang.
Obligations: Props/C01.v (the reference semantics defines one result per
program; the translator model of Tr/MiniGo.v preserves the meaning of the core
fragment) + Oblig/O01.v (the translation functions and printer the model
mirrors, operator tables) + Oblig/O01sem.v (goose's own output for the upstream
semantics suite, regenerated each run, evaluates to #true test by test).
Correspondence: generated packages (internal/progen) run natively and through
goose + the reference interpreter, call by call; the construct catalogue
(every item rejected or faithful)."""
import vlib
from checks import semlib


def run(ctx):
    failures = vlib.proof_stage(ctx, "theories/Props/C01.v", ["theories/Oblig/O01.v", "theories/Oblig/O01sem.v"])
    quick = ctx.tier == "quick"
    kfs = vlib.known_findings("C01")
    found = False
    # the upstream semantics suite under the reference semantics
    broken, failing = semlib.sem_suite(ctx)
    ctx.cov["upstream_semantics_tests_broken"] = broken
    known_tests = {k["item"]: k for k in kfs if k.get("class") == "upstream-failing-test"}
    for t in failing or []:
        if t in known_tests:
            vlib.known_finding(ctx, known_tests[t]["what_fails"])
        else:
            vlib.violation(ctx, "semantics-suite", {"kind": "a test of the upstream semantics suite marked failing_ does not return #true and is not a listed finding",
                                                      "test": t, "replay": "coq/gen/GenSemantics.v: run 20000 (%s #())" % t}, True)
            found = True
    for t in broken or []:
        vlib.violation(ctx, "semantics-suite", {"kind": "goose's output for internal/examples/semantics: a test function no longer evaluates to #true under the reference semantics",
                                                  "test": t, "replay": "coq/gen/GenSemantics.v: run 20000 (%s #())" % t}, True)
        found = True
    # the catalogue: rejected or faithful
    cmd, bad, st, table = semlib.catalogue(ctx, kfs)
    ctx.cov["catalogue"] = {"items": st["cases"], "rejected": st["rejected"], "translated": st["accepted"], "calls_compared": st["calls"]}
    for c in bad[:3]:
        vlib.violation(ctx, "catalogue-" + c["pkg"], dict(semlib.replay_of(cmd, c), kind="a construct of the catalogue is translated to GooseLang that does not compute what Go computes"), True)
        found = True
    # generated packages
    plan = [("default", 20), ("minigol", 12), ("minigo", 8), ("minigoc", 12), ("minigos", 12)] if quick else [("default", 500), ("core", 300), ("minigo", 300), ("minigol", 400), ("minigoc", 400), ("minigos", 400), ("noshadow", 200)]
    evals = calls = 0
    samples = []
    for i, (profile, n) in enumerate(plan):
        cmdp, cases, stp = semlib.run_semdrv(ctx, profile, ctx.seed * 1000 + i, n)
        evals += stp["cases"]
        calls += stp["calls"]
        if stp.get("model_funcs"):
            ctx.cov["functions_compared_with_translator_model_" + profile] = stp["model_funcs"]
            ctx.cov["calls_compared_with_go_model_" + profile] = stp.get("model_calls", 0)
        if not samples and cases:
            samples.append(cases[0].get("go", "")[:1500])
        badp = [c for c in cases if c["mismatches"]]
        for c in badp[:2]:
            vlib.violation(ctx, "generated-" + profile + "-" + c["pkg"], dict(semlib.replay_of(cmdp, c), kind="Go and the emitted GooseLang definition disagree on a generated program"), True)
            found = True
    ctx.cov.update({
        "evaluations": evals, "distinct_nontrivial": calls,
        "rule": "a case is one generated package of 5 functions (uint64/uint32/byte/bool values, wrap-around arithmetic, conversions, := and var locals with "
                "shadowing, op-assign, ++/--, if/else, early returns, counted loops with break/continue, nested blocks, slices (make/index/append/range), "
                "maps (insert/lookup/comma-ok/delete/range/len), structs by value and pointer with field updates, methods, constants, multiple results, calls) "
                "with 4 argument vectors per function (boundary values and random); every call is run natively by the Go toolchain and by the reference "
                "interpreter on goose's output; counted under distinct_nontrivial: calls compared. Profiles minigo / minigol / minigoc / minigos additionally compare, "
                "inside Coq's kernel, the translator model's term with the term parsed from goose's output (function by function; for minigoc and minigos - packages of "
                "functions that call each other and themselves, without and with var-declared locals, printed in shuffled source order, every fifth with a function goose "
                "must refuse - the whole list of emitted values in the order of the emitted file) and the model of Go with the native result of every call",
        "samples": samples,
    })
    ctx.assumptions += ["the reference semantics Lang/GlSem.v stands for Perennial's GooseLang (not installable here); it is validated each run by the upstream semantics suite",
                        "Go's behaviour is the behaviour of the installed Go toolchain on the generated programs"]
    if found:
        return
    if failures:
        # an obligation broke and no disagreement was found above: search wider
        for s in range(1, 4):
            cmdp, cases, stp = semlib.run_semdrv(ctx, "default", ctx.seed * 7919 + s, 250)
            ctx.cov["evaluations"] += stp["cases"]
            badp = [c for c in cases if c["mismatches"]]
            if badp:
                vlib.violation(ctx, "generated-search-" + badp[0]["pkg"], dict(semlib.replay_of(cmdp, badp[0]), kind="Go and the emitted GooseLang definition disagree on a generated program"), True)
                return
        vlib.violation(ctx, "obligation", {"kind": "no longer checks", "no_longer_checks": [f[0] for f in failures], "messages": [f[1] for f in failures]}, False)
