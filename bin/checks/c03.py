"""C03 — concurrent programs: Go outcomes are GooseLang outcomes, over all schedules.
Obligations: Props/C03.v (every result the interleaving explorer reports is
produced by an explicit schedule of the machine; the lock of the reference
semantics) + Oblig/O03.v (goStmt, spawnExpr, the sync method mappings, newExpr,
packageMethod, the type recognisers, SpawnExpr.Coq, machine.WaitTimeout/Sleep).
Correspondence: data-race-free concurrent programs (mutex-protected counters,
captured var cells and loop variables, condition-variable hand-off, broadcast
to two waiters, WaitTimeout polling with zero and non-zero timeouts, wait-group
publication, nested spawns, sleep, a mutex behind a struct field, a go statement
with arguments) are run natively many times (race detector on in the thorough
tier) and translated; the explorer enumerates all interleavings of the emitted
program at the steps that touch the state; every Go result must be a model
outcome, the model must have no deadlock, stuck or non-terminating schedule,
and when Go's result is unique the model's outcomes are exactly that result."""
import vlib
from checks import semlib


def run(ctx):
    failures = vlib.proof_stage(ctx, "theories/Props/C03.v", ["theories/Oblig/O03.v", "theories/Oblig/O01.v"])   # O01: statement translation incl. scoping
    quick = ctx.tier == "quick"
    kfs = vlib.known_findings("C03")
    reps = 40 if quick else 1500
    cmd, cases, st = semlib.run_semdrv(ctx, "conc", ctx.seed, 0, extra="-reps %d %s -gen %d" % (reps, "-norace" if quick else "", 12 if quick else 60))
    known = {k["item"]: k for k in kfs if k.get("class") == "catalogue"}
    table = {}
    for c in cases:
        table[c["pkg"]] = c["verdict"] or "mismatch"
        if not c["mismatches"]:
            continue
        if c["pkg"] in known:
            vlib.known_finding(ctx, known[c["pkg"]]["what_fails"])
        else:
            vlib.violation(ctx, "concurrent-" + c["pkg"], dict(semlib.replay_of(cmd, c), kind="a Go result is not an outcome of the emitted program, or the emitted program has a deadlocking / stuck / non-terminating interleaving, or more outcomes than Go"), True)
    ctx.cov.update({
        "evaluations": st["cases"], "distinct_nontrivial": st["calls"],
        "rule": "a case is one concurrent Go program: the 24 of the catalogue (2-3 goroutines joined by a wait group or a condition variable before the result is read) and generated ones "
                "(1-2 workers updating one or two shared variables with commuting additions inside critical sections of one mutex, one publishing through a pointer before its Done, "
                "the main goroutine possibly taking part, joined by a wait group; or 2-3 workers each writing a cell of their own without any lock, read after the join; drawn from the seed); it is run natively %d times "
                "and the set of results collected; goose's output is explored exhaustively: all interleavings of the threads at every step that reads or writes the state "
                "(a thread waiting on a condition variable re-acquires only after another thread made progress; threads that only wait for each other are reported as a "
                "deadlock); compared: Go's results are model outcomes, no deadlock/stuck/non-terminating schedule, unique Go result implies the same unique model outcome" % reps,
        "samples": [cases[0].get("go", "")[:1200]] if cases else [], "verdicts": table,
    })
    ctx.assumptions += ["the thread semantics of Lang/GlConc.v stands for GooseLang's (interleaving of atomic library steps; condWait = release, then acquire)",
                        "Go's scheduler shows only some interleavings: the native side is a sample, the model side is exhaustive up to the exploration fuel (no case ran out of fuel)"]
    if ctx.violations:
        return
    if failures:
        vlib.violation(ctx, "obligation", {"kind": "no longer checks", "no_longer_checks": [f[0] for f in failures], "messages": [f[1] for f in failures]}, False)
