"""C13 — AtomicCreate is all-or-nothing, durable-before-visible, interference-free.
Obligations: Props/C13.v (POSIX model; theorems for ANY body of the checked
shape: every prefix of its system calls leaves old-or-data, visible implies
durable, complete after return whatever the leftovers; every interleaving of
two calls) + Oblig/O13.v (the regenerated skeleton of DirFs.AtomicCreate has
that shape; MemFs.AtomicCreate is locked and copies).
Correspondence / search: the real DirFs.AtomicCreate is run in a child that is
killed at, or gets an error from, each of its system calls (strace injection,
ordinals taken from a baseline trace), over prior destination contents and
leftovers; the observed system-call sequence is compared with the shape;
concurrent calls with a polling reader are run on DirFs and MemFs."""
import os
import re
import shutil
import vlib

TRACE = "trace=openat,write,fsync,renameat,close,unlinkat,linkat,pwrite64,ftruncate,fdatasync,sync_file_range,rename,renameat2"


def data_of(child, n, tag):
    rc, out, err = vlib.sh([child, "acdata", str(n), tag])
    return out.encode("latin1") if False else subprocess_bytes([child, "acdata", str(n), tag])


def subprocess_bytes(cmd):
    import subprocess
    return subprocess.run(cmd, capture_output=True).stdout


def run_ac(ctx, child, root, n, tag, inject=None, fsize=None):
    log = os.path.join(ctx.scratch, "ac.log")
    cmd = (["env", "AC_FSIZE=%d" % fsize] if fsize is not None else []) + ["strace", "-f", "-o", log, "-e", TRACE]
    if inject:
        cmd += ["-e", "inject=%s" % inject]
    cmd += [child, "ac", root, "d", "f", str(n), tag]
    rc, out, err = vlib.sh(cmd, timeout=120)
    trace = open(log).read() if os.path.exists(log) else ""
    oc = [l for l in out.splitlines() if l.startswith("OUTCOME")]
    return rc, (oc[-1] if oc else "OUTCOME none"), trace, " ".join(cmd)


def ac_syscalls(trace):
    """The system calls of the AtomicCreate call in a baseline trace: list of (name, ordinal among
    this thread's calls of that name, text). The call starts at the openat of a *.tmp name."""
    lines = trace.splitlines()
    if not lines:
        return []
    main = lines[0].split()[0]
    counts, res, started = {}, [], False
    for l in lines:
        m = re.match(r"^(\d+)\s+(\w+)\((.*)", l)
        if not m or m.group(1) != main:
            continue
        name = m.group(2)
        counts[name] = counts.get(name, 0) + 1
        if not started and name == "openat" and ".tmp" in l:
            started = True
        if started and not (name == "write" and m.group(3).startswith("1,")):
            res.append((name, counts[name], l))
            if name in ("renameat", "rename", "renameat2"):
                started = False
    return res


def read_dst(root):
    p = os.path.join(root, "d", "f")
    return open(p, "rb").read() if os.path.exists(p) else None


def setup_root(ctx, pre, leftover):
    root = os.path.join(ctx.scratch, "acroot")
    shutil.rmtree(root, ignore_errors=True)
    os.makedirs(os.path.join(root, "d"))
    old = None
    if pre:
        old = b"OLD-CONTENTS-" * 50
        open(os.path.join(root, "d", "f"), "wb").write(old)
    if leftover == "root-tmp":
        open(os.path.join(root, "f.tmp"), "wb").write(b"X" * 20000)
    elif leftover == "dir-tmp":
        open(os.path.join(root, "d", "f.tmp"), "wb").write(b"Y" * 20000)
    elif leftover == "many":
        for i in range(3):
            open(os.path.join(root, "f.%d.%d.tmp" % (1000 + i, i)), "wb").write(b"Z" * (7000 * (i + 1)))
    return root, old


def enumerate_faults(ctx, child, sizes, leftovers):
    results, bad, shapes = [], [], []
    for pre in (False, True):
        for leftover in leftovers:
            for n in sizes:
                want = subprocess_bytes([child, "acdata", str(n), "A"])
                root, old = setup_root(ctx, pre, leftover)
                other_before = {p: open(os.path.join(root, "d", p), "rb").read() for p in os.listdir(os.path.join(root, "d")) if p != "f"}
                rc, oc, trace, cmd = run_ac(ctx, child, root, n, "A")
                calls = ac_syscalls(trace)
                seq = [c[0] for c in calls]
                results.append({"pre_existing": pre, "leftover": leftover, "size": n, "inject": None, "outcome": oc, "syscalls": seq})
                if oc != "OUTCOME returned" or read_dst(root) != want:
                    bad.append({"what": "plain call did not install exactly the data", "pre_existing": pre, "leftover": leftover, "size": n,
                                "outcome": oc, "dst_len": None if read_dst(root) is None else len(read_dst(root)), "cmd": cmd})
                    continue
                for p, b in other_before.items():
                    pp = os.path.join(root, "d", p)
                    if not os.path.exists(pp) or open(pp, "rb").read() != b:
                        bad.append({"what": "an unrelated file of the directory was changed/removed: d/" + p, "leftover": leftover, "cmd": cmd})
                # observed shape: open(O_CREAT|O_TRUNC) ; write* ; fsync(same fd) ; renameat last
                m = re.search(r'openat\(\d+, "([^"]+\.tmp)", ([A-Z_|]+)[^)]*\) = (\d+)', calls[0][2]) if calls else None
                shape_ok = bool(m) and "O_CREAT" in m.group(2) and "O_TRUNC" in m.group(2) and seq[-1] == "renameat" \
                    and "fsync" in seq and all(x == "write" for x in seq[1:seq.index("fsync")]) and seq[seq.index("fsync") + 1:] == ["renameat"] \
                    and ("fsync(%s)" % m.group(3)) in calls[seq.index("fsync")][2] and (n == 0 or "write" in seq)
                shapes.append(shape_ok)
                if not shape_ok:
                    bad.append({"what": "observed system-call sequence does not have the proved shape (validates srcextract)", "syscalls": [c[2] for c in calls]})
                # a short write: a file-size limit below the data length (the kernel takes the bytes up to
                # the limit without an error, then fails with EFBIG)
                for lim in ([] if n < 2 else sorted({n // 2, n - 1, 1})):
                    root, old = setup_root(ctx, pre, leftover)
                    rc, oc, tr2, cmd2 = run_ac(ctx, child, root, n, "A", fsize=lim)
                    dst = read_dst(root)
                    short = bool(re.search(r"write\(\d+, .*, (\d+)\)\s+= (\d+)", tr2)) and any(
                        int(m2.group(2)) < int(m2.group(1)) for m2 in re.finditer(r"write\(\d+, .*?, (\d+)\)\s+= (\d+)", tr2))
                    ok = (oc.startswith("OUTCOME panic") and dst == old) or (oc == "OUTCOME returned" and dst == want)
                    results.append({"pre_existing": pre, "leftover": leftover, "size": n, "inject": "RLIMIT_FSIZE=%d" % lim, "fired": short,
                                    "outcome": oc, "dst_is": "old" if dst == old else ("data" if dst == want else "OTHER")})
                    if not ok:
                        bad.append({"what": "short write (file-size limit %d < %d bytes of data)" % (lim, n), "pre_existing": pre, "leftover": leftover,
                                    "size": n, "outcome": oc, "dst_is_old": dst == old, "dst_is_data": dst == want,
                                    "dst_len": None if dst is None else len(dst), "cmd": cmd2, "trace_tail": tr2.splitlines()[-8:]})
                for (name, ordinal, text) in calls:
                    for mode in ("kill", "error"):
                        if mode == "error" and name not in ("openat", "write", "fsync", "renameat"):
                            continue
                        root, old = setup_root(ctx, pre, leftover)
                        inj = "%s:%s:when=%d" % (name, "signal=KILL" if mode == "kill" else "error=EIO", ordinal)
                        rc, oc, tr2, cmd2 = run_ac(ctx, child, root, n, "A", inj)
                        fired = ("(INJECTED)" in tr2) or ("killed by SIGKILL" in tr2)
                        dst = read_dst(root)
                        ok_state = (dst == old) or (dst == want)
                        ok_outcome = (not fired) or mode == "kill" or oc.startswith("OUTCOME panic")
                        # whatever was left behind, the next call must succeed and install exactly its data
                        want2 = subprocess_bytes([child, "acdata", str(n + 3), "B"])
                        rc3, oc3, tr3, cmd3 = run_ac(ctx, child, root, n + 3, "B")
                        ok_next = oc3 == "OUTCOME returned" and read_dst(root) == want2
                        results.append({"pre_existing": pre, "leftover": leftover, "size": n, "inject": inj, "fired": fired,
                                        "outcome": oc, "dst_is": "old" if dst == old else ("data" if dst == want else "OTHER"), "next_call_ok": ok_next})
                        if not (ok_state and ok_outcome and ok_next):
                            bad.append({"what": "after %s at %s #%d" % (mode, name, ordinal), "pre_existing": pre, "leftover": leftover, "size": n,
                                        "outcome": oc, "dst_is_old": dst == old, "dst_is_data": dst == want,
                                        "dst_len": None if dst is None else len(dst), "next_call_ok": ok_next, "cmd": cmd2,
                                        "trace_tail": tr2.splitlines()[-8:]})
    return results, bad, shapes


def run(ctx):
    failures = vlib.proof_stage(ctx, "theories/Props/C13.v", ["theories/Oblig/O13.v"])
    bins = vlib.go_build(["faultchild", "acconc"])
    quick = ctx.tier == "quick"
    sizes = [0, 5000] if quick else [0, 5, 5000, 300000]
    leftovers = ["none", "root-tmp", "dir-tmp"] if quick else ["none", "root-tmp", "dir-tmp", "many"]
    results, bad, shapes = enumerate_faults(ctx, bins["faultchild"], sizes, leftovers)
    conc = []
    for impl in ("dir", "mem"):
        rc, out, err = vlib.sh([bins["acconc"], "-impl", impl, "-rounds", "40" if quick else "600", "-size", "200000"], timeout=1800)
        done = [l for l in out.splitlines() if l.startswith("DONE")]
        bads = [l for l in out.splitlines() if l.startswith("BAD")]
        conc.append({"impl": impl, "summary": done[-1] if done else "crashed: " + err[-500:], "bad": bads[:10]})
        if bads or not done:
            bad.append({"what": "concurrent AtomicCreate calls / reader on %s" % impl, "lines": bads[:10] or [err[-1500:]],
                        "cmd": "%s -impl %s" % (bins["acconc"], impl)})
    fired = sum(1 for r in results if r.get("fired"))
    ctx.cov.update({
        "evaluations": len(results) + (240 if quick else 3600),
        "distinct_nontrivial": fired,
        "rule": "fault cases: (destination absent|present) x leftover {none, <name>.tmp in the root, <name>.tmp in the directory (a user file), several old temp files} x data size x "
                "each system call of the call (ordinals from a baseline strace) x {kill at its entry, EIO}, plus short writes produced by a file-size limit below the data length; after each, the destination must be old-or-data, a failed call must panic, "
                "and a subsequent plain call must install exactly its data; non-trivial = the injection fired. concurrency cases: two concurrent calls (different directories / "
                "different names / same name) with a polling reader, on DirFs and MemFs.",
        "samples": results[:3] + [r for r in results if r.get("fired")][:3],
        "fault_runs": len(results), "fault_runs_fired": fired, "observed_shape_ok": all(shapes) and bool(shapes),
        "concurrency": conc, "violations_found": len(bad),
    })
    ctx.assumptions += ["power loss is not producible here: 'flushed before visible' rests on the POSIX model's fsync/rename assumptions plus the observed syscall order",
                        "kill is injected at system-call entry (strace), i.e. between system calls"]
    if bad:
        vlib.violation(ctx, "atomic-create", {"kind": "AtomicCreate violated the property on a concrete run", "cases": bad[:8]}, True)
    elif failures:
        r2, bad2, _ = enumerate_faults(ctx, bins["faultchild"], [0, 5, 5000, 300000], ["none", "root-tmp", "dir-tmp", "many"])
        if not bad2:
            for impl in ("dir", "mem"):
                rc, out, err = vlib.sh([bins["acconc"], "-impl", impl, "-rounds", "500"], timeout=1800)
                bads = [l for l in out.splitlines() if l.startswith("BAD")]
                if bads or "DONE" not in out:
                    bad2.append({"what": "concurrent calls on %s" % impl, "lines": bads[:10] or [err[-1500:]]})
        if bad2:
            vlib.violation(ctx, "atomic-create", {"kind": "AtomicCreate violated the property on a concrete run", "cases": bad2[:8]}, True)
        else:
            vlib.violation(ctx, "obligation", {"kind": "no longer checks", "no_longer_checks": [f[0] for f in failures],
                                               "messages": [f[1] for f in failures]}, False)
