"""C07 — goose never crashes: output or structured, located errors.
Obligations: Props/C07.v (without a foreign panic every package ends with the
definitions of the declarations that translated and one error per declaration
that did not; declarations are independent; success iff all translated) +
Oblig/O07.v (declsOrError, the error reporters, and the regenerated inventory
of every explicit panic, unchecked type assertion and recover of the
translator).
Correspondence: the construct catalogue (147 packages of arbitrary Go),
generated packages with out-of-subset statements, and type-preserving mutants
of the shipped example packages are fed to the real goose: exit status 0 or 1,
no Go panic, documented error categories, positions inside a declaration of the
package, and every function either in the output or reported."""
import binascii
import vlib


def run_crash(ctx, seed, gen, mut, cat=True):
    bins = vlib.go_build(["crashdrv"])
    goose = vlib.build_goose()
    cmd = "%s -seed %d -gen %d -mutants %d -goose %s -repo %s %s" % (bins["crashdrv"], seed, gen, mut, goose, vlib.REPO, "" if cat else "-no-catalogue")
    mism, st = vlib.pipeline(cmd, timeout=6000)
    return cmd, mism, st


def dec(m):
    d = dict(kv.split("=", 1) for kv in m.split()[1:] if "=" in kv)
    if "detail" in d:
        try:
            d["detail"] = binascii.unhexlify(d["detail"]).decode("utf8", "replace")[:2000]
        except Exception:
            pass
    return d


def run(ctx):
    failures = vlib.proof_stage(ctx, "theories/Props/C07.v", ["theories/Oblig/O07.v"])
    quick = ctx.tier == "quick"
    cmd, mism, st = run_crash(ctx, ctx.seed, 25 if quick else 600, 40 if quick else 1500)
    ctx.cov.update({
        "evaluations": st["packages"], "distinct_nontrivial": st["errors"],
        "rule": "a case is one type-correct Go package translated by the real goose: the 147 catalogue items (arbitrary Go: switch, goto, defer, channels, select, generics, "
                "closures, type switches, arrays, floats, signed integers, embedded and anonymous structs, named slice literals, spread calls, look-alikes, ...), generated "
                "packages with several out-of-subset statements in different functions, and mutants of the shipped examples (statement wrapped in a block, duplicated, given "
                "an empty else, op-assign expanded, wrapped in if true, operator or literal changed) that still build; checked: exit status 0/1, no 'panic:'/'goroutine', "
                "category among the five documented ones, 'src:' position inside a top-level declaration of the package, every function either defined in the -ignore-errors "
                "output or containing a reported error. distinct_nontrivial = structured errors examined",
        "samples": [], "mutants_that_still_build": st["mutants"], "mutants_discarded": st["mutants_discarded"], "crashes": st["crashes"],
    })
    if mism:
        vlib.violation(ctx, "crash-or-bad-error", {"kind": "goose crashed, or reported an error without a documented category / a position inside the package, or lost a declaration",
                                                   "driver_cmd": cmd, "mismatches": [dec(m) for m in mism[:6]]}, True)
        return
    if failures:
        for s in range(1, 5):
            cmd2, m2, st2 = run_crash(ctx, ctx.seed * 7919 + s, 300, 600, cat=False)
            ctx.cov["evaluations"] += st2["packages"]
            if m2:
                vlib.violation(ctx, "crash-or-bad-error", {"kind": "goose crashed or reported a malformed error", "driver_cmd": cmd2, "mismatches": [dec(m) for m in m2[:6]]}, True)
                return
        vlib.violation(ctx, "obligation", {"kind": "no longer checks", "no_longer_checks": [f[0] for f in failures], "messages": [f[1] for f in failures]}, False)
