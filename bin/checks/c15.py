"""C15 — integer encoding.  Proof obligations: Props/C15.v (generic in the
width) + Oblig/O15.v (the four functions still delegate to encoding/binary).
Correspondence: machine.UInt64Put/Get/UInt32Put/Get vs the extracted model.
The model is proved equal to the specification (C15_put_frame, C15_get_put,
C15_short_*), so a model/implementation disagreement on a case IS an input on
which the property fails."""
import os
import vlib


def run_cases(ctx, bins, bdir, seed, n):
    rc, out, err = vlib.sh("%s -seed %d -n %d | %s/encmain" % (bins["encdrv"], seed, n, bdir), timeout=900)
    mism = [l for l in out.splitlines() if l.startswith("MISMATCH")]
    done = [l for l in out.splitlines() if l.startswith("DONE")]
    if rc != 0 or not done:
        raise vlib.BuildError("enc drivers failed: rc=%d %s %s" % (rc, out[-500:], err[-500:]))
    stats = dict(kv.split("=") for kv in done[0].split()[1:])
    return mism, {k: int(v) for k, v in stats.items()}


def run(ctx):
    failures = vlib.proof_stage(ctx, "theories/Props/C15.v", ["theories/Oblig/O15.v"])
    bins = vlib.go_build(["encdrv"])
    bdir = vlib.build_models()
    if ctx.replay:
        import json
        rp = json.load(open(ctx.replay))
        lines = rp.get("cases", [])
        rc, out, err = vlib.sh("%s/encmain" % bdir, input="\n".join(l.split(" ## ")[0].replace("MISMATCH ", "") for l in lines) + "\n")
        print(out)
        return
    n = 20000 if ctx.tier == "quick" else 400000
    mism, stats = run_cases(ctx, bins, bdir, ctx.seed, n)
    # sample + distribution
    rc, out, err = vlib.sh("%s -seed %d -n 2000" % (bins["encdrv"], ctx.seed))
    sample_lines = out.splitlines()
    dist = {}
    lens = {}
    distinct = set()
    for l in sample_lines:
        f = l.split()
        dist[f[0]] = dist.get(f[0], 0) + 1
        ln = 0 if f[1] == "-" else len(f[1]) // 2
        lens[ln] = lens.get(ln, 0) + 1
        if "PANIC" not in l:
            distinct.add(l)
    ctx.cov.update({
        "evaluations": stats["cases"],
        "distinct_nontrivial": int(len(distinct) * (stats["cases"] / max(1, len(sample_lines)))) if False else len(distinct),
        "rule": "cases = (operation, buffer of length 0..24 with random prior contents, value from boundary set / random / random shifted); "
                "non-trivial = accepted call (not refused) with a distinct (op, buffer, value) triple, counted on the first 2000 cases of the run",
        "samples": sample_lines[:6],
        "op_distribution_first_2000": dist,
        "buffer_length_distribution_first_2000": {str(k): v for k, v in sorted(lens.items())},
        "refused_cases": stats["refused"],
        "mismatches": len(mism),
    })
    if failures and not mism:
        # an obligation broke but the generated cases agree: search harder for a failing input
        for s in range(1, 9):
            m2, st2 = run_cases(ctx, bins, bdir, ctx.seed * 1000 + s, 300000)
            ctx.cov["evaluations"] += st2["cases"]
            if m2:
                mism = m2
                break
    if mism:
        vlib.violation(ctx, "enc", {"kind": "model/implementation disagreement = specification violated (model proved equal to spec)",
                                    "cases": mism[:20], "how_to_replay": "bin/check C15 --replay <this file>"}, True)
    elif failures:
        vlib.violation(ctx, "obligation", {"kind": "proof obligation no longer checks",
                                           "no_longer_checks": [f[0] for f in failures], "messages": [f[1] for f in failures]}, False)
