"""C11 — contents persist across reopen; I/O failures are never silent.
Obligations: Props/C11.v (open/reopen theorems for every prior image length,
size and history; fault theorem for every body accepted by `surfaces`) +
Oblig/O11.v (surfaces holds of the regenerated skeletons of ReadTo, Read,
Write, Barrier, NewFileDisk; Barrier starts with fsync(d.fd)) + O11body.v.
Correspondence: (a) reopen histories on the real FileDisk vs the extracted
open_disk/file_step; (b) fault enumeration with strace injection, closed
descriptors and /dev/full: a failed system call must end in a panic / error."""
import os
import re
import vlib

SYSCALLS = "trace=fsync,pwrite64,pread64,ftruncate,openat,close"

# (scenario, syscall to fail, when, prior image bytes or None)
FAULTS = [
    ("barrier", "fsync", 1, None), ("write", "pwrite64", 1, None), ("write2", "pwrite64", 2, None),
    ("write2", "pwrite64", 1, None), ("read", "pread64", 1, None), ("readto", "pread64", 1, None),
    ("open", "ftruncate", 1, None), ("open", "ftruncate", 1, 1), ("open", "ftruncate", 1, 5000),
    # the image is longer than requested: the ftruncate that shrinks it fails
    ("open", "ftruncate", 1, 40960), ("open", "ftruncate", 1, 16385), ("open", "ftruncate", 1, 20480),
    ("barrier", "pwrite64", 1, None), ("read", "pwrite64", 1, None),
]
ERRNOS = ["EIO", "ENOSPC"]
# a failure that persists (every occurrence from the first on), with the errnos a retry loop would look at
PERSISTENT = [("barrier", "fsync"), ("write", "pwrite64"), ("read", "pread64"), ("readto", "pread64"), ("write2", "pwrite64")]
PERSISTENT_ERRNOS = ["EINTR", "EAGAIN", "EIO"]
PLAIN = [("close-then-barrier", None), ("close-then-write", None), ("close-then-read", None),
         ("write", "/dev/full"), ("barrier", None), ("read", None), ("readto", None), ("write2", None), ("open", None)]


def run_child(ctx, child, scenario, path, n, inject=None):
    log = os.path.join(ctx.scratch, "strace.log")
    cmd = ["strace", "-f", "-o", log, "-e", SYSCALLS]
    if inject:
        cmd += ["-e", "inject=%s:error=%s:when=%s" % inject]
    cmd += [child, scenario, path, str(n)]
    rc, out, err = vlib.sh(cmd, timeout=120)
    trace = open(log).read() if os.path.exists(log) else ""
    injected = "(INJECTED)" in trace
    outcome = [l for l in out.splitlines() if l.startswith("OUTCOME")]
    return (outcome[-1] if outcome else "OUTCOME none rc=%d %s" % (rc, err[-200:])), injected, trace, out, cmd


def faults(ctx, child, extra_when=()):
    results, bad = [], []
    img = os.path.join(ctx.scratch, "fault.img")
    combos = [(s, sc, w, prior, e) for (s, sc, w, prior) in FAULTS for e in ERRNOS]
    for w in extra_when:
        combos += [(s, sc, w, prior, "EIO") for (s, sc, _, prior) in FAULTS]
    combos += [(s, sc, "1+", None, e) for (s, sc) in PERSISTENT for e in PERSISTENT_ERRNOS]
    # errnos that an implementation may be tempted to read as "nothing to do"
    combos += [(s, sc, 1, None, e) for (s, sc) in PERSISTENT for e in ("EINVAL", "EROFS", "EDQUOT", "EBADF", "ENOSYS", "EOPNOTSUPP")]
    for (scen, sc, when, prior, errno) in combos:
        if os.path.exists(img):
            os.remove(img)
        if prior is not None:
            open(img, "wb").write(b"\x5a" * prior)
        outcome, injected, trace, out, cmd = run_child(ctx, child, scen, img, 4, (sc, errno, when))
        silent = injected and outcome.startswith("OUTCOME returned")
        results.append({"scenario": scen, "fail": sc, "errno": errno, "when": when, "prior_image_bytes": prior,
                        "injected": injected, "outcome": outcome})
        if silent:
            bad.append({"scenario": scen, "failed_syscall": sc, "errno": errno, "when": when, "prior_image_bytes": prior,
                        "outcome": outcome, "stdout": out, "cmd": " ".join(cmd),
                        "strace": [l for l in trace.splitlines() if "fault.img" in l or "INJECTED" in l or re.search(r"(fsync|pwrite64|pread64|ftruncate)\(", l)][:20]})
    # no injection: normal return; Barrier reaches the kernel as fsync on the disk's descriptor
    fsync_seen = None
    for (scen, path) in PLAIN:
        if os.path.exists(img):
            os.remove(img)
        outcome, injected, trace, out, cmd = run_child(ctx, child, scen, path or img, 4)
        expect_panic = scen.startswith("close-then") or path == "/dev/full"
        ok = outcome.startswith("OUTCOME panic") if expect_panic else outcome.startswith("OUTCOME returned")
        results.append({"scenario": scen, "path": path or "image", "injected": False, "outcome": outcome})
        if not ok:
            bad.append({"scenario": scen, "path": path or "image", "expected": "panic" if expect_panic else "returned",
                        "outcome": outcome, "cmd": " ".join(cmd)})
        if scen == "barrier" and path is None:
            m = re.search(r'openat\(AT_FDCWD, "[^"]*fault\.img", [^)]*\) = (\d+)', trace)
            fd = m.group(1) if m else None
            lines = trace.splitlines()
            iw = [i for i, l in enumerate(lines) if "pwrite64(%s," % fd in l]
            isync = [i for i, l in enumerate(lines) if re.search(r"fsync\(%s\)\s+= 0" % fd, l)]
            fsync_seen = bool(fd and iw and isync and isync[-1] > iw[-1])
            if not fsync_seen:
                bad.append({"scenario": "barrier", "problem": "Barrier returned but no successful fsync on the disk's descriptor after the write",
                            "strace": [l for l in lines if "fault.img" in l or "fsync" in l or "pwrite64" in l][:20]})
    return results, bad, fsync_seen


def run(ctx):
    failures = vlib.proof_stage(ctx, "theories/Props/C11.v", ["theories/Oblig/O11.v", "theories/Oblig/O11body.v"])
    bins = vlib.go_build(["diskdrv", "faultchild"])
    bdir = vlib.build_models()
    quick = ctx.tier == "quick"
    n, ops = (250, 12) if quick else (4000, 40)
    cmd = "%s -mode reopen -seed %d -n %d -ops %d" % (bins["diskdrv"], ctx.seed, n, ops)
    mism, st = vlib.pipeline(cmd + " | %s/reopenmain" % bdir)
    results, bad, fsync_seen = faults(ctx, bins["faultchild"], extra_when=() if quick else (2, 3))
    ctx.cov.update({
        "evaluations": st["histories"] + len(results),
        "distinct_nontrivial": st["nontrivial_histories"] + sum(1 for r in results if r.get("injected")),
        "fault_errnos": ERRNOS + ["persistent " + e for e in PERSISTENT_ERRNOS],
        "rule": "reopen cases: one backing file per history, prior image absent or of length {0,1,n,4095,4096,4097,n*4096-1,n*4096,n*4096+1,(n+1)*4096,2n*4096,n*2048,3,100} "
                "with non-zero content, 1-3 open/close rounds with size n, n±1, 2n, n/2, all blocks read after every open, random writes in between "
                "(non-trivial = an existing image was resized on open or a non-zero block was read back). fault cases: each (scenario, failing syscall, errno, occurrence) "
                "run in a child under strace injection, plus closed-descriptor and /dev/full scenarios (non-trivial = the injection actually fired).",
        "samples": [vlib.history_lines(cmd.replace("-n %d" % n, "-n 2").replace("-ops %d" % ops, "-ops 2"), 0)[:14], results[:4]],
        "reopen_histories": st["histories"], "opens": st["opens"], "opens_of_existing_image": st["opens_of_existing_image"],
        "images_resized_on_open": st["resized_on_open"], "disk_operations": st["ops"],
        "fault_runs": len(results), "fault_runs_injected": sum(1 for r in results if r.get("injected")),
        "fault_results": results, "barrier_fsync_observed_by_strace": fsync_seen,
        "reopen_mismatches": len(mism), "silent_failures": len(bad),
    })
    ctx.assumptions += ["durability of fsync'ed data across power loss is the kernel's contract (not producible here)",
                        "short transfer counts without an error are outside the property's fault catalogue"]
    if mism:
        idx = int(mism[0].split("hist=")[1].split()[0])
        vlib.violation(ctx, "reopen", {"kind": "reopen: implementation differs from the model proved to meet the property",
                                       "mismatch": mism[:10], "driver_cmd": cmd, "history_index": idx,
                                       "history": vlib.history_lines(cmd, idx)[:120]}, True)
    if bad:
        vlib.violation(ctx, "fault", {"kind": "an I/O failure did not surface (or Barrier did not flush)", "cases": bad[:10]}, True)
    if failures and not mism and not bad:
        # search harder before giving up
        for s in range(1, 5):
            cmd2 = "%s -mode reopen -seed %d -n 600 -ops 30" % (bins["diskdrv"], ctx.seed * 100 + s)
            m2, st2 = vlib.pipeline(cmd2 + " | %s/reopenmain" % bdir)
            ctx.cov["evaluations"] += st2["histories"]
            if m2:
                idx = int(m2[0].split("hist=")[1].split()[0])
                vlib.violation(ctx, "reopen", {"kind": "reopen: implementation differs from the model proved to meet the property",
                                               "mismatch": m2[:10], "driver_cmd": cmd2, "history_index": idx,
                                               "history": vlib.history_lines(cmd2, idx)[:120]}, True)
                return
        r2, bad2, _ = faults(ctx, bins["faultchild"], extra_when=(2, 3, 4))
        if bad2:
            vlib.violation(ctx, "fault", {"kind": "an I/O failure did not surface", "cases": bad2[:10]}, True)
            return
        vlib.violation(ctx, "obligation", {"kind": "no longer checks", "no_longer_checks": [f[0] for f in failures],
                                           "messages": [f[1] for f in failures]}, False)
