"""Shared machinery for the properties about the meaning of goose's output
(C01, C02, C05): running semdrv (generated packages or the construct
catalogue), decoding its MISMATCH lines, matching them against the known
findings and turning the rest into replays."""
import binascii
import os
import re
import vlib


def unhex(s):
    try:
        return binascii.unhexlify(s).decode("utf8", "replace")
    except Exception:
        return s


def run_semdrv(ctx, profile, seed, n, extra="", timeout=6000):
    bins = vlib.go_build(["semdrv"])
    goose = vlib.build_goose()
    for attempt in range(4):
        cmd = "%s -seed %d -n %d -goose %s -repo %s -coq %s -profile %s -j 6 %s" % (
            bins["semdrv"], seed + 7777 * attempt, n, goose, vlib.REPO, vlib.COQ, profile, extra)
        rc, out, err = vlib.sh(["bash", "-c", cmd], timeout=timeout)
        lines = out.splitlines()
        done = [l for l in lines if l.startswith("DONE")]
        gen = [l for l in lines if l.startswith("GENERATOR-ERROR")]
        if rc == 3 and gen:
            # a generated Go program does not compile: a defect of the generator (it does not
            # depend on /repo); that batch is dropped and another seed is drawn
            ctx.cov.setdefault("generator_batches_dropped", []).append({"cmd": cmd, "error": unhex(gen[0].split()[1])[:300]})
            continue
        break
    if rc != 0 or not done:
        raise vlib.BuildError("semdrv failed rc=%d (%s): %s\n%s" % (rc, cmd, unhex(gen[0].split()[1])[-1500:] if gen else out[-800:], err[-1500:]))
    stats = {}
    for kv in done[-1].split()[1:]:
        k, v = kv.split("=", 1)
        stats[k] = int(v) if v.lstrip("-").isdigit() else v
    # split into cases
    cases, cur = [], None
    for l in lines:
        if l.startswith("K "):
            cur = {"pkg": l[2:].strip(), "lines": [], "mismatches": [], "verdict": ""}
            cases.append(cur)
        elif cur is not None:
            if l.startswith("G "):
                cur["go"] = unhex(l[2:].strip())
            elif l.startswith("X "):
                parts = l.split()
                cur["goose_errors"] = unhex(parts[2]) if len(parts) > 2 else ""
            elif l.startswith("V "):
                cur["verdict"] = l.split()[2]
            elif l.startswith("MISMATCH"):
                d = dict(kv.split("=", 1) for kv in l.split()[1:] if "=" in kv)
                if "msg" in d:
                    d["msg"] = unhex(d["msg"])[:1500]
                if d.get("gooselang", "").startswith("stuck:"):
                    d["gooselang"] = "stuck: " + unhex(d["gooselang"][6:])
                cur["mismatches"].append(d)
            elif l.startswith("C "):
                cur["lines"].append(l)
    return cmd, cases, stats


def catalogue(ctx, kfs, report_unlisted=True):
    """Run the construct catalogue. Returns (unlisted mismatching cases, stats, verdict table)."""
    cmd, cases, st = run_semdrv(ctx, "catalogue", ctx.seed, 0, extra="-skip order_")   # the order_ items belong to C04
    known = {k["item"]: k for k in kfs if k.get("class") == "catalogue"}
    bad = []
    table = {}
    for c in cases:
        table[c["pkg"]] = c["verdict"] or ("mismatch" if c["mismatches"] else "?")
        if not c["mismatches"]:
            continue
        if c["pkg"] in known:
            vlib.known_finding(ctx, known[c["pkg"]]["what_fails"])
            table[c["pkg"]] = "known-finding"
        else:
            bad.append(c)
    return cmd, bad, st, table


def replay_of(cmd, c):
    return {"driver_cmd": cmd, "package": c["pkg"], "go_source": c.get("go", ""), "goose_errors": c.get("goose_errors", ""),
            "mismatches": c["mismatches"][:6], "calls": c["lines"][:12]}


def sem_suite(ctx):
    """Names of the upstream semantics tests that do not return #true under the
    reference semantics: (broken tests of the suite proper, failing_* tests that still fail)."""
    q = os.path.join(ctx.scratch, "semq.v")
    open(q, "w").write("From Coq Require Import String.\nFrom GV Require Import Oblig.SemRun.\nSet Printing Width 100000.\n"
                       "Eval vm_compute in (\"BROKEN\"%string, broken_now).\nEval vm_compute in (\"FAILING\"%string, failing_now).\n")
    rc, o, e = vlib.sh(["coqc", "-Q", os.path.join(vlib.COQ, "theories"), "GV", "-Q", os.path.join(vlib.COQ, "gen"), "GVGen",
                        "-Q", os.path.join(vlib.COQ, "shim"), "Perennial.goose_lang", "-w", "-abstract-large-number", q], timeout=900)
    if rc != 0:
        return None, None
    def names(tag):
        m = re.search(r'\("%s"(?:%%string)?, (.*)\)\n' % tag, o)
        return [x for x in re.findall(r'"([^"]+)"', m.group(1))] if m else []
    return names("BROKEN"), names("FAILING")
