"""C12 — MemFs ≡ DirFs ≡ reference model on all valid histories.
Obligations: Props/C12.v (MemFs mirror refines the reference model on every
valid history; the reference model has the listed properties) + Oblig/O12.v
(bodies of mem.go and of the package-level wrappers are the mirrored code).
Correspondence: generated valid histories on the real MemFs, the real DirFs
and through the wrappers vs the extracted models; the reference model is the
property oracle."""
import vlib


def stream(bins, bdir, seed, n, ops, impl=""):
    cmd = "%s -seed %d -n %d -ops %d %s" % (bins["fsdrv"], seed, n, ops, ("-impl " + impl) if impl else "")
    mism, st = vlib.pipeline(cmd + " | %s/fsmain" % bdir)
    return cmd, mism, st


def report(ctx, cmd, mism, kind):
    idx = int(mism[0].split("hist=")[1].split()[0])
    vlib.violation(ctx, kind, {"kind": kind, "mismatch": mism[:10], "driver_cmd": cmd, "history_index": idx,
                               "history": vlib.history_lines(cmd, idx)[:300],
                               "how_to_replay": "driver_cmd | build/ocaml/fsmain"}, True)


def run(ctx):
    failures = vlib.proof_stage(ctx, "theories/Props/C12.v", ["theories/Oblig/O12.v"])
    bins = vlib.go_build(["fsdrv"])
    bdir = vlib.build_models()
    quick = ctx.tier == "quick"
    n, ops = (600, 80) if quick else (20000, 150)
    cmd, mism, st = stream(bins, bdir, ctx.seed, n, ops)
    spec_bad = [m for m in mism if m.startswith("MISMATCH-SPEC")]
    model_bad = [m for m in mism if m.startswith("MISMATCH-MODEL")]
    gen_bad = [m for m in mism if m.startswith("GENERATOR")]
    ctx.cov.update({
        "evaluations": st["histories"], "distinct_nontrivial": st["nontrivial_histories"],
        "rule": "a case is one generated VALID history (the generator tracks the namespace and descriptors; 1-3 directories, 6 names incl. 'data.tmp'/'f0.tmp', "
                "data sizes 0..12289, ReadAt offsets/lengths at and across the end, several descriptors per file kept open, deleted-but-open files, links, "
                "AtomicCreate over existing names; the client mutates every slice it passed or received) run on MemFs, DirFs and both through the package-level wrappers; "
                "non-trivial = some ReadAt of the history returned a non-empty result; histories are distinct with overwhelming probability (random data)",
        "samples": [vlib.history_lines("%s -seed %d -n 2 -ops 25" % (bins["fsdrv"], ctx.seed), 1)[:30]],
        "operations": st["ops"], "operation_kinds": st["kinds"], "reads_nonempty": st["reads_nonempty"], "links_created": st["links"],
        "creates_refused_name_exists": st["create_refused"],
        "spec_mismatches": len(spec_bad), "model_mismatches": len(model_bad), "generator_invalid": len(gen_bad),
    })
    if gen_bad:
        raise vlib.BuildError("harness bug: generator produced an invalid history: %s" % gen_bad[0])
    if spec_bad:
        report(ctx, cmd, spec_bad, "specification-violated")
        return
    if failures or model_bad:
        for s in range(1, 5):
            for impl in ("mem", "dir"):
                cmd2, m2, st2 = stream(bins, bdir, ctx.seed * 100 + s, 1500, 150, impl)
                ctx.cov["evaluations"] += st2["histories"]
                sb = [m for m in m2 if m.startswith("MISMATCH-SPEC")]
                if sb:
                    report(ctx, cmd2, sb, "specification-violated")
                    return
        vlib.violation(ctx, "obligation", {"kind": "no longer checks",
                                           "no_longer_checks": [f[0] for f in failures] + (["correspondence MemFs mirror vs implementation"] if model_bad else []),
                                           "messages": [f[1] for f in failures], "model_mismatches": model_bad[:10]}, False)
