"""C04 — every declaration emitted once, uniquely named, defined before use.
Obligations: Props/C04.v (the depth-first emission emits each declaration once;
for an acyclic dependency graph every declaration follows the declarations it
mentions, for every order and split) + Oblig/O04.v (Decls/processDecl,
sortedFiles, the inventory of addDep/addName sites, naming, File.Write).
Correspondence: generated packages whose declarations are randomly permuted and
split over 1-3 files with arbitrary names; goose's output is checked for one
definition per Go declaration under its documented name, distinct names, no
mention (outside quotes) of a same-package definition that comes later,
compilation by coqc, and the results of the calls; catalogue items with
reversed declaration orders for each kind of reference."""
import vlib
from checks import semlib


def run(ctx):
    failures = vlib.proof_stage(ctx, "theories/Props/C04.v", ["theories/Oblig/O04.v"])
    quick = ctx.tier == "quick"
    kfs = vlib.known_findings("C04")
    found = False
    cmd, cases, st = semlib.run_semdrv(ctx, "catalogue", ctx.seed, 0, extra="-only order_")
    known = {k["item"]: k for k in kfs if k.get("class") == "catalogue"}
    for c in cases:
        if not c["mismatches"]:
            continue
        if c["pkg"] in known:
            vlib.known_finding(ctx, known[c["pkg"]]["what_fails"])
        else:
            vlib.violation(ctx, "catalogue-" + c["pkg"], dict(semlib.replay_of(cmd, c), kind="declarations in reverse dependency order: the output is not usable or computes something else"), True)
            found = True
    ctx.cov["catalogue_order_items"] = st["cases"]
    n = 40 if quick else 1200
    evals = calls = 0
    samples = []
    for i in range(1 if quick else 3):
        cmdp, cs, stp = semlib.run_semdrv(ctx, "order", ctx.seed * 1000 + 41 + i, n)
        evals += stp["cases"]
        calls += stp["calls"]
        if not samples and cs:
            samples.append(cs[0].get("go", "")[:1500])
        for c in [c for c in cs if c["mismatches"]][:2]:
            vlib.violation(ctx, "generated-" + c["pkg"], dict(semlib.replay_of(cmdp, c), kind="a permuted/split package: a declaration is missing, duplicated, misnamed or used before its definition"), True)
            found = True
    # packages of functions that call each other, printed in shuffled source order: the order of the
    # emitted file is the order the model of Decls computes, and that list is the model's translation
    ctx.cov["packages_whose_emitted_order_equals_the_decls_model"] = 0
    for k, prof in enumerate(("minigoc", "minigos")):
        cmdc, csc, stc = semlib.run_semdrv(ctx, prof, ctx.seed * 1000 + 77 + k, 10 if quick else 300)
        evals += stc["cases"]
        calls += stc["calls"]
        ctx.cov["packages_whose_emitted_order_equals_the_decls_model"] += stc["cases"]
        for c in [c for c in csc if c["mismatches"]][:2]:
            vlib.violation(ctx, "generated-calls-" + c["pkg"], dict(semlib.replay_of(cmdc, c), kind="a package of functions that call each other: the emitted order is not the order the model of Decls computes, "
                                                                                                   "or the emitted list is not the model's translation, or a call disagrees with Go"), True)
            found = True
    ctx.cov.update({
        "evaluations": evals, "distinct_nontrivial": evals,
        "rule": "a case is one generated package (constants with initialisers mentioning constants, 1-2 structs, 6 functions and methods calling earlier ones, "
                "struct mentions in literals, field reads and writes, var annotations, slices/maps of scalars) whose declarations are randomly permuted and split over "
                "1-3 files named in arbitrary lexical order; checked on goose's output: one Definition per Go declaration under its name (T__m for methods), "
                "distinct names, every unquoted mention of a same-package definition refers to an earlier one, coqc accepts the file, and all calls agree with Go",
        "samples": samples, "calls_compared": calls,
    })
    ctx.assumptions += ["the names a declaration mentions are those goose records (addDep): the model takes them as given; their completeness is checked by the correspondence"]
    if found:
        return
    if failures:
        for s in range(1, 4):
            cmdp, cs, stp = semlib.run_semdrv(ctx, "order", ctx.seed * 7919 + s, 300)
            ctx.cov["evaluations"] += stp["cases"]
            badp = [c for c in cs if c["mismatches"]]
            if badp:
                vlib.violation(ctx, "generated-search-" + badp[0]["pkg"], dict(semlib.replay_of(cmdp, badp[0]), kind="a permuted/split package violates the property"), True)
                return
        vlib.violation(ctx, "obligation", {"kind": "no longer checks", "no_longer_checks": [f[0] for f in failures], "messages": [f[1] for f in failures]}, False)
