"""C09 — disks are register arrays; Mem ≡ File.
Obligations: Props/C09.v (spec over histories; MemDisk and FileDisk models
refine it for every block size, disk size and history) + Oblig/O09.v (the
bodies of machine/disk and machine/async_disk are the code the models mirror;
BlockSize = 4096).
Correspondence: generated histories on MemDisk, FileDisk, async_disk aliases,
global wrappers vs the extracted models; the specification model is the
property oracle (MISMATCH-SPEC = the property fails on that history)."""
import vlib


def run_stream(bins, bdir, seed, n, ops, contract, impl=""):
    cmd = "%s -seed %d -n %d -ops %d -contract=%s %s" % (bins["diskdrv"], seed, n, ops, "true" if contract else "false",
                                                        ("-impl " + impl) if impl else "")
    mism, st = vlib.pipeline(cmd + " | %s/diskmain" % bdir)
    return cmd, mism, st


def report(ctx, cmd, mism, kind):
    first = mism[0]
    idx = int(first.split("hist=")[1].split()[0])
    lines = vlib.history_lines(cmd, idx)
    vlib.violation(ctx, kind, {"kind": kind, "mismatch": mism[:10], "driver_cmd": cmd, "history_index": idx,
                               "history": lines[:200],
                               "how_to_replay": "re-run driver_cmd (built from /repo by bin/check) piped into build/ocaml/diskmain"}, True)


def run(ctx):
    failures = vlib.proof_stage(ctx, "theories/Props/C09.v", ["theories/Oblig/O09.v"])
    bins = vlib.go_build(["diskdrv"])
    bdir = vlib.build_models()
    quick = ctx.tier == "quick"
    streams = [(ctx.seed, 240 if quick else 6000, 60 if quick else 200, True),
               (ctx.seed + 7919, 60 if quick else 1000, 40 if quick else 120, False)]
    tot = {"histories": 0, "ops": 0, "accepted_writes": 0, "refused": 0, "reads_nonzero": 0, "nontrivial_histories": 0}
    spec_bad, model_bad = [], []
    for (seed, n, ops, contract) in streams:
        cmd, mism, st = run_stream(bins, bdir, seed, n, ops, contract)
        for k in tot:
            tot[k] += st[k]
        spec_bad += [(cmd, m) for m in mism if m.startswith("MISMATCH-SPEC")]
        model_bad += [(cmd, m) for m in mism if m.startswith("MISMATCH-MODEL")]
    sample = vlib.history_lines("%s -seed %d -n 3 -ops 6" % (bins["diskdrv"], ctx.seed), 1)
    ctx.cov.update({
        "evaluations": tot["histories"],
        "distinct_nontrivial": tot["nontrivial_histories"],
        "rule": "a case is one generated history (disk size from {0,1,2,3,7,16,64}; implementation cycling over mem, file, async mem, async file, "
                "global wrappers on mem and on file; ops Write/Read/ReadTo/Size/Barrier; addresses in range, just out of range and near 2^32, 2^52, 2^63, 2^64; "
                "write buffers mostly 4096 bytes plus 0,1,2048,4095,4097,8192; client mutates every buffer it passed or received). "
                "Non-trivial = some read in it returned a non-zero block; histories are distinct with overwhelming probability (random contents), counted as generated.",
        "samples": [sample],
        "operations_executed": tot["ops"],
        "accepted_writes": tot["accepted_writes"],
        "refused_calls": tot["refused"],
        "reads_returning_nonzero": tot["reads_nonzero"],
        "streams": [{"seed": s, "histories": n, "max_ops": o, "readto_buffers_block_sized_only": c} for (s, n, o, c) in streams],
        "spec_mismatches": len(spec_bad), "model_mismatches": len(model_bad),
    })
    if spec_bad:
        report(ctx, spec_bad[0][0], [m for _, m in spec_bad], "specification-violated")
        return
    if failures or model_bad:
        # obligations or the mirror correspondence broke: search for a history on which the SPEC fails
        for s in range(1, 7):
            for impl in ("mem", "file"):
                cmd, mism, st = run_stream(bins, bdir, ctx.seed * 100 + s, 400, 150, True, impl)
                ctx.cov["evaluations"] += st["histories"]
                sb = [m for m in mism if m.startswith("MISMATCH-SPEC")]
                if sb:
                    report(ctx, cmd, sb, "specification-violated")
                    return
        what = {"kind": "no longer checks", "no_longer_checks": [f[0] for f in failures] + (["correspondence MemDisk/FileDisk mirror models vs implementation"] if model_bad else []),
                "messages": [f[1] for f in failures], "model_mismatches": [m for _, m in model_bad][:10]}
        vlib.violation(ctx, "obligation", what, False)
