"""C18 — test_gen emits exactly one Go and one Coq test per test function.
Obligations: Props/C18.v (line lemma; one test per test function for every
declaration list; file order and skipping; generators agree; the unrestricted
statement refuted by a raw-string witness) + Oblig/O18.v (main.go frozen:
regular expressions, filter, templates).
Correspondence: generated gofmt-formatted directories; stdout of the real
test_gen -go/-coq vs the extracted model (byte for byte); the emitted tests vs
the test functions the directory declares (property oracle); go vet of the
generated Go file."""
import json
import os
import shutil
import vlib


def run_tg(ctx, bins, bdir, tg, seed, n, vet=0, cls=""):
    modroot = ""
    if vet:
        modroot = os.path.join(ctx.scratch, "tgmod")
        shutil.rmtree(modroot, ignore_errors=True)
        os.makedirs(modroot)
        open(os.path.join(modroot, "go.mod"), "w").write(
            "module tgmod\n\ngo 1.22\n\nrequire github.com/goose-lang/goose v0.0.0\n\nreplace github.com/goose-lang/goose => %s\n" % vlib.REPO)
        shutil.copyfile(os.path.join(vlib.REPO, "go.sum"), os.path.join(modroot, "go.sum"))
    cmd = "%s -seed %d -n %d -testgen %s %s %s" % (bins["tgdrv"], seed, n, tg,
                                                   ("-vet %d -modroot %s" % (vet, modroot)) if vet else "", ("-class " + cls) if cls else "")
    mism, st = vlib.pipeline(cmd + " | %s/tgmain" % bdir, timeout=3000)
    return cmd, mism, st


def run(ctx):
    failures = vlib.proof_stage(ctx, "theories/Props/C18.v", ["theories/Oblig/O18.v"])
    bins = vlib.go_build(["tgdrv"])
    bdir = vlib.build_models()
    tg = os.path.join(vlib.BUILD, "bin", "test_gen")
    rc, o, e = vlib.sh(["go", "build", "-o", tg, "./cmd/test_gen"], cwd=vlib.REPO)
    if rc != 0:
        raise vlib.BuildError("go build ./cmd/test_gen failed:\n" + o + e)
    quick = ctx.tier == "quick"
    cmd, mism, st = run_tg(ctx, bins, bdir, tg, ctx.seed, 300 if quick else 5000, vet=14 if quick else 40)
    spec_bad = [m for m in mism if m.startswith("MISMATCH-SPEC")]
    model_bad = [m for m in mism if m.startswith("MISMATCH-MODEL")]
    ctx.cov.update({
        "evaluations": st["dirs"], "distinct_nontrivial": st["nontrivial_dirs"],
        "rule": "a case is one generated gofmt-formatted package directory: 1-5 source files in arbitrary name order plus optionally a _test.go file, a .gold.v file "
                "and one or two adjacent backup files (all containing test-looking functions); declarations: test / failing_test functions (one-line, multi-line, with "
                "comment lines that look like headers), disabled_test functions, helpers with multi-line parameter lists, helpers containing 'test', methods named test, "
                "function-valued variables, raw strings with indented header look-alikes; names with digits, underscores and non-ASCII letters. "
                "non-trivial = the directory declares at least two test functions.",
        "samples": [vlib.history_lines("%s -seed %d -n 1 -testgen %s" % (bins["tgdrv"], ctx.seed, tg), 0, "D", "E")[:25]],
        "tests_emitted": st["tests"], "files_that_must_be_skipped": st["skipped_files"], "go_vet_runs": st["vetted"],
        "spec_mismatches": len(spec_bad), "model_mismatches": len(model_bad),
    })
    # known findings: replay their witnesses (classes of inputs), report those that still fail
    kfs = vlib.known_findings("C18")
    for kf in kfs:
        c2, m2, st2 = run_tg(ctx, bins, bdir, tg, ctx.seed, 12, vet=12 if kf["class"] == "kf-duplicate" else 0, cls=kf["class"])
        still = [m for m in m2 if m.startswith("MISMATCH-SPEC") and ("class=" + kf["class"]) in m and kf["marker"] in m]
        other = [m for m in m2 if m not in still]
        if still:
            vlib.known_finding(ctx, kf["what_fails"])
        spec_bad += [m for m in other if m.startswith("MISMATCH-SPEC")]
        model_bad += [m for m in other if m.startswith("MISMATCH-MODEL")]

    def report(kind, cmdx, ms):
        idx = int(ms[0].split("dir=")[1].split()[0])
        lines = vlib.history_lines(cmdx, idx, "D", "E")
        vlib.violation(ctx, kind, {"kind": kind, "mismatch": ms[:8], "driver_cmd": cmdx, "directory_index": idx,
                                   "directory (hex-encoded lines)": lines[:150]}, True)
    if spec_bad:
        report("specification-violated", cmd, spec_bad)
        return
    if failures or model_bad:
        for s in range(1, 4):
            c3, m3, st3 = run_tg(ctx, bins, bdir, tg, ctx.seed * 53 + s, 3000, vet=30)
            ctx.cov["evaluations"] += st3["dirs"]
            sb = [m for m in m3 if m.startswith("MISMATCH-SPEC")]
            if sb:
                report("specification-violated", c3, sb)
                return
        vlib.violation(ctx, "obligation", {"kind": "no longer checks",
                                           "no_longer_checks": [f[0] for f in failures] + (["correspondence test_gen vs model"] if model_bad else []),
                                           "messages": [f[1] for f in failures], "model_mismatches": model_bad[:8]}, False)
