"""C02 — outside the subset goose rejects instead of mistranslating.
Obligations: Props/C02.v (rejected-or-faithful for the translator model, at
every position; the guards of the fragment) + Oblig/O02.v (the inventory of the
translator's guard sites, the recognisers of builtins / FFI packages / map
keys, the error reporters) + Oblig/O01.v (the translation functions the model
mirrors).
Correspondence: the construct catalogue (each item rejected or computing what
Go computes); subset programs with out-of-subset statements injected at random
positions; MiniGo programs with constructs the model rejects (goose rejects
exactly the functions the model rejects, and agrees syntactically on the rest)."""
import vlib
from checks import semlib


def run(ctx):
    failures = vlib.proof_stage(ctx, "theories/Props/C02.v", ["theories/Oblig/O02.v", "theories/Oblig/O01.v"])
    quick = ctx.tier == "quick"
    kfs = vlib.known_findings("C02")
    found = False
    cmd, bad, st, table = semlib.catalogue(ctx, kfs)
    ctx.cov["catalogue"] = {"items": st["cases"], "rejected": st["rejected"], "translated": st["accepted"], "calls_compared": st["calls"], "verdicts": table}
    for c in bad[:3]:
        vlib.violation(ctx, "catalogue-" + c["pkg"], dict(semlib.replay_of(cmd, c), kind="a construct of the catalogue is neither rejected nor translated faithfully"), True)
        found = True
    plan = [("inject", 30), ("minigo-neg", 15), ("minigos", 10)] if quick else [("inject", 600), ("minigo-neg", 400), ("minigo", 200), ("minigos", 300), ("minigoc", 200)]
    evals = calls = rej = 0
    samples = []
    for i, (profile, n) in enumerate(plan):
        cmdp, cases, stp = semlib.run_semdrv(ctx, profile, ctx.seed * 1000 + 17 + i, n)
        evals += stp["cases"]
        calls += stp["calls"]
        rej += stp.get("rejected_calls", 0)
        ctx.cov["model_functions_compared_" + profile.replace("-", "_")] = stp.get("model_funcs", 0)
        if len(samples) < 2 and cases:
            samples.append(cases[0].get("go", "")[:1200])
        for c in [c for c in cases if c["mismatches"]][:2]:
            vlib.violation(ctx, "generated-" + profile + "-" + c["pkg"], dict(semlib.replay_of(cmdp, c), kind="a generated program with out-of-subset constructs: neither rejected nor faithful, or goose and the translator model disagree"), True)
            found = True
    ctx.cov.update({
        "evaluations": evals, "distinct_nontrivial": calls,
        "rule": "inject: a generated subset package (4 independent functions) with up to two out-of-subset statements per function inserted at random positions "
                "(if-with-initialiser hiding a visible variable, *= <<= /= %= &^=, &^, unary minus, switch, multi-define, multi-var, swap, multi-element slice literal, arrays, "
                "++ on a slice element, int, defer, closures writing a var, break not in tail position, labelled continue, range over an integer, nested-if returns, early "
                "return with else, return inside a loop); a function is either absent from goose's output with an error reported, or each of its 4 calls agrees with Go. "
                "minigo-neg: MiniGo functions half of which contain a statement goose must reject; goose's accept/reject decision and its output are compared with the "
                "translator model function by function. distinct_nontrivial = calls of accepted functions compared with Go",
        "samples": samples, "calls_of_rejected_functions": rej,
    })
    ctx.assumptions += ["the reference semantics Lang/GlSem.v stands for Perennial's GooseLang", "Go's behaviour is the behaviour of the installed Go toolchain"]
    if found:
        return
    if failures:
        for s in range(1, 4):
            cmdp, cases, stp = semlib.run_semdrv(ctx, "inject", ctx.seed * 7919 + s, 300)
            ctx.cov["evaluations"] += stp["cases"]
            badp = [c for c in cases if c["mismatches"]]
            if badp:
                vlib.violation(ctx, "generated-search-" + badp[0]["pkg"], dict(semlib.replay_of(cmdp, badp[0]), kind="neither rejected nor faithful"), True)
                return
        vlib.violation(ctx, "obligation", {"kind": "no longer checks", "no_longer_checks": [f[0] for f in failures], "messages": [f[1] for f in failures]}, False)
