"""C16 — remaining machine primitives.
Obligations: Props/C16.v (decimal rendering theorems; MapClear; Assume/Assert;
WaitTimeout transition system: returns locked, lock stays with the caller, no
fatal unlock, no deadlock) + Oblig/O16.v (bodies of the five functions and of
the pinned delegate primitive.WaitTimeout).
Correspondence: UInt64ToString vs the extracted model on boundaries and random
values; MapClear on three key types incl. NaN keys; Assume/Assert; WaitTimeout
scenarios (timeout, early signal/broadcast, stale helper + late signal) with
the lock probed by TryLock and elapsed times measured."""
import re
import vlib

SLACK_US = 150000      # scheduling slack accepted on top of the timeout (sandbox has ~1.4 real CPUs)


def evaluate(lines):
    bad = []
    for l in lines:
        f = l.split()
        if f[0] == "M":
            # M <keytype> <entries> <nan> -> <len0> <len after inserts> <lookup ok>
            if not (f[5] == "0" and f[6] == "3" and f[7] == "true"):
                bad.append("MapClear: " + l)
        elif f[0] == "A":
            want = "R" if f[2] == "true" else "P"
            if f[4] != want:
                bad.append("Assume/Assert: " + l)
        elif f[0] == "P":
            if "wrong=0" not in f:
                bad.append("UInt64ToString called from 8 goroutines at once: " + l)
        elif f[0] == "W":
            if "HUNG" in l or "held=true" not in l or "relock=ok" not in l:
                bad.append("WaitTimeout (lock not held / not released / hung): " + l + (" [gross]" if "HUNG" in l or "held=false" in l else ""))
                continue
            el = int(re.search(r"elapsed_us=(\d+)", l).group(1))
            t_us = int(f[2]) * 1000
            if f[1] in ("timeout", "stale-helper", "two-waiters", "two-timeouts"):
                if not (t_us - 2000 <= el <= t_us + SLACK_US):
                    bad.append("WaitTimeout (returned outside [timeout, timeout+slack]): " + l + (" [gross]" if el > t_us + 1000000 or el < t_us - 2000 else ""))
            else:  # signalled after 5 ms (or by a signaller already contending for the lock), timeout much later: must return promptly
                if not (el <= 5000 + SLACK_US):
                    bad.append("WaitTimeout (did not return promptly after the signal): " + l + (" [gross]" if el > 1000000 else ""))
    return bad


def run_once(bins, bdir, seed, n):
    rc, out, err = vlib.sh([bins["primsdrv"], "-seed", str(seed), "-n", str(n)], timeout=600)
    if rc != 0:
        return None, ["primsdrv crashed: " + err[-1500:]], {}
    lines = out.splitlines()
    rc2, out2, err2 = vlib.sh(["%s/primsmain" % bdir], input=out, timeout=600)
    mism = [l for l in out2.splitlines() if l.startswith("MISMATCH")]
    done = [l for l in out2.splitlines() if l.startswith("DONE")]
    st = dict(kv.split("=", 1) for kv in done[0].split()[1:]) if done else {}
    bad = ["UInt64ToString: " + m for m in mism] + evaluate([l for l in lines if l[0] in "MAWP"])
    return lines, bad, st


def run(ctx):
    failures = vlib.proof_stage(ctx, "theories/Props/C16.v", ["theories/Oblig/O16.v"])
    bins = vlib.go_build(["primsdrv"])
    bdir = vlib.build_models()
    quick = ctx.tier == "quick"
    lines, bad, st = run_once(bins, bdir, ctx.seed, 3000 if quick else 200000)
    # wall-clock bounds: a machine that is busy can delay one wake-up by more than the slack; a
    # scenario counts only if it misses its bound in three runs out of three
    def timing(b):
        # more than a second late (or hung, or the lock not held) is not scheduling noise
        return b.startswith("WaitTimeout (") and not b.endswith("[gross]")
    def key(b):
        f = b.split(": ", 1)[1].split()
        return (f[1].split("-")[0], f[2])   # contending-signal / contending-broadcast are one scenario family
    retried = 0
    while bad and any(timing(b) for b in bad) and retried < 2:
        retried += 1
        l2, bad2, st2 = run_once(bins, bdir, ctx.seed, 200)
        again = {key(b) for b in bad2 if timing(b)}
        bad = [b for b in bad if not timing(b) or key(b) in again]
    ctx.cov["timing_scenarios_rerun"] = retried
    other = [l for l in (lines or []) if l[0] in "MAWP"]
    ctx.cov.update({
        "evaluations": int(st.get("cases", 0)) + len(other),
        "distinct_nontrivial": int(st.get("cases", 0)) + len(other) - 2,
        "rule": "UInt64ToString: 0, 10^k-1, 10^k, 10^k+1 (k<=19), 2^63±1, 2^64-1, random full-width and random shifted values, compared with the extracted model "
                "(non-trivial = every value except 0 and 1). MapClear: maps of 0..1000 entries with uint64, string and float64 keys (0-2 NaN keys), cleared then re-used. "
                "Assume/Assert: both arguments. WaitTimeout: timeouts 0,1,10,50 ms unsignalled; Signal/Broadcast after 5 ms with timeouts 200/1000 ms; a signaller already spinning on the lock when the wait begins (40 rounds each of Signal and Broadcast, timeout 1500 ms); a second goroutine already queued on the same cond (plain Wait, or WaitTimeout with a much longer timeout) with timeouts 0,10,50 ms; "
                "a timed-out wait followed by a late broadcast and a second wait (stale helper); lock probed with TryLock, then re-lockability within 500 ms.",
        "samples": (lines or [])[:3] + other[:2] + other[-4:],
        "tostring_cases": int(st.get("cases", 0)), "tostring_length_distribution": st.get("lengths", ""),
        "other_cases": len(other), "failures": len(bad),
    })
    ctx.assumptions += ["WaitTimeout timing bounds are measured with a scheduling slack of %d ms, not proved (runtime behaviour)" % (SLACK_US // 1000)]
    if bad:
        vlib.violation(ctx, "prims", {"kind": "a primitive violated its contract on a concrete input", "cases": bad[:12],
                                      "cmd": "%s -seed %d" % (bins["primsdrv"], ctx.seed)}, True)
    elif failures:
        for s in range(1, 4):
            l2, bad2, st2 = run_once(bins, bdir, ctx.seed * 31 + s, 100000)
            if bad2:
                vlib.violation(ctx, "prims", {"kind": "a primitive violated its contract on a concrete input", "cases": bad2[:12],
                                              "cmd": "%s -seed %d" % (bins["primsdrv"], ctx.seed * 31 + s)}, True)
                return
        vlib.violation(ctx, "obligation", {"kind": "no longer checks", "no_longer_checks": [f[0] for f in failures],
                                           "messages": [f[1] for f in failures]}, False)
