"""C06 — translation is deterministic and packages do not influence each other.
Obligations: Props/C06.v (for every interleaving of the per-package workers'
stores the joined result is the sequential map; a package's slots depend on its
own translation only) + Oblig/O06.v (TranslatePackages and what its goroutine
assigns; every range statement, go statement and package-level variable of the
translator; file order; import printing; the command's loop).
Correspondence: a scratch module of generated packages (declarations shuffled
over files with several pending forward references, some packages with
conversion errors) translated repeatedly under GOMAXPROCS 1/2/4/16, package by
package and in random subsets; all files and error reports compared byte for
byte; a -race build of cmd/goose run over the whole module."""
import os
import vlib


def run_det(ctx, seed, n, runs, subsets, race_runs):
    bins = vlib.go_build(["detdrv"])
    goose = vlib.build_goose()
    race = os.path.join(vlib.BUILD, "bin", "goose-race")
    rc, o, e = vlib.sh(["go", "build", "-race", "-o", race, "./cmd/goose"], cwd=vlib.REPO, timeout=900)
    if rc != 0:
        raise vlib.BuildError("go build -race ./cmd/goose failed:\n" + o + e)
    cmd = "%s -seed %d -n %d -runs %d -subsets %d -race-runs %d -goose %s -goose-race %s -repo %s" % (
        bins["detdrv"], seed, n, runs, subsets, race_runs, goose, race, vlib.REPO)
    mism, st = vlib.pipeline(cmd, timeout=6000)
    return cmd, mism, st


def run(ctx):
    failures = vlib.proof_stage(ctx, "theories/Props/C06.v", ["theories/Oblig/O06.v"])
    quick = ctx.tier == "quick"
    rounds = [(12, 8, 11, 3)] * (2 if quick else 40)
    tot = {"packages": 0, "runs": 0, "subsets": 0, "race_runs": 0}
    for i, (n, runs, subs, rr) in enumerate(rounds):
        cmd, mism, st = run_det(ctx, ctx.seed * 100 + i, n, runs, subs, rr)
        for k in tot:
            tot[k] += st[k]
        if mism:
            import binascii
            def dec(m):
                d = dict(kv.split("=", 1) for kv in m.split()[1:] if "=" in kv)
                for k in ("report", "record", "stderr"):
                    if k in d:
                        try:
                            d[k] = binascii.unhexlify(d[k]).decode("utf8", "replace")[:1500]
                        except Exception:
                            pass
                return d
            vlib.violation(ctx, "determinism", {"kind": "translating the same sources gave different bytes / error reports, depended on co-translated packages, or raced",
                                                "driver_cmd": cmd, "mismatches": [dec(m) for m in mism[:6]]}, True)
            break
    ctx.cov.update({
        "evaluations": tot["runs"] + tot["subsets"] + tot["race_runs"], "distinct_nontrivial": tot["packages"],
        "rule": "a round is one scratch module of 12 generated packages (6 functions each, constants, structs, methods; declarations randomly permuted and split over "
                "1-3 files so that single declarations have several not-yet-emitted dependencies; every third package contains out-of-subset statements and fails with "
                "conversion errors); the module is translated 8 times under GOMAXPROCS 1/2/4/16, then 11 subsets (single packages, among them each FFI package, two packages of the same name with different FFIs, packages with struct-valued and interface-typed call arguments and random selections) are translated on "
                "their own; every written file must be byte-identical to the reference run's and every error report must occur in the reference run's stderr; a race-detector "
                "build of cmd/goose translates the module 3 times. evaluations = translations performed",
        "samples": [], "race_detector_runs": tot["race_runs"],
    })
    ctx.assumptions += ["the Go race detector and the Go scheduler: a race or an order dependence that never manifests in the runs is left to the obligations (inventory of ranges, go statements, goroutine writes and package-level variables)"]
    if ctx.violations:
        return
    if failures:
        # an inventory or body changed: look harder for a manifestation
        for i in range(12):
            cmd, mism, st = run_det(ctx, ctx.seed * 7919 + i, 14, 10, 10, 4)
            ctx.cov["evaluations"] += st["runs"] + st["subsets"] + st["race_runs"]
            if mism:
                vlib.violation(ctx, "determinism", {"kind": "translating the same sources gave different results or raced", "driver_cmd": cmd, "mismatches": mism[:6]}, True)
                return
        vlib.violation(ctx, "obligation", {"kind": "no longer checks", "no_longer_checks": [f[0] for f in failures], "messages": [f[1] for f in failures]}, False)
