"""C05 — output is well-formed and source text cannot alter its structure.
Obligations: Props/C05.v (for every comment text, what AddComment emits is
exactly one Coq comment — with Coq's rule that strings are lexed inside
comments; refuted without the quote repair; string literals are read back) +
Oblig/O05.v (every printer method of internal/coq/coq.go, basicLiteral, the
optional emissions) + Oblig/O01.v.
Correspondence: generated packages with adversarial comment texts on
statements, functions, structs and constants, logging calls and string
literals; the definitions Coq sees (compared as terms by the kernel) equal those
of the same package printed without comments and logging calls, under every
combination of -typecheck, -source-comments, -skip-interfaces, and every variant
compiles; MiniGo programs: the term Coq parses from the emitted text equals the
translator model's (operator nesting, blocks, conditionals, loops, the extent
of bindings made in nested blocks)."""
import vlib
from checks import semlib


def run(ctx):
    failures = vlib.proof_stage(ctx, "theories/Props/C05.v", ["theories/Oblig/O05.v"])
    quick = ctx.tier == "quick"
    found = False
    plan = [("lexical", 24), ("minigo", 10), ("minigol", 16)] if quick else [("lexical", 600), ("minigo", 300), ("minigol", 300), ("default", 200)]
    evals = calls = 0
    samples = []
    for i, (profile, n) in enumerate(plan):
        cmdp, cases, stp = semlib.run_semdrv(ctx, profile, ctx.seed * 1000 + 51 + i, n)
        evals += stp["cases"]
        calls += stp["calls"]
        if stp.get("model_funcs"):
            ctx.cov["functions_compared_with_the_translator_model"] = stp["model_funcs"]
        if len(samples) < 1 and cases:
            samples.append(cases[0].get("go", "")[:1800])
        for c in [c for c in cases if c["mismatches"]][:2]:
            vlib.violation(ctx, "generated-" + profile + "-" + c["pkg"], dict(semlib.replay_of(cmdp, c), kind="the emitted file does not parse, or the definitions Coq sees depend on comment/log/flag text, or the parsed nesting differs"), True)
            found = True
    # string literals with quotes, newlines, escapes, raw strings: rejected, or read back by Coq as the same bytes
    ctx.cov["string_literal_items"] = {}
    for sel in ("string_", "field_value_"):   # string literals; operators as struct field values (::= binds tighter than comparisons)
        cmdc, casesc, stc = semlib.run_semdrv(ctx, "catalogue", ctx.seed, 0, extra="-only " + sel)
        evals += stc["cases"]
        ctx.cov["string_literal_items"].update({c["pkg"]: (c["verdict"] or "mismatch") for c in casesc})
        for c in [c for c in casesc if c["mismatches"]][:2]:
            vlib.violation(ctx, "catalogue-" + c["pkg"], dict(semlib.replay_of(cmdc, c), kind="a string literal is neither rejected nor read back by Coq as the bytes Go has, or the nesting Coq reads differs from Go's"), True)
            found = True
    ctx.cov.update({
        "evaluations": evals, "distinct_nontrivial": evals,
        "rule": "lexical: a generated package whose statements, functions, structs and constants carry comments drawn from 25 adversarial texts (comment delimiters alone, "
                "overlapping as (*) and *)(*, around a fake Definition, nested, unmatched and matched double quotes, newlines, backslashes, tabs, non-ASCII, percent verbs), "
                "logging calls with those texts, and string literals from 15 texts (delimiters, backslash, tab, non-ASCII, Coq keywords); goose is run on it plainly and with "
                "-typecheck, -source-comments, -skip-interfaces and all three, and on the same package printed without comments and logging calls; every output must compile and "
                "every Definition of the plain output must be equal as a Coq term (Goal a = b. reflexivity.) to the one of each other output; calls also compared with Go. "
                "minigo / minigol: syntactic equality of the parsed output with the translator model (operator nesting; blocks, loops and which statements a nested block's bindings extend over)",
        "samples": samples, "calls_compared": calls,
    })
    ctx.assumptions += ["Coq's lexer treats comments and strings as Tr/Lex.v says (checked indirectly: coqc parses every generated output)"]
    if found:
        return
    if failures:
        for s in range(1, 4):
            cmdp, cases, stp = semlib.run_semdrv(ctx, "lexical", ctx.seed * 7919 + s, 200)
            ctx.cov["evaluations"] += stp["cases"]
            badp = [c for c in cases if c["mismatches"]]
            if badp:
                vlib.violation(ctx, "generated-search-" + badp[0]["pkg"], dict(semlib.replay_of(cmdp, badp[0]), kind="the emitted file is malformed or depends on comment/flag text"), True)
                return
        vlib.violation(ctx, "obligation", {"kind": "no longer checks", "no_longer_checks": [f[0] for f in failures], "messages": [f[1] for f in failures]}, False)
