"""C10 — concurrent disk operations are linearizable per block.
Obligations: Props/C10.v (single-lock linearizability theorem; MemDisk instance
with byte-wise block copies; complete+sound history checker; unlocked
counter-example) + Oblig/O10.v (lock shape of the regenerated skeletons).
Correspondence: histories recorded from the real MemDisk/FileDisk under
concurrency, judged by the extracted verified checker; race-detector runs."""
import os
import vlib


def stress(bins, bdir, seed, n, threads, ops, workload):
    cmd = "%s -sync -seed %d -n %d -threads %d -ops %d -workload %s" % (bins["stressdrv"], seed, n, threads, ops, workload)
    mism, st = vlib.pipeline(cmd + " | LIN_TIMEOUT=3 LIN_MAXEVENTS=64 %s/linmain" % bdir, timeout=3000)
    return cmd, mism, st


def race_run(race_bin, seed, n, threads, ops, workload):
    cmd = [race_bin, "-seed", str(seed), "-n", str(n), "-threads", str(threads), "-ops", str(ops), "-workload", workload, "-quiet"]
    rc, out, err = vlib.sh(cmd, timeout=1800, env=dict(vlib.GOENV, GORACE="halt_on_error=0"))
    races = err.count("WARNING: DATA RACE")
    return " ".join(cmd), races, err


def run(ctx):
    failures = vlib.proof_stage(ctx, "theories/Props/C10.v", ["theories/Oblig/O10.v"])
    bins = vlib.go_build(["stressdrv"])
    race_bin = vlib.go_build_race("stressdrv")
    bdir = vlib.build_models()
    quick = ctx.tier == "quick"
    # small histories: judged by the exhaustive verified checker; long ones: only the direct torn-block oracle
    plans = [("mem", 300 if quick else 6000, 4, 6),
             # blocks made of two halves, so that concurrently written blocks share prefixes and suffixes
             ("mem-halves", 600 if quick else 12000, 4, 6), ("mem", 100 if quick else 2000, 3, 8), ("mem", 60 if quick else 1500, 6, 40),
             ("file-disjoint", 100 if quick else 2000, 4, 6), ("file-disjoint", 30 if quick else 600, 6, 40),
             ("file-handoff", 60 if quick else 1000, 4, 6),
             # one writer, several readers on shared addresses; reads overlapping a write of their address are left out by the recorder
             ("file-shared", 400 if quick else 8000, 4, 8),
             # two writers of one address (each its own value) and readers, then writes and reads at rest
             ("file-writers", 12000 if quick else 120000, 3, 6)]
    tot = {"histories": 0, "ops": 0, "overlapping_invocations": 0, "histories_with_overlap": 0, "torn_blocks": 0,
           "inconclusive": 0, "lin_search_skipped": 0}
    bad = []
    for i, (wl, n, th, ops) in enumerate(plans):
        cmd, mism, st = stress(bins, bdir, ctx.seed + i, n, th, ops, wl)
        for k in tot:
            tot[k] += st[k]
        bad += [(cmd, m) for m in mism]
    races = []
    for (wl, n, th, ops) in [("mem", 40 if quick else 400, 8, 40), ("file-disjoint", 10 if quick else 100, 6, 20)]:
        cmd, k, err = race_run(race_bin, ctx.seed, n, th, ops, wl)
        if k:
            races.append({"cmd": cmd, "reports": k, "first_report": err[err.find("WARNING: DATA RACE"):][:3000]})
    sample = vlib.history_lines("%s -seed %d -n 2 -threads 3 -ops 4" % (bins["stressdrv"], ctx.seed), 0)
    ctx.cov.update({
        "evaluations": tot["histories"],
        "distinct_nontrivial": tot["histories_with_overlap"],
        "rule": "a case is one recorded concurrent history (2..6 goroutines, up to 30 calls each, on the real MemDisk with shared addresses, or the real FileDisk "
                "with per-goroutine addresses / client-side hand-off / one writer (file-shared) or two writers of one address followed by writes and reads at rest (file-writers) and racing readers, where only reads that do not overlap a write of their address are judged), judged by the extracted checker proved sound and complete; non-trivial = at least two "
                "calls of the history overlapped in real time (measured from the recorded timestamps); the -race runs are counted separately",
        "samples": [sample],
        "operations": tot["ops"], "overlapping_invocations": tot["overlapping_invocations"], "torn_blocks_seen": tot["torn_blocks"],
        "lin_search_timed_out": tot["inconclusive"], "histories_too_long_for_lin_search_(torn-block oracle only)": tot["lin_search_skipped"],
        "race_detector_runs": 2, "race_reports": len(races), "not_linearizable": len(bad),
    })
    ctx.assumptions += ["FileDisk: atomicity of one 4096-byte pread64/pwrite64 is the kernel's; a read is judged only when it overlaps no write of its address; whole-block pwrites of one file are serialised by the kernel's inode lock (file-shared / file-writers leave the others out of the history)",
                        "Go memory model / race detector are trusted for 'no data races'"]
    def report_hist(cmd, m):
        idx = int(m.split("hist=")[1].split()[0])
        # recorded histories are schedule dependent: keep the history itself as the replay
        vlib.violation(ctx, "history", {"kind": "recorded history is not linearizable (checker is complete: Conc/LinCheck.v)", "verdict": m,
                                        "recorder_cmd": cmd, "note": "the history below was recorded in this run; re-running the recorder gives other schedules",
                                        "history": vlib.history_lines(cmd, idx)[:400]}, True)
    if bad:
        # the offending history must be re-captured in the same run: rerun piping through tee
        cmd, m = bad[0]
        path = os.path.join(ctx.scratch, "hist.txt")
        vlib.sh(["bash", "-c", "%s > %s" % (cmd, path)])
        rc, out, err = vlib.sh(["bash", "-c", "%s/linmain < %s" % (bdir, path)])
        ms = [l for l in out.splitlines() if l.startswith("MISMATCH")]
        if ms:
            idx = int(ms[0].split("hist=")[1].split()[0])
            lines = vlib.history_lines("cat %s" % path, idx)
            vlib.violation(ctx, "history", {"kind": "recorded history is not linearizable (checker is sound and complete: Conc/LinCheck.v)",
                                            "verdict": ms[0], "recorder_cmd": cmd, "history": lines[:600]}, True)
        else:
            vlib.violation(ctx, "history", {"kind": "a recorded history was not linearizable (schedule dependent; not reproduced on re-run)",
                                            "verdict": m, "recorder_cmd": cmd}, True)
    if races:
        vlib.violation(ctx, "race", {"kind": "data race inside the disk library reported by the race detector", "reports": races}, True)
    if failures and not bad and not races:
        for s in range(1, 4):
            for wl in ("mem", "file-disjoint"):
                cmd, mism, st = stress(bins, bdir, ctx.seed * 97 + s, 800, 8, 40, wl)
                ctx.cov["evaluations"] += st["histories"]
                if mism:
                    bad.append((cmd, mism[0]))
            cmdr, k, err = race_run(race_bin, ctx.seed + s, 200, 8, 60, "mem")
            if bad or k:
                break
        if bad:
            vlib.violation(ctx, "history", {"kind": "recorded history is not linearizable", "verdict": bad[0][1], "recorder_cmd": bad[0][0]}, True)
        elif k:
            vlib.violation(ctx, "race", {"kind": "data race", "cmd": cmdr, "first_report": err[err.find("WARNING: DATA RACE"):][:3000]}, True)
        else:
            vlib.violation(ctx, "obligation", {"kind": "no longer checks", "no_longer_checks": [f[0] for f in failures],
                                               "messages": [f[1] for f in failures]}, False)
