"""C14 — filesystem operations are linearizable under concurrency.
Obligations: Props/C14.v (MemFs = single-lock object => linearizable for all
clients and schedules; transfer to the reference model; two-operation
corollaries; verified checker) + Oblig/O14.v (every exported MemFs method is
Lock(); defer Unlock(); body — helpers lock-free — method set — DirFs methods
are single system calls and stateless).
Correspondence: concurrent histories recorded from the real MemFs and DirFs,
judged by the extracted sound-and-complete checker; race-detector runs."""
import os
import vlib


class Crash(Exception):
    pass


def stress(bins, bdir, seed, n, threads, ops, impl):
    cmd = "%s -seed %d -n %d -threads %d -ops %d -impl %s" % (bins["fsstress"], seed, n, threads, ops, impl)
    # the recorder itself may die of a Go runtime fatal error (e.g. "concurrent map writes"):
    # that is a failing execution of the library, not a harness problem
    rc, out, err = vlib.sh(["bash", "-c", cmd + " > /dev/null"], timeout=1800)
    if rc != 0 and "fatal error" in err:
        raise Crash(cmd + "\n" + err[err.find("fatal error"):][:3000])
    mism, st = vlib.pipeline(cmd + " | LIN_TIMEOUT=3 %s/fslinmain" % bdir, timeout=3000)
    return cmd, mism, st


def race_run(race_bin, seed, n, threads, ops, impl):
    cmd = [race_bin, "-seed", str(seed), "-n", str(n), "-threads", str(threads), "-ops", str(ops), "-impl", impl, "-quiet"]
    rc, out, err = vlib.sh(cmd, timeout=1800, env=dict(vlib.GOENV, GORACE="halt_on_error=0"))
    fatal = "fatal error: concurrent map" in err
    return " ".join(cmd), err.count("WARNING: DATA RACE") + (1 if fatal else 0), err


def capture_bad(ctx, bdir, cmd):
    path = os.path.join(ctx.scratch, "hist.txt")
    for attempt in range(5):
        vlib.sh(["bash", "-c", "%s > %s" % (cmd, path)])
        rc, out, err = vlib.sh(["bash", "-c", "LIN_TIMEOUT=3 %s/fslinmain < %s" % (bdir, path)])
        ms = [l for l in out.splitlines() if l.startswith("MISMATCH")]
        if ms:
            idx = int(ms[0].split("hist=")[1].split()[0])
            return ms[0], vlib.history_lines("cat %s" % path, idx)
    return None, []


def run(ctx):
    try:
        run_(ctx)
    except Crash as e:
        vlib.violation(ctx, "crash", {"kind": "the library crashed with a Go runtime fatal error under concurrent use (unsynchronised access)",
                                      "recorder_cmd_and_report": str(e)}, True)


def run_(ctx):
    failures = vlib.proof_stage(ctx, "theories/Props/C14.v", ["theories/Oblig/O14.v"])
    bins = vlib.go_build(["fsstress"])
    race_bin = vlib.go_build_race("fsstress")
    bdir = vlib.build_models()
    quick = ctx.tier == "quick"
    plans = [("mem", 300 if quick else 6000, 4, 5), ("mem", 100 if quick else 2000, 3, 7), ("dir", 150 if quick else 3000, 4, 5)]
    tot = {"histories": 0, "ops": 0, "overlapping_invocations": 0, "histories_with_overlap": 0, "panics": 0, "inconclusive": 0}
    bad = []
    for i, (impl, n, th, ops) in enumerate(plans):
        cmd, mism, st = stress(bins, bdir, ctx.seed + i, n, th, ops, impl)
        for k in tot:
            tot[k] += st[k]
        bad += [(cmd, m) for m in mism]
    # one descriptor shared by all goroutines, on a file that never changes: every linearization
    # gives every ReadAt the same answer, so each result is compared with it directly
    shared_bad = []
    shared_reads = 0
    for impl in ("dir", "mem"):
        cmd = "%s -sharedread %d -threads 8 -impl %s -seed %d" % (bins["fsstress"], 4000 if quick else 60000, impl, ctx.seed)
        rc, out, err = vlib.sh(["bash", "-c", cmd], timeout=1800)
        if rc != 0 and "fatal error" in err:
            raise Crash(cmd + "\n" + err[err.find("fatal error"):][:3000])
        for l in out.splitlines():
            if l.startswith("SHAREDREAD"):
                kv = dict(x.split("=") for x in l.split()[1:])
                shared_reads += int(kv["reads"])
                if int(kv["wrong"]):
                    shared_bad.append({"cmd": cmd, "summary": l, "first_wrong_results": [x[:700] for x in out.splitlines() if x.startswith("WRONG")]})
        if rc != 0 and not shared_bad:
            raise vlib.BuildError("fsstress -sharedread failed: %s\n%s" % (cmd, err[-1500:]))
    races = []
    for (impl, n, th, ops) in [("mem", 60 if quick else 600, 8, 12)]:
        cmd, k, err = race_run(race_bin, ctx.seed, n, th, ops, impl)
        if k:
            i0 = min([i for i in (err.find("WARNING: DATA RACE"), err.find("fatal error")) if i >= 0])
            races.append({"cmd": cmd, "reports": k, "first_report": err[i0:][:3000]})
    ctx.cov.update({
        "evaluations": tot["histories"], "distinct_nontrivial": tot["histories_with_overlap"],
        "rule": "a case is one recorded concurrent history: sequential set-up (directories, a base file, one shared file with an append descriptor and a read descriptor "
                "per client), then 2..4 goroutines racing Create / AtomicCreate / Link+Delete of private names onto shared names / Append / ReadAt / List; every operation "
                "is valid in every linearization order; judged against the reference model by the extracted checker (descriptor numbers erased for DirFs); "
                "non-trivial = two calls overlapped in real time",
        "samples": [vlib.history_lines("%s -seed %d -n 1 -threads 3 -ops 3" % (bins["fsstress"], ctx.seed), 0)[:40]],
        "operations": tot["ops"], "overlapping_invocations": tot["overlapping_invocations"], "calls_that_panicked": tot["panics"],
        "lin_search_timed_out": tot["inconclusive"], "shared_descriptor_reads": shared_reads, "race_detector_runs": 1, "race_reports": len(races), "not_linearizable": len(bad),
    })
    ctx.assumptions += ["DirFs: atomicity of each system call is the kernel's; List is documented non-atomic and AtomicCreate is atomic at its rename (C13)",
                        "little real parallelism in this sandbox: the static lock-shape obligations and the race detector carry most of the detection"]
    if bad:
        verdict, lines = capture_bad(ctx, bdir, bad[0][0])
        vlib.violation(ctx, "history", {"kind": "recorded history is not linearizable w.r.t. the reference model (checker sound and complete)",
                                        "verdict": verdict or bad[0][1], "recorder_cmd": bad[0][0], "history": lines[:400]}, True)
    if shared_bad:
        vlib.violation(ctx, "shared-descriptor", {"kind": "ReadAt through a descriptor shared by several goroutines returned bytes other than those of [offset, offset+length) "
                                                           "of a file that never changes: no linearization order explains the result",
                                                   "file": "d0/fixed, 6000 bytes, byte i = (i*7 + i/251) % 251", "runs": shared_bad}, True)
    if races:
        vlib.violation(ctx, "race", {"kind": "data race inside the filesystem library", "reports": races}, True)
    if failures and not bad and not races and not shared_bad:
        found = None
        for s in range(1, 4):
            for impl in ("mem", "dir"):
                cmd, mism, st = stress(bins, bdir, ctx.seed * 97 + s, 1500, 4, 6, impl)
                ctx.cov["evaluations"] += st["histories"]
                if mism:
                    found = ("history", cmd, mism[0])
                    break
            if found:
                break
            cmdr, k, err = race_run(race_bin, ctx.seed + s, 300, 8, 20, "mem")
            if k:
                found = ("race", cmdr, err[max(0, err.find("WARNING: DATA RACE")):][:3000])
                break
        if found and found[0] == "history":
            verdict, lines = capture_bad(ctx, bdir, found[1])
            vlib.violation(ctx, "history", {"kind": "recorded history is not linearizable", "verdict": verdict or found[2],
                                            "recorder_cmd": found[1], "history": lines[:400]}, True)
        elif found:
            vlib.violation(ctx, "race", {"kind": "data race", "cmd": found[1], "first_report": found[2]}, True)
        else:
            vlib.violation(ctx, "obligation", {"kind": "no longer checks", "no_longer_checks": [f[0] for f in failures],
                                               "messages": [f[1] for f in failures]}, False)
