#!/usr/bin/env python3
"""Writes MANIFEST.json from the table below (kept in one place so that the
manifest is always valid)."""
import json, os
V = os.path.dirname(os.path.dirname(os.path.abspath(__file__)))
ALL = ["C%02d" % i for i in range(1, 19)]

CHECKS = {
 "C09": dict(
   technique="Coq refinement proofs (MemDisk and FileDisk models refine a register-array spec, by simulation over all histories) + per-run vm_compute obligations on regenerated source bodies + extracted-model differential run with the spec as oracle",
   text="Theorems for every block size, disk size and history: a read returns the last accepted write (zeros otherwise), writes touch one register, Size is constant, refusals are exactly out-of-range/wrong-size and change nothing; the MemDisk model (list of blocks, Go copy semantics) and the FileDisk model (flat byte file, pread/pwrite at a*bs with the uint64 wrap written in) both refine that spec, hence agree. Tied to the code by regenerated function bodies/consts/types of machine/disk and machine/async_disk (kernel-checked Examples) and by running generated histories with client-side buffer aliasing on MemDisk, FileDisk, the async_disk aliases and the global wrappers against the extracted models.",
   note="Trusts Coq kernel, extraction, srcextract, the OCaml/Go drivers, the kernel's pread/pwrite on tmpfs. Aliasing ('never retains caller memory') is observable only on the Go side and is carried by the differential run, not by a theorem. ReadTo with a non-block-sized buffer is outside the property's quantifier (MemDisk copies a prefix, FileDisk panics; both mirrored).",
   ref="DESIGN.md §5 C09"),
 "C10": dict(
   technique="Coq proof (generic single-lock linearizability theorem by invariant over all interleavings; MemDisk instance with byte-granular copies; refinement transfer to the register spec) + verified sound-and-complete history checker + per-run lock-shape obligations on regenerated skeletons + recorded concurrent histories + race detector",
   text="Theorem (no bound on threads, operations or steps): any object whose operations run micro-steps between acquire/release of one mutex or RW-lock (readers pure; lock-free operations state-independent) is linearizable w.r.t. its atomic sequential object; instantiated for MemDisk with one micro-step per byte (torn blocks expressible) and transferred to the register-array spec of C09; a companion theorem shows a torn, non-linearizable read IS reachable without the lock. Per run, kernel-evaluated predicates on the skeletons regenerated from mem.go/file.go establish the assumed lock modes and coverage (RLock/Lock + deferred unlock bracket every element access, header immutable, method set, FileDisk stateless and positional). Histories recorded from the real MemDisk/FileDisk are judged by an extracted checker proved sound and complete; -race runs look for data races.",
   note="partial for FileDisk: atomicity of one pread64/pwrite64 is the kernel's (only model-level commutation/real-time theorems); the sandbox offers little real parallelism (measured ~1.4 CPUs), so recorded histories overlap rarely and the static obligations + race detector carry most of the detection; Go memory model and race detector trusted. Linearizability is stated in its linearization-point form (Conc/Lin.v).",
   ref="DESIGN.md §5 C10"),
 "C11": dict(
   technique="Coq proofs (open/ftruncate model for every prior image length; reopen refinement over all histories; verified checker `surfaces` for a fault semantics of regenerated statement skeletons) + per-run vm_compute obligations + reopen differential run + strace fault enumeration",
   text="Theorems: NewFileDisk on an image of any prior length (or none) yields exactly n blocks with retained bytes preserved and new bytes zero; after any history, Close and reopen with any size, every later history behaves as the register array holding the last values written (zeros beyond the old size); and for ANY method body accepted by the proved checker `surfaces`, every path on which a system call fails ends in a panic or returns the error (all inputs, all fault sequences, loops unbounded). Per run the checker is evaluated by the kernel on the skeletons regenerated from machine/disk/file.go, the bodies the open model mirrors are compared, reopen histories run on the real FileDisk against the extracted model, and each (scenario, failing syscall, errno, occurrence) is executed under strace injection plus closed-descriptor and /dev/full cases.",
   note="Trusts kernel/tmpfs, strace injection, srcextract's skeleton extraction; durability after power loss rests on the fsync contract (not producible here); short transfer counts without error are outside the property's fault catalogue. Model reflects /repo after the fix: commit for the byte/blocks size comparison in NewFileDisk.",
   ref="DESIGN.md §5 C11"),
 "C12": dict(
   technique="Coq refinement proof (MemFs mirror refines the reference model on every valid history, by simulation) + theorems about the reference model + per-run vm_compute obligations on regenerated bodies + three-way extracted-model differential run (MemFs, DirFs, wrappers)",
   text="Theorems over all valid histories: the mirror of mem.go returns exactly the reference model's results; the reference model gives fresh independent descriptors, Create fails iff the name exists and then changes nothing, links share the inode, Delete leaves inodes and descriptors alone, ReadAt returns exactly the existing bytes of the range, List is exactly the set of names, AtomicCreate installs exactly the data and touches no other name; the model invariant holds in every reachable state. Tied to the code by the frozen bodies of mem.go and the package wrappers (kernel-checked per run) and by generated valid histories (with client-side slice mutation) executed on the real MemFs, the real DirFs and through the wrappers against the extracted models.",
   note="DirFs has no Coq model (the kernel is its implementation): it is tied to the reference model by the differential run only. Aliasing of slices is observable only on the Go side. Names are drawn from a pool of simple names (no path separators), as the property states. Model reflects /repo after the fix: commit giving MemFs a descriptor table.",
   ref="DESIGN.md §5 C12"),
 "C13": dict(
   technique="Coq proofs over a POSIX model with the regenerated skeleton of DirFs.AtomicCreate interpreted in it (prefix/crash theorem, durable-before-visible, completeness; invariant proof over ALL interleavings of two calls) + per-run shape obligation + strace kill/EIO enumeration at every system call + concurrent runs with a polling reader",
   text="DirFs.AtomicCreate is not hand-modelled: its regenerated statement skeleton is interpreted as a POSIX program. For ANY body accepted by the boolean shape checker (unique temp name, O_CREAT|O_TRUNC, write loop consuming the data, fsync of that descriptor, rename onto path.Join(dir,fname), all errors surfaced): every prefix of its system calls — every crash point, every single failing call, every instant — leaves the destination old-or-exactly-data for every prior state, leftover and chunking; visible implies durable; the completed call installs exactly the data. Two calls with unique temps: for every interleaving, different names do not interfere and the same name ends with one complete data. Counter-examples in the same model when the shape is violated. Per run the shape is evaluated on the regenerated skeleton; the real code is killed at / given EIO in each of its system calls over prior contents and leftovers, its observed system-call order is compared with the shape, and concurrent calls run against a polling reader on DirFs and MemFs.",
   note="power loss cannot be produced here: durable-before-visible rests on the model's assumptions (fsync makes the inode durable; rename atomic, not reordered before the fsync) plus the observed order; kill is injected at system-call entry. Model reflects /repo after the fix: commit making the temp file unique and truncated.",
   ref="DESIGN.md §5 C13"),
 "C14": dict(
   technique="Coq proof (MemFs as instance of the single-lock linearizability theorem; transfer to the reference model along valid linearizations; two-operation corollaries) + verified sound-and-complete checker for recorded histories + per-run lock-shape obligations + race detector",
   text="Theorem: for every number of clients, operation sequences and schedules, the MemFs history is linearizable w.r.t. the sequential MemFs model, and w.r.t. the reference model whenever the operations respect the preconditions in linearization order; corollaries: racing Creates of one name succeed exactly once, appends through distinct descriptors are both applied contiguously, descriptors handed out are distinct. Per run: every exported MemFs method is Lock(); defer Unlock(); body, helpers never touch the lock, the method set is the analysed one, no goroutines; DirFs methods are single system calls and stateless. Recorded concurrent histories of the real MemFs and DirFs are judged against the reference model by the extracted checker; -race runs and runtime fatal errors are reported.",
   note="partial for DirFs (kernel atomicity of a system call trusted; List documented non-atomic; AtomicCreate atomic at rename, see C13); the sandbox has little real parallelism, so static obligations + race detector carry most detection.",
   ref="DESIGN.md §5 C14"),
 "C15": dict(
   technique="Coq proof (generic little-endian put/get theorems by induction + lia) + per-run vm_compute obligations on regenerated function bodies + extracted-model differential run",
   text="Unbounded theorems in Coq about a model of encoding/binary's store/load sequences: frame, byte layout, Get∘Put, Put∘Get, refusal of short buffers, for every width, value and buffer. The model is tied to the code on every run by (R) regenerated function bodies of machine/prims.go checked by kernel-evaluated Examples and (C) a differential run of the real functions against the extracted model.",
   note="Trusts Coq kernel, extraction (ExtrOcamlBasic only), srcextract, Go's encoding/binary being what the model quotes (validated by the differential run).",
   ref="DESIGN.md §5 C15"),
}

CHECKS["C16"] = dict(
   technique="Coq proofs (decimal rendering by induction; MapClear; invariant proof over a transition system of WaitTimeout with unboundedly many stale helpers and an arbitrary environment) + per-run obligations on regenerated bodies incl. the pinned delegate + differential and scenario runs",
   text="Theorems: UInt64ToString's model yields digits only, no leading zero, denotes the number (hence injective) for every uint64; the builtin clear empties any map (the original delete loop: proved for reflexive keys, refuted for NaN keys — repaired in /repo); Assume/Assert panic iff the argument is false; WaitTimeout as a transition system (caller calling any number of times, one helper per call, mutex, notify list, timer, arbitrary environment): returns with the lock held, the lock stays the caller's until it unlocks (stale helpers never take it away), no unlock of an unlocked mutex, no deadlock inside the call. Per run: bodies of the machine functions and of primitive.WaitTimeout (pinned module) are the modelled code; UInt64ToString compared with the extracted model; MapClear on three key types incl. NaN; WaitTimeout scenarios with TryLock probes and measured times.",
   note="partial: wall-clock bounds of WaitTimeout are measured (with scheduling slack), not proved; the Go runtime's sync.Cond/Mutex/select semantics are modelled by hand.",
   ref="DESIGN.md §5 C16")
CHECKS["C18"] = dict(
   technique="Coq proofs about a line-scanner model of both generators (line lemma, one test per test function for every declaration list, file order/skipping, generators agree; unrestricted statement refuted) + per-run obligation on the regenerated main.go + byte-exact differential run + property oracle + go vet",
   text="Theorems: the header line of any top-level function yields exactly the test its name denotes; methods and lines not starting with 'func'+space yield nothing; hence for every file built from any list of declarations exactly one test per test function in source order, failing ones marked; files are processed in order and *_test.go/*.gold.v/backup files contribute nothing; both generators emit the same tests. Per run main.go (regular expressions, filter, templates) is compared with the frozen text, the real test_gen's stdout in both modes is compared byte-for-byte with the extracted model on generated gofmt-formatted directories, the emitted tests are compared with the functions the directory declares, and the generated Go file is vetted.",
   note="Two known findings (line-based scanning of raw strings/comments; TestX name clash of testX and failing_testX) are listed in known_findings.json and excluded from the partial theorem by its hypotheses. Model reflects /repo after two fix: commits (shared file filter; identifier characters).",
   ref="DESIGN.md §5 C18")


CHECKS["C08"] = dict(
   technique="Coq proofs (DFS with visited set = reachability through non-FFI packages; sorted duplicate-free Requires; path mapping) over a model of getFfi/imports/PrintImports/ImportToPath + regenerated ffiMapping/builtinImports tables + per-run obligations on the mirrored functions + differential run on generated import graphs",
   text="Theorems for every import graph and table: the FFIs collected by the visit are exactly those of the packages reachable from the root through imports of non-FFI packages (dependencies hidden behind an FFI do not count); none/one/refusal; header and footer per choice; the Requires are exactly the non-builtin imports, once each, sorted, independent of order and repetition across files; the Require's logical path and the output path derive from the same mapped import path. Per run the two tables are regenerated from goose.go and drive the extracted model, the mirrored function bodies are compared, and scratch modules with generated import graphs (direct, transitive, hidden behind another FFI, two FFIs; dashed, dotted, trusted paths) are translated by the real goose and compared with the model on the graph reported by go list.",
   note="golang.org/x/tools/go/packages (loading, Visit order) is trusted and enters as the import graph; grove_ffi is a stand-in module. Model reflects /repo after three fix: commits (two FFIs reported as an error; Require base name mapped; single-component import paths).",
   ref="DESIGN.md §5 C08")
CHECKS["C17"] = dict(
   technique="Coq proofs about a model of cmd/goose translate/writeFileIfChanged (exit status, exact set of writes, unchanged files, partial output, path injectivity partial/refuted) + per-run obligation on main.go + differential run of the real binary over generated modules, patterns, flags and prior output states",
   text="Theorems: exit status 0 iff every matched package translated; a write occurs exactly for translated packages (and failed ones only under -ignore-errors, with their partial file) at the path derived from the import path and only when the contents differ; without the flag nothing is written for failed packages; unchanged files are not rewritten; distinct plain paths give distinct files (refuted in general: '-' and '.' both map to '_'). Per run main.go is compared with the frozen text and the real binary is run on scratch modules (translatable, untranslatable and non-compiling packages, goose/!goose tagged files) over pattern sets, -dir, flag combinations and prior output states; exit status, final files, rewritten-or-not and tag selection are compared with the model and go list -tags goose.",
   note="package loading and pattern matching (go/packages) are trusted inputs; partially non-matching pattern lists are left out (their status is decided inside go/packages). Model reflects /repo after the fix: commit that stops writing '..v' for unloadable packages.",
   ref="DESIGN.md §5 C17")

CHECKS["C01"] = dict(
   technique="Coq proofs (a reference GooseLang interpreter with fuel-independence; a model of goose's statement/expression translation for the core fragment with a Go semantics and a preservation theorem over all programs, inputs and environments) + per-run obligations (goose's regenerated output for the upstream semantics suite evaluates to #true; frozen translation functions and operator tables) + correspondence (model = goose output syntactically; Go model = Go toolchain) + differential execution of generated packages and of a construct catalogue",
   text="Theorems: results under the reference semantics do not depend on fuel; for every function body of the core fragment (uint64/bool, wrap-around operators, := and var locals with shadowing, assignment, op-assignment, ++/--, if/else, early returns) that the translator model accepts, every argument vector and every returning Go run, the emitted body evaluates to Go's value in Go's store (statement lists under both usages, expressions, unit functions). Per run: the translator model's output is compared syntactically (kernel-checked equality) with the term Coq parses from the real goose's output, function by function, and the Go model with the Go toolchain, call by call; goose's output for internal/examples/semantics is regenerated and each upstream test evaluates to #true; generated packages using the rest of the subset (uint32/byte, loops with break/continue, nested blocks, slices, maps, structs by value and pointer, methods, constants, multiple results, strings) are run natively and through goose + the interpreter; a catalogue of 121 constructs at the edge of the subset is run the same way.",
   note="partial: the theorem covers the core fragment at the level of function bodies (the curried function header is covered by the differential run only); loops, slices, maps, structs, strings, closures and the encoding primitives are covered by differential execution (tested), not by a theorem. The reference semantics stands for Perennial's GooseLang (not installable here) and is validated by the upstream semantics suite each run. Known findings (upstream failing_ tests, evaluation order, narrow ++, constant folding, per-iteration loop variables, &x of := variables, method values, nil map reads, package look-alikes) are listed in known_findings.json; 3 genuine defects repaired by fix: commits.",
   ref="DESIGN.md §5 C01")
CHECKS["C02"] = dict(
   technique="Coq proofs (rejected-or-faithful for the translator model at every position; the guards of the fragment) + per-run obligations (inventory of all guard sites regenerated from the sources; recognisers and error reporters frozen) + construct catalogue + injection of out-of-subset statements into generated programs + accept/reject correspondence of goose with the model",
   text="Theorems: for every statement list of the MiniGo fragment extended with out-of-subset constructs, under every usage and environment, the translator model either reports an error or emits a term that computes what Go computes; assignment to :=-bound variables, op-assignments without operator, returns outside tail position and early returns with an else branch are rejected. Per run: the list of all 100 guard sites (function, category, message) regenerated from goose.go/types.go is compared with the frozen list; 121 catalogue items (op-assign forms, 3-index and full slices, if/for initialisers, named results, switch, goto, labels, defer, range forms, arrays, signed and 16-bit integers, floats, channels, select, type switches and assertions, variadics, method values, closures, embedded fields, struct comparison, constants with iota/negative/untyped-big values, builtin and package look-alikes, ...) are each rejected or executed against Go; generated programs get out-of-subset statements injected at random positions; goose's accept/reject decisions on MiniGo programs are compared with the model's.",
   note="partial: faithful-or-rejected is proved for the model's fragment and tested (differentially) for the catalogue and the injected statements. Known findings: package look-alikes (filesys, machine, sync), and the C01 findings that are accepted-but-different. 9 genuine defects repaired by fix: commits (builtin look-alikes, string ordering, field store on values, variadics, comma-ok assertions, multi-name specs, ...).",
   ref="DESIGN.md §5 C02")


def main():
    checks = []
    for pid in ALL:
        if pid not in CHECKS:
            continue
        c = CHECKS[pid]
        checks.append({
            "property_id": pid,
            "quick_cmd": "bin/check %s --tier quick" % pid,
            "thorough_cmd": "bin/check %s --tier thorough" % pid,
            "evidence_file": "/verif/evidence/%s.json" % pid,
            "replay_cmd_template": "bin/check %s --replay {path}" % pid,
            "engine": "coq",
            "level_claimed": {"category": "proof", "text": c["text"], "design_ref": c["ref"]},
            "level_note": c["note"],
            "technique": c["technique"],
        })
    na = [{"property_id": p, "reason": "check not built yet (work in progress in this session; see DESIGN.md §9 for the order)"}
          for p in ALL if p not in CHECKS]
    m = {
        "version": 1,
        "setup_cmd": "bin/setup",
        "hooks": {"guard": "verif", "enable": "go build -tags verif (no hook is currently needed: the harness uses only exported APIs and the binaries)",
                  "baseline_off_cmd": "cd /repo && go test -vet=off -count=1 ./...", "source_commits": [], "add_only": True},
        "engines": [{"name": "coq", "path": "/verif/coq", "serves_properties": sorted(CHECKS),
                     "kind_free_text": "Coq 8.16.1 development (models, theorems, per-run obligations on regenerated tables/skeletons) + extracted OCaml models + Go harness for correspondence"}],
        "checks": checks,
        "not_applicable": na,
        "notes": "All checks: bin/check <ID> --tier quick|thorough. Verdict procedure in DESIGN.md §3.",
    }
    json.dump(m, open(os.path.join(V, "MANIFEST.json"), "w"), indent=1)

main()
