(* Correspondence driver for C16 (UInt64ToString part): compares the strings
   produced by machine.UInt64ToString with the extracted model to_string
   (digit d is the character '0'+d). Other lines are passed through untouched. *)
open Models
open Common

let () =
  let total = ref 0 and bad = ref 0 and lens = Hashtbl.create 32 in
  iter_lines (fun line ->
    match split_ws line with
    | ["S"; n; "->"; str] ->
      incr total;
      let ds = to_string (z_of_decimal n) in
      let model = String.concat "" (List.map (fun d -> string_of_int (int_of_z d)) ds) in
      Hashtbl.replace lens (String.length str) (1 + (try Hashtbl.find lens (String.length str) with Not_found -> 0));
      if model <> str then (incr bad; Printf.printf "MISMATCH %s ## model=%s\n" line model)
    | _ -> ());
  let ls = Hashtbl.fold (fun k v acc -> (k, v) :: acc) lens [] |> List.sort compare
           |> List.map (fun (k, v) -> Printf.sprintf "%d:%d" k v) |> String.concat "," in
  Printf.printf "DONE cases=%d mismatches=%d lengths=%s\n" !total !bad ls
