(* Correspondence driver for C11 (reopen part): replays diskdrv -mode reopen
   on the extracted open_disk / file_step / close_disk.  The model is proved to
   meet the property (Props/C11.v), and the observables compared here (file
   size after open, every block read, Size, refusals) are determined by the
   property, so a MISMATCH is a history on which the property fails. *)
open Models
open Common

let bs = nat_of_int 4096

let show_out (o : out) : string =
  match o with
  | RBlock b -> "B " ^ rle_of_bytes b
  | RUnit -> "U"
  | RSize n -> "N " ^ decimal_of_z n
  | RRefused -> "P"

let short s = if String.length s > 70 then String.sub s 0 70 ^ "..." else s

let () =
  let hists = ref 0 and opens = ref 0 and ops = ref 0 and bad = ref 0 and opens_existing = ref 0
  and resized = ref 0 and nontrivial = ref 0 in
  let image : z list option ref = ref None in     (* the backing file between opens *)
  let cur : fdisk option ref = ref None in
  let failed = ref false and hist_nontrivial = ref false in
  let idx = ref 0 and opno = ref 0 in
  let mismatch why =
    if not !failed then (failed := true; incr bad; Printf.printf "MISMATCH hist=%d op#%d %s\n" !idx !opno why) in
  iter_lines (fun line ->
    incr opno;
    match split_ws line with
    | [] -> ()
    | ["H"; _; _] -> image := None; cur := None; failed := false; hist_nontrivial := false; opno := 0
    | ["E"] -> incr hists; if !hist_nontrivial then incr nontrivial; incr idx
    | "O" :: n :: prev :: "->" :: res ->
      incr opens;
      let prev_img = match prev with
        | "A" -> None
        | "P" -> !image
        | s -> Some (bytes_of_rle s) in
      (match prev_img with Some _ -> incr opens_existing | None -> ());
      (match open_disk bs (z_of_decimal n) prev_img with
       | None -> (match res with ["ERR"] -> () | _ -> mismatch "model: open fails"); cur := None
       | Some d ->
         let len = List.length d.file in
         (match prev_img with Some f when List.length f <> len -> incr resized; hist_nontrivial := true | _ -> ());
         (match res with
          | ["OK"; sz] -> if int_of_string sz <> len then mismatch (Printf.sprintf "file size after open: observed %s model %d" sz len)
          | _ -> mismatch "observed open error, model opens");
         cur := Some d)
    | ["C"] -> (match !cur with Some d -> image := Some (close_disk d); cur := None | None -> ())
    | toks ->
      (match !cur with
       | None -> ()
       | Some d ->
         incr ops;
         let (o, obs) = match toks with
           | ["R"; a; "->"; "P"] -> (ORead (z_of_decimal a), "P")
           | ["R"; a; "->"; "B"; b] -> (ORead (z_of_decimal a), "B " ^ b)
           | ["W"; a; v; "->"; r] -> (OWrite (z_of_decimal a, bytes_of_rle v), r)
           | ["S"; "->"; "N"; n] -> (OSize, "N " ^ n)
           | ["B"; "->"; "U"] -> (OBarrier, "U")
           | _ -> failwith ("unparsable: " ^ line) in
         let (d', mo) = file_step bs d o in
         cur := Some d';
         let smo = show_out mo in
         (match mo with RBlock b when List.exists (fun x -> x <> Z0) b -> hist_nontrivial := true | _ -> ());
         if smo <> obs then mismatch (Printf.sprintf "observed=%s model=%s" (short obs) (short smo))));
  Printf.printf "DONE histories=%d opens=%d opens_of_existing_image=%d resized_on_open=%d ops=%d mismatches=%d nontrivial_histories=%d\n"
    !hists !opens !opens_existing !resized !ops !bad !nontrivial
