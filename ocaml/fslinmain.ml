(* Judges concurrent filesystem histories recorded by fsstress with the
   extracted checker fs_lin_check (sound and complete, Conc/LinCheck.v) against
   the reference model (descriptor numbers erased for DirFs). *)
open Models
open Common

exception Timeout
let with_timeout (secs : float) (f : unit -> 'a) : 'a option =
  let old = Sys.signal Sys.sigalrm (Sys.Signal_handle (fun _ -> raise Timeout)) in
  ignore (Unix.setitimer Unix.ITIMER_REAL { Unix.it_interval = 0.0; Unix.it_value = secs });
  let r = (try Some (f ()) with Timeout -> None) in
  ignore (Unix.setitimer Unix.ITIMER_REAL { Unix.it_interval = 0.0; Unix.it_value = 0.0 });
  Sys.set_signal Sys.sigalrm old;
  r

let nat s = nat_of_int (int_of_string s)

let parse_op (l : string list) : fop =
  match l with
  | ["M"; d] -> FMkdir (nat d)
  | ["C"; d; n] -> FCreate (nat d, nat n)
  | ["A"; k; b] -> FAppend (nat k, bytes_of_rle b)
  | ["X"; k] -> FClose (nat k)
  | ["O"; d; n] -> FOpen (nat d, nat n)
  | ["R"; k; off; len] -> FReadAt (nat k, z_of_decimal off, z_of_decimal len)
  | ["D"; d; n] -> FDelete (nat d, nat n)
  | ["L"; a; b; c; d] -> FLink (nat a, nat b, nat c, nat d)
  | ["K"; d; n; b] -> FAtomicCreate (nat d, nat n, bytes_of_rle b)
  | ["S"; d] -> FList (nat d)
  | _ -> failwith ("unparsable op: " ^ String.concat " " l)

let parse_res (l : string list) : fout =
  match l with
  | ["F"; k] -> OFd (nat k)
  | ["NOFD"] -> ONoFd
  | ["U"] -> OUnit
  | ["D"; b] -> OBytes (bytes_of_rle b)
  | ["T"] -> OBool true
  | ["N"] -> OBool false
  | ["N"; "-"] -> ONames []
  | ["N"; l] -> ONames (List.map (fun s -> if String.length s > 0 && s.[0] = '?' then nat_of_int 999 else nat s) (String.split_on_char ',' l))
  | ["P"] -> OInvalid
  | _ -> failwith ("unparsable result: " ^ String.concat " " l)

let () =
  let limit = (try float_of_string (Sys.getenv "LIN_TIMEOUT") with Not_found -> 5.0) in
  let hists = ref 0 and ops = ref 0 and bad = ref 0 and inconclusive = ref 0 and overlapping = ref 0 and conc = ref 0
  and panics = ref 0 and create_races = ref 0 in
  let cur = ref None and evs = ref [] and idx = ref 0 and open_ops = ref 0 and h_overlap = ref false in
  iter_lines (fun line ->
    match split_ws line with
    | [] -> ()
    | ["H"; impl; th] -> cur := Some (impl, int_of_string th); evs := []; open_ops := 0; h_overlap := false
    | ["E"] ->
      (match !cur with
       | None -> ()
       | Some (impl, th) ->
         incr hists; if !h_overlap then incr conc;
         let ts = List.init th nat_of_int in
         let h = List.rev !evs in
         (match with_timeout limit (fun () -> fs_lin_check (impl = "dir") ts h) with
          | Some true -> ()
          | Some false -> incr bad; Printf.printf "MISMATCH hist=%d impl=%s threads=%d not-linearizable\n" !idx impl th
          | None -> incr inconclusive));
      incr idx; cur := None
    | "I" :: t :: rest ->
      incr ops; incr open_ops; if !open_ops > 1 then (incr overlapping; h_overlap := true);
      evs := HInv (nat t, parse_op rest) :: !evs
    | "O" :: t :: rest ->
      decr open_ops;
      let r = parse_res rest in
      if r = OInvalid then incr panics;
      evs := HResp (nat t, r) :: !evs
    | _ -> failwith ("unparsable: " ^ line));
  Printf.printf "DONE histories=%d ops=%d overlapping_invocations=%d histories_with_overlap=%d panics=%d not_linearizable=%d inconclusive=%d\n"
    !hists !ops !overlapping !conc !panics !bad !inconclusive
