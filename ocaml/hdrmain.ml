(* Correspondence driver for C08: for every generated module, compares what the
   real goose put into the header of the emitted file with the extracted model
   (get_ffi over the toolchain's import graph with the regenerated ffiMapping;
   print_imports with the regenerated builtinImports; output_path).  The model
   is proved to meet the property (Props/C08.v), so a MISMATCH is an import
   graph on which the property fails. *)
open Models
open Common

let () =
  let cases = ref 0 and bad = ref 0 and refused = ref 0 and with_ffi = ref 0 and requires = ref 0 and fuel_short = ref 0
  and nontrivial = ref 0 and crashes = ref 0 in
  let root = ref "" and graph = ref [] and imps = ref [] and exit_code = ref "" and outs = ref [] and reqs = ref []
  and hdr = ref None and foot = ref None and idx = ref 0 and extra = ref [] in
  let reset () = graph := []; imps := []; exit_code := ""; outs := []; reqs := []; hdr := None; foot := None; extra := [] in
  iter_lines (fun line ->
    match split_ws line with
    | ["P"; r] -> reset (); root := r
    | ["N"; p; l] -> graph := (coq_of_string p, if l = "-" then [] else List.map coq_of_string (String.split_on_char ',' l)) :: !graph
    | ["I"; i] -> imps := i :: !imps
    | ["X"; c] -> exit_code := c
    | ["O"; o] -> outs := o :: !outs
    | ["R"; r] -> reqs := string_of_hex r :: !reqs
    | ["H"; h] -> hdr := Some (string_of_hex h)
    | ["T"; t] -> foot := Some (string_of_hex t)
    | "C" :: _ -> incr crashes
    | ["M"; m] -> extra := string_of_hex m :: !extra
    | ["E"] ->
      incr cases;
      if !exit_code <> "golist-failed" then begin
        let g = List.rev !graph in
        let st = visit_root ffi_mapping g (nat_of_int 2000) (coq_of_string !root) in
        if not st.fuel_ok then incr fuel_short;
        let choice = get_ffi ffi_mapping g (nat_of_int 2000) (coq_of_string !root) in
        let imports = List.rev_map coq_of_string !imps in
        let exp_reqs = List.map string_of_coq (print_imports builtin_imports imports) in
        let exp_out = string_of_coq (output_path (coq_of_string !root)) in
        let problems = ref [] in
        let say s = problems := s :: !problems in
        (match header_footer choice with
         | None ->
           incr refused;
           if !exit_code <> "1" then say ("two FFIs are reachable: goose must refuse with exit status 1, got exit " ^ !exit_code);
           if !outs <> ["NONE"] then say "two FFIs are reachable but a file was written"
         | Some (h, f) ->
           (match choice with FfiOne _ -> incr with_ffi | _ -> ());
           if !exit_code <> "0" then say ("exit status " ^ !exit_code ^ " for a translatable package");
           if !outs <> [exp_out] then say ("output path: got [" ^ String.concat ";" !outs ^ "] expected " ^ exp_out);
           (match !hdr with Some h' when h' = string_of_coq h -> () | Some h' -> say ("FFI header: got <" ^ h' ^ "> expected <" ^ string_of_coq h ^ ">") | None -> say "no header found");
           (match !foot with Some f' when f' = string_of_coq f -> () | Some _ -> say "footer differs" | None -> say "no footer information");
           let got = List.rev !reqs in
           requires := !requires + List.length got;
           if got <> exp_reqs then say ("Requires: got [" ^ String.concat " | " got ^ "] expected [" ^ String.concat " | " exp_reqs ^ "]"));
        List.iter say (List.rev !extra);
        if List.length g >= 4 then incr nontrivial;
        if !problems <> [] then (incr bad; Printf.printf "MISMATCH case=%d root=%s %s\n" !idx !root (String.concat " ;; " (List.rev !problems)))
      end;
      incr idx
    | _ -> ());
  Printf.printf "DONE cases=%d mismatches=%d refused_two_ffis=%d with_ffi=%d require_lines=%d fuel_exhausted=%d nontrivial=%d crashes=%d\n"
    !cases !bad !refused !with_ffi !requires !fuel_short !nontrivial !crashes
