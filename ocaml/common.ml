(* Conversions between the line protocol and the extracted Coq datatypes.
   Nothing here computes a model result. *)
open Models
type string = Stdlib.String.t

let rec pos_of_int (n : int) : positive =
  if n = 1 then XH
  else if n land 1 = 0 then XO (pos_of_int (n lsr 1))
  else XI (pos_of_int (n lsr 1))

let z_of_int (n : int) : z =
  if n = 0 then Z0 else if n > 0 then Zpos (pos_of_int n) else Zneg (pos_of_int (-n))

let rec nat_of_int (n : int) : nat = if n <= 0 then O else S (nat_of_int (n - 1))
let rec int_of_nat (n : nat) : int = match n with O -> 0 | S m -> 1 + int_of_nat m

let n_of_int (n : int) : n = if n = 0 then N0 else Npos (pos_of_int n)

(* small results only (bytes, lengths) *)
let rec int_of_pos (p : positive) : int =
  match p with XH -> 1 | XO q -> 2 * int_of_pos q | XI q -> 2 * int_of_pos q + 1
let int_of_z (x : z) : int = match x with Z0 -> 0 | Zpos p -> int_of_pos p | Zneg p -> - (int_of_pos p)
let int_of_n (x : n) : int = match x with N0 -> 0 | Npos p -> int_of_pos p

(* decimal strings <-> Z for 64-bit quantities: go through 4 16-bit limbs so
   that OCaml's 63-bit int is never exceeded *)
let z_of_decimal (s : string) : z =
  let ten = z_of_int 10 in
  let acc = ref Z0 in
  String.iter (fun c -> acc := Z.add (Z.mul !acc ten) (z_of_int (Char.code c - 48))) s;
  !acc

let decimal_of_z (x : z) : string =
  (* x >= 0 *)
  let rec bits (p : positive) : bool list = match p with XH -> [true] | XO q -> false :: bits q | XI q -> true :: bits q in
  match x with
  | Z0 -> "0"
  | Zneg _ -> "NEG"
  | Zpos p ->
    (* little-endian bits -> decimal string via repeated doubling on a digit array *)
    let digits = ref [0] in
    let double_add carry0 =
      let carry = ref carry0 in
      digits := List.map (fun d -> let v = 2 * d + !carry in carry := v / 10; v mod 10) !digits;
      if !carry > 0 then digits := !digits @ [!carry] in
    List.iter (fun b -> double_add (if b then 1 else 0)) (List.rev (bits p));
    String.concat "" (List.rev_map string_of_int !digits)

let bytes_of_hex (s : string) : z list =
  if s = "-" then [] else
  let n = String.length s / 2 in
  List.init n (fun i -> z_of_int (int_of_string ("0x" ^ String.sub s (2 * i) 2)))

let hex_of_bytes (b : z list) : string =
  if b = [] then "-" else
  String.concat "" (List.map (fun x -> Printf.sprintf "%02x" (int_of_z x)) b)

let split_ws (s : string) : string list =
  List.filter (fun x -> x <> "") (String.split_on_char ' ' s)

(* iterate over stdin lines *)
let iter_lines (f : string -> unit) : unit =
  try while true do f (input_line stdin) done with End_of_file -> ()

(* byte slices in the protocol: segments "hh*count" / "=hex" joined by ',' *)
let bytes_of_rle (s : string) : z list =
  if s = "-" then [] else
  List.concat_map (fun seg ->
    if String.length seg > 0 && seg.[0] = '=' then
      bytes_of_hex (String.sub seg 1 (String.length seg - 1))
    else match String.split_on_char '*' seg with
      | [h; c] -> let v = z_of_int (int_of_string ("0x" ^ h)) in List.init (int_of_string c) (fun _ -> v)
      | _ -> failwith ("bad rle segment " ^ seg)) (String.split_on_char ',' s)

let rle_of_bytes (b : z list) : string =
  if b = [] then "-" else begin
    let a = Array.of_list (List.map int_of_z b) in
    let n = Array.length a in
    let segs = ref [] and lit = Buffer.create 16 in
    let flush () = if Buffer.length lit > 0 then (segs := ("=" ^ Buffer.contents lit) :: !segs; Buffer.clear lit) in
    let i = ref 0 in
    while !i < n do
      let j = ref !i in
      while !j < n && a.(!j) = a.(!i) do incr j done;
      if !j - !i >= 4 then (flush (); segs := Printf.sprintf "%02x*%d" a.(!i) (!j - !i) :: !segs)
      else for _ = 1 to !j - !i do Buffer.add_string lit (Printf.sprintf "%02x" a.(!i)) done;
      i := !j
    done;
    flush ();
    String.concat "," (List.rev !segs)
  end

(* Coq strings (list-like datatype of 8-bit ascii records) <-> OCaml strings *)
let coq_of_char (c : char) : ascii =
  let n = Char.code c in
  let b i = (n lsr i) land 1 = 1 in
  Ascii (b 0, b 1, b 2, b 3, b 4, b 5, b 6, b 7)

let char_of_coq (a : ascii) : char =
  match a with Ascii (b0, b1, b2, b3, b4, b5, b6, b7) ->
    let v b i = if b then 1 lsl i else 0 in
    Char.chr (v b0 0 + v b1 1 + v b2 2 + v b3 3 + v b4 4 + v b5 5 + v b6 6 + v b7 7)

let coq_of_string (s : string) : Models.string =
  let r = ref EmptyString in
  for i = String.length s - 1 downto 0 do r := String (coq_of_char s.[i], !r) done;
  !r

let string_of_coq (s : Models.string) : string =
  let b = Buffer.create 64 in
  let rec go s = match s with EmptyString -> () | String (c, r) -> Buffer.add_char b (char_of_coq c); go r in
  go s; Buffer.contents b

let string_of_hex (s : string) : string =
  if s = "-" then "" else
  String.init (String.length s / 2) (fun i -> Char.chr (int_of_string ("0x" ^ String.sub s (2 * i) 2)))
