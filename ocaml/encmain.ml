(* Correspondence driver for C15: reads encdrv's lines, evaluates the extracted
   model on the same input and prints MISMATCH lines; last line is a summary. *)
open Models
open Common

let () =
  let total = ref 0 and bad = ref 0 and refused = ref 0 in
  let w8 = nat_of_int 8 and w4 = nat_of_int 4 in
  iter_lines (fun line ->
    match split_ws line with
    | [] -> ()
    | op :: rest ->
      incr total;
      let expect = match op, rest with
        | ("put64" | "put32"), [buf; v; "->"; "PANIC"; after] ->
          let w = if op = "put64" then w8 else w4 in
          (match put_le w (bytes_of_hex buf) (z_of_decimal v) with
           | None -> incr refused; if after = buf then None else Some ("refused but buffer changed to " ^ after)
           | Some b' -> Some ("model accepts: " ^ hex_of_bytes b'))
        | ("put64" | "put32"), [buf; v; "->"; after] ->
          let w = if op = "put64" then w8 else w4 in
          (match put_le w (bytes_of_hex buf) (z_of_decimal v) with
           | None -> Some "model refuses"
           | Some b' -> if hex_of_bytes b' = after then None else Some ("model: " ^ hex_of_bytes b'))
        | ("get64" | "get32"), [buf; "->"; "PANIC"] ->
          let w = if op = "get64" then w8 else w4 in
          (match get_le w (bytes_of_hex buf) with
           | None -> incr refused; None
           | Some v -> Some ("model accepts: " ^ decimal_of_z v))
        | ("get64" | "get32"), [buf; "->"; res] ->
          let w = if op = "get64" then w8 else w4 in
          (match get_le w (bytes_of_hex buf) with
           | None -> Some "model refuses"
           | Some v -> if decimal_of_z v = res then None else Some ("model: " ^ decimal_of_z v))
        | "conc", [_; _; lost] ->
          (* puts of adjacent fields from several goroutines: by the frame theorem (C15_put_frame)
             a put changes its own frame only, so no round may lose a field *)
          if lost = "lost=0" then None else Some "a put changed bytes outside its frame (a concurrent put of the neighbouring field was lost)"
        | _ -> Some "unparsable line"
      in
      match expect with
      | None -> ()
      | Some why -> incr bad; Printf.printf "MISMATCH %s ## %s\n" line why);
  Printf.printf "DONE cases=%d mismatches=%d refused=%d\n" !total !bad !refused
