(* Correspondence driver for C17: the exit status and the final contents of the
   output directory (and which files were rewritten) of the real goose command
   vs the extracted model [cli] fed with the per-package results. *)
open Models
open Common

let () =
  let cases = ref 0 and bad = ref 0 and nontrivial = ref 0 and errs = ref 0 and unchanged_kept = ref 0 and tag_bad = ref 0 in
  let ignore = ref false and perr = ref false and results = ref [] and prior = ref [] and code = ref "" and after = ref [] and idx = ref 0 and tagmsg = ref "" in
  iter_lines (fun line ->
    match split_ws line with
    | ["K"; i; p] -> ignore := (i = "1"); perr := (p = "1"); results := []; prior := []; code := ""; after := []; tagmsg := ""
    | ["Q"; pkg; ok; c] -> results := (pkg, ok = "1", string_of_hex c) :: !results
    | ["X"; p; c] -> prior := (string_of_hex p, string_of_hex c) :: !prior
    | ["C"; c] -> code := c
    | ["W"; p; c; rw] -> after := (string_of_hex p, string_of_hex c, rw = "1") :: !after
    | "G" :: "BAD" :: _ -> tagmsg := line
    | ["E"] ->
      incr cases;
      let rs = List.rev_map (fun (pkg, ok, c) -> (coq_of_string pkg, if ok then ROk (coq_of_string c) else RErr (coq_of_string c))) !results in
      if List.exists (fun (_, ok, _) -> not ok) !results then incr errs;
      let existing p = let p = string_of_coq p in
        (* the model's paths are "out/<rel>" *)
        let rel = if String.length p > 4 then String.sub p 4 (String.length p - 4) else p in
        (try Some (coq_of_string (List.assoc rel !prior)) with Not_found -> None) in
      let (ec, writes) = cli !perr !ignore (coq_of_string "out") existing rs in
      let writes = List.map (fun w -> (let p = string_of_coq w.w_path in String.sub p 4 (String.length p - 4)), string_of_coq w.w_data) writes in
      (* expected final state: prior overwritten by the writes *)
      let expected = List.fold_left (fun acc (p, d) -> (p, d) :: List.remove_assoc p acc) !prior writes in
      let norm l = List.sort compare l in
      let got = norm (List.map (fun (p, c, _) -> (p, c)) !after) in
      let problems = ref [] in
      if string_of_int (int_of_nat ec) <> !code then problems := Printf.sprintf "exit status %s, expected %d" !code (int_of_nat ec) :: !problems;
      if got <> norm expected then
        problems := Printf.sprintf "files after the run [%s] expected [%s]" (String.concat "," (List.map fst got)) (String.concat "," (List.map fst (norm expected))) :: !problems;
      List.iter (fun (p, _, rw) ->
        let written = List.mem_assoc p writes in
        if List.mem_assoc p !prior then begin
          if rw && not written then problems := ("rewritten although unchanged: " ^ p) :: !problems;
          if (not rw) && (not written) then incr unchanged_kept
        end) !after;
      if !tagmsg <> "" then (incr tag_bad; problems := !tagmsg :: !problems);
      if List.length rs >= 2 then incr nontrivial;
      if !problems <> [] then (incr bad; Printf.printf "MISMATCH case=%d ignore_errors=%b %s\n" !idx !ignore (String.concat " ;; " !problems));
      incr idx
    | _ -> ());
  Printf.printf "DONE cases=%d mismatches=%d nontrivial=%d cases_with_errors=%d unchanged_files_kept=%d\n" !cases !bad !nontrivial !errs !unchanged_kept
