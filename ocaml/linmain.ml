(* Judges histories recorded by stressdrv with the extracted, verified
   linearizability checker (Conc/LinCheck.v: sound and complete).
   Uniform 4096-byte blocks are abstracted to one-byte blocks (block size 1);
   a non-uniform block read back (TORN) is abstracted to a two-byte block, which
   no register can hold, so the history is not linearizable. *)
open Models
open Common

let bs = nat_of_int 1

exception Timeout

let with_timeout (secs : float) (f : unit -> 'a) : 'a option =
  let old = Sys.signal Sys.sigalrm (Sys.Signal_handle (fun _ -> raise Timeout)) in
  ignore (Unix.setitimer Unix.ITIMER_REAL { Unix.it_interval = 0.0; Unix.it_value = secs });
  let r = (try Some (f ()) with Timeout -> None) in
  ignore (Unix.setitimer Unix.ITIMER_REAL { Unix.it_interval = 0.0; Unix.it_value = 0.0 });
  Sys.set_signal Sys.sigalrm old;
  r

let () =
  let limit = (try float_of_string (Sys.getenv "LIN_TIMEOUT") with Not_found -> 5.0) in
  let inconclusive = ref 0 in
  let maxev = (try int_of_string (Sys.getenv "LIN_MAXEVENTS") with Not_found -> 64) in
  let skipped = ref 0 in
  let hists = ref 0 and bad = ref 0 and ops = ref 0 and overlapping = ref 0 and torn = ref 0 and conc_hists = ref 0 in
  let cur : (int * string * int) option ref = ref None in
  let evs = ref [] in
  let idx = ref 0 in
  let open_ops = ref 0 and hist_overlap = ref false and hist_torn = ref false in
  iter_lines (fun line ->
    match split_ws line with
    | [] -> ()
    | ["H"; n; wl; th] -> cur := Some (int_of_string n, wl, int_of_string th); evs := []; open_ops := 0; hist_overlap := false; hist_torn := false
    | ["E"] ->
      (match !cur with
       | None -> ()
       | Some (n, wl, th) ->
         incr hists;
         if !hist_overlap then incr conc_hists;
         let ts = List.init th nat_of_int in
         let h = List.rev !evs in
         if List.length h > maxev then begin
           (* too long for the exhaustive search: only the direct oracle "a read returned a block that no write wrote" *)
           incr skipped;
           if !hist_torn then (incr bad; Printf.printf "MISMATCH hist=%d workload=%s n=%d threads=%d torn-block-read (history too long for the lin search)\n" !idx wl n th)
         end else
         (match with_timeout limit (fun () -> disk_lin_check bs (z_of_int n) ts h) with
          | Some true -> ()
          | Some false -> incr bad; Printf.printf "MISMATCH hist=%d workload=%s n=%d threads=%d not-linearizable%s\n" !idx wl n th (if !hist_torn then " torn-block-read" else "")
          | None ->
            incr inconclusive;
            (* the search did not finish; a torn block is by itself a violation of the property *)
            if !hist_torn then (incr bad; Printf.printf "MISMATCH hist=%d workload=%s n=%d threads=%d torn-block-read (lin search timed out)\n" !idx wl n th)));
      incr idx; cur := None
    | "I" :: t :: rest ->
      incr ops; incr open_ops; if !open_ops > 1 then (incr overlapping; hist_overlap := true);
      let o = match rest with
        | ["R"; a] -> ORead (z_of_decimal a)
        | ["T"; a] -> OReadTo (z_of_decimal a, [z_of_int 254])
        | ["W"; a; x] -> OWrite (z_of_decimal a, [z_of_decimal x])
        | ["S"] -> OSize
        | _ -> failwith ("unparsable: " ^ line) in
      evs := HInv (nat_of_int (int_of_string t), o) :: !evs
    | "O" :: t :: rest ->
      decr open_ops;
      let r = match rest with
        | ["B"; x] -> RBlock [z_of_decimal x]
        | "TORN" :: _ -> incr torn; hist_torn := true; RBlock [z_of_int 1; z_of_int 2]
        | ["U"] -> RUnit
        | ["N"; n] -> RSize (z_of_decimal n)
        | ["P"] -> RRefused
        | _ -> failwith ("unparsable: " ^ line) in
      evs := HResp (nat_of_int (int_of_string t), r) :: !evs
    | _ -> failwith ("unparsable: " ^ line));
  Printf.printf "DONE histories=%d ops=%d overlapping_invocations=%d histories_with_overlap=%d torn_blocks=%d not_linearizable=%d inconclusive=%d lin_search_skipped=%d\n"
    !hists !ops !overlapping !conc_hists !torn !bad !inconclusive !skipped
