(* Correspondence driver for C18: per generated directory, compares
     - the output of test_gen -go / -coq with the extracted gen_go / gen_coq   (MISMATCH-MODEL)
     - the tests the model extracts with the test functions the directory
       really declares (the property's own reading)                             (MISMATCH-SPEC) *)
open Models
open Common

let () =
  let dirs = ref 0 and bad_model = ref 0 and bad_spec = ref 0 and vet_fail = ref 0 and vetted = ref 0
  and tests = ref 0 and nontrivial = ref 0 and skipped_files = ref 0 in
  let cls = ref "" and files = ref [] and cur_name = ref None and cur_lines = ref [] and expected = ref []
  and gout = ref "" and cout = ref "" and idx = ref 0 in
  let flush_file () =
    (match !cur_name with Some n -> files := (n, List.rev !cur_lines) :: !files | None -> ());
    cur_name := None; cur_lines := [] in
  iter_lines (fun line ->
    match split_ws line with
    | ["D"; c] -> cls := c; files := []; cur_name := None; cur_lines := []; expected := []; gout := ""; cout := ""
    | ["F"; n] -> flush_file (); cur_name := Some (string_of_hex n)
    | ["L"; l] -> cur_lines := string_of_hex l :: !cur_lines
    | ["T"; f; n] -> flush_file (); expected := ((f = "1"), string_of_hex n) :: !expected
    | ["G"; g] -> flush_file (); gout := string_of_hex g
    | ["C"; c] -> cout := string_of_hex c
    | "V" :: "ok" :: _ -> incr vetted
    | "V" :: "FAIL" :: msg -> incr vetted; incr vet_fail;
      Printf.printf "MISMATCH-SPEC dir=%d class=%s generated Go file does not compile: %s\n" !idx !cls
        (String.concat " " (List.map (fun m -> let s = string_of_hex m in if String.length s > 200 then String.sub s 0 200 else s) msg))
    | ["E"] ->
      flush_file ();
      incr dirs;
      let fl = List.rev !files in
      List.iter (fun (n, _) -> if Filename.check_suffix n "~" || Filename.check_suffix n "_test.go" || Filename.check_suffix n ".gold.v" then incr skipped_files) fl;
      let d = List.map (fun (n, ls) -> (coq_of_string n, List.map coq_of_string ls)) fl in
      let mg = string_of_coq (gen_go d) and mc = string_of_coq (gen_coq d) in
      let mt = List.map (fun (f, n) -> (f, string_of_coq n)) (tests_of_dir d) in
      let exp = List.rev !expected in
      tests := !tests + List.length mt;
      if List.length exp >= 2 then incr nontrivial;
      if mg <> !gout then (incr bad_model; Printf.printf "MISMATCH-MODEL dir=%d class=%s -go output differs from the model\n" !idx !cls)
      else if mc <> !cout then (incr bad_model; Printf.printf "MISMATCH-MODEL dir=%d class=%s -coq output differs from the model\n" !idx !cls);
      (* the property read off the implementation's own output: the functions called by the Go
         tests and named by the Coq examples, in order, are the declared test functions *)
      let lines_of s = String.split_on_char '\n' s in
      let starts p l = String.length l >= String.length p && String.sub l 0 (String.length p) = p in
      let after p l = String.sub l (String.length p) (String.length l - String.length p) in
      let upto c l = match String.index_opt l c with Some i -> String.sub l 0 i | None -> l in
      let exp_fns = List.map (fun (f, n) -> (if f then "failing_" else "") ^ "test" ^ n) exp in
      let go_calls = List.filter_map (fun l -> if starts "\tsuite.Equal(true, " l then Some (upto '(' (after "\tsuite.Equal(true, " l)) else None) (lines_of !gout) in
      let go_methods = List.length (List.filter (fun l -> starts "func (suite *GoTestSuite) Test" l) (lines_of !gout)) in
      let coq_ex = List.filter_map (fun l ->
          let fail, l' = if starts "Fail Example " l then (true, after "Fail " l) else (false, l) in
          if starts "Example " l' then
            (match String.split_on_char ' ' l' with
             | _ :: _ :: ":" :: fn :: _ -> Some (fail, fn)
             | _ -> Some (fail, "?"))
          else None) (lines_of !cout) in
      let exp_coq = List.map (fun (f, n) -> (f, (if f then "failing_" else "") ^ "test" ^ n)) exp in
      let is_error s = starts "ERROR" s in
      if not (is_error !gout) && (go_calls <> exp_fns || go_methods <> List.length exp_fns) then begin
        incr bad_spec;
        Printf.printf "MISMATCH-SPEC dir=%d class=%s the generated Go file tests [%s] (%d test methods) but the package declares [%s]\n" !idx !cls
          (String.concat "," go_calls) go_methods (String.concat "," exp_fns)
      end else if not (is_error !cout) && coq_ex <> exp_coq then begin
        incr bad_spec;
        Printf.printf "MISMATCH-SPEC dir=%d class=%s the generated Coq file has examples [%s] but the package declares [%s]\n" !idx !cls
          (String.concat "," (List.map (fun (f, n) -> (if f then "Fail " else "") ^ n) coq_ex)) (String.concat "," exp_fns)
      end else if is_error !gout || is_error !cout then begin
        incr bad_spec;
        Printf.printf "MISMATCH-SPEC dir=%d class=%s test_gen failed: %s %s\n" !idx !cls !gout !cout
      end;
      if mt <> exp then begin
        incr bad_spec;
        Printf.printf "MISMATCH-SPEC dir=%d class=%s tests emitted [%s] but the package declares [%s]\n" !idx !cls
          (String.concat "," (List.map (fun (f, n) -> (if f then "failing_" else "") ^ "test" ^ n) mt))
          (String.concat "," (List.map (fun (f, n) -> (if f then "failing_" else "") ^ "test" ^ n) exp))
      end;
      incr idx
    | _ -> ());
  Printf.printf "DONE dirs=%d tests=%d model_mismatch=%d spec_mismatch=%d vetted=%d vet_failures=%d nontrivial_dirs=%d skipped_files=%d\n"
    !dirs !tests !bad_model !bad_spec !vetted !vet_fail !nontrivial !skipped_files
