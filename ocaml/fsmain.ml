(* Correspondence driver for C12: replays fsdrv's histories on the extracted
   reference model (ref_step) and, for MemFs runs, on the MemFs mirror.
     MISMATCH-SPEC  : the implementation's answer differs from the reference
                      model on a valid history (= the property fails here)
     MISMATCH-MODEL : MemFs differs from its mirror only
     GENERATOR-INVALID : the generator produced a call the reference model
                      rejects (a bug of the harness, not of the code) *)
open Models
open Common

let show (o : fout) : string =
  match o with
  | OFd k -> "F " ^ string_of_int (int_of_nat k)
  | ONoFd -> "NOFD"
  | OUnit -> "U"
  | OBytes b -> "D " ^ rle_of_bytes b
  | OBool true -> "T"
  | OBool false -> "N"
  | ONames l -> "N " ^ (if l = [] then "-" else String.concat "," (List.map (fun n -> string_of_int (int_of_nat n)) l))
  | OInvalid -> "INVALID"

let nat s = nat_of_int (int_of_string s)
let short s = if String.length s > 70 then String.sub s 0 70 ^ "..." else s

let parse (toks : string list) : fop * string =
  let rec split acc = function
    | "->" :: rest -> (List.rev acc, String.concat " " rest)
    | x :: rest -> split (x :: acc) rest
    | [] -> (List.rev acc, "") in
  let (l, obs) = split [] toks in
  let o = match l with
    | ["M"; d] -> FMkdir (nat d)
    | ["C"; d; n] -> FCreate (nat d, nat n)
    | ["A"; k; b] -> FAppend (nat k, bytes_of_rle b)
    | ["X"; k] -> FClose (nat k)
    | ["O"; d; n] -> FOpen (nat d, nat n)
    | ["R"; k; off; len] -> FReadAt (nat k, z_of_decimal off, z_of_decimal len)
    | ["D"; d; n] -> FDelete (nat d, nat n)
    | ["L"; a; b; c; d] -> FLink (nat a, nat b, nat c, nat d)
    | ["K"; d; n; b] -> FAtomicCreate (nat d, nat n, bytes_of_rle b)
    | ["S"; d] -> FList (nat d)
    | _ -> failwith ("unparsable: " ^ String.concat " " toks) in
  (o, obs)

let () =
  let hists = ref 0 and ops = ref 0 and bad_spec = ref 0 and bad_model = ref 0 and gen_invalid = ref 0
  and nontrivial = ref 0 and reads_nonempty = ref 0 and links = ref 0 and nofd = ref 0 in
  let kinds = Hashtbl.create 16 in
  let impl = ref "" and idx = ref 0 and opno = ref 0 in
  let rs = ref fs_init and ms = ref memfs_init in
  let failed = ref false and h_nontrivial = ref false in
  iter_lines (fun line ->
    match split_ws line with
    | [] -> ()
    | ["H"; i] -> impl := i; rs := fs_init; ms := memfs_init; failed := false; h_nontrivial := false; opno := 0
    | ["E"] -> incr hists; if !h_nontrivial then incr nontrivial; incr idx
    | toks ->
      let (o, obs) = parse toks in
      incr ops; incr opno;
      let k = List.hd toks in
      Hashtbl.replace kinds k (1 + (try Hashtbl.find kinds k with Not_found -> 0));
      let (r', ro) = ref_step !rs o in rs := r';
      let is_mem = (!impl = "mem" || !impl = "gmem") in
      let mo = if is_mem then (let (m', mo) = memfs_step !ms o in ms := m'; Some mo) else None in
      (match ro with
       | OBytes (_ :: _) -> incr reads_nonempty; h_nontrivial := true
       | OBool true -> incr links
       | ONoFd -> incr nofd
       | _ -> ());
      if not !failed then begin
        if ro = OInvalid then (failed := true; incr gen_invalid;
                               Printf.printf "GENERATOR-INVALID hist=%d op#%d %s\n" !idx !opno (short line))
        else if show ro <> obs then (failed := true; incr bad_spec;
                                     Printf.printf "MISMATCH-SPEC hist=%d impl=%s op#%d %s ## spec=%s\n" !idx !impl !opno (short line) (short (show ro)))
        else match mo with
          | Some m when show m <> obs -> failed := true; incr bad_model;
            Printf.printf "MISMATCH-MODEL hist=%d impl=%s op#%d %s ## mirror=%s\n" !idx !impl !opno (short line) (short (show m))
          | _ -> ()
      end);
  let ks = Hashtbl.fold (fun k v acc -> (k ^ ":" ^ string_of_int v) :: acc) kinds [] in
  Printf.printf "DONE histories=%d ops=%d spec_mismatch=%d model_mismatch=%d generator_invalid=%d nontrivial_histories=%d reads_nonempty=%d links=%d create_refused=%d kinds=%s\n"
    !hists !ops !bad_spec !bad_model !gen_invalid !nontrivial !reads_nonempty !links !nofd (String.concat "," (List.sort compare ks))
