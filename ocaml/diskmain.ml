(* Correspondence driver for C09: replays diskdrv's histories on the three
   extracted models (registers = the specification, MemDisk mirror, FileDisk
   mirror) and reports
     MISMATCH-SPEC  : the implementation's answer differs from the
                      specification on a history inside its contract
                      (= the property fails on this history)
     MISMATCH-MODEL : it differs from its own mirror model only
   one line per offending history (with the index of the first differing op). *)
open Models
open Common

let bs = nat_of_int 4096

type hist = { n : int; impl : string; mutable ops : (op * string * bool) list (* op, observed, in contract *) }

let show_out (o : out) : string =
  match o with
  | RBlock b -> "B " ^ rle_of_bytes b
  | RUnit -> "U"
  | RSize n -> "N " ^ decimal_of_z n
  | RRefused -> "P"

let parse_op (toks : string list) : op * string * bool =
  match toks with
  | ["R"; a; "->"; "P"] -> (ORead (z_of_decimal a), "P", true)
  | ["R"; a; "->"; "B"; b] -> (ORead (z_of_decimal a), "B " ^ b, true)
  | ["T"; a; buf; "->"; "P"] -> let bb = bytes_of_rle buf in (OReadTo (z_of_decimal a, bb), "P", List.length bb = 4096)
  | ["T"; a; buf; "->"; "B"; b] -> let bb = bytes_of_rle buf in (OReadTo (z_of_decimal a, bb), "B " ^ b, List.length bb = 4096)
  | ["W"; a; v; "->"; r] -> (OWrite (z_of_decimal a, bytes_of_rle v), r, true)
  | ["S"; "->"; "N"; n] -> (OSize, "N " ^ n, true)
  | ["B"; "->"; "U"] -> (OBarrier, "U", true)
  | _ -> failwith ("unparsable: " ^ String.concat " " toks)

let () =
  let total = ref 0 and ops_total = ref 0 and bad_spec = ref 0 and bad_model = ref 0
  and accepted_w = ref 0 and refused = ref 0 and reads_nonzero = ref 0 and nontrivial = ref 0 in
  let cur = ref None in
  let idx = ref 0 in
  let finish (h : hist) =
    incr total;
    let ops = List.rev h.ops in
    let nz = z_of_int h.n in
    let is_file = (h.impl = "file" || h.impl = "afile" || h.impl = "gfile") in
    (* run step by step *)
    let regs = ref (regs_init bs nz) and mem = ref (mem_init bs nz) and file = ref (file_init bs nz) in
    let first_spec = ref (-1) and first_model = ref (-1) and detail = ref "" in
    let in_contract = ref true in
    let hist_nontrivial = ref false in
    List.iteri (fun i (o, obs, ok) ->
      incr ops_total;
      if not ok then in_contract := false;
      let (r', ro) = regs_step bs !regs o in regs := r';
      let mo = if is_file then (let (f', fo) = file_step bs !file o in file := f'; fo)
               else (let (m', mo) = mem_step bs !mem o in mem := m'; mo) in
      (match o, ro with
       | OWrite _, RUnit -> incr accepted_w
       | (ORead _ | OReadTo _), RBlock b -> if List.exists (fun x -> x <> Z0) b then (incr reads_nonzero; hist_nontrivial := true)
       | _, RRefused -> incr refused
       | _ -> ());
      let so = show_out ro and smo = show_out mo in
      if !in_contract && so <> obs && !first_spec < 0 then begin
        first_spec := i;
        detail := Printf.sprintf "op#%d observed=%s spec=%s" i (if String.length obs > 60 then String.sub obs 0 60 else obs)
                    (if String.length so > 60 then String.sub so 0 60 else so) end;
      if smo <> obs && !first_model < 0 then begin
        first_model := i;
        if !detail = "" then
          detail := Printf.sprintf "op#%d observed=%s model=%s" i (if String.length obs > 60 then String.sub obs 0 60 else obs)
                      (if String.length smo > 60 then String.sub smo 0 60 else smo) end) ops;
    if !hist_nontrivial then incr nontrivial;
    if !first_spec >= 0 then (incr bad_spec; Printf.printf "MISMATCH-SPEC hist=%d impl=%s n=%d %s\n" !idx h.impl h.n !detail)
    else if !first_model >= 0 then (incr bad_model; Printf.printf "MISMATCH-MODEL hist=%d impl=%s n=%d %s\n" !idx h.impl h.n !detail);
    incr idx
  in
  iter_lines (fun line ->
    match split_ws line with
    | [] -> ()
    | ["H"; n; impl] -> cur := Some { n = int_of_string n; impl; ops = [] }
    | ["E"] -> (match !cur with Some h -> finish h; cur := None | None -> ())
    | toks -> (match !cur with Some h -> h.ops <- parse_op toks :: h.ops | None -> ()));
  Printf.printf "DONE histories=%d ops=%d spec_mismatch=%d model_mismatch=%d accepted_writes=%d refused=%d reads_nonzero=%d nontrivial_histories=%d\n"
    !total !ops_total !bad_spec !bad_model !accepted_w !refused !reads_nonzero !nontrivial
