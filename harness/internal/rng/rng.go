// Package rng is the single PRNG all generators derive their choices from
// (splitmix64), so that a seed replays exactly.
package rng

type R struct{ s uint64 }

func New(seed uint64) *R { return &R{s: seed*0x9E3779B97F4A7C15 + 0x1234567} }

func (r *R) U64() uint64 {
	r.s += 0x9E3779B97F4A7C15
	z := r.s
	z = (z ^ (z >> 30)) * 0xBF58476D1CE4E5B9
	z = (z ^ (z >> 27)) * 0x94D049BB133111EB
	return z ^ (z >> 31)
}

// Intn returns a value in [0,n).
func (r *R) Intn(n int) int {
	if n <= 0 {
		return 0
	}
	return int(r.U64() % uint64(n))
}

func (r *R) Bool() bool { return r.U64()&1 == 1 }

// Pick returns one of xs.
func Pick[T any](r *R, xs []T) T { return xs[r.Intn(len(xs))] }

func (r *R) Bytes(n int) []byte {
	b := make([]byte, n)
	for i := range b {
		b[i] = byte(r.U64())
	}
	return b
}

// Fork derives an independent generator (for per-case seeds).
func (r *R) Fork() *R { return New(r.U64()) }
