package catalog

import (
	"fmt"
	"strings"

	"verif/harness/internal/rng"
)

// GenConcItems makes n concurrent programs (C03) whose Go result does not
// depend on the schedule: goroutines update shared variables with commuting
// additions inside critical sections of one mutex, one of them publishes a
// value through a pointer before its Done, the main goroutine may take part,
// and everything is joined by a WaitGroup before the result is read.
func GenConcItems(seed uint64, n int) []*Item {
	r := rng.New(seed)
	var items []*Item
	for i := 0; i < n; i++ {
		g := r.Fork()
		if g.Intn(3) == 0 {
			// second family: no lock at all; every worker owns a cell, the join orders its writes before the reads
			k := 2 + g.Intn(2)
			var sb strings.Builder
			sb.WriteString("import \"sync\"\n\nfunc F(a uint64) uint64 {\n\twg := new(sync.WaitGroup)\n")
			for w := 0; w < k; w++ {
				fmt.Fprintf(&sb, "\tp%d := new(uint64)\n", w)
			}
			fmt.Fprintf(&sb, "\twg.Add(%d)\n", k)
			res := "a"
			for w := 0; w < k; w++ {
				fmt.Fprintf(&sb, "\tgo func() {\n\t\t*p%d = a*%d + %d\n", w, 2+g.Intn(5), g.Intn(50))
				if g.Bool() {
					fmt.Fprintf(&sb, "\t\t*p%d = *p%d + %d\n", w, w, 1+g.Intn(9))
				}
				sb.WriteString("\t\twg.Done()\n\t}()\n")
				res += fmt.Sprintf(" + %d*(*p%d)", 100*(w+1), w)
			}
			fmt.Fprintf(&sb, "\twg.Wait()\n\treturn %s\n}\n", res)
			items = append(items, &Item{ID: fmt.Sprintf("conc_gen_%d_%d", seed, i), Files: map[string]string{}, Main: sb.String(),
				Calls: [][]string{{"F", fmt.Sprint(1 + g.Intn(9))}}})
			continue
		}
		workers := 1 + g.Intn(2)
		twoVars := g.Bool()
		publish := g.Bool()
		mainTakesPart := g.Intn(3) == 0
		var sb strings.Builder
		sb.WriteString("import \"sync\"\n\nfunc F(a uint64) uint64 {\n\tm := new(sync.Mutex)\n\twg := new(sync.WaitGroup)\n\tvar x uint64 = a\n")
		if twoVars {
			fmt.Fprintf(&sb, "\tvar y uint64 = %d\n", g.Intn(10))
		}
		if publish {
			sb.WriteString("\tp := new(uint64)\n")
		}
		fmt.Fprintf(&sb, "\twg.Add(%d)\n", workers)
		budget := 3 // critical sections in all (the explorer visits every interleaving)
		for w := 0; w < workers; w++ {
			sb.WriteString("\tgo func() {\n")
			sections := 1
			if budget > workers-w && g.Bool() {
				sections = 2
			}
			budget -= sections
			for s := 0; s < sections; s++ {
				sb.WriteString("\t\tm.Lock()\n")
				fmt.Fprintf(&sb, "\t\tx = x + %d\n", 1+g.Intn(9))
				if twoVars && g.Bool() {
					switch g.Intn(3) {
					case 0:
						fmt.Fprintf(&sb, "\t\ty = y + %d\n", 1+g.Intn(9))
					case 1:
						sb.WriteString("\t\ty += a\n")
					default:
						sb.WriteString("\t\ty++\n")
					}
				}
				sb.WriteString("\t\tm.Unlock()\n")
			}
			if publish && w == 0 {
				fmt.Fprintf(&sb, "\t\t*p = a + %d\n", 10+g.Intn(90))
			}
			sb.WriteString("\t\twg.Done()\n\t}()\n")
		}
		if mainTakesPart {
			fmt.Fprintf(&sb, "\tm.Lock()\n\tx = x + %d\n\tm.Unlock()\n", 100+g.Intn(100))
		}
		sb.WriteString("\twg.Wait()\n")
		res := "x"
		if twoVars {
			res += " + 1000*y"
		}
		if publish {
			res += " + 1000000*(*p)"
		}
		// the last reads are after the join: no lock needed, as in Go's memory model (Wait happens after Done)
		fmt.Fprintf(&sb, "\treturn %s\n}\n", res)
		items = append(items, &Item{ID: fmt.Sprintf("conc_gen_%d_%d", seed, i), Files: map[string]string{}, Main: sb.String(),
			Calls: [][]string{{"F", fmt.Sprint(1 + g.Intn(9))}}})
	}
	return items
}
