// Package catalog holds the catalogue of out-of-subset, look-alike and
// edge-of-subset constructs shared by the drivers.
package catalog

import (
	_ "embed"
	"strings"
)

//go:embed items.txt
var text string

type Item struct {
	ID     string
	Files  map[string]string // extra files (relative path -> contents)
	Main   string            // the item's package body, without the package clause
	Calls  [][]string
	Nondet bool // the Go result may depend on the schedule (only inclusion is checked)
}

//go:embed conc.txt
var concText string

// ConcItems: the concurrent programs (C03).
func ConcItems() []*Item { return parse(concText) }

func Items() []*Item { return parse(text) }

func parse(text string) []*Item {
	var items []*Item
	var cur *Item
	var dst *string
	var curFile string
	flush := func() {
		if cur != nil && curFile != "" && dst != nil {
			cur.Files[curFile] = *dst
		}
		curFile = ""
	}
	for _, l := range strings.Split(text, "\n") {
		switch {
		case strings.HasPrefix(l, "### id:"):
			flush()
			cur = &Item{ID: strings.TrimSpace(strings.TrimPrefix(l, "### id:")), Files: map[string]string{}}
			items = append(items, cur)
			dst = nil
		case strings.HasPrefix(l, "### file:"):
			flush()
			curFile = strings.TrimSpace(strings.TrimPrefix(l, "### file:"))
			dst = new(string)
		case strings.HasPrefix(l, "### nondet"):
			cur.Nondet = true
		case strings.HasPrefix(l, "### main"):
			flush()
			dst = &cur.Main
		case strings.HasPrefix(l, "### call:"):
			cur.Calls = append(cur.Calls, strings.Fields(strings.TrimPrefix(l, "### call:")))
		case strings.HasPrefix(l, "#"):
		default:
			if dst != nil {
				*dst += l + "\n"
			}
		}
	}
	flush()
	return items
}
