// Package enc renders byte slices compactly for the line protocols: segments
// joined by ','; a segment is a run "hh*count" or a literal "=hexdigits";
// "-" is the empty slice.
package enc

import (
	"encoding/hex"
	"fmt"
	"strings"
)

func RLE(b []byte) string {
	if len(b) == 0 {
		return "-"
	}
	var segs []string
	lit := []byte{}
	flush := func() {
		if len(lit) > 0 {
			segs = append(segs, "="+hex.EncodeToString(lit))
			lit = lit[:0]
		}
	}
	i := 0
	for i < len(b) {
		j := i
		for j < len(b) && b[j] == b[i] {
			j++
		}
		if j-i >= 4 {
			flush()
			segs = append(segs, fmt.Sprintf("%02x*%d", b[i], j-i))
		} else {
			lit = append(lit, b[i:j]...)
		}
		i = j
	}
	flush()
	return strings.Join(segs, ",")
}
