package progen

import (
	"fmt"
	"regexp"
	"strings"

	"verif/harness/internal/rng"
)

// Generator for the MiniGoC fragment (coq/theories/Tr/MiniGoC.v): packages of
// first-order functions over uint64 and bool that call each other and
// themselves.  Every package is printed as Go and, function by function, as a
// cfunc term.  Functions are printed in a shuffled order; goose has to emit
// them callee first.

type CProg struct {
	Stateful bool // terms of Tr/MiniGoS.v instead of Tr/MiniGoC.v
	Name     string
	Src      string            // the Go file
	Names    []string          // functions in source order
	Terms    map[string]string // function -> cfunc term
	Calls    []Call
	Bad      string // a function goose must reject ("" if none)
}

type cfn struct {
	name   string
	params []cvar
	res    byte // 'u' | 'b'
	rec    bool // recursive on its first parameter
}

type cvar struct {
	name string
	t    byte
}

type cgen struct {
	r       *rng.R
	funcs   []*cfn // callable: the functions generated so far
	self    *cfn
	selfOK  int // self calls still allowed in this body
	vars    []cvar
	used    map[string]bool
	fresh   int
	calls   int               // calls left for this body
	scopeOf map[string]string // variable -> indentation of the block that declares it (parameters: the body's)
	st      bool              // MiniGoS: var-declared locals, assignment, op-assignment, ++/--
	ptr     map[string]bool   // variable -> declared with var (assignable)
}

// the constructor of the body term in the fragment being generated
func (g *cgen) ctor(name string) string {
	if !g.st {
		return "C" + name
	}
	if name == "If" {
		return "SIfT"
	}
	return "S" + name
}

type cex struct {
	gosrc string
	term  string
	konst bool
}

func (g *cgen) varsOf(t byte) []cvar {
	var vs []cvar
	for _, v := range g.vars {
		if v.t == t {
			vs = append(vs, v)
		}
	}
	return vs
}

func (g *cgen) useVar(t byte) (cex, bool) {
	vs := g.varsOf(t)
	if len(vs) == 0 {
		return cex{}, false
	}
	v := rng.Pick(g.r, vs)
	g.used[v.name] = true
	return cex{gosrc: v.name, term: fmt.Sprintf("(CVar %q)", v.name)}, true
}

func (g *cgen) litU() cex {
	var n uint64
	switch g.r.Intn(6) {
	case 0:
		n = 0
	case 1:
		n = 1
	case 2:
		n = uint64(g.r.Intn(100))
	case 3:
		n = 1<<64 - 1 - uint64(g.r.Intn(3))
	case 4:
		n = 1 << uint(g.r.Intn(64))
	default:
		n = g.r.U64()
	}
	return cex{gosrc: fmt.Sprintf("%d", n), term: fmt.Sprintf("(CLit %d%%Z)", n), konst: true}
}

// a non-constant operand of type t, if the scope has one
func (g *cgen) nonConst(t byte, depth int) (cex, bool) {
	for i := 0; i < 4; i++ {
		var e cex
		if t == 'u' {
			e = g.genU(depth)
		} else {
			e = g.genB(depth)
		}
		if !e.konst {
			return e, true
		}
	}
	return g.useVar(t)
}

func (g *cgen) call(t byte, depth int) (cex, bool) {
	if g.calls <= 0 {
		return cex{}, false
	}
	var cands []*cfn
	for _, f := range g.funcs {
		if f.res == t {
			cands = append(cands, f)
		}
	}
	if g.self != nil && g.self.res == t && g.selfOK > 0 {
		cands = append(cands, g.self, g.self)
	}
	if len(cands) == 0 {
		return cex{}, false
	}
	f := rng.Pick(g.r, cands)
	g.calls--
	var gs []string
	term := "CANil"
	var ts []string
	for i, p := range f.params {
		var a cex
		switch {
		case f == g.self && i == 0:
			// the recursion goes down: n - 1 (the guard n == 0 returned before)
			g.selfOK--
			g.used[p.name] = true
			a = cex{gosrc: p.name + " - 1", term: fmt.Sprintf("(CBin OSub (CVar %q) (CLit 1%%Z))", p.name)}
		case f.rec && i == 0:
			// a bounded depth for a recursive callee
			e, ok := g.nonConst('u', depth-1)
			if !ok {
				e = g.litU()
			}
			a = cex{gosrc: "(" + e.gosrc + ") % 4", term: fmt.Sprintf("(CBin ORem %s (CLit 4%%Z))", e.term)}
		case p.t == 'u':
			a = g.genU(depth - 1)
		default:
			a = g.genB(depth - 1)
		}
		gs = append(gs, a.gosrc)
		ts = append(ts, a.term)
	}
	for i := len(ts) - 1; i >= 0; i-- {
		term = fmt.Sprintf("(CACons %s %s)", ts[i], term)
	}
	return cex{gosrc: fmt.Sprintf("%s(%s)", f.name, strings.Join(gs, ", ")), term: fmt.Sprintf("(CCall %q %s)", f.name, term)}, true
}

func (g *cgen) bin(op, name string, a, b cex) cex {
	return cex{gosrc: "(" + a.gosrc + " " + op + " " + b.gosrc + ")", term: fmt.Sprintf("(CBin %s %s %s)", name, a.term, b.term), konst: a.konst && b.konst}
}

func (g *cgen) genU(depth int) cex {
	if depth <= 0 {
		if e, ok := g.useVar('u'); ok && g.r.Intn(3) != 0 {
			return e
		}
		return g.litU()
	}
	for tries := 0; tries < 8; tries++ {
		switch g.r.Intn(9) {
		case 0:
			return g.litU()
		case 1, 2:
			if e, ok := g.useVar('u'); ok {
				return e
			}
		case 3, 4:
			ops := [][2]string{{"+", "OAdd"}, {"-", "OSub"}, {"*", "OMul"}, {"&", "OAnd"}, {"|", "OOr"}, {"^", "OXor"}}
			o := rng.Pick(g.r, ops)
			a, ok := g.nonConst('u', depth-1)
			if !ok {
				continue
			}
			b := g.genU(depth - 1)
			if g.r.Bool() {
				return g.bin(o[0], o[1], b, a)
			}
			return g.bin(o[0], o[1], a, b)
		case 5:
			// division by a non-zero divisor
			o := rng.Pick(g.r, [][2]string{{"/", "OQuo"}, {"%", "ORem"}})
			a, ok := g.nonConst('u', depth-1)
			if !ok {
				continue
			}
			d, ok := g.nonConst('u', depth-1)
			if !ok {
				continue
			}
			one := cex{gosrc: "1", term: "(CLit 1%Z)", konst: true}
			return g.bin(o[0], o[1], a, g.bin("|", "OOr", d, one))
		case 6:
			// shift by less than the width
			o := rng.Pick(g.r, [][2]string{{"<<", "OShl"}, {">>", "OShr"}})
			a, ok := g.nonConst('u', depth-1)
			if !ok {
				continue
			}
			c, ok := g.nonConst('u', depth-1)
			if !ok {
				continue
			}
			w := cex{gosrc: "64", term: "(CLit 64%Z)", konst: true}
			return g.bin(o[0], o[1], a, g.bin("%", "ORem", c, w))
		case 7, 8:
			if e, ok := g.call('u', depth); ok {
				return e
			}
		}
	}
	return g.litU()
}

func (g *cgen) genB(depth int) cex {
	lit := func() cex {
		b := g.r.Bool()
		return cex{gosrc: fmt.Sprintf("%t", b), term: fmt.Sprintf("(CBool %t)", b), konst: true}
	}
	if depth <= 0 {
		if e, ok := g.useVar('b'); ok {
			return e
		}
		if a, ok := g.useVar('u'); ok {
			return g.bin("<", "OLt", a, g.litU())
		}
		return lit()
	}
	for tries := 0; tries < 8; tries++ {
		switch g.r.Intn(10) {
		case 0:
			if g.r.Intn(3) == 0 {
				return lit()
			}
		case 1:
			if e, ok := g.useVar('b'); ok {
				return e
			}
		case 2, 3, 4:
			ops := [][2]string{{"<", "OLt"}, {"<=", "OLe"}, {">", "OGt"}, {">=", "OGe"}, {"==", "OEq"}, {"!=", "ONe"}}
			o := rng.Pick(g.r, ops)
			a, ok := g.nonConst('u', depth-1)
			if !ok {
				continue
			}
			b := g.genU(depth - 1)
			if g.r.Bool() {
				return g.bin(o[0], o[1], b, a)
			}
			return g.bin(o[0], o[1], a, b)
		case 5, 6:
			o := rng.Pick(g.r, [][2]string{{"&&", "OLAnd"}, {"||", "OLOr"}})
			a, ok := g.nonConst('b', depth-1)
			if !ok {
				continue
			}
			b, ok := g.nonConst('b', depth-1)
			if !ok {
				continue
			}
			return g.bin(o[0], o[1], a, b)
		case 7:
			a, ok := g.nonConst('b', depth-1)
			if !ok {
				continue
			}
			return cex{gosrc: "!" + a.gosrc, term: fmt.Sprintf("(CNot %s)", a.term)}
		case 8:
			o := rng.Pick(g.r, [][2]string{{"==", "OEq"}, {"!=", "ONe"}})
			a, ok := g.nonConst('b', depth-1)
			if !ok {
				continue
			}
			b, ok := g.nonConst('b', depth-1)
			if !ok {
				continue
			}
			return g.bin(o[0], o[1], a, b)
		case 9:
			if e, ok := g.call('b', depth); ok {
				return e
			}
		}
	}
	if a, ok := g.useVar('u'); ok {
		return g.bin(">=", "OGe", a, g.litU())
	}
	return lit()
}

func (g *cgen) gen(t byte, depth int) cex {
	if t == 'u' {
		return g.genU(depth)
	}
	return g.genB(depth)
}

// body in tail form; returns the Go lines and the cbody term
func (g *cgen) body(res byte, depth int, ind string) (string, string) {
	ret := func() (string, string) {
		e := g.gen(res, 2)
		return ind + "return " + e.gosrc + "\n", fmt.Sprintf("(%s %s)", g.ctor("Ret"), e.term)
	}
	if depth <= 0 {
		return ret()
	}
	choice := g.r.Intn(8)
	if g.st {
		choice = g.r.Intn(18)
	}
	switch choice {
	case 15, 16, 17:
		if s, tm, ok := g.localIf(res, depth, ind); ok {
			return s, tm
		}
		return g.varDecl(res, depth, ind)
	case 8, 9, 10:
		return g.varDecl(res, depth, ind)
	case 11, 12, 13, 14:
		if s, tm, ok := g.assign(res, depth, ind); ok {
			return s, tm
		}
		return g.varDecl(res, depth, ind)
	case 0, 1, 2:
		// x := e; rest
		t := byte('u')
		if g.r.Intn(3) == 0 {
			t = 'b'
		}
		e, ok := g.nonConst(t, 2)
		if !ok {
			return ret()
		}
		g.fresh++
		x := fmt.Sprintf("%s%d", rng.Pick(g.r, []string{"v", "t", "acc", "w"}), g.fresh)
		if ind != "\t" && g.r.Intn(3) == 0 {
			// inside a branch a declaration may hide a parameter or an outer variable (of any type);
			// not the recursion's own n and r
			var cands []string
			for _, v := range g.vars {
				if v.name != "n" && v.name != "r" && g.scopeOf[v.name] != ind {
					cands = append(cands, v.name)
				}
			}
			if len(cands) > 0 {
				x = rng.Pick(g.r, cands)
			}
		}
		saved := g.vars
		var inner []cvar
		for _, v := range g.vars {
			if v.name != x {
				inner = append(inner, v)
			}
		}
		g.vars = append(inner, cvar{x, t})
		outerScope, had := g.scopeOf[x]
		outerPtr := g.ptr[x]
		g.scopeOf[x] = ind
		g.ptr[x] = false
		kgo, kterm := g.body(res, depth-1, ind)
		g.vars = saved
		g.ptr[x] = outerPtr
		if had {
			g.scopeOf[x] = outerScope
		} else {
			delete(g.scopeOf, x)
		}
		if !mentions(kgo, x) {
			// Go refuses an unused variable: leave the declaration out
			return kgo, kterm
		}
		return ind + x + " := " + e.gosrc + "\n" + kgo, fmt.Sprintf("(%s %q %s %s)", g.ctor("Let"), x, e.term, kterm)
	case 3, 4:
		// if c { ... } else { ... }
		c, ok := g.nonConst('b', 2)
		if !ok {
			return ret()
		}
		tgo, tterm := g.body(res, depth-1, ind+"\t")
		egoo, eterm := g.body(res, depth-1, ind+"\t")
		return ind + "if " + c.gosrc + " {\n" + tgo + ind + "} else {\n" + egoo + ind + "}\n", fmt.Sprintf("(%s %s %s %s)", g.ctor("If"), c.term, tterm, eterm)
	case 5, 6:
		// if c { ...; return e }; rest
		c, ok := g.nonConst('b', 2)
		if !ok {
			return ret()
		}
		tgo, tterm := g.body(res, depth-1, ind+"\t")
		kgo, kterm := g.body(res, depth-1, ind)
		return ind + "if " + c.gosrc + " {\n" + tgo + ind + "}\n" + kgo, fmt.Sprintf("(%s %s %s %s)", g.ctor("If"), c.term, tterm, kterm)
	}
	return ret()
}

func tyGo(t byte) string {
	if t == 'u' {
		return "uint64"
	}
	return "bool"
}

func tyOf(t byte) *Type {
	if t == 'u' {
		return TU64
	}
	return TBool
}

// GenerateCalls makes one package.  neg: one more function that goose has to
// reject (a parameter with the name of its function), called by nobody.
func GenerateCalls(r *rng.R, name string, neg bool, stateful bool) *CProg {
	p := &CProg{Name: name, Terms: map[string]string{}, Stateful: stateful}
	g := &cgen{r: r, st: stateful}
	nf := 2 + r.Intn(4)
	pnames := []string{"a", "b", "c", "x", "y", "z", "k", "m", "p", "q"}
	var texts []string
	for i := 0; i < nf; i++ {
		f := &cfn{res: 'u'}
		if r.Intn(4) == 0 {
			f.res = 'b'
		}
		exported := i == nf-1 || r.Intn(3) != 0
		if exported {
			f.name = fmt.Sprintf("%s%d", rng.Pick(r, []string{"F", "Sum", "Step", "Calc"}), i)
		} else {
			f.name = fmt.Sprintf("%s%d", rng.Pick(r, []string{"h", "aux", "inner"}), i)
		}
		f.rec = r.Intn(2) == 0
		np := r.Intn(4)
		if f.rec {
			f.params = append(f.params, cvar{"n", 'u'})
		}
		perm := append([]string{}, pnames...)
		for j := 0; j < np; j++ {
			k := j + r.Intn(len(perm)-j)
			perm[j], perm[k] = perm[k], perm[j]
			t := byte('u')
			if r.Intn(3) == 0 {
				t = 'b'
			}
			f.params = append(f.params, cvar{perm[j], t})
		}
		g.vars = append([]cvar{}, f.params...)
		g.used = map[string]bool{}
		g.scopeOf = map[string]string{}
		g.ptr = map[string]bool{}
		for _, v := range f.params {
			g.scopeOf[v.name] = "\t"
		}
		g.fresh = 0
		g.calls = 3
		g.self, g.selfOK = nil, 0
		var bgo, bterm string
		if f.rec {
			// if n == 0 { return base }; r := self(n-1, ...); rest
			base := g.gen(f.res, 1)
			g.self, g.selfOK = f, 1
			rc, _ := g.call(f.res, 2)
			g.selfOK = 0
			g.vars = append(g.vars, cvar{"r", f.res})
			g.scopeOf["r"] = "\t"
			d := 1 + r.Intn(2)
			if g.st {
				d = 2 + r.Intn(3)
			}
			kgo, kterm := g.body(f.res, d, "\t")
			if !mentions(kgo, "r") {
				// the rest does not mention r: it runs under a condition and r is combined afterwards
				var tailTerm string
				tail := fgoTail(f.res, &tailTerm, g)
				if c, ok := g.nonConst('b', 2); ok {
					kgo = "\tif " + c.gosrc + " {\n" + indent(kgo) + "\t}\n" + tail
					kterm = fmt.Sprintf("(%s %s %s %s)", g.ctor("If"), c.term, kterm, tailTerm)
				} else {
					kgo, kterm = tail, tailTerm
				}
			}
			fgo, fterm := kgo, kterm
			bgo = "\tif n == 0 {\n\t\treturn " + base.gosrc + "\n\t}\n\tr := " + rc.gosrc + "\n" + fgo
			bterm = fmt.Sprintf("(%s (CBin OEq (CVar \"n\") (CLit 0%%Z)) (%s %s) (%s \"r\" %s %s))", g.ctor("If"), g.ctor("Ret"), base.term, g.ctor("Let"), rc.term, fterm)
		} else {
			d := 1 + r.Intn(3)
			if g.st {
				d = 2 + r.Intn(4)
			}
			bgo, bterm = g.body(f.res, d, "\t")
		}
		var ps, pts []string
		for _, v := range f.params {
			ps = append(ps, v.name+" "+tyGo(v.t))
			pts = append(pts, fmt.Sprintf("%q", v.name))
		}
		texts = append(texts, fmt.Sprintf("func %s(%s) %s {\n%s}\n", f.name, strings.Join(ps, ", "), tyGo(f.res), bgo))
		if g.st {
			var tps []string
			for _, v := range f.params {
				tps = append(tps, fmt.Sprintf("(%q, %s)", v.name, tyCoq(v.t)))
			}
			p.Terms[f.name] = fmt.Sprintf("{| sf_name := %q; sf_params := [%s]; sf_body := %s |}", f.name, strings.Join(tps, "; "), bterm)
		} else {
			p.Terms[f.name] = fmt.Sprintf("{| cf_name := %q; cf_params := [%s]; cf_body := %s |}", f.name, strings.Join(pts, "; "), bterm)
		}
		p.Names = append(p.Names, f.name)
		g.funcs = append(g.funcs, f)
		if exported {
			for k := 0; k < 2+r.Intn(2); k++ {
				c := Call{Fn: f.name, ResT: []*Type{tyOf(f.res)}}
				for j, v := range f.params {
					var a uint64
					switch {
					case f.rec && j == 0:
						a = uint64(r.Intn(5))
					case v.t == 'b':
						a = uint64(r.Intn(2))
					case r.Intn(3) == 0:
						a = r.U64()
					default:
						a = uint64(r.Intn(50))
					}
					c.Args = append(c.Args, a)
					c.ArgT = append(c.ArgT, tyOf(v.t))
				}
				p.Calls = append(p.Calls, c)
			}
		}
	}
	if neg {
		bad := fmt.Sprintf("Bad%d", nf)
		texts = append(texts, fmt.Sprintf("func %s(%s uint64) uint64 {\n\treturn %s + 1\n}\n", bad, bad, bad))
		if g.st && r.Bool() {
			// the other refusal of the fragment: assignment to a variable declared with :=
			texts[len(texts)-1] = fmt.Sprintf("func %s(a uint64) uint64 {\n\tx := a + 1\n\tx = x + 2\n\treturn x\n}\n", bad)
			p.Terms[bad] = fmt.Sprintf("{| sf_name := %q; sf_params := [(\"a\", TU64)]; sf_body := (SLet \"x\" (CBin OAdd (CVar \"a\") (CLit 1%%Z)) (SAsg \"x\" (CBin OAdd (CVar \"x\") (CLit 2%%Z)) (SRet (CVar \"x\")))) |}", bad)
		} else if g.st {
			p.Terms[bad] = fmt.Sprintf("{| sf_name := %q; sf_params := [(%q, TU64)]; sf_body := (SRet (CBin OAdd (CVar %q) (CLit 1%%Z))) |}", bad, bad, bad)
		} else {
			p.Terms[bad] = fmt.Sprintf("{| cf_name := %q; cf_params := [%q]; cf_body := (CRet (CBin OAdd (CVar %q) (CLit 1%%Z))) |}", bad, bad, bad)
		}
		p.Names = append(p.Names, bad)
		p.Bad = bad
		p.Calls = append(p.Calls, Call{Fn: bad, Args: []uint64{41}, ArgT: []*Type{TU64}, ResT: []*Type{TU64}})
	}
	// shuffled source order
	order := make([]int, len(texts))
	for i := range order {
		order[i] = i
	}
	for i := len(order) - 1; i > 0; i-- {
		j := r.Intn(i + 1)
		order[i], order[j] = order[j], order[i]
	}
	var sb strings.Builder
	fmt.Fprintf(&sb, "package %s\n\n", name)
	var names []string
	for _, i := range order {
		sb.WriteString(texts[i])
		sb.WriteString("\n")
		names = append(names, p.Names[i])
	}
	p.Names = names
	p.Src = sb.String()
	return p
}

func mentions(src, x string) bool {
	return regexp.MustCompile(`\b` + x + `\b`).MatchString(src)
}

func indent(s string) string {
	var sb strings.Builder
	for _, l := range strings.Split(strings.TrimSuffix(s, "\n"), "\n") {
		sb.WriteString("\t" + l + "\n")
	}
	return sb.String()
}

// the tail after a conditional: the combination of r with one more operand
func fgoTail(res byte, out *string, g *cgen) string {
	if res == 'u' {
		e := g.genU(1)
		*out = fmt.Sprintf("(%s (CBin OAdd (CVar \"r\") %s))", g.ctor("Ret"), e.term)
		return "\treturn r + " + e.gosrc + "\n"
	}
	*out = "(" + g.ctor("Ret") + " (CNot (CVar \"r\")))"
	return "\treturn !r\n"
}

func tyCoq(t byte) string {
	if t == 'u' {
		return "TU64"
	}
	return "TBool"
}

// reads: x occurs somewhere other than as the target of an assignment (Go wants
// every declared variable read)
func reads(src, x string) bool {
	re := regexp.MustCompile(`\b` + x + `\b(\s*(=[^=]|\+=|-=|\|=|&=|\^=|\+\+|--))?`)
	for _, m := range re.FindAllStringSubmatch(src, -1) {
		if m[1] == "" {
			return true
		}
	}
	return false
}

// var x T [= e]; rest (MiniGoS)
func (g *cgen) varDecl(res byte, depth int, ind string) (string, string) {
	t := byte('u')
	if g.r.Intn(3) == 0 {
		t = 'b'
	}
	g.fresh++
	x := fmt.Sprintf("%s%d", rng.Pick(g.r, []string{"cell", "sum", "st", "cnt"}), g.fresh)
	if ind != "\t" && g.r.Intn(4) == 0 {
		var cands []string
		for _, v := range g.vars {
			if v.name != "n" && v.name != "r" && g.scopeOf[v.name] != ind {
				cands = append(cands, v.name)
			}
		}
		if len(cands) > 0 {
			x = rng.Pick(g.r, cands)
		}
	}
	decl, init := ind+"var "+x+" "+tyGo(t)+"\n", "None"
	if g.r.Intn(4) != 0 {
		e := g.gen(t, 2)
		decl = ind + "var " + x + " " + tyGo(t) + " = " + e.gosrc + "\n"
		init = "(Some " + e.term + ")"
	}
	saved := g.vars
	var inner []cvar
	for _, v := range g.vars {
		if v.name != x {
			inner = append(inner, v)
		}
	}
	g.vars = append(inner, cvar{x, t})
	outerScope, had := g.scopeOf[x]
	outerPtr := g.ptr[x]
	g.scopeOf[x] = ind
	g.ptr[x] = true
	var kgo, kterm string
	for tries := 0; tries < 3; tries++ {
		kgo, kterm = g.body(res, depth-1, ind)
		if reads(kgo, x) {
			break
		}
	}
	if !reads(kgo, x) {
		// a continuation that reads x for sure
		xe := cex{gosrc: x, term: fmt.Sprintf("(CVar %q)", x)}
		switch {
		case t == res:
			kgo, kterm = ind+"return "+x+"\n", fmt.Sprintf("(SRet %s)", xe.term)
		case t == 'u':
			l := g.litU()
			kgo, kterm = ind+"return "+x+" > "+l.gosrc+"\n", fmt.Sprintf("(SRet (CBin OGt %s %s))", xe.term, l.term)
		default:
			a, b := g.genU(1), g.genU(1)
			kgo = ind + "if " + x + " {\n" + ind + "\treturn " + a.gosrc + "\n" + ind + "}\n" + ind + "return " + b.gosrc + "\n"
			kterm = fmt.Sprintf("(SIfT %s (SRet %s) (SRet %s))", xe.term, a.term, b.term)
		}
	}
	g.vars = saved
	g.ptr[x] = outerPtr
	if had {
		g.scopeOf[x] = outerScope
	} else {
		delete(g.scopeOf, x)
	}
	return decl + kgo, fmt.Sprintf("(SVarD %q %s %s %s)", x, tyCoq(t), init, kterm)
}

// x = e / x op= e / x++ on a var-declared variable in scope; rest (MiniGoS)
func (g *cgen) assign(res byte, depth int, ind string) (string, string, bool) {
	var cands []cvar
	for _, v := range g.vars {
		if g.ptr[v.name] {
			cands = append(cands, v)
		}
	}
	if len(cands) == 0 {
		return "", "", false
	}
	v := rng.Pick(g.r, cands)
	var line, head string
	switch k := g.r.Intn(5); {
	case k < 2 || v.t == 'b':
		e := g.gen(v.t, 2)
		line = ind + v.name + " = " + e.gosrc + "\n"
		head = fmt.Sprintf("SAsg %q %s", v.name, e.term)
	case k < 4:
		o := rng.Pick(g.r, [][2]string{{"+=", "OAdd"}, {"-=", "OSub"}, {"|=", "OOr"}, {"&=", "OAnd"}, {"^=", "OXor"}})
		e := g.genU(2)
		line = ind + v.name + " " + o[0] + " " + e.gosrc + "\n"
		head = fmt.Sprintf("SOpAsg %s %q %s", o[1], v.name, e.term)
	default:
		inc := g.r.Bool()
		line = ind + v.name + map[bool]string{true: "++", false: "--"}[inc] + "\n"
		head = fmt.Sprintf("SIncD %t %q", inc, v.name)
	}
	kgo, kterm := g.body(res, depth-1, ind)
	return line + kgo, fmt.Sprintf("(%s %s)", head, kterm), true
}

// the assignable variables in scope
func (g *cgen) ptrVars() []cvar {
	var vs []cvar
	for _, v := range g.vars {
		if g.ptr[v.name] {
			vs = append(vs, v)
		}
	}
	return vs
}

// one assignment form on v: the Go line and the sstmt term
func (g *cgen) simpleAssign(v cvar, ind string) (string, string) {
	switch k := g.r.Intn(5); {
	case k < 2 || v.t == 'b':
		e := g.gen(v.t, 2)
		return ind + v.name + " = " + e.gosrc + "\n", fmt.Sprintf("(TAsg %q %s)", v.name, e.term)
	case k < 4:
		o := rng.Pick(g.r, [][2]string{{"+=", "OAdd"}, {"-=", "OSub"}, {"|=", "OOr"}, {"&=", "OAnd"}, {"^=", "OXor"}})
		e := g.genU(2)
		return ind + v.name + " " + o[0] + " " + e.gosrc + "\n", fmt.Sprintf("(TOpAsg %s %q %s)", o[1], v.name, e.term)
	}
	inc := g.r.Bool()
	return ind + v.name + map[bool]string{true: "++", false: "--"}[inc] + "\n", fmt.Sprintf("(TIncD %t %q)", inc, v.name)
}

// a list of statements without control effects (the branch of an if that more statements follow)
func (g *cgen) locBlock(depth int, ind string) (string, string) {
	vs := g.ptrVars()
	var lines []string
	var heads []string // "(LSimple st" / "(LIfL c th el" : each takes the rest as its last argument
	n := 1 + g.r.Intn(2)
	for i := 0; i < n; i++ {
		v := rng.Pick(g.r, vs)
		switch k := g.r.Intn(5); {
		case k == 0 && v.t == 'u':
			// a local of the branch, used by the assignment after it
			g.fresh++
			x := fmt.Sprintf("loc%d", g.fresh)
			e, ok := g.nonConst('u', 2)
			if !ok {
				e = cex{gosrc: v.name, term: fmt.Sprintf("(CVar %q)", v.name)}
			}
			e2 := g.genU(1)
			lines = append(lines, ind+x+" := "+e.gosrc+"\n", ind+v.name+" = ("+x+" + "+e2.gosrc+")\n")
			heads = append(heads, fmt.Sprintf("(LSimple (TLet %q %s)", x, e.term),
				fmt.Sprintf("(LSimple (TAsg %q (CBin OAdd (CVar %q) %s))", v.name, x, e2.term))
		case k == 1 && depth > 0:
			c, ok := g.nonConst('b', 2)
			if !ok {
				c = cex{gosrc: "true", term: "(CBool true)"}
			}
			tgo, tterm := g.locBlock(depth-1, ind+"\t")
			if g.r.Bool() {
				egoo, eterm := g.locBlock(depth-1, ind+"\t")
				lines = append(lines, ind+"if "+c.gosrc+" {\n"+tgo+ind+"} else {\n"+egoo+ind+"}\n")
				heads = append(heads, fmt.Sprintf("(LIfL %s %s %s", c.term, tterm, eterm))
			} else {
				lines = append(lines, ind+"if "+c.gosrc+" {\n"+tgo+ind+"}\n")
				heads = append(heads, fmt.Sprintf("(LIfL %s %s LEnd", c.term, tterm))
			}
		default:
			l, tm := g.simpleAssign(v, ind)
			lines = append(lines, l)
			heads = append(heads, "(LSimple "+tm)
		}
	}
	term := "LEnd"
	for i := len(heads) - 1; i >= 0; i-- {
		term = heads[i] + " " + term + ")"
	}
	return strings.Join(lines, ""), term
}

// if c { ... } [else { ... }] without control effects; rest (MiniGoS)
func (g *cgen) localIf(res byte, depth int, ind string) (string, string, bool) {
	if len(g.ptrVars()) == 0 {
		return "", "", false
	}
	c, ok := g.nonConst('b', 2)
	if !ok {
		return "", "", false
	}
	tgo, tterm := g.locBlock(1, ind+"\t")
	src := ind + "if " + c.gosrc + " {\n" + tgo + ind + "}\n"
	eterm := "LEnd"
	if g.r.Bool() {
		var egoo string
		egoo, eterm = g.locBlock(1, ind+"\t")
		src = ind + "if " + c.gosrc + " {\n" + tgo + ind + "} else {\n" + egoo + ind + "}\n"
	}
	kgo, kterm := g.body(res, depth-1, ind)
	return src + kgo, fmt.Sprintf("(SIfL %s %s %s %s)", c.term, tterm, eterm, kterm), true
}
