package progen

import (
	"fmt"
	"strconv"
	"strings"

	"verif/harness/internal/rng"
)

// Config selects the constructs the generator may use.
type Config struct {
	Funcs      int
	MaxStmts   int
	MaxDepth   int
	Widths     bool // uint32 and byte values and conversions
	Slices     bool
	Maps       bool
	Structs    bool
	Strings    bool
	Shadow     bool // inner declarations may reuse an outer name
	ShadowTail bool // ... also when statements follow the inner block / loop (exposes scope leaks)
	EarlyRet   bool
	Loops      bool
	MultiRes   bool
	Consts     bool
	Methods    bool
	ByteConv   bool     // conversions spelled byte(x)
	IncDec32   bool     // x++ / x += on uint32 and byte variables
	NoBlocks   bool     // no nested blocks
	NoCompl    bool     // no ^x
	NoCalls    bool     // functions do not call each other (so each can be rejected on its own)
	Neg        bool     // MiniGo statements goose must reject (assignment to := variables, unsupported op-assign, misplaced returns)
	Inject     bool     // insert out-of-subset / look-alike statements at random positions (C02)
	Logs       bool     // logging calls with the comment texts
	Comments   []string // comment texts to sprinkle (C05)
	StrLits    []string // string literal contents to use (C05)
}

func DefaultConfig() Config {
	return Config{Funcs: 5, MaxStmts: 6, MaxDepth: 3, Widths: true, Slices: true, Maps: true, Structs: true,
		Strings: true, Shadow: true, EarlyRet: true, Loops: true, MultiRes: true, Consts: true, Methods: true}
}

type varInfo struct {
	name    string
	t       *Type
	ptr     bool // var-declared or loop variable: assignable
	loopVar bool // loop counters are not assigned in the body (termination)
	used    bool
	declIdx int // index of the declaring statement in its list (-1 for parameters)
	list    *[]*Stmt
}

type usage int

const (
	uReturned usage = iota
	uLoop
	uLocal
)

type gen struct {
	r         *rng.R
	cfg       Config
	pkg       *Package
	frames    [][]*varInfo
	fn        *Func
	nv        int
	structs   []*StructDecl
	funcs     []*Func
	consts    []*ConstDecl
	deps      map[string]bool
	inLoop    int
	injected  int
	negWanted bool
}

var interesting = []uint64{0, 1, 2, 3, 7, 8, 63, 64, 255, 256, 65535, 1 << 31, 1<<32 - 1, 1 << 32, 1<<63 - 1, 1 << 63, 1<<64 - 1}

func (g *gen) val(t *Type) uint64 {
	var v uint64
	switch g.r.Intn(4) {
	case 0:
		v = uint64(g.r.Intn(10))
	case 1:
		v = rng.Pick(g.r, interesting)
	default:
		v = g.r.U64()
		if g.r.Intn(2) == 0 {
			v >>= uint(g.r.Intn(64))
		}
	}
	switch t.K {
	case KU32:
		v = uint64(uint32(v))
	case KU8:
		v = uint64(uint8(v))
	case KBool:
		v &= 1
	}
	return v
}

func (g *gen) push() { g.frames = append(g.frames, nil) }
func (g *gen) pop()  { g.frames = g.frames[:len(g.frames)-1] }
func (g *gen) declare(v *varInfo) {
	g.frames[len(g.frames)-1] = append(g.frames[len(g.frames)-1], v)
}

// visible variables, innermost first, shadowed ones removed
func (g *gen) visible() []*varInfo {
	seen := map[string]bool{}
	var out []*varInfo
	for i := len(g.frames) - 1; i >= 0; i-- {
		f := g.frames[i]
		for j := len(f) - 1; j >= 0; j-- {
			if !seen[f[j].name] {
				seen[f[j].name] = true
				out = append(out, f[j])
			}
		}
	}
	return out
}

func (g *gen) varsOf(pred func(*varInfo) bool) []*varInfo {
	var out []*varInfo
	for _, v := range g.visible() {
		if pred(v) {
			out = append(out, v)
		}
	}
	return out
}

func (g *gen) inCurrentFrame(name string) bool {
	for _, v := range g.frames[len(g.frames)-1] {
		if v.name == name {
			return true
		}
	}
	return false
}

func (g *gen) fresh(allowShadow bool) string {
	if allowShadow && g.cfg.Shadow && len(g.frames) > 1 && g.r.Intn(3) == 0 {
		vs := g.visible()
		var cands []string
		for _, v := range vs {
			if !g.inCurrentFrame(v.name) && v.name != "sink" {
				cands = append(cands, v.name)
			}
		}
		if len(cands) > 0 {
			return rng.Pick(g.r, cands)
		}
	}
	g.nv++
	return fmt.Sprintf("x%d", g.nv)
}

func (g *gen) scalarType() *Type {
	if g.cfg.Widths {
		switch g.r.Intn(6) {
		case 0:
			return TU32
		case 1:
			return TU8
		case 2:
			return TBool
		}
	} else if g.r.Intn(5) == 0 {
		return TBool
	}
	return TU64
}

func (g *gen) intType() *Type {
	if g.cfg.Widths {
		switch g.r.Intn(4) {
		case 0:
			return TU32
		case 1:
			return TU8
		}
	}
	return TU64
}

func mk(op string, t *Type, args ...*Expr) *Expr { return &Expr{Op: op, T: t, Args: args} }
func Lit(t *Type, v uint64) *Expr                { return &Expr{Op: "lit", T: t, Val: v} }
func Var(v *varInfo) *Expr                       { v.used = true; return &Expr{Op: "var", T: v.t, Name: v.name} }
func Bin(op string, t *Type, a, b *Expr) *Expr {
	return &Expr{Op: "bin", T: t, Name: op, Args: []*Expr{a, b}}
}

func convName(t *Type) string {
	switch t.K {
	case KU64:
		return "uint64"
	case KU32:
		return "uint32"
	case KU8:
		return "byte" // the type checker then records the type under the name goose accepts
	}
	panic("conv")
}

// expr generates an expression of type t.
func (g *gen) expr(t *Type, depth int) *Expr {
	if t.IsInt() {
		return g.intExpr(t, depth)
	}
	switch t.K {
	case KBool:
		return g.boolExpr(depth)
	case KStr:
		return g.strExpr(depth)
	}
	// a variable of that type must exist
	vs := g.varsOf(func(v *varInfo) bool { return v.t.Eq(t) })
	if len(vs) > 0 {
		return Var(rng.Pick(g.r, vs))
	}
	panic("no expression of type " + t.Go())
}

func (g *gen) leafInt(t *Type) *Expr {
	vs := g.varsOf(func(v *varInfo) bool { return v.t.Eq(t) })
	// prefer unused variables
	for _, v := range vs {
		if !v.used && v.name != "sink" && g.r.Intn(2) == 0 {
			return Var(v)
		}
	}
	if len(vs) > 0 && g.r.Intn(4) != 0 {
		return Var(rng.Pick(g.r, vs))
	}
	if g.cfg.Consts && t.K == KU64 && len(g.consts) > 0 && g.r.Intn(6) == 0 {
		c := rng.Pick(g.r, g.consts)
		g.deps[c.Name] = true
		return &Expr{Op: "var", T: TU64, Name: c.Name}
	}
	return Lit(t, g.val(t))
}

func (g *gen) intExpr(t *Type, depth int) *Expr {
	if depth <= 0 || g.r.Intn(4) == 0 {
		return g.leafInt(t)
	}
	switch g.r.Intn(14) {
	case 0, 1, 2, 3, 4:
		op := rng.Pick(g.r, []string{"+", "-", "*", "&", "|", "^", "+", "-"})
		return g.bin2(op, t, g.intExpr(t, depth-1), g.intExpr(t, depth-1))
	case 5:
		// division with a non-zero divisor
		op := rng.Pick(g.r, []string{"/", "%"})
		d := Bin("|", t, g.nc(g.intExpr(t, depth-1)), Lit(t, 1))
		return Bin(op, t, g.intExpr(t, depth-1), d)
	case 6:
		// shifts by less than the width, count of the same type
		op := rng.Pick(g.r, []string{"<<", ">>"})
		cnt := Bin("%", t, g.nc(g.intExpr(t, depth-1)), Lit(t, uint64(t.Width())))
		return Bin(op, t, g.nc(g.intExpr(t, depth-1)), cnt)
	case 7:
		// conversion from another width
		if g.cfg.Widths {
			from := g.intType()
			name := convName(t)
			if from.Eq(t) && g.r.Intn(2) == 0 {
				from = TU64
			}
			return &Expr{Op: "conv", T: t, Name: name, Args: []*Expr{g.nc(g.intExpr(from, depth-1))}}
		}
	case 8:
		// call of an earlier function returning t
		var cands []*Func
		for _, f := range g.funcs {
			if f.Recv == nil && len(f.Results) == 1 && f.Results[0].Eq(t) && allScalar(f.Params) {
				cands = append(cands, f)
			}
		}
		if len(cands) > 0 && g.inLoop == 0 && !g.cfg.NoCalls {
			f := rng.Pick(g.r, cands)
			g.deps[f.Name] = true
			var args []*Expr
			for _, p := range f.Params {
				args = append(args, g.expr(p.T, depth-1))
			}
			return &Expr{Op: "call", T: t, Name: f.Name, Args: args}
		}
	case 9:
		// slice element with an index inside the bounds (slices made by the generator are non-empty)
		vs := g.varsOf(func(v *varInfo) bool { return v.t.K == KSlice && v.t.Elem.Eq(t) })
		if len(vs) > 0 {
			s := rng.Pick(g.r, vs)
			return mk("index", t, Var(s), g.inBounds(s, depth-1))
		}
	case 10:
		// map lookup
		vs := g.varsOf(func(v *varInfo) bool { return v.t.K == KMap && v.t.Elem.Eq(t) })
		if len(vs) > 0 {
			m := rng.Pick(g.r, vs)
			return mk("index", t, Var(m), g.intExpr(TU64, depth-1))
		}
	case 11:
		// struct field
		if e := g.fieldExpr(t); e != nil {
			return e
		}
	case 12:
		if t.K == KU64 {
			vs := g.varsOf(func(v *varInfo) bool { return v.t.K == KSlice || v.t.K == KMap || v.t.K == KStr })
			if len(vs) > 0 {
				return mk("len", TU64, Var(rng.Pick(g.r, vs)))
			}
		}
	case 13:
		if !g.cfg.NoCompl {
			return mk("compl", t, g.nc(g.intExpr(t, depth-1)))
		}
	}
	return g.leafInt(t)
}

// isConst: the Go compiler would evaluate e at compile time (untyped or typed
// constant); such expressions overflow at compile time and have default type int.
func (g *gen) isConst(e *Expr) bool {
	switch e.Op {
	case "lit", "boollit", "strlit":
		return true
	case "var":
		for _, c := range g.consts {
			if c.Name == e.Name {
				return true
			}
		}
		return false
	case "bin", "not", "compl", "conv":
		for _, a := range e.Args {
			if !g.isConst(a) {
				return false
			}
		}
		return true
	}
	return false
}

// nonConst returns a small expression of integer type t that is not a constant.
func (g *gen) nonConst(t *Type) *Expr {
	vs := g.varsOf(func(v *varInfo) bool { return v.t.Eq(t) })
	if len(vs) > 0 {
		return Var(rng.Pick(g.r, vs))
	}
	sink := g.lookup("sink")
	if t.K == KU64 {
		return Var(sink)
	}
	return &Expr{Op: "conv", T: t, Name: convName(t), Args: []*Expr{Var(sink)}}
}

// nc makes sure an integer expression is not constant.
func (g *gen) nc(e *Expr) *Expr {
	if g.isConst(e) {
		return g.nonConst(e.T)
	}
	return e
}

// bin2 builds a binary operation whose operands are not both constants.
func (g *gen) bin2(op string, t *Type, a, b *Expr) *Expr {
	if g.isConst(a) && g.isConst(b) {
		if g.r.Intn(2) == 0 {
			a = g.nonConst(a.T)
		} else {
			b = g.nonConst(b.T)
		}
	}
	return Bin(op, t, a, b)
}

func allScalar(ps []Param) bool {
	for _, p := range ps {
		if !(p.T.IsInt() || p.T.K == KBool) {
			return false
		}
	}
	return true
}

// an index expression guaranteed to be below len(s) (s is never empty)
func (g *gen) inBounds(s *varInfo, depth int) *Expr {
	return Bin("%", TU64, g.intExpr(TU64, depth), mk("len", TU64, Var(s)))
}

func (g *gen) fieldExpr(t *Type) *Expr {
	vs := g.varsOf(func(v *varInfo) bool {
		st := v.t
		if st.K == KPtr {
			st = st.Elem
		}
		if st.K != KStruct {
			return false
		}
		for _, f := range g.structByName(st.Name).Fields {
			if f.T.Eq(t) {
				return true
			}
		}
		return false
	})
	if len(vs) == 0 {
		return nil
	}
	v := rng.Pick(g.r, vs)
	st := v.t
	if st.K == KPtr {
		st = st.Elem
	}
	var fs []Param
	for _, f := range g.structByName(st.Name).Fields {
		if f.T.Eq(t) {
			fs = append(fs, f)
		}
	}
	f := rng.Pick(g.r, fs)
	g.deps[st.Name] = true
	return &Expr{Op: "field", T: t, Name: f.Name, Args: []*Expr{Var(v)}}
}

func (g *gen) structByName(n string) *StructDecl {
	for _, s := range g.structs {
		if s.Name == n {
			return s
		}
	}
	panic("struct " + n)
}

func (g *gen) boolExpr(depth int) *Expr {
	if depth <= 0 || g.r.Intn(5) == 0 {
		vs := g.varsOf(func(v *varInfo) bool { return v.t.K == KBool })
		if len(vs) > 0 && g.r.Intn(3) != 0 {
			return Var(rng.Pick(g.r, vs))
		}
		if depth <= 0 {
			return &Expr{Op: "boollit", T: TBool, B: g.r.Intn(2) == 0}
		}
	}
	switch g.r.Intn(8) {
	case 0, 1, 2, 3:
		t := g.intType()
		op := rng.Pick(g.r, []string{"<", "<=", ">", ">=", "==", "!="})
		return g.bin2(op, TBool, g.intExpr(t, depth-1), g.intExpr(t, depth-1))
	case 4:
		return Bin("&&", TBool, g.ncb(g.boolExpr(depth-1)), g.ncb(g.boolExpr(depth-1)))
	case 5:
		return Bin("||", TBool, g.ncb(g.boolExpr(depth-1)), g.ncb(g.boolExpr(depth-1)))
	case 6:
		return mk("not", TBool, g.ncb(g.boolExpr(depth-1)))
	default:
		if g.cfg.Strings {
			vs := g.varsOf(func(v *varInfo) bool { return v.t.K == KStr })
			if len(vs) > 0 {
				return Bin(rng.Pick(g.r, []string{"==", "!="}), TBool, g.strExpr(depth-1), g.strExpr(depth-1))
			}
		}
		op := rng.Pick(g.r, []string{"==", "!="})
		return Bin(op, TBool, g.ncb(g.boolExpr(depth-1)), g.ncb(g.boolExpr(depth-1)))
	}
}

// ncb makes sure a boolean expression is not a constant.
func (g *gen) ncb(e *Expr) *Expr {
	if !g.isConst(e) {
		return e
	}
	vs := g.varsOf(func(v *varInfo) bool { return v.t.K == KBool })
	if len(vs) > 0 {
		return Var(rng.Pick(g.r, vs))
	}
	return Bin("<", TBool, Var(g.lookup("sink")), Lit(TU64, uint64(g.r.Intn(5))))
}

// ncs makes sure a string expression is not a constant.
func (g *gen) ncs(e *Expr) *Expr { return e }

func (g *gen) strLit() *Expr {
	if len(g.cfg.StrLits) > 0 && g.r.Intn(2) == 0 {
		return &Expr{Op: "strlit", T: TStr, Str: rng.Pick(g.r, g.cfg.StrLits)}
	}
	words := []string{"", "a", "goose", "x y", "tab\there", "0123456789", "Zz"}
	return &Expr{Op: "strlit", T: TStr, Str: rng.Pick(g.r, words)}
}

func (g *gen) strExpr(depth int) *Expr {
	vs := g.varsOf(func(v *varInfo) bool { return v.t.K == KStr })
	if depth <= 0 || g.r.Intn(3) == 0 {
		if len(vs) > 0 && g.r.Intn(2) == 0 {
			return Var(rng.Pick(g.r, vs))
		}
		return g.strLit()
	}
	return Bin("+", TStr, g.strExpr(depth-1), g.strExpr(depth-1))
}

// toU64 folds a scalar expression into a uint64 (for the sink and for results).
func (g *gen) toU64(e *Expr) *Expr {
	switch e.T.K {
	case KU64:
		return e
	case KU32, KU8:
		return &Expr{Op: "conv", T: TU64, Name: "uint64", Args: []*Expr{e}}
	case KStr:
		return mk("len", TU64, e)
	case KSlice, KMap:
		return mk("len", TU64, e)
	}
	return nil
}

// useStmt makes a statement that uses v (so Go does not reject it as unused).
func (g *gen) useStmt(v *varInfo) *Stmt {
	sink := g.lookup("sink")
	ve := &Expr{Op: "var", T: v.t, Name: v.name}
	var e *Expr
	switch v.t.K {
	case KBool:
		// if v { sink = sink + 1 }
		return &Stmt{Op: "if", E: ve, Body: []*Stmt{{Op: "assign", Lhs: Var(sink), E: Bin("+", TU64, Var(sink), Lit(TU64, 1))}}}
	case KStruct, KPtr:
		st := v.t
		if st.K == KPtr {
			st = st.Elem
		}
		f := g.structByName(st.Name).Fields[0]
		fe := &Expr{Op: "field", T: f.T, Name: f.Name, Args: []*Expr{ve}}
		if f.T.K == KBool {
			return &Stmt{Op: "if", E: fe, Body: []*Stmt{{Op: "assign", Lhs: Var(sink), E: Bin("+", TU64, Var(sink), Lit(TU64, 1))}}}
		}
		e = g.toU64(fe)
	default:
		e = g.toU64(ve)
	}
	return &Stmt{Op: "assign", Lhs: Var(sink), E: Bin("+", TU64, Var(sink), e)}
}

func (g *gen) lookup(name string) *varInfo {
	for _, v := range g.visible() {
		if v.name == name {
			return v
		}
	}
	panic("lookup " + name)
}

// exprReads: the expression mentions the variable
func exprReads(e *Expr, name string) bool {
	if e == nil {
		return false
	}
	if e.Op == "var" && e.Name == name {
		return true
	}
	for _, a := range e.Args {
		if exprReads(a, name) {
			return true
		}
	}
	return false
}

// stmtsRead reports whether the statements surely read the variable (a
// conservative answer: scanning a list stops at a declaration of the same name;
// raw statements are not inspected). Assignments to the variable itself do not
// count; assignments through it (fields, elements) read it.
func stmtsRead(ss []*Stmt, name string) bool {
	for _, s := range ss {
		switch s.Op {
		case "define", "var":
			if exprReads(s.E, name) {
				return true
			}
			if s.Name == name {
				return false
			}
		case "define2":
			if exprReads(s.E, name) {
				return true
			}
			if s.Name == name || s.Name2 == name {
				return false
			}
		case "assign", "opassign", "incdec":
			if exprReads(s.E, name) {
				return true
			}
			if s.Lhs != nil && s.Lhs.Op != "var" && exprReads(s.Lhs, name) {
				return true
			}
		case "expr":
			if exprReads(s.E, name) {
				return true
			}
		case "return":
			for _, e := range s.Es {
				if exprReads(e, name) {
					return true
				}
			}
		case "if":
			if exprReads(s.E, name) || stmtsRead(s.Body, name) || stmtsRead(s.Else, name) {
				return true
			}
		case "block":
			if stmtsRead(s.Body, name) {
				return true
			}
		case "for":
			if s.Init != nil && s.Init.Name == name {
				if exprReads(s.Init.E, name) {
					return true
				}
				continue // the loop variable hides it inside the loop
			}
			if (s.Init != nil && exprReads(s.Init.E, name)) || exprReads(s.E, name) || (s.Post != nil && stmtsRead([]*Stmt{s.Post}, name)) || stmtsRead(s.Body, name) {
				return true
			}
		case "rangeslice", "rangemap":
			if exprReads(s.E, name) {
				return true
			}
			if s.Name == name || s.Name2 == name {
				continue
			}
			if stmtsRead(s.Body, name) {
				return true
			}
		}
	}
	return false
}

// closeFrame inserts uses for the variables declared in ss's frame that the
// following statements do not read. Insertions go right after the declaration
// (so they are in scope and before any terminating statement).
func (g *gen) closeFrame(ss []*Stmt) []*Stmt {
	f := g.frames[len(g.frames)-1]
	// insert from the last declaration backwards so indices stay valid
	for j := len(f) - 1; j >= 0; j-- {
		v := f[j]
		if v.declIdx < 0 || v.declIdx >= len(ss) {
			continue
		}
		if stmtsRead(ss[v.declIdx+1:], v.name) {
			continue
		}
		u := g.useStmt(v)
		idx := v.declIdx + 1
		ss = append(ss[:idx], append([]*Stmt{u}, ss[idx:]...)...)
	}
	return ss
}

// block generates a statement list in a new scope.
// params are pre-declared variables of the new scope (loop variables).
func (g *gen) block(u usage, depth int, n int, pre []*varInfo, results []*Type) []*Stmt {
	g.push()
	for _, v := range pre {
		v.declIdx = -1
		g.declare(v)
	}
	var ss []*Stmt
	for i := 0; i < n; i++ {
		s := g.stmt(u, depth, &ss, results)
		if s != nil {
			ss = append(ss, s)
		}
	}
	// a logging call is never the last statement of a list (as a last statement it would add a #() to the term)
	for len(ss) > 0 && ss[len(ss)-1].Op == "log" {
		ss = ss[:len(ss)-1]
	}
	if u != uReturned && len(ss) > 0 {
		// lists that get no terminator: make sure a non-log statement ends them (handled above)
	}
	// terminator
	switch u {
	case uReturned:
		ss = append(ss, g.returnStmt(results, depth))
	case uLoop:
		if g.r.Intn(6) == 0 {
			ss = append(ss, &Stmt{Op: rng.Pick(g.r, []string{"break", "continue"})})
		}
	}
	ss = g.closeFrame(ss)
	g.pop()
	return ss
}

func (g *gen) returnStmt(results []*Type, depth int) *Stmt {
	var es []*Expr
	for _, t := range results {
		if t.K == KU64 && g.r.Intn(2) == 0 {
			// fold the sink in so that side effects are observable
			es = append(es, Bin("+", TU64, Var(g.lookup("sink")), g.expr(t, depth)))
		} else {
			es = append(es, g.expr(t, depth))
		}
	}
	return &Stmt{Op: "return", Es: es}
}

func (g *gen) newVar(name string, t *Type, ptr bool, ss *[]*Stmt) *varInfo {
	v := &varInfo{name: name, t: t, ptr: ptr, declIdx: len(*ss), list: ss}
	return v
}

func (g *gen) comment(s *Stmt) *Stmt {
	if s != nil && len(g.cfg.Comments) > 0 && g.r.Intn(3) == 0 {
		s.Comment = rng.Pick(g.r, g.cfg.Comments)
	}
	return s
}

func (g *gen) stmt(u usage, depth int, ss *[]*Stmt, results []*Type) *Stmt {
	if g.cfg.Logs && g.r.Intn(5) == 0 {
		// a logging call (goose turns it into a comment); never the last statement of a list
		txt := rng.Pick(g.r, g.cfg.Comments)
		txt = strings.ReplaceAll(txt, "\n", " ")
		call := rng.Pick(g.r, []string{"log.Printf(%s, sink)", "log.Println(%s)", "log.Print(%s)"})
		return &Stmt{Op: "log", Raw: fmt.Sprintf(call, strconv.Quote(txt+" %d"))}
	}
	return g.comment(g.stmt1(u, depth, ss, results))
}

// inject returns an out-of-subset statement (raw Go) that is meaningful at this
// position: it reads and writes sink and, where it declares a name, hides a
// visible variable that later statements may read.
func (g *gen) inject(u usage, results []*Type) *Stmt {
	u64s := g.varsOf(func(v *varInfo) bool { return v.t.K == KU64 && v.name != "sink" })
	hide := "hidden"
	if len(u64s) > 0 {
		hide = rng.Pick(g.r, u64s).name
	}
	ret := ""
	if u == uReturned {
		var es []string
		for _, t := range results {
			switch t.K {
			case KBool:
				es = append(es, "sink > 3")
			case KU64:
				es = append(es, "sink + 1")
			default:
				es = append(es, fmt.Sprintf("%s(sink)", convName(t)))
			}
		}
		ret = "return " + joinStr(es, ", ")
	}
	k := g.r.Intn(5) + 1
	var cands []string
	cands = append(cands,
		fmt.Sprintf("if %s := sink + %d; %s > 2 {\n\tsink = sink + %s\n}", hide, k, hide, hide),
		fmt.Sprintf("sink *= %d", k+1),
		fmt.Sprintf("sink <<= %d", k),
		fmt.Sprintf("sink /= %d", k+1),
		fmt.Sprintf("sink %%= %d", k+6),
		fmt.Sprintf("sink &^= %d", k),
		fmt.Sprintf("sink = sink &^ %d", k),
		"sink = -sink",
		fmt.Sprintf("switch {\ncase sink > %d:\n\tsink = sink + 1\ndefault:\n\tsink = sink + 2\n}", k),
		fmt.Sprintf("switch sink %% 3 {\ncase 1:\n\tsink = sink + %d\ncase 2:\n\tsink = sink * 2\n}", k),
		fmt.Sprintf("t1, t2 := sink, sink+%d\nsink = t1 + t2*3", k),
		fmt.Sprintf("{\n\tvar t1, t2 uint64 = sink, %d\n\tsink = t1 * t2\n}", k+1),
		fmt.Sprintf("{\n\tvar t1 uint64 = %d\n\tvar t2 uint64 = sink\n\tt1, t2 = t2, t1\n\tsink = t1*10 + t2\n}", k),
		fmt.Sprintf("{\n\ts3 := []uint64{sink, %d, 7}\n\tsink = sink + s3[1] + s3[2]\n}", k),
		fmt.Sprintf("{\n\tvar arr [3]uint64\n\tarr[1] = sink\n\tsink = sink + arr[1] + %d\n}", k),
		fmt.Sprintf("{\n\tsl := make([]uint64, 2)\n\tsl[1] = sink\n\tsl[1]++\n\tsink = sl[1] + %d\n}", k),
		fmt.Sprintf("{\n\tvar cnt int = %d\n\tcnt = cnt - 9\n\tif cnt < 0 {\n\t\tsink = sink + 1\n\t}\n}", k),
		fmt.Sprintf("defer func() {\n\tsink = sink + %d\n}()", k),
		fmt.Sprintf("{\n\tf1 := func() {\n\t\tsink = sink + %d\n\t}\n\tf1()\n\tf1()\n}", k),
	)
	if g.inLoop == 0 {
		cands = append(cands,
			fmt.Sprintf("for i9 := uint64(0); i9 < 4; i9++ {\n\tif i9 == %d {\n\t\tsink = sink + 7\n\t\tbreak\n\t}\n\tsink = sink + 1\n}", k%4),
			fmt.Sprintf("outer9:\n\tfor i9 := uint64(0); i9 < 3; i9++ {\n\t\tfor j9 := uint64(0); j9 < 3; j9++ {\n\t\t\tif j9 == %d {\n\t\t\t\tcontinue outer9\n\t\t\t}\n\t\t\tsink = sink + 1\n\t\t}\n\t}", k%3),
			fmt.Sprintf("for i9 := range %d {\n\tsink = sink + uint64(i9)\n}", k),
		)
	}
	if ret != "" {
		cands = append(cands,
			fmt.Sprintf("if sink > %d {\n\tsink = sink + 1\n\tif sink %% 2 == 0 {\n\t\t%s\n\t}\n}", k, ret),
			fmt.Sprintf("if sink > %d {\n\t%s\n} else {\n\tsink = sink + 5\n}", k, ret),
			fmt.Sprintf("for i9 := uint64(0); i9 < 4; i9++ {\n\tif i9 + sink == %d {\n\t\t%s\n\t}\n}", k+2, ret),
		)
	}
	if g.inLoop > 0 && u == uLoop {
		cands = append(cands,
			fmt.Sprintf("if sink > %d {\n\tsink = sink + 1\n\tif sink %% 2 == 0 {\n\t\tbreak\n\t}\n}", k),
			fmt.Sprintf("if sink > %d {\n\tsink = sink + 1\n\tif sink %% 2 == 0 {\n\t\tcontinue\n\t}\n}", k),
			fmt.Sprintf("if sink %% 2 == 0 {\n\tsink = sink + 3\n\tbreak\n} else {\n\tsink = sink + 1\n}"),
		)
	}
	g.lookup("sink").used = true
	return &Stmt{Op: "raw", Raw: rng.Pick(g.r, cands)}
}

func joinStr(xs []string, sep string) string {
	out := ""
	for i, x := range xs {
		if i > 0 {
			out += sep
		}
		out += x
	}
	return out
}

// negStmt: a statement inside the MiniGo syntax that goose rejects.
func (g *gen) negStmt(u usage, depth int, results []*Type) *Stmt {
	lets := g.varsOf(func(v *varInfo) bool { return !v.ptr && v.t.K == KU64 })
	vars := g.varsOf(func(v *varInfo) bool { return v.ptr && v.t.K == KU64 })
	sink := g.lookup("sink")
	switch g.r.Intn(6) {
	case 0:
		if len(lets) > 0 {
			v := rng.Pick(g.r, lets)
			return &Stmt{Op: "assign", Lhs: &Expr{Op: "var", T: v.t, Name: v.name}, E: g.expr(v.t, 1)}
		}
	case 1:
		if len(lets) > 0 {
			v := rng.Pick(g.r, lets)
			return &Stmt{Op: "incdec", Lhs: &Expr{Op: "var", T: v.t, Name: v.name}, Tok: rng.Pick(g.r, []string{"++", "--"})}
		}
	case 2:
		if len(vars) > 0 {
			v := rng.Pick(g.r, vars)
			op := rng.Pick(g.r, []string{"*=", "<<=", ">>=", "&^="})
			var e *Expr
			if op == "<<=" || op == ">>=" {
				e = Lit(TU64, uint64(g.r.Intn(8)))
			} else {
				e = g.expr(v.t, 1)
			}
			return &Stmt{Op: "opassign", Lhs: &Expr{Op: "var", T: v.t, Name: v.name}, Tok: op, E: e}
		}
	case 3:
		return &Stmt{Op: "assign", Lhs: Var(sink), E: Bin("&^", TU64, Var(sink), g.nc(g.intExpr(TU64, 1)))}
	case 4:
		if u == uReturned && depth > 0 {
			// early return with an else branch, statements follow
			s := &Stmt{Op: "if", E: g.boolExpr(1), HasElse: true}
			s.Body = g.block(uReturned, 0, 0, nil, results)
			s.Else = []*Stmt{{Op: "assign", Lhs: Var(sink), E: Bin("+", TU64, Var(sink), Lit(TU64, 1))}}
			return s
		}
	case 5:
		if u == uReturned && depth > 0 {
			// a return inside a conditional that is not in tail position of its list
			inner := &Stmt{Op: "if", E: g.boolExpr(1)}
			inner.Body = g.block(uReturned, 0, 0, nil, results)
			s := &Stmt{Op: "if", E: g.boolExpr(1)}
			s.Body = []*Stmt{inner, {Op: "assign", Lhs: Var(sink), E: Bin("+", TU64, Var(sink), Lit(TU64, 2))}}
			return s
		}
	}
	return nil
}

func (g *gen) stmt1(u usage, depth int, ss *[]*Stmt, results []*Type) *Stmt {
	if g.cfg.Neg && g.negWanted && g.injected < 1 && g.r.Intn(4) == 0 {
		if s := g.negStmt(u, depth, results); s != nil {
			g.injected++
			return s
		}
	}
	if g.cfg.Inject && g.injected < 2 && g.r.Intn(6) == 0 {
		g.injected++
		return g.inject(u, results)
	}
	for tries := 0; tries < 10; tries++ {
		switch g.r.Intn(20) {
		case 0, 1, 2:
			// x := e (immutable binding)
			name := g.fresh(true)
			if g.inCurrentFrame(name) {
				continue
			}
			t := g.scalarType()
			if g.cfg.Strings && g.r.Intn(8) == 0 {
				t = TStr
			}
			e := g.expr(t, g.cfg.MaxDepth)
			if g.isConst(e) {
				switch {
				case t.IsInt():
					e = g.nonConst(t)
				case t.K == KBool:
					e = g.ncb(e)
				default:
					// a constant string has no typed form: use it through a concatenation with a variable if there is one
					e = Bin("+", TStr, e, g.strLit())
					t = TStr
				}
			}
			if g.isConst(e) && t.K == KStr {
				e = &Expr{Op: "conv", T: TStr, Name: "string", Args: []*Expr{e}}
			}
			v := g.newVar(name, t, false, ss)
			g.declare(v)
			return &Stmt{Op: "define", Name: name, E: e}
		case 3, 4:
			// var x T [= e]
			name := g.fresh(true)
			if g.inCurrentFrame(name) {
				continue
			}
			t := g.scalarType()
			var e *Expr
			if g.r.Intn(4) != 0 {
				e = g.expr(t, g.cfg.MaxDepth)
			}
			v := g.newVar(name, t, true, ss)
			g.declare(v)
			return &Stmt{Op: "var", Name: name, T: t, E: e}
		case 5, 6, 7:
			// assignment to a var-declared variable
			vs := g.varsOf(func(v *varInfo) bool { return v.ptr && !v.loopVar && (v.t.IsInt() || v.t.K == KBool) })
			if len(vs) == 0 {
				continue
			}
			v := rng.Pick(g.r, vs)
			lhs := &Expr{Op: "var", T: v.t, Name: v.name}
			if v.t.IsInt() {
				w64 := v.t.K == KU64 || g.cfg.IncDec32
				switch g.r.Intn(5) {
				case 0:
					return &Stmt{Op: "opassign", Lhs: lhs, Tok: rng.Pick(g.r, []string{"+=", "-=", "|=", "&=", "^="}), E: g.expr(v.t, g.cfg.MaxDepth-1)}
				case 1:
					if w64 {
						return &Stmt{Op: "incdec", Lhs: lhs, Tok: rng.Pick(g.r, []string{"++", "--"})}
					}
				}
			}
			return &Stmt{Op: "assign", Lhs: lhs, E: g.expr(v.t, g.cfg.MaxDepth)}
		case 8, 9:
			// if without control effects
			if depth <= 0 {
				continue
			}
			s := &Stmt{Op: "if", E: g.boolExpr(g.cfg.MaxDepth)}
			s.Body = g.block(uLocal, depth-1, 1+g.r.Intn(2), nil, nil)
			if g.r.Intn(2) == 0 {
				s.HasElse = true
				s.Else = g.block(uLocal, depth-1, 1+g.r.Intn(2), nil, nil)
			}
			return s
		case 10:
			// early return / loop control: if c { ...; return e } with the remainder following
			if depth <= 0 {
				continue
			}
			if u == uReturned && g.cfg.EarlyRet {
				s := &Stmt{Op: "if", E: g.boolExpr(g.cfg.MaxDepth)}
				s.Body = g.block(uReturned, depth-1, g.r.Intn(2), nil, results)
				return s
			}
			if u == uLoop {
				s := &Stmt{Op: "if", E: g.boolExpr(g.cfg.MaxDepth)}
				g.push()
				body := []*Stmt{}
				if g.r.Intn(2) == 0 {
					if a := g.stmt(uLocal, 0, &body, nil); a != nil {
						body = append(body, a)
					}
				}
				body = append(body, &Stmt{Op: rng.Pick(g.r, []string{"break", "continue"})})
				body = g.closeFrame(body)
				g.pop()
				s.Body = body
				return s
			}
			continue
		case 11, 12:
			// counted loop
			if !g.cfg.Loops || depth <= 0 || g.inLoop >= 2 {
				continue
			}
			name := g.fresh(true)
			iv := &varInfo{name: name, t: TU64, ptr: true, used: true, loopVar: true}
			bound := uint64(1 + g.r.Intn(5))
			var hi *Expr = Lit(TU64, bound)
			if sl := g.varsOf(func(v *varInfo) bool { return v.t.K == KSlice }); len(sl) > 0 && g.r.Intn(2) == 0 {
				sv := rng.Pick(g.r, sl)
				if sv.name == name { // the loop variable must not hide the slice its bound mentions
					name = g.fresh(false)
					iv.name = name
				}
				hi = mk("len", TU64, Var(sv))
			}
			ive := &Expr{Op: "var", T: TU64, Name: name}
			s := &Stmt{Op: "for",
				Init: &Stmt{Op: "define", Name: name, E: &Expr{Op: "tlit", T: TU64, Val: uint64(g.r.Intn(2))}},
				E:    Bin("<", TBool, ive, hi),
				Post: &Stmt{Op: "incdec", Lhs: ive, Tok: "++"}}
			if g.r.Intn(4) == 0 {
				s.Post = &Stmt{Op: "assign", Lhs: ive, E: Bin("+", TU64, ive, Lit(TU64, uint64(1+g.r.Intn(2))))}
			}
			g.inLoop++
			s.Body = g.block(uLoop, depth-1, 1+g.r.Intn(3), []*varInfo{iv}, nil)
			g.inLoop--
			return s
		case 13:
			// nested block
			if depth <= 0 || g.cfg.NoBlocks {
				continue
			}
			return &Stmt{Op: "block", Body: g.block(uLocal, depth-1, 1+g.r.Intn(2), nil, nil)}
		case 14:
			if s := g.sliceStmt(ss); s != nil {
				return s
			}
		case 15:
			if s := g.mapStmt(ss); s != nil {
				return s
			}
		case 16:
			if s := g.structStmt(ss); s != nil {
				return s
			}
		case 17:
			// range over a slice / map accumulating into a var
			if depth <= 0 || !g.cfg.Loops || g.inLoop >= 2 {
				continue
			}
			vs := g.varsOf(func(v *varInfo) bool {
				return (v.t.K == KSlice || v.t.K == KMap) && v.t.Elem.IsInt()
			})
			if len(vs) == 0 {
				continue
			}
			c := rng.Pick(g.r, vs)
			kn, vn := g.fresh(false), g.fresh(false)
			kv := &varInfo{name: kn, t: TU64, used: true}
			vv := &varInfo{name: vn, t: c.t.Elem, used: true}
			sink := g.lookup("sink")
			g.inLoop++
			var s *Stmt
			if c.t.K == KMap {
				// only order-independent updates in the body
				s = &Stmt{Op: "rangemap", Name: kn, Name2: vn, E: Var(c)}
				e := Bin("+", TU64, Var(sink), Bin("^", TU64, Var(kv), g.toU64(Var(vv))))
				s.Body = []*Stmt{{Op: "assign", Lhs: Var(sink), E: e}}
			} else {
				// the key of a slice range has type int: it is only used as an index
				s = &Stmt{Op: "rangeslice", E: Var(c)}
				if g.r.Intn(3) == 0 {
					// a compound operand: c[:len(c)]
					s.E = &Expr{Op: "sliceexpr", T: c.t, Args: []*Expr{Var(c), nil, mk("len", TU64, Var(c))}}
				}
				var first *Stmt
				var pre []*varInfo
				switch g.r.Intn(3) {
				case 0: // for i := range s
					s.Name = kn
					elt := mk("index", c.t.Elem, &Expr{Op: "var", T: c.t, Name: c.name}, &Expr{Op: "var", T: TU64, Name: kn})
					first = &Stmt{Op: "assign", Lhs: Var(sink), E: Bin("+", TU64, Var(sink), g.toU64(elt))}
				case 1: // for i, v := range s
					s.Name, s.Name2 = kn, vn
					elt := mk("index", c.t.Elem, &Expr{Op: "var", T: c.t, Name: c.name}, &Expr{Op: "var", T: TU64, Name: kn})
					first = &Stmt{Op: "assign", Lhs: Var(sink), E: Bin("+", TU64, Var(sink), Bin("^", TU64, g.toU64(elt), g.toU64(Var(vv))))}
					pre = []*varInfo{vv}
				default: // for _, v := range s
					s.Name2 = vn
					first = &Stmt{Op: "assign", Lhs: Var(sink), E: Bin("+", TU64, Var(sink), g.toU64(Var(vv)))}
					pre = []*varInfo{vv}
				}
				s.Body = append([]*Stmt{first}, g.block(uLocal, depth-1, g.r.Intn(2), pre, nil)...)
			}
			g.inLoop--
			return s
		case 18:
			// multiple results
			if !g.cfg.MultiRes || g.inLoop > 0 || g.cfg.NoCalls {
				continue
			}
			var cands []*Func
			for _, f := range g.funcs {
				if f.Recv == nil && len(f.Results) == 2 && allScalar(f.Params) {
					cands = append(cands, f)
				}
			}
			if len(cands) == 0 {
				continue
			}
			f := rng.Pick(g.r, cands)
			g.deps[f.Name] = true
			var args []*Expr
			for _, p := range f.Params {
				args = append(args, g.expr(p.T, g.cfg.MaxDepth-1))
			}
			a, b := g.fresh(false), g.fresh(false)
			va := g.newVar(a, f.Results[0], false, ss)
			vb := g.newVar(b, f.Results[1], false, ss)
			g.declare(va)
			g.declare(vb)
			return &Stmt{Op: "define2", Name: a, Name2: b, E: &Expr{Op: "call", Name: f.Name, Args: args}}
		case 19:
			// method call on a struct pointer
			if s := g.methodStmt(ss); s != nil {
				return s
			}
		}
	}
	return nil
}

func (g *gen) sliceStmt(ss *[]*Stmt) *Stmt {
	if !g.cfg.Slices {
		return nil
	}
	vs := g.varsOf(func(v *varInfo) bool { return v.t.K == KSlice })
	if len(vs) == 0 || g.r.Intn(4) == 0 {
		et := g.intType()
		name := g.fresh(false)
		t := SliceOf(et)
		n := uint64(1 + g.r.Intn(4))
		if g.r.Intn(2) == 0 {
			v := g.newVar(name, t, false, ss)
			g.declare(v)
			return &Stmt{Op: "define", Name: name, E: &Expr{Op: "make", T: t, Args: []*Expr{Lit(TU64, n)}}}
		}
		v := g.newVar(name, t, true, ss)
		g.declare(v)
		return &Stmt{Op: "var", Name: name, T: t, E: &Expr{Op: "make", T: t, Args: []*Expr{Lit(TU64, n)}}}
	}
	s := rng.Pick(g.r, vs)
	switch g.r.Intn(3) {
	case 0, 1:
		idx := g.inBounds(s, 1)
		return &Stmt{Op: "assign", Lhs: mk("index", s.t.Elem, Var(s), idx), E: g.expr(s.t.Elem, g.cfg.MaxDepth-1)}
	default:
		if s.ptr && g.inLoop == 0 { // no growth inside loops: their bounds may be len(s)
			lhs := &Expr{Op: "var", T: s.t, Name: s.name}
			return &Stmt{Op: "assign", Lhs: lhs, E: mk("append", s.t, Var(s), g.expr(s.t.Elem, g.cfg.MaxDepth-1))}
		}
	}
	return nil
}

func (g *gen) mapStmt(ss *[]*Stmt) *Stmt {
	if !g.cfg.Maps {
		return nil
	}
	vs := g.varsOf(func(v *varInfo) bool { return v.t.K == KMap })
	if len(vs) == 0 || g.r.Intn(5) == 0 {
		vt := g.intType()
		name := g.fresh(false)
		t := MapOf(TU64, vt)
		v := g.newVar(name, t, false, ss)
		g.declare(v)
		return &Stmt{Op: "define", Name: name, E: &Expr{Op: "makemap", T: t}}
	}
	m := rng.Pick(g.r, vs)
	key := func() *Expr {
		if g.r.Intn(2) == 0 {
			return Lit(TU64, uint64(g.r.Intn(4)))
		}
		return Bin("%", TU64, g.intExpr(TU64, 1), Lit(TU64, 4))
	}
	switch g.r.Intn(4) {
	case 0, 1:
		return &Stmt{Op: "assign", Lhs: mk("index", m.t.Elem, Var(m), key()), E: g.expr(m.t.Elem, g.cfg.MaxDepth-1)}
	case 2:
		return &Stmt{Op: "expr", E: &Expr{Op: "call", Name: "delete", Args: []*Expr{Var(m), key()}}}
	default:
		k := key()
		a, b := g.fresh(false), g.fresh(false)
		va := g.newVar(a, m.t.Elem, false, ss)
		vb := g.newVar(b, TBool, false, ss)
		g.declare(va)
		g.declare(vb)
		return &Stmt{Op: "define2", Name: a, Name2: b, E: mk("index", m.t.Elem, Var(m), k)}
	}
}

func (g *gen) structStmt(ss *[]*Stmt) *Stmt {
	if !g.cfg.Structs || len(g.structs) == 0 {
		return nil
	}
	vs := g.varsOf(func(v *varInfo) bool { return v.t.K == KPtr || (v.t.K == KStruct && v.ptr) })
	if len(vs) == 0 || g.r.Intn(4) == 0 {
		sd := rng.Pick(g.r, g.structs)
		g.deps[sd.Name] = true
		st := &Type{K: KStruct, Name: sd.Name}
		var flds []string
		var args []*Expr
		for _, f := range sd.Fields {
			if g.r.Intn(4) != 0 {
				flds = append(flds, f.Name)
				args = append(args, g.expr(f.T, g.cfg.MaxDepth-1))
			}
		}
		name := g.fresh(false)
		switch g.r.Intn(4) {
		case 3:
			// the struct is mentioned in a type annotation only
			v := g.newVar(name, st, true, ss)
			g.declare(v)
			return &Stmt{Op: "var", Name: name, T: st}
		case 0:
			v := g.newVar(name, PtrTo(st), false, ss)
			g.declare(v)
			return &Stmt{Op: "define", Name: name, E: &Expr{Op: "addrlit", T: PtrTo(st), Args: args, Flds: flds}}
		case 1:
			v := g.newVar(name, st, false, ss)
			g.declare(v)
			return &Stmt{Op: "define", Name: name, E: &Expr{Op: "structlit", T: st, Args: args, Flds: flds}}
		default:
			v := g.newVar(name, st, true, ss)
			g.declare(v)
			return &Stmt{Op: "var", Name: name, T: st, E: &Expr{Op: "structlit", T: st, Args: args, Flds: flds}}
		}
	}
	v := rng.Pick(g.r, vs)
	st := v.t
	if st.K == KPtr {
		st = st.Elem
	}
	f := rng.Pick(g.r, g.structByName(st.Name).Fields)
	g.deps[st.Name] = true
	// an assignment to a field does not count as a use of the variable
	lhs := &Expr{Op: "field", T: f.T, Name: f.Name, Args: []*Expr{{Op: "var", T: v.t, Name: v.name}}}
	if f.T.K == KU64 && g.r.Intn(3) == 0 {
		return &Stmt{Op: "opassign", Lhs: lhs, Tok: rng.Pick(g.r, []string{"+=", "-=", "|=", "&=", "^="}), E: g.expr(f.T, g.cfg.MaxDepth-1)}
	}
	return &Stmt{Op: "assign", Lhs: lhs, E: g.expr(f.T, g.cfg.MaxDepth-1)}
}

func (g *gen) methodStmt(ss *[]*Stmt) *Stmt {
	if !g.cfg.Methods || g.inLoop > 0 || g.cfg.NoCalls {
		return nil
	}
	var cands []*Func
	for _, f := range g.funcs {
		if f.Recv != nil {
			cands = append(cands, f)
		}
	}
	if len(cands) == 0 {
		return nil
	}
	f := rng.Pick(g.r, cands)
	vs := g.varsOf(func(v *varInfo) bool { return v.t.Eq(f.Recv.T) })
	if len(vs) == 0 {
		return nil
	}
	v := rng.Pick(g.r, vs)
	g.deps[Decl{Kind: "func", F: f}.DeclName()] = true
	args := []*Expr{Var(v)}
	for _, p := range f.Params {
		args = append(args, g.expr(p.T, g.cfg.MaxDepth-1))
	}
	name := g.fresh(false)
	nv := g.newVar(name, f.Results[0], false, ss)
	g.declare(nv)
	return &Stmt{Op: "define", Name: name, E: &Expr{Op: "mcall", T: f.Results[0], Name: f.Name, Args: args}}
}

func sortedKeys(m map[string]bool) []string {
	var ks []string
	for k := range m {
		ks = append(ks, k)
	}
	for i := range ks {
		for j := i + 1; j < len(ks); j++ {
			if ks[j] < ks[i] {
				ks[i], ks[j] = ks[j], ks[i]
			}
		}
	}
	return ks
}

func (g *gen) function(name string, recv *Param) *Func {
	f := &Func{Name: name, Recv: recv}
	g.fn = f
	g.nv = 0
	g.injected = 0
	g.negWanted = g.r.Intn(2) == 0
	g.deps = map[string]bool{}
	g.frames = nil
	var pre []*varInfo
	if recv != nil {
		pre = append(pre, &varInfo{name: recv.Name, t: recv.T, used: true})
		g.deps[recv.T.Elem.Name] = true
	}
	np := 1 + g.r.Intn(3)
	for i := 0; i < np; i++ {
		t := g.scalarType()
		p := Param{Name: fmt.Sprintf("a%d", i), T: t}
		f.Params = append(f.Params, p)
		pre = append(pre, &varInfo{name: p.Name, t: t, used: true})
	}
	nres := 1
	if g.cfg.MultiRes && recv == nil && g.r.Intn(4) == 0 {
		nres = 2
	}
	for i := 0; i < nres; i++ {
		f.Results = append(f.Results, g.scalarType())
	}
	if recv != nil {
		f.Results = []*Type{TU64}
	}
	// the body: var sink uint64 first
	body := []*Stmt{{Op: "var", Name: "sink", T: TU64}}
	sink := &varInfo{name: "sink", t: TU64, ptr: true}
	pre = append(pre, sink)
	n := 1 + g.r.Intn(g.cfg.MaxStmts)
	rest := g.block(uReturned, g.cfg.MaxDepth, n, pre, f.Results)
	if !sink.used {
		se := &Expr{Op: "var", T: TU64, Name: "sink"}
		body = append(body, &Stmt{Op: "assign", Lhs: se, E: Bin("+", TU64, se, Lit(TU64, 1))})
	}
	f.Body = append(body, rest...)
	if len(g.cfg.Comments) > 0 && g.r.Intn(2) == 0 {
		f.Doc = rng.Pick(g.r, g.cfg.Comments)
	}
	f.Deps = sortedKeys(g.deps)
	return f
}

// Generate builds a package.
func Generate(r *rng.R, name string, cfg Config) *Package {
	g := &gen{r: r, cfg: cfg, pkg: &Package{Name: name}}
	p := g.pkg
	if cfg.Consts {
		n := 1 + r.Intn(3)
		block := n >= 2 && r.Intn(2) == 0 // declared together in one const ( ... ) block
		var blockDecl Decl
		for i := 0; i < n; i++ {
			c := &ConstDecl{Name: fmt.Sprintf("K%d", i), T: TU64, Val: uint64(r.Intn(100))}
			c.Expr = fmt.Sprintf("%d", c.Val)
			if i > 0 && r.Intn(2) == 0 {
				c.Expr = fmt.Sprintf("K%d + %d", i-1, c.Val)
				c.Deps = []string{fmt.Sprintf("K%d", i-1)}
				c.Val += g.consts[i-1].Val
			}
			if len(cfg.Comments) > 0 && r.Intn(2) == 0 && !block {
				c.Doc = rng.Pick(r, cfg.Comments)
			}
			g.consts = append(g.consts, c)
			if block {
				blockDecl.Kind = "constblock"
				blockDecl.CB = append(blockDecl.CB, c)
			} else {
				p.Decls = append(p.Decls, Decl{Kind: "const", C: c})
			}
		}
		if block {
			p.Decls = append(p.Decls, blockDecl)
		}
	}
	if cfg.Structs {
		n := 1 + r.Intn(2)
		for i := 0; i < n; i++ {
			sd := &StructDecl{Name: fmt.Sprintf("S%d", i)}
			nf := 1 + r.Intn(3)
			for j := 0; j < nf; j++ {
				sd.Fields = append(sd.Fields, Param{Name: fmt.Sprintf("f%d", j), T: g.scalarType()})
			}
			if len(cfg.Comments) > 0 && r.Intn(2) == 0 {
				sd.Doc = rng.Pick(r, cfg.Comments)
			}
			g.structs = append(g.structs, sd)
			p.Decls = append(p.Decls, Decl{Kind: "struct", S: sd})
		}
	}
	for i := 0; i < cfg.Funcs; i++ {
		var f *Func
		if cfg.Methods && cfg.Structs && r.Intn(5) == 0 {
			sd := rng.Pick(r, g.structs)
			recv := &Param{Name: "s", T: PtrTo(&Type{K: KStruct, Name: sd.Name})}
			f = g.function(fmt.Sprintf("M%d", i), recv)
		} else {
			f = g.function(fmt.Sprintf("F%d", i), nil)
		}
		g.funcs = append(g.funcs, f)
		p.Decls = append(p.Decls, Decl{Kind: "func", F: f})
		if f.Recv == nil && allScalar(f.Params) {
			for k := 0; k < 4; k++ {
				c := Call{Fn: f.Name, ResT: f.Results}
				for _, pa := range f.Params {
					c.Args = append(c.Args, g.val(pa.T))
					c.ArgT = append(c.ArgT, pa.T)
				}
				p.Calls = append(p.Calls, c)
			}
		}
	}
	return p
}
