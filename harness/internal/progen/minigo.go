package progen

import (
	"fmt"
	"strings"
)

// MiniGo printing: the package as terms of coq/theories/Tr/MiniGo.v.
// ok=false when a construct is outside the fragment.

var mgOps = map[string]string{"+": "OAdd", "-": "OSub", "*": "OMul", "/": "OQuo", "%": "ORem", "&": "OAnd", "|": "OOr", "^": "OXor",
	"<<": "OShl", ">>": "OShr", "<": "OLt", "<=": "OLe", ">": "OGt", ">=": "OGe", "==": "OEq", "!=": "ONe", "&&": "OLAnd", "||": "OLOr", "&^": "OAndNot"}

func mgType(t *Type) (string, bool) {
	switch t.K {
	case KU64:
		return "TU64", true
	case KBool:
		return "TBool", true
	}
	return "", false
}

func (e *Expr) MiniGo() (string, bool) {
	switch e.Op {
	case "lit":
		if e.T.K != KU64 {
			return "", false
		}
		return fmt.Sprintf("(ELit %d%%Z)", e.Val), true
	case "boollit":
		return fmt.Sprintf("(EBool %t)", e.B), true
	case "var":
		return fmt.Sprintf("(EVar %q)", e.Name), true
	case "bin":
		op, ok := mgOps[e.Name]
		a, ok1 := e.Args[0].MiniGo()
		b, ok2 := e.Args[1].MiniGo()
		if !ok || !ok1 || !ok2 {
			return "", false
		}
		// operands must be uint64 or bool
		for _, x := range e.Args {
			if x.T != nil && x.T.K != KU64 && x.T.K != KBool {
				return "", false
			}
		}
		return fmt.Sprintf("(EBin %s %s %s)", op, a, b), true
	case "not":
		a, ok := e.Args[0].MiniGo()
		return fmt.Sprintf("(ENot %s)", a), ok
	}
	return "", false
}

func mgBlock(ss []*Stmt) (string, bool) {
	if len(ss) == 0 {
		return "BNil", true
	}
	s, ok := ss[0].MiniGo()
	r, ok2 := mgBlock(ss[1:])
	return fmt.Sprintf("(BCons %s %s)", s, r), ok && ok2
}

func (s *Stmt) MiniGo() (string, bool) {
	switch s.Op {
	case "define":
		e, ok := s.E.MiniGo()
		return fmt.Sprintf("(SDefine %q %s)", s.Name, e), ok
	case "var":
		t, ok := mgType(s.T)
		if s.E == nil {
			return fmt.Sprintf("(SVar %q %s None)", s.Name, t), ok
		}
		e, ok2 := s.E.MiniGo()
		return fmt.Sprintf("(SVar %q %s (Some %s))", s.Name, t, e), ok && ok2
	case "assign":
		if s.Lhs.Op != "var" {
			return "", false
		}
		e, ok := s.E.MiniGo()
		return fmt.Sprintf("(SAssign %q %s)", s.Lhs.Name, e), ok
	case "opassign":
		if s.Lhs.Op != "var" {
			return "", false
		}
		op, ok0 := mgOps[strings.TrimSuffix(s.Tok, "=")]
		e, ok := s.E.MiniGo()
		return fmt.Sprintf("(SOpAssign %s %q %s)", op, s.Lhs.Name, e), ok && ok0
	case "incdec":
		if s.Lhs.Op != "var" {
			return "", false
		}
		return fmt.Sprintf("(SIncDec %t %q)", s.Tok == "++", s.Lhs.Name), true
	case "if":
		c, ok := s.E.MiniGo()
		th, ok1 := mgBlock(s.Body)
		if !s.HasElse {
			return fmt.Sprintf("(SIf %s %s None)", c, th), ok && ok1
		}
		el, ok2 := mgBlock(s.Else)
		return fmt.Sprintf("(SIf %s %s (Some %s))", c, th, el), ok && ok1 && ok2
	case "return":
		if len(s.Es) != 1 {
			return "", false
		}
		e, ok := s.Es[0].MiniGo()
		return fmt.Sprintf("(SReturn %s)", e), ok
	}
	return "", false
}

// MiniGo renders the function as a gfunc record.
func (f *Func) MiniGo() (string, bool) {
	if f.Recv != nil || len(f.Results) != 1 {
		return "", false
	}
	ok := true
	var ps []string
	for _, p := range f.Params {
		t, k := mgType(p.T)
		ok = ok && k
		ps = append(ps, fmt.Sprintf("(%q, %s)", p.Name, t))
	}
	if _, k := mgType(f.Results[0]); !k {
		ok = false
	}
	b, k := mgBlock(f.Body)
	return fmt.Sprintf("{| f_name := %q; f_params := [%s]; f_body := %s |}", f.Name, strings.Join(ps, "; "), b), ok && k
}

// ---------------------------------------------------------------- MiniGoL (loops, nested blocks)

func mglBlock(ss []*Stmt) (string, bool) {
	if len(ss) == 0 {
		return "LNil", true
	}
	s, ok := ss[0].MiniGoL()
	r, ok2 := mglBlock(ss[1:])
	return fmt.Sprintf("(LCons %s %s)", s, r), ok && ok2
}

func (s *Stmt) MiniGoL() (string, bool) {
	switch s.Op {
	case "define", "var", "assign", "opassign", "incdec":
		g, ok := s.MiniGo()
		return fmt.Sprintf("(LSimple %s)", g), ok
	case "if":
		c, ok := s.E.MiniGo()
		th, ok1 := mglBlock(s.Body)
		if !s.HasElse {
			return fmt.Sprintf("(LIf %s %s None)", c, th), ok && ok1
		}
		el, ok2 := mglBlock(s.Else)
		return fmt.Sprintf("(LIf %s %s (Some %s))", c, th, el), ok && ok1 && ok2
	case "return":
		if len(s.Es) != 1 {
			return "", false
		}
		e, ok := s.Es[0].MiniGo()
		return fmt.Sprintf("(LReturn %s)", e), ok
	case "break":
		return "LBreak", true
	case "continue":
		return "LContinue", true
	case "block":
		b, ok := mglBlock(s.Body)
		return fmt.Sprintf("(LBlock %s)", b), ok
	case "for":
		ok := true
		init, cond, post := "None", "None", "None"
		if s.Init != nil {
			if s.Init.Op != "define" {
				return "", false
			}
			e := s.Init.E
			var es string
			var k bool
			if e.Op == "tlit" && e.T.K == KU64 {
				es, k = fmt.Sprintf("(ELit %d%%Z)", e.Val), true
			} else {
				es, k = e.MiniGo()
			}
			ok = ok && k
			init = fmt.Sprintf("(Some (%q, %s))", s.Init.Name, es)
		}
		if s.E != nil {
			c, k := s.E.MiniGo()
			ok = ok && k
			cond = fmt.Sprintf("(Some %s)", c)
		}
		if s.Post != nil {
			p, k := s.Post.MiniGo()
			ok = ok && k
			post = fmt.Sprintf("(Some %s)", p)
		}
		b, k := mglBlock(s.Body)
		return fmt.Sprintf("(LFor %s %s %s %s)", init, cond, post, b), ok && k
	}
	return "", false
}

// MiniGoL renders the function as an lfunc record.
func (f *Func) MiniGoL() (string, bool) {
	if f.Recv != nil || len(f.Results) != 1 {
		return "", false
	}
	ok := true
	var ps []string
	for _, p := range f.Params {
		t, k := mgType(p.T)
		ok = ok && k
		ps = append(ps, fmt.Sprintf("(%q, %s)", p.Name, t))
	}
	if _, k := mgType(f.Results[0]); !k {
		ok = false
	}
	b, k := mglBlock(f.Body)
	return fmt.Sprintf("{| lf_name := %q; lf_params := [%s]; lf_body := %s |}", f.Name, strings.Join(ps, "; "), b), ok && k
}
