// Package progen generates type-correct Go packages in (and, on request,
// slightly outside) the Goose subset together with a call plan, and prints
// them as Go source and as terms of the Coq model of the translator (MiniGo).
package progen

import (
	"fmt"
	"strings"
)

type Kind int

const (
	KU64 Kind = iota
	KU32
	KU8
	KBool
	KStr
	KSlice
	KMap
	KStruct
	KPtr // pointer to struct
)

type Type struct {
	K    Kind
	Elem *Type // slice element, map value, pointer target
	Key  *Type
	Name string // struct name
}

var (
	TU64  = &Type{K: KU64}
	TU32  = &Type{K: KU32}
	TU8   = &Type{K: KU8}
	TBool = &Type{K: KBool}
	TStr  = &Type{K: KStr}
)

func SliceOf(t *Type) *Type  { return &Type{K: KSlice, Elem: t} }
func MapOf(k, v *Type) *Type { return &Type{K: KMap, Key: k, Elem: v} }
func PtrTo(t *Type) *Type    { return &Type{K: KPtr, Elem: t} }

func (t *Type) Go() string {
	switch t.K {
	case KU64:
		return "uint64"
	case KU32:
		return "uint32"
	case KU8:
		return "byte" // goose accepts the spelling byte for types (uint8 is reported unsupported)
	case KBool:
		return "bool"
	case KStr:
		return "string"
	case KSlice:
		return "[]" + t.Elem.Go()
	case KMap:
		return "map[" + t.Key.Go() + "]" + t.Elem.Go()
	case KStruct:
		return t.Name
	case KPtr:
		return "*" + t.Elem.Go()
	}
	panic("type")
}

func (t *Type) Eq(u *Type) bool { return t.Go() == u.Go() }
func (t *Type) IsInt() bool     { return t.K == KU64 || t.K == KU32 || t.K == KU8 }
func (t *Type) Width() uint {
	switch t.K {
	case KU64:
		return 64
	case KU32:
		return 32
	case KU8:
		return 8
	}
	return 0
}

// Expr is an expression tree. Op selects the form.
type Expr struct {
	Op   string // lit var bin not compl conv call index len field mapget append make makemap structlit addrlit deref sliceexpr strlit boollit bytesof stringof
	T    *Type
	Args []*Expr
	Name string // variable, function, field or operator
	Val  uint64
	Str  string
	B    bool
	Flds []string // structlit: field names for Args
}

// Stmt is a statement tree.
type Stmt struct {
	Op      string // define var assign opassign incdec if for forcond rangeslice rangemap return break continue block expr define2 raw
	Name    string
	Name2   string
	T       *Type
	E       *Expr
	Lhs     *Expr
	Es      []*Expr
	Body    []*Stmt
	Else    []*Stmt
	HasElse bool
	Init    *Stmt
	Post    *Stmt
	Tok     string
	Raw     string // raw Go text (catalogue insertions)
	Comment string // a comment line printed before the statement
}

type Param struct {
	Name string
	T    *Type
}

type Func struct {
	Name    string
	Recv    *Param // method receiver or nil
	Params  []Param
	Results []*Type
	Body    []*Stmt
	Doc     string
	Deps    []string // same-package names mentioned (functions, structs, constants)
}

type StructDecl struct {
	Name   string
	Fields []Param
	Doc    string
}

type ConstDecl struct {
	Name string
	T    *Type
	Val  uint64
	Deps []string
	Expr string // Go text of the initialiser
	Doc  string
}

type Call struct {
	Fn   string
	Args []uint64 // scalar arguments (bool as 0/1)
	ArgT []*Type
	ResT []*Type
}

type Decl struct {
	Kind string // func struct const constblock
	F    *Func
	S    *StructDecl
	C    *ConstDecl
	CB   []*ConstDecl // a parenthesised const ( ... ) block: one declaration, several names
}

// DeclNames: the Coq names the declaration must yield.
func (d Decl) DeclNames() []string {
	if d.Kind == "constblock" {
		var ns []string
		for _, c := range d.CB {
			ns = append(ns, c.Name)
		}
		return ns
	}
	return []string{d.DeclName()}
}

func (d Decl) DeclName() string {
	switch d.Kind {
	case "func":
		if d.F.Recv != nil {
			return strings.TrimPrefix(d.F.Recv.T.Go(), "*") + "__" + d.F.Name
		}
		return d.F.Name
	case "struct":
		return d.S.Name
	}
	return d.C.Name
}

type Package struct {
	Name  string
	Decls []Decl // in dependency order (a declaration mentions only earlier ones, or itself)
	Calls []Call
	Frag  bool // every construct is inside the MiniGo fragment
}

func (p *Package) Funcs() []*Func {
	var fs []*Func
	for _, d := range p.Decls {
		if d.Kind == "func" {
			fs = append(fs, d.F)
		}
	}
	return fs
}

// ---------------------------------------------------------------- Go printing

func lit(t *Type, v uint64) string {
	switch t.K {
	case KU64:
		return fmt.Sprintf("%d", v)
	case KU32:
		return fmt.Sprintf("%d", uint32(v))
	case KU8:
		return fmt.Sprintf("%d", uint8(v))
	}
	panic("lit")
}

func (e *Expr) Go() string {
	switch e.Op {
	case "lit":
		return lit(e.T, e.Val)
	case "tlit": // literal with an explicit conversion, e.g. uint32(7)
		return fmt.Sprintf("%s(%s)", e.T.Go(), lit(e.T, e.Val))
	case "boollit":
		if e.B {
			return "true"
		}
		return "false"
	case "strlit":
		return fmt.Sprintf("%q", e.Str)
	case "var":
		return e.Name
	case "bin":
		return fmt.Sprintf("(%s %s %s)", e.Args[0].Go(), e.Name, e.Args[1].Go())
	case "not":
		return "!" + e.Args[0].Go()
	case "compl":
		return "^" + e.Args[0].Go()
	case "conv":
		return fmt.Sprintf("%s(%s)", e.Name, e.Args[0].Go())
	case "call":
		var as []string
		for _, a := range e.Args {
			as = append(as, a.Go())
		}
		return fmt.Sprintf("%s(%s)", e.Name, strings.Join(as, ", "))
	case "mcall":
		var as []string
		for _, a := range e.Args[1:] {
			as = append(as, a.Go())
		}
		return fmt.Sprintf("%s.%s(%s)", e.Args[0].Go(), e.Name, strings.Join(as, ", "))
	case "index":
		return fmt.Sprintf("%s[%s]", e.Args[0].Go(), e.Args[1].Go())
	case "len":
		return fmt.Sprintf("uint64(len(%s))", e.Args[0].Go())
	case "field":
		return fmt.Sprintf("%s.%s", e.Args[0].Go(), e.Name)
	case "append":
		return fmt.Sprintf("append(%s, %s)", e.Args[0].Go(), e.Args[1].Go())
	case "appendslice":
		return fmt.Sprintf("append(%s, %s...)", e.Args[0].Go(), e.Args[1].Go())
	case "make":
		return fmt.Sprintf("make(%s, %s)", e.T.Go(), e.Args[0].Go())
	case "makemap":
		return fmt.Sprintf("make(%s)", e.T.Go())
	case "structlit", "addrlit":
		var fs []string
		for i, a := range e.Args {
			fs = append(fs, fmt.Sprintf("%s: %s", e.Flds[i], a.Go()))
		}
		name := e.T.Name
		pre := ""
		if e.Op == "addrlit" {
			name = e.T.Elem.Name
			pre = "&"
		}
		return fmt.Sprintf("%s%s{%s}", pre, name, strings.Join(fs, ", "))
	case "deref":
		return "*" + e.Args[0].Go()
	case "sliceexpr":
		lo, hi := "", ""
		if e.Args[1] != nil {
			lo = e.Args[1].Go()
		}
		if e.Args[2] != nil {
			hi = e.Args[2].Go()
		}
		return fmt.Sprintf("%s[%s:%s]", e.Args[0].Go(), lo, hi)
	case "bytesof":
		return fmt.Sprintf("[]byte(%s)", e.Args[0].Go())
	case "stringof":
		return fmt.Sprintf("string(%s)", e.Args[0].Go())
	case "raw":
		return e.Str
	}
	panic("expr op " + e.Op)
}

// PrintComments controls whether comments, doc comments and logging calls are
// printed (the baseline variant of a package is printed without them).
var PrintComments = true

func goStmts(sb *strings.Builder, ss []*Stmt, ind string) {
	for _, s := range ss {
		s.goStmt(sb, ind)
	}
}

func (s *Stmt) simple() string {
	switch s.Op {
	case "define":
		return fmt.Sprintf("%s := %s", s.Name, s.E.Go())
	case "define2":
		return fmt.Sprintf("%s, %s := %s", s.Name, s.Name2, s.E.Go())
	case "assign":
		return fmt.Sprintf("%s = %s", s.Lhs.Go(), s.E.Go())
	case "opassign":
		return fmt.Sprintf("%s %s %s", s.Lhs.Go(), s.Tok, s.E.Go())
	case "incdec":
		return fmt.Sprintf("%s%s", s.Lhs.Go(), s.Tok)
	case "expr":
		return s.E.Go()
	}
	panic("simple " + s.Op)
}

func (s *Stmt) goStmt(sb *strings.Builder, ind string) {
	if s.Op == "log" {
		if PrintComments {
			fmt.Fprintf(sb, "%s%s\n", ind, s.Raw)
		}
		return
	}
	if s.Comment != "" && PrintComments {
		for _, l := range strings.Split(s.Comment, "\n") {
			fmt.Fprintf(sb, "%s// %s\n", ind, l)
		}
	}
	switch s.Op {
	case "define", "define2", "assign", "opassign", "incdec", "expr":
		fmt.Fprintf(sb, "%s%s\n", ind, s.simple())
	case "var":
		if s.E != nil {
			fmt.Fprintf(sb, "%svar %s %s = %s\n", ind, s.Name, s.T.Go(), s.E.Go())
		} else {
			fmt.Fprintf(sb, "%svar %s %s\n", ind, s.Name, s.T.Go())
		}
	case "if":
		fmt.Fprintf(sb, "%sif %s {\n", ind, s.E.Go())
		goStmts(sb, s.Body, ind+"\t")
		if s.HasElse {
			fmt.Fprintf(sb, "%s} else {\n", ind)
			goStmts(sb, s.Else, ind+"\t")
		}
		fmt.Fprintf(sb, "%s}\n", ind)
	case "for":
		init, post, cond := "", "", ""
		if s.Init != nil {
			init = s.Init.simple()
		}
		if s.Post != nil {
			post = s.Post.simple()
		}
		if s.E != nil {
			cond = s.E.Go()
		}
		if s.Init == nil && s.Post == nil {
			if cond == "" {
				fmt.Fprintf(sb, "%sfor {\n", ind)
			} else {
				fmt.Fprintf(sb, "%sfor %s {\n", ind, cond)
			}
		} else {
			fmt.Fprintf(sb, "%sfor %s; %s; %s {\n", ind, init, cond, post)
		}
		goStmts(sb, s.Body, ind+"\t")
		fmt.Fprintf(sb, "%s}\n", ind)
	case "rangeslice", "rangemap":
		k, v := s.Name, s.Name2
		switch {
		case k == "" && v == "":
			fmt.Fprintf(sb, "%sfor range %s {\n", ind, s.E.Go())
		case v == "":
			fmt.Fprintf(sb, "%sfor %s := range %s {\n", ind, k, s.E.Go())
		default:
			if k == "" {
				k = "_"
			}
			fmt.Fprintf(sb, "%sfor %s, %s := range %s {\n", ind, k, v, s.E.Go())
		}
		goStmts(sb, s.Body, ind+"\t")
		fmt.Fprintf(sb, "%s}\n", ind)
	case "return":
		var es []string
		for _, e := range s.Es {
			es = append(es, e.Go())
		}
		if len(es) == 0 {
			fmt.Fprintf(sb, "%sreturn\n", ind)
		} else {
			fmt.Fprintf(sb, "%sreturn %s\n", ind, strings.Join(es, ", "))
		}
	case "break", "continue":
		fmt.Fprintf(sb, "%s%s\n", ind, s.Op)
	case "block":
		fmt.Fprintf(sb, "%s{\n", ind)
		goStmts(sb, s.Body, ind+"\t")
		fmt.Fprintf(sb, "%s}\n", ind)
	case "raw":
		for _, l := range strings.Split(s.Raw, "\n") {
			fmt.Fprintf(sb, "%s%s\n", ind, l)
		}
	default:
		panic("stmt op " + s.Op)
	}
}

func (f *Func) Go() string {
	var sb strings.Builder
	if f.Doc != "" && PrintComments {
		for _, l := range strings.Split(f.Doc, "\n") {
			fmt.Fprintf(&sb, "// %s\n", l)
		}
	}
	var ps []string
	for _, p := range f.Params {
		ps = append(ps, p.Name+" "+p.T.Go())
	}
	var rs []string
	for _, r := range f.Results {
		rs = append(rs, r.Go())
	}
	res := ""
	if len(rs) == 1 {
		res = " " + rs[0]
	} else if len(rs) > 1 {
		res = " (" + strings.Join(rs, ", ") + ")"
	}
	recv := ""
	if f.Recv != nil {
		recv = fmt.Sprintf("(%s %s) ", f.Recv.Name, f.Recv.T.Go())
	}
	fmt.Fprintf(&sb, "func %s%s(%s)%s {\n", recv, f.Name, strings.Join(ps, ", "), res)
	goStmts(&sb, f.Body, "\t")
	sb.WriteString("}\n")
	return sb.String()
}

func (s *StructDecl) Go() string {
	var sb strings.Builder
	if s.Doc != "" && PrintComments {
		for _, l := range strings.Split(s.Doc, "\n") {
			fmt.Fprintf(&sb, "// %s\n", l)
		}
	}
	fmt.Fprintf(&sb, "type %s struct {\n", s.Name)
	for _, f := range s.Fields {
		fmt.Fprintf(&sb, "\t%s %s\n", f.Name, f.T.Go())
	}
	sb.WriteString("}\n")
	return sb.String()
}

func (c *ConstDecl) Go() string {
	doc := ""
	if c.Doc != "" && PrintComments {
		for _, l := range strings.Split(c.Doc, "\n") {
			doc += "// " + l + "\n"
		}
	}
	return doc + fmt.Sprintf("const %s %s = %s\n", c.Name, c.T.Go(), c.Expr)
}

func (d Decl) Go() string {
	if d.Kind == "constblock" {
		var sb strings.Builder
		sb.WriteString("const (\n")
		for _, c := range d.CB {
			fmt.Fprintf(&sb, "\t%s %s = %s\n", c.Name, c.T.Go(), c.Expr)
		}
		sb.WriteString(")\n")
		return sb.String()
	}
	switch d.Kind {
	case "func":
		return d.F.Go()
	case "struct":
		return d.S.Go()
	}
	return d.C.Go()
}

// GoFiles prints the package as files; order[i] lists the indices of the
// declarations of file i, in the order they are written.
func (p *Package) GoFiles(names []string, order [][]int, imports []string) map[string]string {
	out := map[string]string{}
	for i, name := range names {
		var sb strings.Builder
		fmt.Fprintf(&sb, "package %s\n\n", p.Name)
		if len(imports) > 0 && i == 0 {
			sb.WriteString("import (\n")
			for _, im := range imports {
				fmt.Fprintf(&sb, "\t%q\n", im)
			}
			sb.WriteString(")\n\n")
		}
		for _, j := range order[i] {
			sb.WriteString(p.Decls[j].Go())
			sb.WriteString("\n")
		}
		out[name] = sb.String()
	}
	return out
}

// Shuffled returns file names and a per-file order of the declarations: a
// random permutation split over 1-3 files whose names sort in an arbitrary way.
func (p *Package) Shuffled(intn func(int) int) ([]string, [][]int) {
	n := len(p.Decls)
	perm := make([]int, n)
	for i := range perm {
		perm[i] = i
	}
	for i := n - 1; i > 0; i-- {
		j := intn(i + 1)
		perm[i], perm[j] = perm[j], perm[i]
	}
	pool := []string{"a.go", "b.go", "z.go", "0.go", "m_file.go", "Q.go"}
	nf := 1 + intn(3)
	var names []string
	used := map[string]bool{}
	for len(names) < nf {
		c := pool[intn(len(pool))]
		if !used[c] {
			used[c] = true
			names = append(names, c)
		}
	}
	order := make([][]int, nf)
	for _, d := range perm {
		f := intn(nf)
		order[f] = append(order[f], d)
	}
	return names, order
}

func stmtsHaveLog(ss []*Stmt) bool {
	for _, s := range ss {
		if s.Op == "log" || stmtsHaveLog(s.Body) || stmtsHaveLog(s.Else) {
			return true
		}
	}
	return false
}

// HasLogs: some function contains a logging call.
func (p *Package) HasLogs() bool {
	for _, f := range p.Funcs() {
		if stmtsHaveLog(f.Body) {
			return true
		}
	}
	return false
}

// GoFile prints everything into one file in declaration order.
func (p *Package) GoFile() string {
	idx := make([]int, len(p.Decls))
	for i := range idx {
		idx[i] = i
	}
	var imports []string
	if PrintComments && p.HasLogs() {
		imports = []string{"log"}
	}
	return p.GoFiles([]string{"p.go"}, [][]int{idx}, imports)["p.go"]
}
