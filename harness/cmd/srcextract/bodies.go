package main

import (
	"bytes"
	"fmt"
	"go/ast"
	"go/parser"
	"go/printer"
	"go/token"
	"os"
	"os/exec"
	"path/filepath"
	"sort"
	"strings"
)

// coqString renders s as a Coq string literal.
func coqString(s string) string {
	return "\"" + strings.ReplaceAll(s, "\"", "\"\"") + "\""
}

type srcFile struct {
	pkg  string // short package label used in keys
	path string // relative to the repo
}

var bodyFiles = []srcFile{
	{"machine", "machine/prims.go"},
	{"machine", "machine/proph.go"},
	{"disk", "machine/disk/disk.go"},
	{"disk", "machine/disk/mem.go"},
	{"disk", "machine/disk/file.go"},
	{"async_disk", "machine/async_disk/async_disk.go"},
	{"async_disk", "machine/async_disk/mem.go"},
	{"async_disk", "machine/async_disk/file.go"},
	{"filesys", "machine/filesys/filesys.go"},
	{"filesys", "machine/filesys/mem.go"},
	{"filesys", "machine/filesys/dir.go"},
	{"test_gen", "cmd/test_gen/main.go"},
	{"goosecmd", "cmd/goose/main.go"},
	{"goose", "goose.go"},
	{"goose", "interface.go"},
	{"goose", "idents.go"},
	{"goose", "errors.go"},
	{"goose", "types.go"},
	{"coq", "internal/coq/coq.go"},
}

// moduleDir asks the go command (offline) where a required module is cached
func moduleDir(repo, mod string) string {
	cmd := exec.Command("go", "list", "-m", "-f", "{{.Dir}}", mod)
	cmd.Dir = repo
	cmd.Env = append(os.Environ(), "GOFLAGS=-mod=mod", "GOPROXY=off", "GOSUMDB=off", "GOTOOLCHAIN=local")
	out, err := cmd.Output()
	if err != nil {
		return ""
	}
	return strings.TrimSpace(string(out))
}

func recvName(fd *ast.FuncDecl) string {
	if fd.Recv == nil || len(fd.Recv.List) == 0 {
		return ""
	}
	t := fd.Recv.List[0].Type
	if s, ok := t.(*ast.StarExpr); ok {
		t = s.X
	}
	if id, ok := t.(*ast.Ident); ok {
		return id.Name
	}
	return "?"
}

func nodeText(fset *token.FileSet, n ast.Node) string {
	var buf bytes.Buffer
	cfg := printer.Config{Mode: printer.RawFormat, Tabwidth: 1}
	if err := cfg.Fprint(&buf, fset, n); err != nil {
		return "<?>"
	}
	// normalise whitespace: the table is about code, not layout
	return strings.Join(strings.Fields(buf.String()), " ")
}

func parseFile(repo, rel string) (*token.FileSet, *ast.File, error) {
	fset := token.NewFileSet()
	f, err := parser.ParseFile(fset, filepath.Join(repo, rel), nil, 0) // comments dropped
	return fset, f, err
}

// genBodies: for every function/method of the support libraries and the two
// commands: its signature and body text (comments and layout removed), and the
// package-level constants with their values.
func genBodies(repo string) string {
	type ent struct{ key, sig, body string }
	var ents []ent
	var consts []ent
	var types []ent
	var vars []ent
	type imp struct {
		file string
		paths []string
	}
	var imps []imp
	missing := []string{}
	files := append([]srcFile{}, bodyFiles...)
	// the delegate of machine.WaitTimeout lives in the pinned module github.com/goose-lang/primitive
	if dir := moduleDir(repo, "github.com/goose-lang/primitive"); dir != "" {
		if rel, err := filepath.Rel(repo, filepath.Join(dir, "prims.go")); err == nil {
			files = append(files, srcFile{"primitive", rel})
		}
	}
	for _, sf := range files {
		if _, err := os.Stat(filepath.Join(repo, sf.path)); err != nil {
			missing = append(missing, sf.path)
			continue
		}
		fset, f, err := parseFile(repo, sf.path)
		if err != nil {
			missing = append(missing, sf.path)
			continue
		}
		im := imp{file: sf.path}
		for _, is := range f.Imports {
			p := strings.Trim(is.Path.Value, "\"")
			if is.Name != nil {
				p = is.Name.Name + "=" + p
			}
			im.paths = append(im.paths, p)
		}
		imps = append(imps, im)
		for _, d := range f.Decls {
			switch d := d.(type) {
			case *ast.FuncDecl:
				key := sf.pkg + "."
				if r := recvName(d); r != "" {
					key += r + "."
				}
				key += d.Name.Name
				body := ""
				if d.Body != nil {
					body = nodeText(fset, d.Body)
				}
				ents = append(ents, ent{key, nodeText(fset, d.Type), body})
			case *ast.GenDecl:
				if d.Tok == token.TYPE {
					for _, sp := range d.Specs {
						ts := sp.(*ast.TypeSpec)
						kind := "def"
						if ts.Assign.IsValid() {
							kind = "alias"
						}
						types = append(types, ent{sf.pkg + "." + ts.Name.Name, kind, nodeText(fset, ts.Type)})
					}
				}
				if d.Tok == token.VAR {
					for _, sp := range d.Specs {
						vs := sp.(*ast.ValueSpec)
						for i, n := range vs.Names {
							val := ""
							if i < len(vs.Values) {
								val = nodeText(fset, vs.Values[i])
							}
							typ := ""
							if vs.Type != nil {
								typ = nodeText(fset, vs.Type)
							}
							vars = append(vars, ent{sf.pkg + "." + n.Name, typ, val})
						}
					}
				}
				if d.Tok == token.CONST {
					for _, s := range d.Specs {
						vs := s.(*ast.ValueSpec)
						for i, n := range vs.Names {
							val := ""
							if i < len(vs.Values) {
								val = nodeText(fset, vs.Values[i])
							}
							typ := ""
							if vs.Type != nil {
								typ = nodeText(fset, vs.Type)
							}
							consts = append(consts, ent{sf.pkg + "." + n.Name, typ, val})
						}
					}
				}
			}
		}
	}
	sort.SliceStable(ents, func(i, j int) bool { return ents[i].key < ents[j].key })
	var b strings.Builder
	b.WriteString("(* REGENERATED by harness/cmd/srcextract from /repo on every run. Do not edit. *)\n")
	b.WriteString("From Coq Require Import String List.\nImport ListNotations.\nOpen Scope string_scope.\n\n")
	b.WriteString("(* (qualified name, signature, body) with comments and layout removed *)\n")
	b.WriteString("Definition func_bodies : list (string * (string * string)) := [\n")
	for i, e := range ents {
		sep := ";"
		if i == len(ents)-1 {
			sep = ""
		}
		fmt.Fprintf(&b, "  (%s, (%s, %s))%s\n", coqString(e.key), coqString(e.sig), coqString(e.body), sep)
	}
	b.WriteString("].\n\n")
	b.WriteString("(* (qualified constant, type, value expression) *)\n")
	b.WriteString("Definition const_decls : list (string * (string * string)) := [\n")
	for i, e := range consts {
		sep := ";"
		if i == len(consts)-1 {
			sep = ""
		}
		fmt.Fprintf(&b, "  (%s, (%s, %s))%s\n", coqString(e.key), coqString(e.sig), coqString(e.body), sep)
	}
	b.WriteString("].\n\n")
	emit := func(comment, name string, es []ent) {
		b.WriteString("(* " + comment + " *)\n")
		b.WriteString("Definition " + name + " : list (string * (string * string)) := [\n")
		for i, e := range es {
			sep := ";"
			if i == len(es)-1 {
				sep = ""
			}
			fmt.Fprintf(&b, "  (%s, (%s, %s))%s\n", coqString(e.key), coqString(e.sig), coqString(e.body), sep)
		}
		b.WriteString("].\n\n")
	}
	emit("(qualified type, def|alias, type expression)", "type_decls", types)
	emit("(qualified package-level variable, type, initialiser)", "var_decls", vars)
	b.WriteString("(* file -> imports (renamed imports as name=path) *)\n")
	b.WriteString("Definition file_imports : list (string * list string) := [\n")
	for i, im := range imps {
		sep := ";"
		if i == len(imps)-1 {
			sep = ""
		}
		qs := []string{}
		for _, p := range im.paths {
			qs = append(qs, coqString(p))
		}
		fmt.Fprintf(&b, "  (%s, [%s])%s\n", coqString(im.file), strings.Join(qs, "; "), sep)
	}
	b.WriteString("].\n\n")
	b.WriteString("Definition missing_files : list string := [")
	for i, m := range missing {
		if i > 0 {
			b.WriteString("; ")
		}
		b.WriteString(coqString(m))
	}
	b.WriteString("].\n")
	return b.String()
}
