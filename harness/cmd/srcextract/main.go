// srcextract regenerates coq/gen/*.v from the current sources of /repo.
// It is part of the trusted base (an unverified translator) and fails closed:
// shapes it does not recognise become Unknown nodes which make the boolean
// well-formedness predicates false.
package main

import (
	"flag"
	"fmt"
	"os"
	"path/filepath"
)

func main() {
	repo := flag.String("repo", "/repo", "repository root")
	out := flag.String("out", "", "output directory for the generated .v files")
	flag.Parse()
	if *out == "" {
		fmt.Fprintln(os.Stderr, "need -out")
		os.Exit(2)
	}
	if err := os.MkdirAll(*out, 0o755); err != nil {
		panic(err)
	}
	write := func(name, content string) {
		if err := os.WriteFile(filepath.Join(*out, name), []byte(content), 0o644); err != nil {
			panic(err)
		}
	}
	write("GenBodies.v", genBodies(*repo))
	write("GenSkeletons.v", genSkeletons(*repo))
	write("GenTables.v", genTables(*repo))
	write("GenInventory.v", genInventory(*repo))
	fmt.Println("srcextract: ok")
}
