// crashdrv feeds goose type-correct Go packages that were not written with
// goose in mind and checks how it ends: exit status 0 or 1, never a Go panic;
// every reported error carries a documented category and a source position
// inside a top-level declaration of that package; and every declaration is
// either present in the (partial) output or has an error reported inside it.
//
// Sources of packages: the construct catalogue, generated packages with
// out-of-subset statements injected, and type-preserving mutants of the
// packages shipped under internal/examples.
//
//	MISMATCH kind=<crash|bad-category|position-outside-package|declaration-lost> pkg=<..> detail=<hex>
//	DONE packages=.. crashes=.. errors=.. mutants=.. mutants_discarded=..
package main

import (
	"time"
	"context"
	"bufio"
	"bytes"
	"encoding/hex"
	"flag"
	"fmt"
	"go/ast"
	"go/parser"
	"go/printer"
	"go/token"
	"os"
	"os/exec"
	"path/filepath"
	"regexp"
	"sort"
	"strconv"
	"strings"

	"verif/harness/internal/catalog"
	"verif/harness/internal/progen"
	"verif/harness/internal/rng"
)

func goEnv() []string {
	return append(os.Environ(), "GOFLAGS=-mod=mod", "GOPROXY=off", "GOSUMDB=off", "GOTOOLCHAIN=local")
}

var categories = map[string]bool{"unsupported": true, "todo": true, "future": true, "impossible(go)": true, "impossible(no-examples)": true}
var recRe = regexp.MustCompile(`(?m)^(?:conversion failed: )?\[([^\]]+)\]: `)
var srcRe = regexp.MustCompile(`(?m)^  src: (.*)$`)
var defRe = regexp.MustCompile(`(?m)^Definition ([A-Za-z0-9_']+)`)

type declRange struct {
	name       string
	file       string
	from, to   int
	isFunc     bool
	expectName string
}

// decls of a package directory: line ranges of the top-level declarations
func declsOf(dir string) []declRange {
	var out []declRange
	fset := token.NewFileSet()
	ents, _ := os.ReadDir(dir)
	for _, e := range ents {
		if e.IsDir() || !strings.HasSuffix(e.Name(), ".go") || strings.HasSuffix(e.Name(), "_test.go") {
			continue
		}
		f, err := parser.ParseFile(fset, filepath.Join(dir, e.Name()), nil, parser.ParseComments)
		if err != nil {
			continue
		}
		for _, d := range f.Decls {
			dr := declRange{file: filepath.Join(dir, e.Name()), from: fset.Position(d.Pos()).Line, to: fset.Position(d.End()).Line}
			if fd, ok := d.(*ast.FuncDecl); ok {
				if fd.Doc != nil {
					dr.from = fset.Position(fd.Doc.Pos()).Line
				}
				dr.isFunc = true
				dr.name = fd.Name.Name
				dr.expectName = fd.Name.Name
				if fd.Recv != nil && len(fd.Recv.List) == 1 {
					t := fd.Recv.List[0].Type
					if s, ok := t.(*ast.StarExpr); ok {
						t = s.X
					}
					if id, ok := t.(*ast.Ident); ok {
						dr.expectName = id.Name + "__" + fd.Name.Name
					}
				}
				if fd.Name.Name == "_" || fd.Name.Name == "init" || fd.Type.TypeParams != nil {
					dr.isFunc = false
				}
			}
			out = append(out, dr)
		}
	}
	return out
}

type verdict struct {
	crashes, errors int
}

func check(w *bufio.Writer, goose, mod, rel, outRoot string, v *verdict) {
	out := filepath.Join(outRoot, strings.ReplaceAll(rel, "/", "_"))
	os.RemoveAll(out)
	tctx, cancel := context.WithTimeout(context.Background(), 60*time.Second)
	defer cancel()
	cmd := exec.CommandContext(tctx, goose, "-out", out, "-ignore-errors", "./"+rel)
	cmd.Dir = mod
	cmd.Env = goEnv()
	var buf bytes.Buffer
	cmd.Stdout = &buf
	cmd.Stderr = &buf
	err := cmd.Run()
	if tctx.Err() != nil {
		v.crashes++
		fmt.Fprintf(w, "MISMATCH kind=no-termination pkg=%s detail=%s\n", rel, hex.EncodeToString([]byte("goose did not terminate within 60 s on this package")))
		return
	}
	st := 0
	if err != nil {
		if ee, ok := err.(*exec.ExitError); ok {
			st = ee.ExitCode()
		} else {
			st = -1
		}
	}
	txt := buf.String()
	bad := func(kind, detail string) {
		fmt.Fprintf(w, "MISMATCH kind=%s pkg=%s detail=%s\n", kind, rel, hex.EncodeToString([]byte(detail)))
	}
	if (st != 0 && st != 1) || strings.Contains(txt, "goroutine ") || strings.Contains(txt, "panic:") {
		v.crashes++
		d := txt
		if i := strings.Index(d, "panic"); i >= 0 {
			d = d[i:]
		}
		if len(d) > 1800 {
			d = d[:1800]
		}
		bad("crash", fmt.Sprintf("exit status %d\n%s", st, d))
		return
	}
	dir := filepath.Join(mod, rel)
	decls := declsOf(dir)
	for _, m := range recRe.FindAllStringSubmatch(txt, -1) {
		v.errors++
		if !categories[m[1]] {
			bad("bad-category", m[1])
		}
	}
	// positions
	hit := map[int]bool{}
	for _, m := range srcRe.FindAllStringSubmatch(txt, -1) {
		parts := strings.Split(m[1], ":")
		okPos := false
		if len(parts) >= 3 {
			file := strings.Join(parts[:len(parts)-2], ":")
			line, _ := strconv.Atoi(parts[len(parts)-2])
			for i, d := range decls {
				if d.file == file && d.from <= line && line <= d.to {
					okPos = true
					hit[i] = true
				}
			}
		}
		if !okPos {
			bad("position-outside-package", m[1])
		}
	}
	if st == 1 && len(srcRe.FindAllString(txt, -1)) == 0 && !strings.Contains(txt, "could not") {
		bad("error-without-report", txt)
	}
	// every function declaration is translated or has an error inside it
	var vfiles []string
	filepath.Walk(out, func(p string, info os.FileInfo, err error) error {
		if err == nil && strings.HasSuffix(p, ".v") {
			vfiles = append(vfiles, p)
		}
		return nil
	})
	defs := map[string]bool{}
	for _, vf := range vfiles {
		b, _ := os.ReadFile(vf)
		for _, m := range defRe.FindAllStringSubmatch(string(b), -1) {
			defs[m[1]] = true
		}
	}
	if len(vfiles) > 0 || st == 0 {
		for i, d := range decls {
			if d.isFunc && !defs[d.expectName] && !hit[i] {
				bad("declaration-lost", fmt.Sprintf("%s (%s:%d) is neither in the output nor reported", d.expectName, filepath.Base(d.file), d.from))
			}
		}
	}
	os.RemoveAll(out)
}

// ---------------------------------------------------------------- mutants
type mutator struct {
	r    *rng.R
	done bool
}

func (m *mutator) stmtList(l []ast.Stmt) []ast.Stmt {
	if m.done || len(l) == 0 || m.r.Intn(3) != 0 {
		return l
	}
	i := m.r.Intn(len(l))
	switch m.r.Intn(5) {
	case 0: // wrap in a block
		m.done = true
		l[i] = &ast.BlockStmt{List: []ast.Stmt{l[i]}}
	case 1: // duplicate an assignment or call
		switch l[i].(type) {
		case *ast.ExprStmt, *ast.IncDecStmt:
			m.done = true
			l = append(l[:i+1], append([]ast.Stmt{l[i]}, l[i+1:]...)...)
		case *ast.AssignStmt:
			if l[i].(*ast.AssignStmt).Tok != token.DEFINE {
				m.done = true
				l = append(l[:i+1], append([]ast.Stmt{l[i]}, l[i+1:]...)...)
			}
		}
	case 2: // add an empty else
		if s, ok := l[i].(*ast.IfStmt); ok && s.Else == nil {
			m.done = true
			s.Else = &ast.BlockStmt{}
		}
	case 3: // x op= e  ->  x = x op e ; x++ -> x += 1
		switch s := l[i].(type) {
		case *ast.IncDecStmt:
			m.done = true
			tok := token.ADD_ASSIGN
			if s.Tok == token.DEC {
				tok = token.SUB_ASSIGN
			}
			l[i] = &ast.AssignStmt{Lhs: []ast.Expr{s.X}, Tok: tok, Rhs: []ast.Expr{&ast.BasicLit{Kind: token.INT, Value: "1"}}}
		case *ast.AssignStmt:
			ops := map[token.Token]token.Token{token.ADD_ASSIGN: token.ADD, token.SUB_ASSIGN: token.SUB, token.OR_ASSIGN: token.OR, token.AND_ASSIGN: token.AND}
			if op, ok := ops[s.Tok]; ok && len(s.Lhs) == 1 {
				m.done = true
				l[i] = &ast.AssignStmt{Lhs: s.Lhs, Tok: token.ASSIGN, Rhs: []ast.Expr{&ast.BinaryExpr{X: s.Lhs[0], Op: op, Y: &ast.ParenExpr{X: s.Rhs[0]}}}}
			}
		}
	case 4: // wrap the tail in "if true"
		if i+1 < len(l) {
			if _, isDecl := l[i].(*ast.DeclStmt); !isDecl {
				if as, ok := l[i].(*ast.AssignStmt); !ok || as.Tok != token.DEFINE {
					m.done = true
					l[i] = &ast.IfStmt{Cond: ast.NewIdent("true"), Body: &ast.BlockStmt{List: []ast.Stmt{l[i]}}}
				}
			}
		}
	}
	return l
}

func (m *mutator) Visit(n ast.Node) ast.Visitor {
	switch s := n.(type) {
	case *ast.BlockStmt:
		s.List = m.stmtList(s.List)
	case *ast.BinaryExpr:
		if !m.done && m.r.Intn(25) == 0 {
			swap := map[token.Token]token.Token{token.ADD: token.SUB, token.SUB: token.ADD, token.LSS: token.LEQ, token.LEQ: token.LSS, token.GTR: token.GEQ,
				token.GEQ: token.GTR, token.EQL: token.NEQ, token.NEQ: token.EQL, token.LAND: token.LOR, token.LOR: token.LAND, token.MUL: token.ADD}
			if t, ok := swap[s.Op]; ok {
				s.Op = t
				m.done = true
			}
		}
	case *ast.BasicLit:
		if !m.done && s.Kind == token.INT && m.r.Intn(30) == 0 {
			s.Value = strconv.Itoa(m.r.Intn(100))
			m.done = true
		}
	}
	return m
}

func copyDir(src, dst string) {
	os.MkdirAll(dst, 0o755)
	ents, _ := os.ReadDir(src)
	for _, e := range ents {
		if e.IsDir() {
			continue // sub-packages are imported from the original location
		}
		if strings.HasSuffix(e.Name(), ".go") && !strings.HasSuffix(e.Name(), "_test.go") {
			b, _ := os.ReadFile(filepath.Join(src, e.Name()))
			os.WriteFile(filepath.Join(dst, e.Name()), b, 0o644)
		}
	}
}

func main() {
	seed := flag.Uint64("seed", 1, "seed")
	ngen := flag.Int("gen", 20, "generated packages with injected statements")
	nmut := flag.Int("mutants", 40, "mutants of the shipped example packages")
	goose := flag.String("goose", "", "goose binary")
	repo := flag.String("repo", "/repo", "repository")
	noCat := flag.Bool("no-catalogue", false, "skip the catalogue")
	flag.Parse()
	w := bufio.NewWriter(os.Stdout)
	defer w.Flush()
	root, err := os.MkdirTemp("", "verif-crash-")
	if err != nil {
		panic(err)
	}
	defer os.RemoveAll(root)
	mod := filepath.Join(root, "mod")
	os.MkdirAll(mod, 0o755)
	os.WriteFile(filepath.Join(mod, "go.mod"), []byte(fmt.Sprintf(
		"module gen\n\ngo 1.22\n\nrequire github.com/goose-lang/goose v0.0.0\n\nreplace github.com/goose-lang/goose => %s\n", *repo)), 0o644)
	sum, _ := os.ReadFile(filepath.Join(*repo, "go.sum"))
	os.WriteFile(filepath.Join(mod, "go.sum"), sum, 0o644)
	outRoot := filepath.Join(root, "out")
	v := &verdict{}
	packages := 0
	master := rng.New(*seed)
	// the catalogue
	if !*noCat {
		for _, it := range catalog.Items() {
			dir := filepath.Join(mod, "c", it.ID)
			os.MkdirAll(dir, 0o755)
			os.WriteFile(filepath.Join(dir, "p.go"), []byte("package "+it.ID+"\n\n"+it.Main), 0o644)
			for name, txt := range it.Files {
				os.MkdirAll(filepath.Dir(filepath.Join(dir, name)), 0o755)
				os.WriteFile(filepath.Join(dir, name), []byte(txt), 0o644)
			}
			check(w, *goose, mod, "c/"+it.ID, outRoot, v)
			packages++
		}
	}
	// generated packages with injected out-of-subset statements
	for c := 0; c < *ngen; c++ {
		r := master.Fork()
		cfg := progen.DefaultConfig()
		cfg.Inject, cfg.NoCalls = true, true
		name := fmt.Sprintf("p%03d", c)
		pkg := progen.Generate(r, name, cfg)
		dir := filepath.Join(mod, "g", name)
		os.MkdirAll(dir, 0o755)
		os.WriteFile(filepath.Join(dir, "p.go"), []byte(pkg.GoFile()), 0o644)
		check(w, *goose, mod, "g/"+name, outRoot, v)
		packages++
	}
	// a package with many failing declarations spread over two files, and translatable ones after them
	{
		dir := filepath.Join(mod, "many", "errs")
		os.MkdirAll(dir, 0o755)
		var a, b strings.Builder
		a.WriteString("package errs\n\nfunc First(x uint64) uint64 {\n\treturn x + 1\n}\n\n")
		for i := 0; i < 14; i++ {
			fmt.Fprintf(&a, "func Bad%d(c chan uint64) uint64 {\n\treturn <-c\n}\n\n", i)
		}
		a.WriteString("type Pair struct {\n\ta uint64\n\tb uint64\n}\n\nfunc Middle(x uint64) uint64 {\n\treturn x * 2\n}\n")
		b.WriteString("package errs\n\n")
		for i := 0; i < 6; i++ {
			fmt.Fprintf(&b, "func Worse%d(x uint64) uint64 {\n\tswitch x {\n\tcase 1:\n\t\treturn 2\n\t}\n\treturn x\n}\n\n", i)
		}
		b.WriteString("func Last(p Pair) uint64 {\n\treturn p.a + p.b\n}\n")
		os.WriteFile(filepath.Join(dir, "a.go"), []byte(a.String()), 0o644)
		os.WriteFile(filepath.Join(dir, "z.go"), []byte(b.String()), 0o644)
		before := v.errors
		check(w, *goose, mod, "many/errs", outRoot, v)
		if v.errors-before != 20 {
			fmt.Fprintf(w, "MISMATCH kind=error-count pkg=many/errs detail=%s\n", hex.EncodeToString([]byte(fmt.Sprintf("20 declarations fail, %d errors were reported", v.errors-before))))
		}
		packages++
	}
	// shapes that matter only here: a dependency cycle through two declarations (the ordering of
	// declarations must terminate), and inputs that reach the rarely used reporters
	for _, it := range [][2]string{
		{"mutual", "package mutual\n\nfunc IsEven(n uint64) bool {\n\tif n == 0 {\n\t\treturn true\n\t}\n\treturn IsOdd(n - 1)\n}\n\nfunc IsOdd(n uint64) bool {\n\tif n == 0 {\n\t\treturn false\n\t}\n\treturn IsEven(n - 1)\n}\n"},
		{"mutual3", "package mutual3\n\ntype T struct {\n\tx uint64\n}\n\nfunc (t *T) A(n uint64) uint64 {\n\tif n == 0 {\n\t\treturn t.x\n\t}\n\treturn B(t, n-1)\n}\n\nfunc B(t *T, n uint64) uint64 {\n\treturn C(t, n)\n}\n\nfunc C(t *T, n uint64) uint64 {\n\treturn t.A(n)\n}\n"},
		{"grouptypes", "package grouptypes\n\ntype (\n\tKey   uint64\n\tValue uint64\n)\n\nfunc F(k Key) Value {\n\treturn Value(k)\n}\n"},
		{"gotoloop", "package gotoloop\n\nfunc F(n uint64) uint64 {\n\tvar s uint64 = 0\n\tfor i := uint64(0); i < n; i++ {\n\t\ts = s + i\n\t\tif s > 10 {\n\t\t\tgoto done\n\t\t}\n\t}\ndone:\n\treturn s\n}\n"},
		{"gototail", "package gototail\n\nfunc F(n uint64) uint64 {\n\tvar s uint64 = 0\nagain:\n\tfor i := uint64(0); i < n; i++ {\n\t\ts = s + i\n\t\tgoto again\n\t}\n\treturn s\n}\n"},
		{"twoffi", "package twoffi\n\nimport (\n\t\"github.com/goose-lang/goose/machine/async_disk\"\n\t\"github.com/goose-lang/goose/machine/disk\"\n)\n\nfunc Sizes() uint64 {\n\treturn disk.Size() + async_disk.Size()\n}\n"},
		{"fallthru", "package fallthru\n\nfunc F(n uint64) uint64 {\n\tfor i := uint64(0); i < n; i++ {\n\t\tswitch i {\n\t\tcase 1:\n\t\t\tfallthrough\n\t\tdefault:\n\t\t}\n\t}\n\treturn n\n}\n"},
	} {
		dir := filepath.Join(mod, "x", it[0])
		os.MkdirAll(dir, 0o755)
		os.WriteFile(filepath.Join(dir, "p.go"), []byte(it[1]), 0o644)
		check(w, *goose, mod, "x/"+it[0], outRoot, v)
		packages++
	}
	// several packages in one invocation (the packages are translated by concurrent workers):
	// the whole catalogue and everything generated so far, a few times
	for i := 0; i < 4; i++ {
		out := filepath.Join(outRoot, "multi")
		os.RemoveAll(out)
		pats := []string{"./g/...", "./x/...", "./many/..."}
		if !*noCat {
			pats = append(pats, "./c/...")
		}
		mctx, mcancel := context.WithTimeout(context.Background(), 120*time.Second)
		cmd := exec.CommandContext(mctx, *goose, append([]string{"-out", out, "-ignore-errors"}, pats...)...)
		cmd.Dir = mod
		cmd.Env = goEnv()
		var buf bytes.Buffer
		cmd.Stdout = &buf
		cmd.Stderr = &buf
		err := cmd.Run()
		hung := mctx.Err() != nil
		mcancel()
		if hung {
			// already reported for the package concerned; one report is enough
			break
		}
		st := 0
		if ee, ok := err.(*exec.ExitError); ok {
			st = ee.ExitCode()
		} else if err != nil {
			st = -1
		}
		txt := buf.String()
		if (st != 0 && st != 1) || strings.Contains(txt, "goroutine ") || strings.Contains(txt, "panic:") || strings.Contains(txt, "fatal error:") {
			v.crashes++
			d := txt
			if j := strings.Index(d, "fatal error"); j >= 0 {
				d = d[j:]
			} else if j := strings.Index(d, "panic"); j >= 0 {
				d = d[j:]
			}
			if len(d) > 1800 {
				d = d[:1800]
			}
			fmt.Fprintf(w, "MISMATCH kind=crash pkg=%s detail=%s\n", strings.Join(pats, ","), hex.EncodeToString([]byte(fmt.Sprintf("exit status %d\n%s", st, d))))
			break
		}
		packages++
	}
	// mutants of the shipped examples
	examples := []string{"unittest", "semantics", "append_log", "simpledb", "wal", "logging2", "rfc1813", "comments", "async"}
	mutants, discarded := 0, 0
	r := master.Fork()
	for k := 0; k < *nmut; k++ {
		ex := examples[r.Intn(len(examples))]
		src := filepath.Join(*repo, "internal", "examples", ex)
		name := fmt.Sprintf("m%03d", k)
		dst := filepath.Join(mod, "m", name, ex) // keep the package's directory name
		copyDir(src, dst)
		ents, _ := os.ReadDir(dst)
		var files []string
		for _, e := range ents {
			files = append(files, e.Name())
		}
		sort.Strings(files)
		if len(files) == 0 {
			continue
		}
		// mutate 1-3 files
		changed := false
		for t := 0; t < 1+r.Intn(3); t++ {
			fn := filepath.Join(dst, files[r.Intn(len(files))])
			fset := token.NewFileSet()
			f, err := parser.ParseFile(fset, fn, nil, parser.ParseComments)
			if err != nil {
				continue
			}
			m := &mutator{r: r.Fork()}
			ast.Walk(m, f)
			if !m.done {
				continue
			}
			var buf bytes.Buffer
			if err := printer.Fprint(&buf, fset, f); err != nil {
				continue
			}
			os.WriteFile(fn, buf.Bytes(), 0o644)
			changed = true
		}
		rel := "m/" + name + "/" + ex
		// keep only mutants that still type-check
		bc := exec.Command("go", "vet", "./"+rel)
		bc.Dir = mod
		bc.Env = goEnv()
		bc2 := exec.Command("go", "build", "./"+rel)
		bc2.Dir = mod
		bc2.Env = goEnv()
		if !changed || bc2.Run() != nil {
			discarded++
			os.RemoveAll(filepath.Join(mod, "m", name))
			continue
		}
		_ = bc
		mutants++
		check(w, *goose, mod, rel, outRoot, v)
		packages++
		os.RemoveAll(filepath.Join(mod, "m", name))
	}
	fmt.Fprintf(w, "DONE packages=%d crashes=%d errors=%d mutants=%d mutants_discarded=%d\n", packages, v.crashes, v.errors, mutants, discarded)
}
