// faultchild performs one scenario on a FileDisk and prints what happened.
// It is run by the C11/C13 checks under strace fault injection
// (strace -e inject=<syscall>:error=EIO:when=k) so that a chosen system call
// fails; the property says such a failure must surface as a panic (or as the
// error returned by NewFileDisk), never as a normal return.
//
//	faultchild <scenario> <path> <numBlocks>
//
// Output: lines "STEP <what>" before each call and one final line
// "OUTCOME returned" | "OUTCOME panic <msg>" | "OUTCOME open-error <msg>".
package main

import (
	"bytes"
	"fmt"
	"os"
	"os/signal"
	"runtime"
	"strconv"
	"syscall"

	"github.com/goose-lang/goose/machine/disk"
	"github.com/goose-lang/goose/machine/filesys"
)

// the main goroutine stays on the main OS thread, so that the ordinal numbers
// of its system calls (strace inject=...:when=k counts per thread) are stable
func init() { runtime.LockOSThread() }

func blk(b byte) []byte { return bytes.Repeat([]byte{b}, 4096) }

// ac <root> <dir> <name> <len> <tag>: one DirFs.AtomicCreate of len bytes of data derived from tag
func acData(n int, tag byte) []byte {
	b := make([]byte, n)
	for i := range b {
		b[i] = tag + byte(i%7)
	}
	return b
}

func acMain() {
	root, dir, name := os.Args[2], os.Args[3], os.Args[4]
	n, _ := strconv.Atoi(os.Args[5])
	tag := os.Args[6][0]
	defer func() {
		if r := recover(); r != nil {
			fmt.Printf("OUTCOME panic %v\n", r)
			os.Exit(0)
		}
	}()
	fs := filesys.NewDirFs(root)
	if lim := os.Getenv("AC_FSIZE"); lim != "" {
		// a file-size limit: the kernel accepts the bytes up to the limit (a short write,
		// no error) and fails the next write with EFBIG
		l, _ := strconv.ParseUint(lim, 10, 64)
		signal.Ignore(syscall.SIGXFSZ)
		if err := syscall.Setrlimit(syscall.RLIMIT_FSIZE, &syscall.Rlimit{Cur: l, Max: l}); err != nil {
			fmt.Printf("OUTCOME setrlimit-failed %v\n", err)
			return
		}
	}
	fmt.Println("STEP atomiccreate")
	fs.AtomicCreate(dir, name, acData(n, tag))
	fmt.Println("OUTCOME returned")
}

func main() {
	if os.Args[1] == "ac" {
		acMain()
		return
	}
	if os.Args[1] == "acdata" { // print the data a call would write (for the checker)
		n, _ := strconv.Atoi(os.Args[2])
		os.Stdout.Write(acData(n, os.Args[3][0]))
		return
	}
	scenario, path := os.Args[1], os.Args[2]
	n, _ := strconv.ParseUint(os.Args[3], 10, 64)
	defer func() {
		if r := recover(); r != nil {
			fmt.Printf("OUTCOME panic %v\n", r)
			os.Exit(0)
		}
	}()
	fmt.Println("STEP open")
	d, err := disk.NewFileDisk(path, n)
	if err != nil {
		fmt.Printf("OUTCOME open-error %v\n", err)
		return
	}
	switch scenario {
	case "open":
	case "barrier":
		fmt.Println("STEP write")
		d.Write(0, blk(0x11))
		fmt.Println("STEP barrier")
		d.Barrier()
	case "write":
		fmt.Println("STEP write")
		d.Write(1, blk(0x22))
	case "write2": // the second write fails
		fmt.Println("STEP write")
		d.Write(0, blk(0x21))
		fmt.Println("STEP write")
		d.Write(1, blk(0x22))
	case "read":
		fmt.Println("STEP write")
		d.Write(1, blk(0x33))
		fmt.Println("STEP read")
		b := d.Read(1)
		fmt.Printf("READ %02x %02x\n", b[0], b[4095])
	case "readto":
		fmt.Println("STEP write")
		d.Write(1, blk(0x33))
		buf := blk(0x99)
		fmt.Println("STEP readto")
		d.ReadTo(1, buf)
		fmt.Printf("READ %02x %02x\n", buf[0], buf[4095])
	case "close-then-barrier":
		d.Close()
		fmt.Println("STEP barrier")
		d.Barrier()
	case "close-then-write":
		d.Close()
		fmt.Println("STEP write")
		d.Write(0, blk(0x44))
	case "close-then-read":
		d.Close()
		fmt.Println("STEP read")
		d.Read(0)
	default:
		fmt.Println("OUTCOME unknown-scenario")
		os.Exit(3)
	}
	fmt.Println("OUTCOME returned")
}
