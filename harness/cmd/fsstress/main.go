// fsstress records concurrent histories from the real MemFs / DirFs.
// A sequential set-up phase (thread 0) creates directories, base files and
// pre-opened descriptors; then the clients run concurrently.  The workload is
// built so that every operation is valid in EVERY linearization order
// (shared names are never deleted; descriptors are used only by their owner).
//
//	H <impl> <threads>            impl: mem | dir
//	I <t> <op as in fsdrv>        invocation (descriptor = model number)
//	O <t> <result as in fsdrv>    response
//	E
//
// MemFs hands out descriptor numbers in lock order starting at 1, so (real-1)
// is the reference model's number under the linearization that happened.
// DirFs descriptors are the kernel's: they are printed as "F 0" (the checker
// then uses the specification with descriptor numbers erased) and the
// concurrent phase only uses descriptors opened during set-up.
package main

import (
	"bufio"
	"flag"
	"fmt"
	"os"
	"runtime"
	"sort"
	"strings"
	"sync"
	"sync/atomic"
	"syscall"

	"github.com/goose-lang/goose/machine/filesys"
	"verif/harness/internal/enc"
	"verif/harness/internal/rng"
)

var dirNames = []string{"d0", "d1"}
var names = []string{"s0", "s1", "s2", "p0", "p1", "p2", "p3", "p4", "p5", "base"}

// readOwned renders what ReadAt returned and then uses the slice the way its owner may: it
// overwrites the bytes and appends to it (into any spare capacity).  The file system must not
// be affected (the result is the caller's).
func readOwned(b []byte) string {
	res := enc.RLE(b)
	for i := range b {
		b[i] = '#'
	}
	b = append(b, "<scribble>"...)
	_ = b
	return res
}

func nameID(s string) int {
	for i, n := range names {
		if n == s {
			return i
		}
	}
	return -1
}

type ev struct {
	ts   uint64
	text string
}

type planned struct {
	kind string
	d, n int
	d2   int
	n2   int
	fd   int // model number (set-up descriptors) or -1
	real filesys.File
	data []byte
	off  uint64
	ln   uint64
}

func main() {
	seed := flag.Uint64("seed", 1, "seed")
	nh := flag.Int("n", 50, "histories")
	impl := flag.String("impl", "mem", "mem | dir")
	maxThreads := flag.Int("threads", 4, "max goroutines")
	maxOps := flag.Int("ops", 5, "max ops per goroutine")
	quiet := flag.Bool("quiet", false, "no output (race detector runs)")
	shared := flag.Int("sharedread", 0, "instead of histories: this many ReadAt calls per goroutine through ONE descriptor on a file that never changes")
	flag.Parse()
	if *shared > 0 {
		sharedRead(*seed, *impl, *maxThreads, *shared)
		return
	}
	w := bufio.NewWriterSize(os.Stdout, 1<<20)
	defer w.Flush()
	master := rng.New(*seed)
	for h := 0; h < *nh; h++ {
		r := master.Fork()
		nthreads := 2 + r.Intn(*maxThreads-1)
		var fs filesys.Filesys
		root := ""
		if *impl == "mem" {
			fs = filesys.NewMemFs()
		} else {
			var err error
			root, err = os.MkdirTemp("", "verif-fsstress-")
			if err != nil {
				panic(err)
			}
			fs = filesys.NewDirFs(root)
		}
		var ctr atomic.Uint64
		var all []ev
		rec := func(t int, inv string, f func() string) {
			ts1 := ctr.Add(1)
			res := "P"
			func() {
				defer func() { recover() }()
				res = f()
			}()
			ts2 := ctr.Add(1)
			all = append(all, ev{ts1, fmt.Sprintf("I %d %s", t, inv)}, ev{ts2, fmt.Sprintf("O %d %s", t, res)})
		}
		// ---- set-up (sequential, thread 0)
		nfd := 0
		fdOf := func(f filesys.File) string {
			if *impl == "mem" {
				return fmt.Sprintf("F %d", int(f)-1)
			}
			return "F 0"
		}
		for d := range dirNames {
			rec(0, fmt.Sprintf("M %d", d), func() string { fs.Mkdir(dirNames[d]); return "U" })
		}
		base := []byte("base-contents")
		rec(0, fmt.Sprintf("K 0 %d %s", nameID("base"), enc.RLE(base)), func() string { fs.AtomicCreate("d0", "base", base); return "U" })
		// shared file s0 with one append descriptor (owner: thread 0) and a read descriptor per thread
		var appendFd filesys.File
		appendNum := -1
		rec(0, "C 0 0", func() string {
			f, ok := fs.Create("d0", "s0")
			if !ok {
				return "NOFD"
			}
			appendFd = f
			appendNum = nfd
			nfd++
			return fdOf(f)
		})
		readFds := make([]filesys.File, nthreads)
		readNums := make([]int, nthreads)
		for t := 0; t < nthreads; t++ {
			t := t
			nm := []string{"s0", "base"}[t%2]
			rec(0, fmt.Sprintf("O 0 %d", nameID(nm)), func() string {
				f := fs.Open("d0", nm)
				readFds[t] = f
				readNums[t] = nfd
				nfd++
				return fdOf(f)
			})
		}
		// a descriptor on the first version of the shared name s1 (d0): AtomicCreate of that name by
		// anybody replaces the file, it must not change what this descriptor reads
		oldS1 := []byte("first-version-of-s1")
		rec(0, fmt.Sprintf("K 0 1 %s", enc.RLE(oldS1)), func() string { fs.AtomicCreate("d0", "s1", oldS1); return "U" })
		var oldFd filesys.File
		oldNum := -1
		rec(0, "O 0 1", func() string {
			f := fs.Open("d0", "s1")
			oldFd = f
			oldNum = nfd
			nfd++
			return fdOf(f)
		})
		// ---- concurrent phase
		plans := make([][]planned, nthreads)
		for t := 0; t < nthreads; t++ {
			tr := r.Fork()
			nops := 1 + tr.Intn(*maxOps)
			madeDir := false
			for i := 0; i < nops; i++ {
				var p planned
				d := tr.Intn(len(dirNames))
				switch k := tr.Intn(12); {
				case k < 3: // racing Create of a shared name
					p = planned{kind: "C", d: d, n: 1 + tr.Intn(2)}
				case k < 5 && t == 0 && appendNum >= 0: // append through the owner's descriptor
					p = planned{kind: "A", fd: appendNum, real: appendFd, data: []byte(fmt.Sprintf("<%d.%d>", t, i))}
				case k < 7 && oldNum >= 0 && (t == nthreads-1 && tr.Bool() || tr.Intn(4) == 0): // read the first version of s1 through the old descriptor (shared by all clients: the file it reads never changes)
					p = planned{kind: "R", fd: oldNum, real: oldFd, off: uint64(tr.Intn(8)), ln: uint64(1 + tr.Intn(40))}
				case k < 7: // read through own descriptor
					p = planned{kind: "R", fd: readNums[t], real: readFds[t], off: uint64(tr.Intn(8)), ln: uint64(1 + tr.Intn(40))}
				case k < 9: // AtomicCreate of a shared name
					p = planned{kind: "K", d: d, n: 1 + tr.Intn(2), data: []byte(fmt.Sprintf("ac%d.%d", t, i))}
				case k < 10: // private file, link it under a shared name, delete the private name
					p = planned{kind: "KLD", d: d, n: 3 + t%6, d2: d, n2: 1 + tr.Intn(2), data: []byte(fmt.Sprintf("pv%d.%d", t, i))}
				case k < 11 && *impl == "mem" && tr.Intn(2) == 0: // open the base file, read through the new descriptor, close it
					p = planned{kind: "ORX", off: uint64(tr.Intn(5)), ln: uint64(1 + tr.Intn(20))}
				case k < 11 && *impl == "mem": // private file: create, open, delete its only name, read through the descriptor, close
					p = planned{kind: "KODRX", d: d, n: 3 + t%6, off: uint64(tr.Intn(3)), ln: uint64(1 + tr.Intn(20)), data: []byte(fmt.Sprintf("gone%d.%d", t, i))}
				case k == 11 && tr.Bool() && !madeDir:
					// a directory of the client's own, made while the others work (nobody else names it:
					// valid in every order)
					madeDir = true
					p = planned{kind: "M", d: len(dirNames) + t}
				default:
					p = planned{kind: "S", d: d}
				}
				plans[t] = append(plans[t], p)
			}
		}
		evs := make([][]ev, nthreads)
		created := make([][]filesys.File, nthreads) // descriptors handed out during the concurrent phase: given back at the end
		var wg sync.WaitGroup
		var arrived atomic.Int32
		start := make(chan struct{})
		for t := 0; t < nthreads; t++ {
			wg.Add(1)
			go func(t int) {
				defer wg.Done()
				runtime.LockOSThread()
				defer runtime.UnlockOSThread()
				<-start
				arrived.Add(1)
				for spins := 0; int(arrived.Load()) < nthreads && spins < 1000000; spins++ {
				}
				do := func(inv string, f func() string) {
					ts1 := ctr.Add(1)
					res := "P"
					func() {
						defer func() { recover() }()
						res = f()
					}()
					ts2 := ctr.Add(1)
					evs[t] = append(evs[t], ev{ts1, fmt.Sprintf("I %d %s", t, inv)}, ev{ts2, fmt.Sprintf("O %d %s", t, res)})
				}
				for _, p := range plans[t] {
					p := p
					switch p.kind {
					case "C":
						do(fmt.Sprintf("C %d %d", p.d, p.n), func() string {
							f, ok := fs.Create(dirNames[p.d], names[p.n])
							if !ok {
								return "NOFD"
							}
							created[t] = append(created[t], f)
							return fdOf(f)
						})
					case "A":
						do(fmt.Sprintf("A %d %s", p.fd, enc.RLE(p.data)), func() string { fs.Append(p.real, p.data); return "U" })
					case "R":
						do(fmt.Sprintf("R %d %d %d", p.fd, p.off, p.ln), func() string { return "D " + readOwned(fs.ReadAt(p.real, p.off, p.ln)) })
					case "K":
						do(fmt.Sprintf("K %d %d %s", p.d, p.n, enc.RLE(p.data)), func() string {
							fs.AtomicCreate(dirNames[p.d], names[p.n], p.data)
							return "U"
						})
					case "KLD":
						do(fmt.Sprintf("K %d %d %s", p.d, p.n, enc.RLE(p.data)), func() string {
							fs.AtomicCreate(dirNames[p.d], names[p.n], p.data)
							return "U"
						})
						do(fmt.Sprintf("L %d %d %d %d", p.d, p.n, p.d2, p.n2), func() string {
							if fs.Link(dirNames[p.d], names[p.n], dirNames[p.d2], names[p.n2]) {
								return "T"
							}
							return "N"
						})
						do(fmt.Sprintf("D %d %d", p.d, p.n), func() string { fs.Delete(dirNames[p.d], names[p.n]); return "U" })
					case "KODRX":
						do(fmt.Sprintf("K %d %d %s", p.d, p.n, enc.RLE(p.data)), func() string {
							fs.AtomicCreate(dirNames[p.d], names[p.n], p.data)
							return "U"
						})
						var f filesys.File
						opened := false
						do(fmt.Sprintf("O %d %d", p.d, p.n), func() string {
							f = fs.Open(dirNames[p.d], names[p.n])
							opened = true
							return fdOf(f)
						})
						do(fmt.Sprintf("D %d %d", p.d, p.n), func() string { fs.Delete(dirNames[p.d], names[p.n]); return "U" })
						if opened {
							num := int(f) - 1
							do(fmt.Sprintf("R %d %d %d", num, p.off, p.ln), func() string { return "D " + readOwned(fs.ReadAt(f, p.off, p.ln)) })
							do(fmt.Sprintf("X %d", num), func() string { fs.Close(f); return "U" })
						}
					case "ORX":
						var f filesys.File
						opened := false
						do(fmt.Sprintf("O 0 %d", nameID("base")), func() string {
							f = fs.Open("d0", "base")
							opened = true
							return fdOf(f)
						})
						if opened {
							num := int(f) - 1
							do(fmt.Sprintf("R %d %d %d", num, p.off, p.ln), func() string { return "D " + readOwned(fs.ReadAt(f, p.off, p.ln)) })
							do(fmt.Sprintf("X %d", num), func() string { fs.Close(f); return "U" })
						}
					case "M":
						do(fmt.Sprintf("M %d", p.d), func() string { fs.Mkdir(fmt.Sprintf("own%d", p.d)); return "U" })
					case "S":
						do(fmt.Sprintf("S %d", p.d), func() string {
							l := fs.List(dirNames[p.d])
							ids := []int{}
							extra := []string{}
							for _, s := range l {
								if id := nameID(s); id >= 0 {
									ids = append(ids, id)
								} else {
									extra = append(extra, "?"+s)
								}
							}
							sort.Ints(ids)
							strs := []string{}
							for _, id := range ids {
								strs = append(strs, fmt.Sprint(id))
							}
							strs = append(strs, extra...)
							if len(strs) == 0 {
								return "N -"
							}
							return "N " + strings.Join(strs, ",")
						})
					}
				}
			}(t)
		}
		close(start)
		wg.Wait()
		for _, e := range evs {
			all = append(all, e...)
		}
		sort.Slice(all, func(i, j int) bool { return all[i].ts < all[j].ts })
		if !*quiet {
			fmt.Fprintf(w, "H %s %d\n", *impl, nthreads)
			for _, e := range all {
				fmt.Fprintln(w, e.text)
			}
			fmt.Fprintln(w, "E")
		}
		// give the descriptors of the set-up phase back (not part of the history)
		func() {
			defer func() { recover() }()
			if appendNum >= 0 {
				fs.Close(appendFd)
			}
			for _, f := range readFds {
				func() { defer func() { recover() }(); fs.Close(f) }()
			}
			if oldNum >= 0 {
				fs.Close(oldFd)
			}
		}()
		for _, fl := range created {
			for _, f := range fl {
				func() { defer func() { recover() }(); fs.Close(f) }()
			}
		}
		if root != "" {
			// DirFs keeps a descriptor on its root directory and has no way to give it back
			if ents, err := os.ReadDir("/proc/self/fd"); err == nil {
				for _, e := range ents {
					if l, err := os.Readlink("/proc/self/fd/" + e.Name()); err == nil && l == root {
						var n int
						if _, err := fmt.Sscanf(e.Name(), "%d", &n); err == nil {
							syscall.Close(n)
						}
					}
				}
			}
			os.RemoveAll(root)
		}
	}
}

// sharedRead: several goroutines read through one descriptor on a file that
// never changes.  Every linearization gives every ReadAt the same answer (the
// bytes of [off, off+len) that exist), so each result is compared with it
// directly.  Output: one line "SHAREDREAD reads=<n> wrong=<k>" and, for the
// first wrong results, "WRONG thread=<t> off=<o> len=<l> got=<hex> want=<hex>".
func sharedRead(seed uint64, impl string, threads, per int) {
	var fs filesys.Filesys
	root := ""
	if impl == "mem" {
		fs = filesys.NewMemFs()
	} else {
		var err error
		root, err = os.MkdirTemp("", "verif-fsshared-")
		if err != nil {
			panic(err)
		}
		defer os.RemoveAll(root)
		fs = filesys.NewDirFs(root)
	}
	fs.Mkdir("d0")
	const size = 6000
	content := make([]byte, size)
	for i := range content {
		content[i] = byte((i*7 + i/251) % 251)
	}
	fs.AtomicCreate("d0", "fixed", content)
	fd := fs.Open("d0", "fixed")
	var wg sync.WaitGroup
	var wrong atomic.Int64
	var mu sync.Mutex
	var first []string
	master := rng.New(seed)
	for t := 0; t < threads; t++ {
		r := master.Fork()
		wg.Add(1)
		go func(t int) {
			defer wg.Done()
			for i := 0; i < per; i++ {
				off := uint64(r.Intn(size + 40))
				ln := uint64(r.Intn(300))
				got := fs.ReadAt(fd, off, ln)
				var want []byte
				if off < size {
					end := off + ln
					if end > size {
						end = size
					}
					want = content[off:end]
				}
				if string(got) != string(want) {
					wrong.Add(1)
					mu.Lock()
					if len(first) < 3 {
						first = append(first, fmt.Sprintf("WRONG thread=%d off=%d len=%d got=%x want=%x", t, off, ln, got, want))
					}
					mu.Unlock()
				}
			}
		}(t)
	}
	wg.Wait()
	fs.Close(fd)
	fmt.Printf("SHAREDREAD reads=%d wrong=%d\n", threads*per, wrong.Load())
	for _, l := range first {
		fmt.Println(l)
	}
}
