// encdrv runs machine.UInt64Put/Get, UInt32Put/Get of /repo on generated
// cases and prints one line per case:
//
//	put64 <hexbuf> <value> -> <hexbuf after> | PANIC <hexbuf after>
//	get64 <hexbuf> -> <value> | PANIC
//
// The buffer after a refused call is printed too: it must be unchanged.
package main

import (
	"bufio"
	"encoding/binary"
	"encoding/hex"
	"flag"
	"fmt"
	"os"
	"sync"

	"github.com/goose-lang/goose/machine"
	"verif/harness/internal/rng"
)

func hx(b []byte) string {
	if len(b) == 0 {
		return "-"
	}
	return hex.EncodeToString(b)
}

func try(f func()) (panicked bool) {
	defer func() {
		if recover() != nil {
			panicked = true
		}
	}()
	f()
	return false
}

var interesting = []uint64{0, 1, 2, 0xff, 0x100, 0x101, 0xffff, 0x10000, 0xffffff, 0x1000000,
	0xffffffff, 0x100000000, 0x100000001, 0xffffffffff, 0x10000000000, 0xffffffffffff, 0x1000000000000,
	0xffffffffffffff, 0x100000000000000, 1 << 63, 1<<63 - 1, ^uint64(0), ^uint64(0) - 1, 0x0102030405060708, 0x8000000080000000}

func main() {
	seed := flag.Uint64("seed", 1, "seed")
	n := flag.Int("n", 1000, "cases")
	flag.Parse()
	r := rng.New(*seed)
	w := bufio.NewWriter(os.Stdout)
	defer w.Flush()
	// two goroutines, two adjacent 32-bit (and 64-bit) fields of one record: a put touches its own frame only
	{
		lost := 0
		rounds := 20000
		rec := make([]byte, 24)
		for i := 0; i < rounds; i++ {
			a, b := uint32(i)*2654435761, uint32(i)*40503+7
			c, d := uint64(i)*0x9e3779b97f4a7c15, uint64(i)*0xc2b2ae3d27d4eb4f+1
			var wg sync.WaitGroup
			wg.Add(4)
			go func() { machine.UInt32Put(rec[0:], a); wg.Done() }()
			go func() { machine.UInt32Put(rec[4:], b); wg.Done() }()
			go func() { machine.UInt64Put(rec[8:], c); wg.Done() }()
			go func() { machine.UInt64Put(rec[16:], d); wg.Done() }()
			wg.Wait()
			if machine.UInt32Get(rec[0:]) != a || machine.UInt32Get(rec[4:]) != b || machine.UInt64Get(rec[8:]) != c || machine.UInt64Get(rec[16:]) != d {
				lost++
			}
		}
		fmt.Fprintf(w, "conc adjacent-fields rounds=%d lost=%d\n", rounds, lost)
	}
	for i := 0; i < *n; i++ {
		var v uint64
		switch r.Intn(3) {
		case 0:
			v = rng.Pick(r, interesting)
		case 1:
			v = r.U64()
		default:
			v = r.U64() >> uint(r.Intn(64))
		}
		blen := r.Intn(25)
		if r.Intn(4) == 0 {
			blen = rng.Pick(r, []int{0, 3, 4, 5, 7, 8, 9})
		}
		buf := r.Bytes(blen)
		if r.Intn(3) == 0 {
			// prior contents related to the value about to be written: the same value, the same low or
			// high word with the other word different, a neighbour
			rv := v
			switch r.Intn(5) {
			case 1:
				rv = v ^ (r.U64() << 32)
			case 2:
				rv = v ^ uint64(uint32(r.U64()))
			case 3:
				rv = v + 1
			case 4:
				rv = uint64(uint32(v)) | 0xdeadbeef00000000
			}
			var related [8]byte
			binary.LittleEndian.PutUint64(related[:], rv)
			copy(buf, related[:])
		}
		// half of the buffers are windows of a larger record (spare capacity on both sides):
		// the length decides, not the capacity, and nothing outside the window may change
		var record, recordBefore []byte
		if r.Intn(2) == 0 {
			record = r.Bytes(blen + 20)
			copy(record[6:], buf)
			buf = record[6 : 6+blen]
			recordBefore = append([]byte{}, record...)
		}
		outside := func() string {
			for j := range record {
				if (j < 6 || j >= 6+blen) && record[j] != recordBefore[j] {
					return " CLOBBERED-OUTSIDE-THE-BUFFER " + hx(record)
				}
			}
			return ""
		}
		switch r.Intn(4) {
		case 0:
			before := hx(buf)
			p := try(func() { machine.UInt64Put(buf, v) })
			if p {
				fmt.Fprintf(w, "put64 %s %d -> PANIC %s%s\n", before, v, hx(buf), outside())
			} else {
				fmt.Fprintf(w, "put64 %s %d -> %s%s\n", before, v, hx(buf), outside())
			}
		case 1:
			before := hx(buf)
			v32 := uint32(v)
			p := try(func() { machine.UInt32Put(buf, v32) })
			if p {
				fmt.Fprintf(w, "put32 %s %d -> PANIC %s%s\n", before, v32, hx(buf), outside())
			} else {
				fmt.Fprintf(w, "put32 %s %d -> %s%s\n", before, v32, hx(buf), outside())
			}
		case 2:
			var res uint64
			p := try(func() { res = machine.UInt64Get(buf) })
			if p {
				fmt.Fprintf(w, "get64 %s -> PANIC\n", hx(buf))
			} else {
				fmt.Fprintf(w, "get64 %s -> %d\n", hx(buf), res)
			}
		default:
			var res uint32
			p := try(func() { res = machine.UInt32Get(buf) })
			if p {
				fmt.Fprintf(w, "get32 %s -> PANIC\n", hx(buf))
			} else {
				fmt.Fprintf(w, "get32 %s -> %d\n", hx(buf), res)
			}
		}
	}
}
