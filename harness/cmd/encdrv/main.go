// encdrv runs machine.UInt64Put/Get, UInt32Put/Get of /repo on generated
// cases and prints one line per case:
//
//	put64 <hexbuf> <value> -> <hexbuf after> | PANIC <hexbuf after>
//	get64 <hexbuf> -> <value> | PANIC
//
// The buffer after a refused call is printed too: it must be unchanged.
package main

import (
	"encoding/hex"
	"flag"
	"fmt"
	"os"
	"bufio"

	"github.com/goose-lang/goose/machine"
	"verif/harness/internal/rng"
)

func hx(b []byte) string {
	if len(b) == 0 {
		return "-"
	}
	return hex.EncodeToString(b)
}

func try(f func()) (panicked bool) {
	defer func() {
		if recover() != nil {
			panicked = true
		}
	}()
	f()
	return false
}

var interesting = []uint64{0, 1, 2, 0xff, 0x100, 0x101, 0xffff, 0x10000, 0xffffff, 0x1000000,
	0xffffffff, 0x100000000, 0x100000001, 0xffffffffff, 0x10000000000, 0xffffffffffff, 0x1000000000000,
	0xffffffffffffff, 0x100000000000000, 1 << 63, 1<<63 - 1, ^uint64(0), ^uint64(0) - 1, 0x0102030405060708, 0x8000000080000000}

func main() {
	seed := flag.Uint64("seed", 1, "seed")
	n := flag.Int("n", 1000, "cases")
	flag.Parse()
	r := rng.New(*seed)
	w := bufio.NewWriter(os.Stdout)
	defer w.Flush()
	for i := 0; i < *n; i++ {
		var v uint64
		switch r.Intn(3) {
		case 0:
			v = rng.Pick(r, interesting)
		case 1:
			v = r.U64()
		default:
			v = r.U64() >> uint(r.Intn(64))
		}
		blen := r.Intn(25)
		if r.Intn(4) == 0 {
			blen = rng.Pick(r, []int{0, 3, 4, 5, 7, 8, 9})
		}
		buf := r.Bytes(blen)
		// half of the buffers are windows of a larger record (spare capacity on both sides):
		// the length decides, not the capacity, and nothing outside the window may change
		var record, recordBefore []byte
		if r.Intn(2) == 0 {
			record = r.Bytes(blen + 20)
			copy(record[6:], buf)
			buf = record[6 : 6+blen]
			recordBefore = append([]byte{}, record...)
		}
		outside := func() string {
			for j := range record {
				if (j < 6 || j >= 6+blen) && record[j] != recordBefore[j] {
					return " CLOBBERED-OUTSIDE-THE-BUFFER " + hx(record)
				}
			}
			return ""
		}
		switch r.Intn(4) {
		case 0:
			before := hx(buf)
			p := try(func() { machine.UInt64Put(buf, v) })
			if p {
				fmt.Fprintf(w, "put64 %s %d -> PANIC %s%s\n", before, v, hx(buf), outside())
			} else {
				fmt.Fprintf(w, "put64 %s %d -> %s%s\n", before, v, hx(buf), outside())
			}
		case 1:
			before := hx(buf)
			v32 := uint32(v)
			p := try(func() { machine.UInt32Put(buf, v32) })
			if p {
				fmt.Fprintf(w, "put32 %s %d -> PANIC %s%s\n", before, v32, hx(buf), outside())
			} else {
				fmt.Fprintf(w, "put32 %s %d -> %s%s\n", before, v32, hx(buf), outside())
			}
		case 2:
			var res uint64
			p := try(func() { res = machine.UInt64Get(buf) })
			if p {
				fmt.Fprintf(w, "get64 %s -> PANIC\n", hx(buf))
			} else {
				fmt.Fprintf(w, "get64 %s -> %d\n", hx(buf), res)
			}
		default:
			var res uint32
			p := try(func() { res = machine.UInt32Get(buf) })
			if p {
				fmt.Fprintf(w, "get32 %s -> PANIC\n", hx(buf))
			} else {
				fmt.Fprintf(w, "get32 %s -> %d\n", hx(buf), res)
			}
		}
	}
}
