package main

import (
	"fmt"
	"go/ast"
	"go/parser"
	"go/token"
	"os"
	"path/filepath"
	"strconv"
	"strings"

	"verif/harness/internal/catalog"
	"verif/harness/internal/progen"
)

func typeOfAst(e ast.Expr) *progen.Type {
	if id, ok := e.(*ast.Ident); ok {
		switch id.Name {
		case "uint64":
			return progen.TU64
		case "uint32":
			return progen.TU32
		case "byte", "uint8":
			return progen.TU8
		case "bool":
			return progen.TBool
		}
	}
	return nil
}

// catalogueCases writes the catalogue packages into mod/c and returns them as cases.
func catalogueCases(mod string, only string, skip string, conc bool, genSeed uint64, gen int) []*caseT {
	var cases []*caseT
	items := catalog.Items()
	if conc {
		items = append(catalog.ConcItems(), catalog.GenConcItems(genSeed, gen)...)
	}
	for _, it := range items {
		if only != "" && !strings.Contains(it.ID, only) {
			continue
		}
		if skip != "" && strings.HasPrefix(it.ID, skip) {
			continue
		}
		dir := filepath.Join(mod, "c", it.ID)
		os.MkdirAll(dir, 0o755)
		src := "package " + it.ID + "\n\n" + it.Main
		os.WriteFile(filepath.Join(dir, "p.go"), []byte(src), 0o644)
		for name, txt := range it.Files {
			os.MkdirAll(filepath.Dir(filepath.Join(dir, name)), 0o755)
			os.WriteFile(filepath.Join(dir, name), []byte(txt), 0o644)
		}
		fset := token.NewFileSet()
		f, err := parser.ParseFile(fset, "p.go", src, 0)
		if err != nil {
			fmt.Fprintf(os.Stderr, "catalogue item %s does not parse: %v\n", it.ID, err)
			os.Exit(3)
		}
		sigs := map[string]*ast.FuncType{}
		var declNames []string
		for _, d := range f.Decls {
			switch d := d.(type) {
			case *ast.FuncDecl:
				if d.Recv == nil {
					sigs[d.Name.Name] = d.Type
					declNames = append(declNames, d.Name.Name)
				} else if len(d.Recv.List) == 1 {
					// a method is emitted as T__m
					rt := d.Recv.List[0].Type
					if st, ok := rt.(*ast.StarExpr); ok {
						rt = st.X
					}
					if id, ok := rt.(*ast.Ident); ok {
						declNames = append(declNames, id.Name+"__"+d.Name.Name)
					}
				}
			case *ast.GenDecl:
				for _, sp := range d.Specs {
					switch sp := sp.(type) {
					case *ast.TypeSpec:
						declNames = append(declNames, sp.Name.Name)
					case *ast.ValueSpec:
						for _, n := range sp.Names {
							declNames = append(declNames, n.Name)
						}
					}
				}
			}
		}
		pkg := &progen.Package{Name: it.ID}
		for _, c := range it.Calls {
			ft := sigs[c[0]]
			if ft == nil {
				fmt.Fprintf(os.Stderr, "catalogue item %s: no function %s\n", it.ID, c[0])
				os.Exit(3)
			}
			cl := progen.Call{Fn: c[0]}
			i := 1
			for _, fl := range ft.Params.List {
				for range fl.Names {
					t := typeOfAst(fl.Type)
					if t == nil || i >= len(c) {
						fmt.Fprintf(os.Stderr, "catalogue item %s: bad call %v\n", it.ID, c)
						os.Exit(3)
					}
					var v uint64
					switch c[i] {
					case "true":
						v = 1
					case "false":
						v = 0
					default:
						v, _ = strconv.ParseUint(c[i], 10, 64)
					}
					cl.Args = append(cl.Args, v)
					cl.ArgT = append(cl.ArgT, t)
					i++
				}
			}
			if ft.Results != nil {
				for _, fl := range ft.Results.List {
					cl.ResT = append(cl.ResT, typeOfAst(fl.Type))
				}
			}
			pkg.Calls = append(pkg.Calls, cl)
		}
		cases = append(cases, &caseT{name: it.ID, dir: "c/" + it.ID, pkg: pkg, src: src, native: map[int]string{}, model: map[int]string{}, decls: declNames, nondet: it.Nondet})
	}
	return cases
}
