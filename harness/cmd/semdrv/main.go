// semdrv generates Go packages (internal/progen), runs them natively,
// translates them with the goose binary built from /repo, evaluates the
// emitted definitions with the reference GooseLang interpreter inside Coq and
// compares the results call by call.
//
//	K <pkg>                         start of a case (one generated package)
//	G <hex go source>
//	X <goose exit status> <hex stderr>
//	C <call index> <function> <args> native=<r> gooselang=<r>
//	MISMATCH case=<n> pkg=<p> call=<i> kind=<...> ...
//	E
//	DONE cases=.. calls=.. accepted=.. rejected=.. mismatches=.. panics=..
package main

import (
	"bufio"
	"bytes"
	"context"
	"encoding/hex"
	"flag"
	"fmt"
	"os"
	"os/exec"
	"path/filepath"
	"regexp"
	"sort"
	"strconv"
	"strings"
	"sync"
	"time"

	"verif/harness/internal/progen"
	"verif/harness/internal/rng"
)

func goEnv() []string {
	return append(os.Environ(), "GOFLAGS=-mod=mod", "GOPROXY=off", "GOSUMDB=off", "GOTOOLCHAIN=local")
}

func fmtFor(t *progen.Type, v string) string {
	switch t.K {
	case progen.KU64:
		return fmt.Sprintf(`fmt.Sprintf("u64:%%d", %s)`, v)
	case progen.KU32:
		return fmt.Sprintf(`fmt.Sprintf("u32:%%d", %s)`, v)
	case progen.KU8:
		return fmt.Sprintf(`fmt.Sprintf("u8:%%d", %s)`, v)
	case progen.KBool:
		return fmt.Sprintf(`fmt.Sprintf("bool:%%t", %s)`, v)
	}
	panic("result type")
}

func goArg(t *progen.Type, v uint64) string {
	switch t.K {
	case progen.KBool:
		if v&1 == 1 {
			return "true"
		}
		return "false"
	case progen.KU32:
		return fmt.Sprintf("uint32(%d)", uint32(v))
	case progen.KU8:
		return fmt.Sprintf("byte(%d)", uint8(v))
	}
	return fmt.Sprintf("uint64(%d)", v)
}

func coqArg(t *progen.Type, v uint64) string {
	switch t.K {
	case progen.KBool:
		if v&1 == 1 {
			return "(LitV (LitBool true))"
		}
		return "(LitV (LitBool false))"
	case progen.KU32:
		return fmt.Sprintf("(LitV (LitInt32 %d%%Z))", uint32(v))
	case progen.KU8:
		return fmt.Sprintf("(LitV (LitByte %d%%Z))", uint8(v))
	}
	return fmt.Sprintf("(LitV (LitInt %d%%Z))", v)
}

type caseT struct {
	name         string
	dir          string // package directory relative to the module root (g/p000, c/<id>)
	pkg          *progen.Package
	src          string
	native       map[int]string
	model        map[int]string
	coqErr       string
	defs         map[string]bool   // Definitions present in the emitted file
	mgTr         map[string]string // MiniGo: function -> "ok" | error text (tr_func ast = goose's definition)
	mgGo         map[int]string    // MiniGo: call -> result of the Go semantics model
	mgOut        int               // functions outside the fragment
	declProblems []string          // order profile: problems with the sequence of definitions
	decls        []string          // names of the top-level Go declarations (catalogue)
	nondet       bool              // conc: the Go result may depend on the schedule
	cprog        *progen.CProg     // minigoc: the package as MiniGoC terms
}

var useL bool // compare with the MiniGoL model (loops, nested blocks)

var defRe = regexp.MustCompile(`(?m)^Definition ([A-Za-z0-9_']+)`)
var evalRe = regexp.MustCompile(`(?s)= \((\d+)%nat, "([^"]*)"\)`)

func main() {
	seed := flag.Uint64("seed", 1, "seed")
	n := flag.Int("n", 10, "packages")
	goose := flag.String("goose", "", "goose binary built from /repo")
	repo := flag.String("repo", "/repo", "repository")
	coqroot := flag.String("coq", "/verif/coq", "Coq development (theories, shim)")
	profile := flag.String("profile", "default", "generator profile: default | core | noshadow | core-noshadow | incdec32 | catalogue")
	only := flag.String("only", "", "catalogue: only the items whose id contains this")
	skip := flag.String("skip", "", "catalogue: leave out the items whose id starts with this")
	repsFlag := flag.Int("reps", 200, "conc: native repetitions of every call")
	gen := flag.Int("gen", 0, "conc: this many generated concurrent programs besides the catalogue")
	noRace := flag.Bool("norace", false, "conc: run the native side without the race detector")
	keep := flag.String("keep", "", "keep the scratch module in this directory")
	verbose := flag.Bool("v", false, "print every call")
	par := flag.Int("j", 4, "parallel coqc runs")
	flag.Parse()
	w := bufio.NewWriter(os.Stdout)
	defer w.Flush()

	cfg := progen.DefaultConfig()
	switch *profile {
	case "core":
		cfg.Slices, cfg.Maps, cfg.Structs, cfg.Strings, cfg.Methods, cfg.Widths, cfg.Consts, cfg.MultiRes = false, false, false, false, false, false, false, false
	case "noshadow":
		cfg.Shadow = false
	case "core-noshadow":
		cfg.Slices, cfg.Maps, cfg.Structs, cfg.Strings, cfg.Methods, cfg.Widths, cfg.Consts, cfg.MultiRes = false, false, false, false, false, false, false, false
		cfg.Shadow = false
	case "minigo":
		cfg.Slices, cfg.Maps, cfg.Structs, cfg.Strings, cfg.Methods, cfg.Widths, cfg.Consts, cfg.MultiRes = false, false, false, false, false, false, false, false
		cfg.Loops, cfg.NoBlocks, cfg.NoCompl, cfg.NoCalls = false, true, true, true
	case "minigol":
		cfg.Slices, cfg.Maps, cfg.Structs, cfg.Strings, cfg.Methods, cfg.Widths, cfg.Consts, cfg.MultiRes = false, false, false, false, false, false, false, false
		cfg.NoCompl, cfg.NoCalls = true, true
	case "minigoc", "minigos":
		// packages of the MiniGoC / MiniGoS fragments come from their own generator (progen.GenerateCalls)
	case "minigo-neg":
		cfg.Slices, cfg.Maps, cfg.Structs, cfg.Strings, cfg.Methods, cfg.Widths, cfg.Consts, cfg.MultiRes = false, false, false, false, false, false, false, false
		cfg.Loops, cfg.NoBlocks, cfg.NoCompl, cfg.NoCalls, cfg.Neg = false, true, true, true, true
	case "lexical":
		cfg.Funcs = 4
		cfg.Logs = true
		cfg.Comments = []string{"plain words", "an opener (* inside", "a closer *) inside", "both (* and *) here", "(*", "*)", "(*)", "*)(*",
			"*) Definition evil := #0. (*", "one \" quote", "two \"quoted\" words", "\"", "\"\"", "a \" and (* then *) and \" again", "first line\nsecond *) line\nthird (* line",
			"ends with (", "ends with *", "( * spaced * )", "unicode → λ ∀ é", "back\\slash and \\\" escaped", "tab\there", "percent %d %s", "(* (* nested *) *)", "*)*)*)", "((((*"}
		cfg.StrLits = []string{"", "(*", "*)", "(* x *)", "a (* b", "back\\slash", "tab\there", "unicode → é", "%d percent", "semi; colon:", "( * )", "'single'", "`tick`", "#(str", "Definition x := 1."}
	case "order":
		cfg.Funcs = 6
	case "inject":
		cfg.Inject = true
		cfg.NoCalls = true
		cfg.Funcs = 4
	case "shadowtail":
		cfg.ShadowTail = true
	case "byteconv":
		cfg.ByteConv = true
	case "incdec32":
		cfg.IncDec32 = true
	}

	root := *keep
	if root == "" {
		var err error
		root, err = os.MkdirTemp("", "verif-sem-")
		if err != nil {
			panic(err)
		}
		defer os.RemoveAll(root)
	} else {
		os.RemoveAll(root)
		os.MkdirAll(root, 0o755)
	}
	mod := filepath.Join(root, "mod")
	os.MkdirAll(filepath.Join(mod, "run"), 0o755)
	os.WriteFile(filepath.Join(mod, "go.mod"), []byte(fmt.Sprintf(
		"module gen\n\ngo 1.22\n\nrequire github.com/goose-lang/goose v0.0.0\n\nreplace github.com/goose-lang/goose => %s\n", *repo)), 0o644)
	sum, _ := os.ReadFile(filepath.Join(*repo, "go.sum"))
	os.WriteFile(filepath.Join(mod, "go.sum"), sum, 0o644)

	master := rng.New(*seed)
	var cases []*caseT
	conc := *profile == "conc"
	catalogue := *profile == "catalogue" || conc
	if catalogue {
		cases = catalogueCases(mod, *only, *skip, conc, *seed, *gen)
		*n = 0
	}
	lenient := catalogue || *profile == "inject" || *profile == "minigo-neg" || *profile == "minigoc" || *profile == "minigos" // declarations may be rejected
	minigo := *profile == "minigo" || *profile == "minigo-neg" || *profile == "minigol" || *profile == "minigoc" || *profile == "minigos"
	useL = *profile == "minigol"
	var runner strings.Builder
	runner.WriteString("package main\n\nimport (\n\t\"fmt\"\n\t\"sort\"\n\t\"strings\"\n")
	for c := 0; c < *n; c++ {
		fmt.Fprintf(&runner, "\tp%03d \"gen/g/p%03d\"\n", c, c)
	}
	for _, c := range cases {
		fmt.Fprintf(&runner, "\t%s \"gen/%s\"\n", c.name, c.dir)
	}
	reps := 1
	if conc {
		reps = *repsFlag
	}
	runner.WriteString(")\n\nfunc once(f func() string) (res string) {\n\tdefer func() {\n\t\tif r := recover(); r != nil {\n\t\t\tres = \"panic\"\n\t\t}\n\t}()\n\treturn f()\n}\n\n")
	fmt.Fprintf(&runner, "func call(id string, f func() string) {\n\tseen := map[string]bool{}\n\tvar order []string\n\tfor i := 0; i < %d; i++ {\n\t\tr := once(f)\n\t\tif !seen[r] {\n\t\t\tseen[r] = true\n\t\t\torder = append(order, r)\n\t\t}\n\t}\n\tsort.Strings(order)\n\tfmt.Printf(\"R %%s %%s\\n\", id, strings.Join(order, \"|\"))\n}\n\nfunc main() {\n", reps)
	for c := 0; c < *n; c++ {
		r := master.Fork()
		name := fmt.Sprintf("p%03d", c)
		var pkg *progen.Package
		var src string
		var cprog *progen.CProg
		if *profile == "minigoc" || *profile == "minigos" {
			cprog = progen.GenerateCalls(r, name, c%5 == 4, *profile == "minigos")
			pkg = &progen.Package{Name: name, Calls: cprog.Calls}
			src = cprog.Src
		} else {
			pkg = progen.Generate(r, name, cfg)
			src = pkg.GoFile()
		}
		dir := filepath.Join(mod, "g", name)
		os.MkdirAll(dir, 0o755)
		if *profile == "order" {
			// the same declarations in a random order, split over files
			fnames, order := pkg.Shuffled(r.Intn)
			files := pkg.GoFiles(fnames, order, nil)
			src = ""
			for _, fn := range fnames {
				os.WriteFile(filepath.Join(dir, fn), []byte(files[fn]), 0o644)
				src += "// ---- " + fn + "\n" + files[fn]
			}
		} else {
			os.WriteFile(filepath.Join(dir, "p.go"), []byte(src), 0o644)
		}
		if *profile == "lexical" {
			// the same package without comments, doc comments and logging calls
			progen.PrintComments = false
			bdir := filepath.Join(mod, "b", name)
			os.MkdirAll(bdir, 0o755)
			os.WriteFile(filepath.Join(bdir, "p.go"), []byte(pkg.GoFile()), 0o644)
			progen.PrintComments = true
		}
		cases = append(cases, &caseT{name: name, dir: "g/" + name, pkg: pkg, src: src, native: map[int]string{}, model: map[int]string{}, cprog: cprog})
	}
	for _, cs := range cases {
		name, pkg := cs.name, cs.pkg
		for i, cl := range pkg.Calls {
			var args []string
			for j, a := range cl.Args {
				args = append(args, goArg(cl.ArgT[j], a))
			}
			var rs, fs []string
			for j, t := range cl.ResT {
				rs = append(rs, fmt.Sprintf("r%d", j))
				fs = append(fs, fmtFor(t, fmt.Sprintf("r%d", j)))
			}
			if len(fs) == 0 {
				continue
			}
			res := fs[0]
			if len(fs) == 2 {
				res = fmt.Sprintf(`"(" + %s + "," + %s + ")"`, fs[0], fs[1])
			}
			fmt.Fprintf(&runner, "\tcall(\"%s %d\", func() string { %s := %s.%s(%s); return %s })\n",
				name, i, strings.Join(rs, ", "), name, cl.Fn, strings.Join(args, ", "), res)
		}
	}
	runner.WriteString("}\n")
	os.WriteFile(filepath.Join(mod, "run", "main.go"), []byte(runner.String()), 0o644)

	// native run
	cmd := exec.Command("go", "run", "./run")
	if conc && !*noRace {
		cmd = exec.Command("go", "run", "-race", "./run")
	}
	cmd.Dir = mod
	cmd.Env = goEnv()
	var nerr bytes.Buffer
	cmd.Stderr = &nerr
	nout, err := cmd.Output()
	if err != nil {
		fmt.Fprintf(os.Stderr, "native run failed: %v\n%s\n", err, nerr.String())
		// report which package does not compile: a generator defect, not a finding
		fmt.Fprintf(w, "GENERATOR-ERROR %s\n", hex.EncodeToString(nerr.Bytes()))
		w.Flush()
		os.Exit(3)
	}
	byName := map[string]*caseT{}
	for _, c := range cases {
		byName[c.name] = c
	}
	for _, l := range strings.Split(string(nout), "\n") {
		f := strings.Fields(l)
		if len(f) == 4 && f[0] == "R" {
			var i int
			fmt.Sscanf(f[2], "%d", &i)
			byName[f[1]].native[i] = f[3]
		}
	}

	// goose, one package per invocation directory pattern list (one load)
	out := filepath.Join(root, "out")
	pat := "./g/..."
	if catalogue {
		pat = "./c/..."
	}
	_ = conc
	if *profile == "lexical" {
		// the baseline packages, and the commented ones under each flag
		for _, v := range [][]string{{"out", "./b/..."}, {"outT", "-typecheck", "./g/..."}, {"outS", "-source-comments", "./g/..."}, {"outK", "-skip-interfaces", "./g/..."}, {"outA", "-typecheck", "-source-comments", "-skip-interfaces", "./g/..."}} {
			c2 := exec.Command(*goose, append([]string{"-out", filepath.Join(root, v[0])}, v[1:]...)...)
			c2.Dir = mod
			c2.Env = goEnv()
			c2.Run()
		}
	}
	if *profile == "lexical" {
		// an output directory that is used twice: first with the flags that make the files longer,
		// then plainly; the files left there are compared with the plain run into an empty directory
		for _, fl := range [][]string{{"-typecheck", "-source-comments"}, {}} {
			c2 := exec.Command(*goose, append(append([]string{"-out", filepath.Join(root, "outR"), "-ignore-errors"}, fl...), "./g/...")...)
			c2.Dir = mod
			c2.Env = goEnv()
			c2.Run()
		}
	}
	gctx, gcancel := context.WithTimeout(context.Background(), 600*time.Second)
	defer gcancel()
	gcmd := exec.CommandContext(gctx, *goose, "-out", out, "-ignore-errors", pat)
	gcmd.Dir = mod
	gcmd.Env = goEnv()
	var gerr bytes.Buffer
	gcmd.Stderr = &gerr
	gcmd.Stdout = &gerr
	gerrRun := gcmd.Run()
	if gctx.Err() != nil {
		// find the package goose does not terminate on: one package at a time, 60 s each
		for _, c := range cases {
			cctx, ccancel := context.WithTimeout(context.Background(), 60*time.Second)
			one := exec.CommandContext(cctx, *goose, "-out", filepath.Join(root, "outone"), "-ignore-errors", "./"+c.dir+"/"+c.name)
			one.Dir = mod
			one.Env = goEnv()
			one.Run()
			hung := cctx.Err() != nil
			ccancel()
			if hung {
				fmt.Fprintf(w, "K %s\nG %s\nX 0 \nMISMATCH case=0 pkg=%s kind=no-termination msg=%s\nE\n", c.name, hex.EncodeToString([]byte(c.src)), c.name, hex.EncodeToString([]byte("goose did not terminate within 60 s on this package")))
			}
		}
		fmt.Fprintf(w, "DONE cases=%d calls=0 accepted=0 rejected=0 mismatches=1 panics=0 goose_status=-1 rejected_calls=0 model_funcs=0 model_calls=0 outside_fragment=0\n", len(cases))
		w.Flush()
		os.Exit(0)
	}
	gstatus := 0
	if gerrRun != nil {
		if ee, ok := gerrRun.(*exec.ExitError); ok {
			gstatus = ee.ExitCode()
		} else {
			gstatus = -1
		}
	}
	gtext := gerr.String()

	// Coq evaluation
	coqflags := []string{"-Q", filepath.Join(*coqroot, "theories"), "GV", "-Q", filepath.Join(*coqroot, "shim"), "Perennial.goose_lang",
		"-Q", out, "Goose", "-w", "-abstract-large-number,-notation-overridden,-deprecated-hint-without-locality"}
	var wg sync.WaitGroup
	sem := make(chan struct{}, *par)
	for _, c := range cases {
		c := c
		wg.Add(1)
		go func() {
			defer wg.Done()
			sem <- struct{}{}
			defer func() { <-sem }()
			vfile := filepath.Join(out, "gen", c.dir+".v")
			vtxt, err := os.ReadFile(vfile)
			if err != nil {
				c.coqErr = "no output file"
				return
			}
			c.defs = map[string]bool{}
			for _, m := range defRe.FindAllStringSubmatch(string(vtxt), -1) {
				c.defs[m[1]] = true
			}
			if catalogue {
				// a rejected declaration is absent from the (partial) output: nothing to evaluate
				for _, cl := range c.pkg.Calls {
					if !c.defs[cl.Fn] {
						return
					}
				}
			}
			if subs, _ := filepath.Glob(filepath.Join(out, "gen", c.dir, "*.v")); len(subs) > 0 {
				for _, sv := range subs {
					exec.Command("coqc", append(coqflags, sv)...).Run()
				}
			}
			cc := exec.Command("coqc", append(coqflags, vfile)...)
			if o, err := cc.CombinedOutput(); err != nil {
				c.coqErr = "emitted file does not compile: " + string(o)
				// a definition that mentions a declaration goose rejected (absent from the
				// partial output written under -ignore-errors) is rejected with it
				if catalogue {
					for _, name := range c.decls {
						if !c.defs[name] && regexp.MustCompile(`[^A-Za-z0-9_"]`+regexp.QuoteMeta(name)+`[^A-Za-z0-9_"]`).MatchString(string(vtxt)) {
							c.defs = nil
							c.coqErr = "depends on the rejected declaration " + name
							break
						}
					}
				}
				return
			}
			var ev strings.Builder
			ev.WriteString("From Coq Require Import ZArith String.\nFrom GV Require Import Lang.GlSyntax Lang.GlSem Lang.GlConc Lang.Show.\nSet Printing Width 100000.\n")
			fmt.Fprintf(&ev, "From Goose Require Import gen.%s.\n", strings.ReplaceAll(c.dir, "/", "."))
			for i, cl := range c.pkg.Calls {
				if !c.defs[cl.Fn] {
					continue
				}
				e := fmt.Sprintf("(Val %s)", cl.Fn)
				for j, a := range cl.Args {
					e = fmt.Sprintf("(App %s (Val %s))", e, coqArg(cl.ArgT[j], a))
				}
				if len(cl.Args) == 0 {
					// a function without parameters takes the unit value
					e = fmt.Sprintf("(App %s (Val (LitV LitUnit)))", e)
				}
				if conc {
					fmt.Fprintf(&ev, "Eval vm_compute in (%d%%nat, show_outcomes (run_conc 400%%nat 20000%%nat %s)).\n", i, e)
				} else {
					fmt.Fprintf(&ev, "Eval vm_compute in (%d%%nat, show_res (run 60000%%nat %s)).\n", i, e)
				}
			}
			evf := filepath.Join(out, "ev_"+c.name+".v")
			os.WriteFile(evf, []byte(ev.String()), 0o644)
			cc = exec.Command("timeout", "300", "coqc")
			cc.Args = append(cc.Args, coqflags...)
			cc.Args = append(cc.Args, evf)
			o, err := cc.CombinedOutput()
			if err != nil {
				c.coqErr = "evaluation failed: " + string(o)
				return
			}
			for _, m := range evalRe.FindAllStringSubmatch(string(o), -1) {
				var i int
				fmt.Sscanf(m[1], "%d", &i)
				c.model[i] = m[2]
			}
			if minigo {
				c.minigo(coqflags, out)
			}
			if *profile == "order" {
				c.declProblems = declChecks(c.pkg, string(vtxt))
			}
			if *profile == "lexical" {
				c.declProblems = lexicalChecks(c, root, coqflags)
			}
		}()
	}
	wg.Wait()

	calls, mism, accepted, rejected, panics, fnRejected := 0, 0, 0, 0, 0, 0
	mgCalls, mgFuncs, mgOutside := 0, 0, 0
	for ci, c := range cases {
		fmt.Fprintf(w, "K %s\n", c.name)
		fmt.Fprintf(w, "G %s\n", hex.EncodeToString([]byte(c.src)))
		// errors goose reported for this package
		var perr []string
		for _, l := range strings.Split(gtext, "\n") {
			if strings.Contains(l, "/"+c.dir+"/") {
				perr = append(perr, l)
			}
		}
		fmt.Fprintf(w, "X %d %s\n", gstatus, hex.EncodeToString([]byte(strings.Join(perr, "\n"))))
		called := true
		for _, cl := range c.pkg.Calls {
			if c.defs != nil && !c.defs[cl.Fn] {
				called = false
			}
		}
		if catalogue && errorInImport(c.src, perr) {
			// goose refused an import declaration (a renamed import): every declaration that uses the
			// package depends on it; the whole package counts as rejected
			rejected++
			fmt.Fprintf(w, "V %s rejected-import\n", c.name)
		} else if catalogue && (c.defs == nil || !called) {
			// rejected: the called function is not in the output; there must be an error for it
			rejected++
			if len(perr) == 0 && c.coqErr != "no output file" {
				mism++
				fmt.Fprintf(w, "MISMATCH case=%d pkg=%s kind=declaration-dropped-without-error\n", ci, c.name)
			} else {
				fmt.Fprintf(w, "V %s rejected\n", c.name)
			}
		} else if len(perr) > 0 && !lenient {
			rejected++
			mism++
			fmt.Fprintf(w, "MISMATCH case=%d pkg=%s kind=rejected-subset-program msg=%s\n", ci, c.name, hex.EncodeToString([]byte(strings.Join(perr, "\n"))))
		} else if catalogue && externalReference(c.coqErr, c.src) {
			// the output mentions a declaration of a standard-library package the source imports
			// (sync.RWMutex, sync.Once, ...): goose leaves imported packages to their own
			// translation, there is none, and Coq refuses the file: rejected, loudly
			rejected++
			fmt.Fprintf(w, "V %s rejected-by-coq-external-reference\n", c.name)
		} else if c.coqErr != "" {
			mism++
			fmt.Fprintf(w, "MISMATCH case=%d pkg=%s kind=output-unusable msg=%s\n", ci, c.name, hex.EncodeToString([]byte(c.coqErr)))
		} else {
			accepted++
			if catalogue {
				fmt.Fprintf(w, "V %s translated\n", c.name)
			}
			for i, cl := range c.pkg.Calls {
				if lenient && !c.defs[cl.Fn] {
					// the function was rejected: there must be an error report
					fnRejected++
					if len(perr) == 0 {
						mism++
						fmt.Fprintf(w, "MISMATCH case=%d pkg=%s fn=%s kind=declaration-dropped-without-error\n", ci, c.name, cl.Fn)
					}
					continue
				}
				calls++
				nat, mod := c.native[i], c.model[i]
				if nat == "panic" {
					panics++
				}
				okk := nat == mod || (nat == "panic" && strings.HasPrefix(mod, "stuck"))
				if conc {
					okk = concAgree(nat, mod, c.nondet)
				}
				if *verbose || !okk {
					fmt.Fprintf(w, "C %d %s %v native=%s gooselang=%s\n", i, cl.Fn, cl.Args, nat, mod)
				}
				if !okk {
					mism++
					fmt.Fprintf(w, "MISMATCH case=%d pkg=%s call=%d fn=%s kind=result-differs native=%s gooselang=%s\n", ci, c.name, i, cl.Fn, nat, mod)
				}
				if c.mgGo != nil {
					if g, ok := c.mgGo[i]; ok {
						mgCalls++
						if g != nat && !(nat == "panic" && strings.HasPrefix(g, "stuck")) {
							mism++
							fmt.Fprintf(w, "MISMATCH case=%d pkg=%s call=%d fn=%s kind=go-semantics-model-differs native=%s model=%s\n", ci, c.name, i, cl.Fn, nat, g)
						}
					}
				}
			}
			for fn, r := range c.mgTr {
				mgFuncs++
				if r != "ok" {
					mism++
					fmt.Fprintf(w, "MISMATCH case=%d pkg=%s fn=%s kind=translator-model-differs msg=%s\n", ci, c.name, fn, hex.EncodeToString([]byte(r)))
				}
			}
			mgOutside += c.mgOut
			for _, pr := range c.declProblems {
				mism++
				fmt.Fprintf(w, "MISMATCH case=%d pkg=%s kind=declarations msg=%s\n", ci, c.name, hex.EncodeToString([]byte(pr)))
			}
		}
		fmt.Fprintf(w, "E\n")
	}
	fmt.Fprintf(w, "DONE cases=%d calls=%d accepted=%d rejected=%d mismatches=%d panics=%d goose_status=%d rejected_calls=%d model_funcs=%d model_calls=%d outside_fragment=%d\n", len(cases), calls, accepted, rejected, mism, panics, gstatus, fnRejected, mgFuncs, mgCalls, mgOutside)
}

// minigo compares the model of the translator (Tr/MiniGo.v) with goose's
// output, function by function, and the model of Go with the native run.
func (c *caseT) minigo(coqflags []string, out string) {
	if c.cprog != nil {
		c.minigoC(coqflags, out)
		return
	}
	c.mgTr = map[string]string{}
	c.mgGo = map[int]string{}
	var b strings.Builder
	b.WriteString("From Coq Require Import ZArith String List.\nImport ListNotations.\nFrom GV Require Import Lang.GlSyntax Lang.GlSem Tr.MiniGo Tr.MiniGoL.\n")
	rec, trf, call, show := "gfunc", "tr_func", "go_call", "show_outcome"
	if useL {
		rec, trf, call, show = "lfunc", "trl_func", "lgo_call", "show_lout"
	}
	fmt.Fprintf(&b, "From Goose Require Import gen.%s.\nSet Printing Width 100000.\nOpen Scope string_scope.\n", strings.ReplaceAll(c.dir, "/", "."))
	var fns []string
	for _, f := range c.pkg.Funcs() {
		t, ok := f.MiniGo()
		if useL {
			t, ok = f.MiniGoL()
		}
		if !ok {
			c.mgOut++
			continue
		}
		fns = append(fns, f.Name)
		fmt.Fprintf(&b, "Definition A_%s : %s := %s.\n", f.Name, rec, t)
		if c.defs[f.Name] {
			fmt.Fprintf(&b, "Eval vm_compute in \"MARK %s\".\nGoal %s A_%s = Some %s. Proof. vm_compute. reflexivity. Qed.\n", f.Name, trf, f.Name, f.Name)
		} else {
			// goose rejected the function: so must the model
			fmt.Fprintf(&b, "Eval vm_compute in \"MARK %s\".\nGoal %s A_%s = None. Proof. vm_compute. reflexivity. Qed.\n", f.Name, trf, f.Name)
		}
	}
	inFrag := map[string]bool{}
	for _, f := range fns {
		inFrag[f] = true
	}
	for i, cl := range c.pkg.Calls {
		if !inFrag[cl.Fn] {
			continue
		}
		var args []string
		for j, a := range cl.Args {
			args = append(args, strings.TrimSuffix(strings.TrimPrefix(coqArg(cl.ArgT[j], a), "("), ")"))
		}
		fmt.Fprintf(&b, "Eval vm_compute in (\"GO\", %d%%nat, %s (%s 5000%%nat A_%s [%s])).\n", i, show, call, cl.Fn, strings.Join(args, "; "))
	}
	cmd := exec.Command("timeout", "300", "coqtop", "-q")
	cmd.Args = append(cmd.Args, coqflags...)
	cmd.Stdin = strings.NewReader(b.String())
	o, _ := cmd.CombinedOutput()
	os.WriteFile(filepath.Join(out, "mg_"+c.name+".v"), []byte(b.String()), 0o644)
	txt := string(o)
	parts := strings.Split(txt, "\"MARK ")
	for _, p := range parts[1:] {
		name := p[:strings.Index(p, "\"")]
		if strings.Contains(p, "Error") {
			e := p[strings.Index(p, "Error"):]
			if len(e) > 600 {
				e = e[:600]
			}
			c.mgTr[name] = e
		} else {
			c.mgTr[name] = "ok"
		}
	}
	for _, m := range goRe.FindAllStringSubmatch(txt, -1) {
		var i int
		fmt.Sscanf(m[1], "%d", &i)
		c.mgGo[i] = m[2]
	}
}

// minigoC compares the model of the translation of packages with calls
// (Tr/MiniGoC.v) with goose's output: the list of emitted values, in the order
// of the emitted file, is the model's translation of the package (syntactic
// equality), and the model of Go agrees with the native run.
func (c *caseT) minigoC(coqflags []string, out string) {
	c.mgTr = map[string]string{}
	c.mgGo = map[int]string{}
	cp := c.cprog
	vtxt, _ := os.ReadFile(filepath.Join(out, "gen", c.dir+".v"))
	var as, fs []string
	emitted := map[string]bool{}
	for _, m := range defRe.FindAllStringSubmatch(string(vtxt), -1) {
		if _, ok := cp.Terms[m[1]]; !ok {
			c.mgTr[m[1]] = "definition without a Go function"
			continue
		}
		emitted[m[1]] = true
		as = append(as, "A_"+m[1])
		fs = append(fs, m[1])
	}
	for _, n := range cp.Names {
		if n == cp.Bad {
			if emitted[n] {
				c.mgTr[n] = "goose accepted a function it has to refuse (a parameter with the name of its function, or an assignment to a := variable)"
			}
		} else if !emitted[n] {
			c.mgTr[n] = "function missing from the output"
		}
	}
	var b strings.Builder
	b.WriteString("From Coq Require Import ZArith String List.\nImport ListNotations.\nFrom GV Require Import Lang.GlSyntax Lang.GlSem Tr.MiniGo Tr.MiniGoC Tr.Decls Tr.MiniGoCProofs Tr.MiniGoCOrder.\n")
	fmt.Fprintf(&b, "From Goose Require Import gen.%s.\nSet Printing Width 100000.\nOpen Scope string_scope.\n", strings.ReplaceAll(c.dir, "/", "."))
	rec, trp, prog, call, show := "cfunc", "trc_prog", "cprog", "cgo_call", "show_cres"
	if cp.Stateful {
		rec, trp, prog, call, show = "sfunc", "trs_prog", "sprog", "sgo_call", "show_sres"
		b.WriteString("From GV Require Import Tr.MiniGoS.\n")
	}
	var src []string
	for _, n := range cp.Names {
		fmt.Fprintf(&b, "Definition A_%s : %s := %s.\n", n, rec, cp.Terms[n])
		src = append(src, "A_"+n)
	}
	// the order of the emitted file is the order the model of Decls (Tr/Decls.v) computes from the
	// source order and the calls (the refused function is not emitted)
	var qfs []string
	for _, f := range fs {
		qfs = append(qfs, strconv.Quote(f))
	}
	{
		progT, pickF, declsF, nameF := "cprog", "pick", "decls_of", "cf_name"
		if cp.Stateful {
			progT, pickF, declsF, nameF = "sprog", "spick", "sdecls_of", "sf_name"
		}
		fmt.Fprintf(&b, "Definition A_src : %s := [%s].\nEval vm_compute in \"MARK ORDER\".\nGoal option_map (fun o => filter (fun n => negb (String.eqb n %q)) (map %s (%s A_src o))) (emit_order (%s A_src)) = Some [%s]. Proof. vm_compute. reflexivity. Qed.\n",
			progT, strings.Join(src, "; "), cp.Bad, nameF, pickF, declsF, strings.Join(qfs, "; "))
	}
	fmt.Fprintf(&b, "Eval vm_compute in \"MARK PROG\".\nGoal %s [%s] = Some [%s]. Proof. vm_compute. reflexivity. Qed.\n", trp, strings.Join(as, "; "), strings.Join(fs, "; "))
	all := as
	if cp.Bad != "" && !emitted[cp.Bad] {
		all = append(append([]string{}, as...), "A_"+cp.Bad)
		fmt.Fprintf(&b, "Eval vm_compute in \"MARK REJECTED\".\nGoal %s [%s] = None. Proof. vm_compute. reflexivity. Qed.\n", trp, strings.Join(all, "; "))
	}
	fmt.Fprintf(&b, "Definition A_prog : %s := [%s].\n", prog, strings.Join(all, "; "))
	for i, cl := range c.pkg.Calls {
		var args []string
		for j, a := range cl.Args {
			args = append(args, strings.TrimSuffix(strings.TrimPrefix(coqArg(cl.ArgT[j], a), "("), ")"))
		}
		fmt.Fprintf(&b, "Eval vm_compute in (\"GO\", %d%%nat, %s (%s 5000%%nat A_prog %q [%s])).\n", i, show, call, cl.Fn, strings.Join(args, "; "))
	}
	cmd := exec.Command("timeout", "300", "coqtop", "-q")
	cmd.Args = append(cmd.Args, coqflags...)
	cmd.Stdin = strings.NewReader(b.String())
	o, _ := cmd.CombinedOutput()
	os.WriteFile(filepath.Join(out, "mg_"+c.name+".v"), []byte(b.String()), 0o644)
	txt := string(o)
	parts := strings.Split(txt, "\"MARK ")
	if len(parts) < 2 {
		c.mgTr["PROG"] = "no answer from coqtop: " + txt
	}
	for _, p := range parts[1:] {
		name := p[:strings.Index(p, "\"")]
		if strings.Contains(p, "Error") {
			e := p[strings.Index(p, "Error"):]
			if len(e) > 600 {
				e = e[:600]
			}
			c.mgTr[name] = e
		} else {
			c.mgTr[name] = "ok"
		}
	}
	for _, m := range goRe.FindAllStringSubmatch(txt, -1) {
		var i int
		fmt.Sscanf(m[1], "%d", &i)
		c.mgGo[i] = m[2]
	}
}

var goRe = regexp.MustCompile(`\("GO", (\d+)%nat, "([^"]*)"\)`)

var stringRe = regexp.MustCompile(`"[^"]*"`)
var commentRe = regexp.MustCompile(`(?s)\(\*.*?\*\)`)
var identRe = regexp.MustCompile(`[A-Za-z_][A-Za-z0-9_']*`)

// declChecks: every Go declaration yields exactly one definition under its
// documented name, names are distinct, and a definition mentions (outside
// quotes) only same-package definitions that come before it.
func declChecks(pkg *progen.Package, v string) []string {
	var probs []string
	locs := defRe.FindAllStringSubmatchIndex(v, -1)
	count := map[string]int{}
	pos := map[string]int{}
	var names []string
	for i, l := range locs {
		n := v[l[2]:l[3]]
		count[n]++
		if _, ok := pos[n]; !ok {
			pos[n] = i
		}
		names = append(names, n)
	}
	want := map[string]bool{}
	for _, d := range pkg.Decls {
		for _, n := range d.DeclNames() {
			if want[n] {
				probs = append(probs, "two Go declarations share the Coq name "+n)
			}
			want[n] = true
			if count[n] != 1 {
				probs = append(probs, fmt.Sprintf("declaration %s yields %d definitions", n, count[n]))
			}
		}
	}
	for n := range count {
		if !want[n] && !strings.HasSuffix(n, "_t") {
			probs = append(probs, "unexpected definition "+n)
		}
	}
	for i, l := range locs {
		end := len(v)
		if i+1 < len(locs) {
			end = locs[i+1][0]
		}
		body := v[l[1]:end]
		body = commentRe.ReplaceAllString(body, " ")
		body = stringRe.ReplaceAllString(body, " ")
		for _, id := range identRe.FindAllString(body, -1) {
			if !want[id] {
				continue
			}
			if id == names[i] {
				probs = append(probs, fmt.Sprintf("%s mentions itself outside its recursive binder", id))
			} else if p, ok := pos[id]; !ok || p > i {
				probs = append(probs, fmt.Sprintf("%s mentions %s, which is defined later (or never)", names[i], id))
			}
		}
	}
	return probs
}

var extRefRe = regexp.MustCompile(`The reference ([a-z][a-z0-9_]*)\.[A-Za-z_][A-Za-z0-9_]* was not found`)

// externalReference: coqc failed because of a name qualified by a standard-library
// package (import path without a dot, other than the ones goose knows) that the source imports
func externalReference(coqErr, src string) bool {
	m := extRefRe.FindStringSubmatch(coqErr)
	if m == nil {
		return false
	}
	return strings.Contains(src, "\""+m[1]+"\"") || strings.Contains(src, "/"+m[1]+"\"")
}

var srcPosRe = regexp.MustCompile(`/p\.go:(\d+):\d+`)

// errorInImport: one of the reported positions lies on a line of the import declaration(s) of p.go
func errorInImport(src string, perr []string) bool {
	lines := strings.Split(src, "\n")
	inBlock := map[int]bool{}
	block := false
	for i, l := range lines {
		t := strings.TrimSpace(l)
		if strings.HasPrefix(t, "import (") {
			block = true
		} else if block && t == ")" {
			block = false
		} else if block || strings.HasPrefix(t, "import ") {
			inBlock[i+1] = true
		}
	}
	for _, e := range perr {
		if m := srcPosRe.FindStringSubmatch(e); m != nil {
			var n int
			fmt.Sscanf(m[1], "%d", &n)
			if inBlock[n] {
				return true
			}
		}
	}
	return false
}

// lexicalChecks: the definitions Coq sees for the commented package equal, as
// terms, those of the same package without comments and logging calls, under
// every flag combination; every variant compiles.
func lexicalChecks(c *caseT, root string, coqflags []string) []string {
	var probs []string
	variants := []string{"outT", "outS", "outK", "outA"}
	flags := append([]string{}, coqflags...)
	// baseline: out/gen/b/<name>.v (logical Goose.gen.b.<name>)
	bf := filepath.Join(root, "out", "gen", "b", c.name+".v")
	if o, err := exec.Command("coqc", append(flags, bf)...).CombinedOutput(); err != nil {
		return []string{"the baseline (comment-free) package does not compile: " + string(o)}
	}
	plain, _ := os.ReadFile(filepath.Join(root, "out", "gen", "g", c.name+".v"))
	reused, _ := os.ReadFile(filepath.Join(root, "outR", "gen", "g", c.name+".v"))
	if !bytes.Equal(plain, reused) {
		probs = append(probs, fmt.Sprintf("the file left in an output directory used before (first with -typecheck -source-comments, then plainly) differs from the plain output: %d vs %d bytes; tail: %q",
			len(reused), len(plain), firstN(string(reused[min(len(plain), len(reused)):]), 200)))
	}
	for _, v := range variants {
		flags = append(flags, "-Q", filepath.Join(root, v), "Goose"+v[3:])
		vf := filepath.Join(root, v, "gen", "g", c.name+".v")
		if o, err := exec.Command("coqc", append(flags, vf)...).CombinedOutput(); err != nil {
			probs = append(probs, "variant "+v+" does not compile: "+firstN(string(o), 400))
		}
	}
	if len(probs) > 0 {
		return probs
	}
	var b strings.Builder
	fmt.Fprintf(&b, "From Goose Require gen.g.%s gen.b.%s.\n", c.name, c.name)
	for _, v := range variants {
		fmt.Fprintf(&b, "From Goose%s Require gen.g.%s.\n", v[3:], c.name)
	}
	var names []string
	for n := range c.defs {
		names = append(names, n)
	}
	sort.Strings(names)
	for _, n := range names {
		fmt.Fprintf(&b, "Eval vm_compute in \"MARK base %s\"%%string.\nGoal Goose.gen.g.%s.%s = Goose.gen.b.%s.%s. Proof. reflexivity. Qed.\n", n, c.name, n, c.name, n)
		for _, v := range variants {
			fmt.Fprintf(&b, "Eval vm_compute in \"MARK %s %s\"%%string.\nGoal Goose.gen.g.%s.%s = Goose%s.gen.g.%s.%s. Proof. reflexivity. Qed.\n", v, n, c.name, n, v[3:], c.name, n)
		}
	}
	cmd := exec.Command("timeout", "300", "coqtop", "-q")
	cmd.Args = append(cmd.Args, flags...)
	cmd.Stdin = strings.NewReader("From Coq Require Import String.\n" + b.String())
	o, _ := cmd.CombinedOutput()
	os.WriteFile(filepath.Join(root, "out", "lex_"+c.name+".v"), []byte(b.String()), 0o644)
	parts := strings.Split(string(o), "\"MARK ")
	if len(parts)-1 != len(names)*(1+len(variants)) {
		probs = append(probs, fmt.Sprintf("comparison did not run to the end (%d of %d): %s", len(parts)-1, len(names)*(1+len(variants)), firstN(string(o), 600)))
	}
	for _, p := range parts[1:] {
		label := p[:strings.Index(p, "\"")]
		if strings.Contains(p, "Error") {
			probs = append(probs, "definition differs: "+label+": "+firstN(p[strings.Index(p, "Error"):], 300))
		}
	}
	return probs
}

func firstN(s string, n int) string {
	if len(s) > n {
		return s[:n]
	}
	return s
}

// concAgree: every result Go produced is an outcome of the model; the model
// has no deadlock, stuck or unfinished schedule; and when Go always produced
// one result, the model's outcomes are exactly that result.
func concAgree(nat, mod string, nondet bool) bool {
	ms := strings.Split(mod, "|")
	model := map[string]bool{}
	for _, m := range ms {
		if m == "deadlock" || m == "fuel" || strings.HasPrefix(m, "stuck") || m == "" {
			return false
		}
		model[strings.TrimPrefix(m, "done:")] = true
	}
	ns := strings.Split(nat, "|")
	for _, n := range ns {
		if !model[n] {
			return false
		}
	}
	if !nondet && len(model) != 1 {
		return false
	}
	return true
}
