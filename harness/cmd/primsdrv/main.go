// primsdrv exercises the remaining machine primitives of /repo:
//
//	S <n> -> <decimal string>                         UInt64ToString
//	M <keytype> <entries> <nan keys> -> <len after clear> <len after 3 inserts> <lookups ok>
//	A assume|assert true|false -> R | P
//	W <scenario> <timeout ms> -> held=<bool> elapsed_us=<n> [extra]      WaitTimeout
package main

import (
	"bufio"
	"flag"
	"fmt"
	"math"
	"os"
	"strconv"
	"strings"
	"sync"
	"sync/atomic"
	"time"

	"github.com/goose-lang/goose/machine"
	"verif/harness/internal/rng"
)

func try(f func()) (p bool) {
	defer func() {
		if recover() != nil {
			p = true
		}
	}()
	f()
	return false
}

var pow10 = func() []uint64 {
	var r []uint64
	x := uint64(1)
	for i := 0; i < 20; i++ {
		r = append(r, x, x-1, x+1)
		if i < 19 {
			x *= 10
		}
	}
	return r
}()

func waitScenario(w *bufio.Writer, name string, timeoutMs uint64) {
	var mu sync.Mutex
	cond := sync.NewCond(&mu)
	result := make(chan string, 1)
	go func() {
		mu.Lock()
		start := time.Now()
		switch name {
		case "timeout": // nobody signals
			machine.WaitTimeout(cond, timeoutMs)
		case "signal", "broadcast", "broadcast-after-many-timeouts": // signalled after 5 ms, long before the timeout
			if name == "broadcast-after-many-timeouts" {
				// first: 300 waits on another condition variable that nobody signals (each leaves its helper behind)
				var mu2 sync.Mutex
				cond2 := sync.NewCond(&mu2)
				mu2.Lock()
				for i := 0; i < 300; i++ {
					machine.WaitTimeout(cond2, 1)
				}
				mu2.Unlock()
				defer func() { mu2.Lock(); cond2.Broadcast(); mu2.Unlock() }()
				start = time.Now()
			}
			go func() {
				time.Sleep(5 * time.Millisecond)
				mu.Lock()
				if name == "signal" {
					cond.Signal()
				} else {
					cond.Broadcast()
				}
				mu.Unlock()
			}()
			machine.WaitTimeout(cond, timeoutMs)
		case "two-waiters", "two-timeouts": // another goroutine is already queued on the same cond (a plain Wait / a much longer timeout); nobody signals
			mu.Unlock()
			ready := make(chan struct{})
			go func() {
				mu.Lock()
				close(ready)
				if name == "two-waiters" {
					cond.Wait()
				} else {
					machine.WaitTimeout(cond, 20*timeoutMs+2000)
				}
				mu.Unlock()
			}()
			<-ready
			mu.Lock() // succeeds once the other goroutine is queued on the cond and has released the lock
			defer func() { mu.Lock(); cond.Broadcast(); mu.Unlock() }()
			start = time.Now()
			machine.WaitTimeout(cond, timeoutMs)
		case "contending-signal", "contending-broadcast": // the signaller is already fighting for the lock when the wait begins
			go func() {
				for !mu.TryLock() {
				}
				if name == "contending-signal" {
					cond.Signal()
				} else {
					cond.Broadcast()
				}
				mu.Unlock()
			}()
			time.Sleep(2 * time.Millisecond) // the signaller is spinning by now
			start = time.Now()
			machine.WaitTimeout(cond, timeoutMs)
		case "stale-helper": // a timed-out wait, then a late signal, then a second timed-out wait
			machine.WaitTimeout(cond, timeoutMs)
			mu.Unlock()
			mu.Lock()
			cond.Broadcast() // wakes the helper left behind by the first call
			mu.Unlock()
			time.Sleep(5 * time.Millisecond)
			mu.Lock()
			start = time.Now()
			machine.WaitTimeout(cond, timeoutMs)
		}
		el := time.Since(start)
		held := !mu.TryLock() // must fail: the caller holds the lock
		extra := ""
		if held {
			mu.Unlock()
			// nobody else may still be holding / about to grab the lock for good
			ok := make(chan bool, 1)
			go func() { mu.Lock(); mu.Unlock(); ok <- true }()
			select {
			case <-ok:
				extra = " relock=ok"
			case <-time.After(500 * time.Millisecond):
				extra = " relock=BLOCKED"
			}
		}
		result <- fmt.Sprintf("held=%v elapsed_us=%d%s", held, el.Microseconds(), extra)
	}()
	select {
	case r := <-result:
		fmt.Fprintf(w, "W %s %d -> %s\n", name, timeoutMs, r)
	case <-time.After(6 * time.Second):
		fmt.Fprintf(w, "W %s %d -> HUNG\n", name, timeoutMs)
	}
}

func main() {
	seed := flag.Uint64("seed", 1, "seed")
	n := flag.Int("n", 2000, "number of UInt64ToString cases")
	flag.Parse()
	w := bufio.NewWriter(os.Stdout)
	defer w.Flush()
	r := rng.New(*seed)
	vals := append([]uint64{0, 1, 9, 10, 11, 99, 100, 1<<63 - 1, 1 << 63, 1<<63 + 1, ^uint64(0), ^uint64(0) - 1, 1 << 32, 1<<32 - 1}, pow10...)
	for i := 0; i < *n; i++ {
		switch r.Intn(3) {
		case 0:
			vals = append(vals, r.U64())
		case 1:
			vals = append(vals, r.U64()>>uint(r.Intn(64)))
		default:
			vals = append(vals, rng.Pick(r, pow10)+uint64(r.Intn(3)))
		}
	}
	for _, v := range vals {
		fmt.Fprintf(w, "S %d -> %s\n", v, machine.UInt64ToString(v))
	}
	// MapClear over three key types, sizes 0..1000, with NaN keys for floats
	for _, size := range []int{0, 1, 2, 7, 100, 1000} {
		mi := map[uint64]uint64{}
		ms := map[string][]byte{}
		mf := map[float64]uint64{}
		for i := 0; i < size; i++ {
			mi[r.U64()] = uint64(i)
			ms[fmt.Sprint(r.U64())] = []byte{byte(i)}
			mf[float64(r.U64()%1000)/7] = uint64(i)
		}
		nan := size % 3
		for i := 0; i < nan; i++ {
			mf[math.NaN()] = uint64(i)
		}
		machine.MapClear(mi)
		l0 := len(mi)
		mi[1], mi[2], mi[3] = 10, 20, 30
		fmt.Fprintf(w, "M uint64 %d 0 -> %d %d %v\n", size, l0, len(mi), mi[2] == 20)
		machine.MapClear(ms)
		l0 = len(ms)
		ms["a"], ms["b"], ms["c"] = []byte{1}, []byte{2}, []byte{3}
		fmt.Fprintf(w, "M string %d 0 -> %d %d %v\n", size, l0, len(ms), len(ms["b"]) == 1 && ms["b"][0] == 2)
		machine.MapClear(mf)
		l0 = len(mf)
		mf[1.5], mf[2.5], mf[3.5] = 10, 20, 30
		fmt.Fprintf(w, "M float64 %d %d -> %d %d %v\n", size, nan, l0, len(mf), mf[2.5] == 20)
	}
	for _, b := range []bool{true, false} {
		for _, which := range []string{"assume", "assert"} {
			b := b
			p := try(func() {
				if which == "assume" {
					machine.Assume(b)
				} else {
					machine.Assert(b)
				}
			})
			res := "R"
			if p {
				res = "P"
			}
			fmt.Fprintf(w, "A %s %v -> %s\n", which, b, res)
		}
	}
	// UInt64ToString from several goroutines at once: a pure function of its argument
	{
		var wrong atomic.Int64
		var first atomic.Value
		var cwg sync.WaitGroup
		for g := 0; g < 8; g++ {
			cwg.Add(1)
			go func(g int) {
				defer cwg.Done()
				x := uint64(g)*0x9e3779b97f4a7c15 + 12345
				for i := 0; i < 40000; i++ {
					x = x*6364136223846793005 + 1442695040888963407
					v := x >> uint(i%64)
					if got, want := machine.UInt64ToString(v), strconv.FormatUint(v, 10); got != want {
						if wrong.Add(1) == 1 {
							first.Store(fmt.Sprintf("UInt64ToString(%d)=%q", v, got))
						}
					}
				}
			}(g)
		}
		cwg.Wait()
		f, _ := first.Load().(string)
		fmt.Fprintf(w, "P concurrent-tostring calls=320000 wrong=%d %s\n", wrong.Load(), strings.ReplaceAll(f, " ", "_"))
	}
	for _, t := range []uint64{0, 1, 10, 50} {
		waitScenario(w, "timeout", t)
	}
	for _, t := range []uint64{200, 1000} {
		waitScenario(w, "signal", t)
		waitScenario(w, "broadcast", t)
	}
	for _, t := range []uint64{0, 5, 20} {
		waitScenario(w, "stale-helper", t)
	}
	waitScenario(w, "broadcast-after-many-timeouts", 1500)
	for i := 0; i < 40; i++ {
		waitScenario(w, "contending-signal", 1500)
		waitScenario(w, "contending-broadcast", 1500)
	}
	for _, t := range []uint64{0, 10, 50} {
		waitScenario(w, "two-waiters", t)
		waitScenario(w, "two-timeouts", t)
	}
}
