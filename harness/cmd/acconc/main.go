// acconc runs concurrent DirFs.AtomicCreate / MemFs.AtomicCreate calls and a
// polling reader, and checks the property directly:
//   - the reader never sees anything but the old contents or the complete data of one call
//   - different directories / different names: each destination ends with exactly its data
//   - same name: the destination ends with the complete data of one of the calls
//
// Prints one line per violated round ("BAD ...") and a summary "DONE rounds=.. bad=..".
package main

import (
	"bytes"
	"flag"
	"fmt"
	"os"
	"sync"
	"sync/atomic"
	"syscall"

	"github.com/goose-lang/goose/machine/filesys"
)

func data(tag byte, n int) []byte { return bytes.Repeat([]byte{tag}, n) }

func readAll(fs filesys.Filesys, dir, name string) (b []byte, ok bool) {
	defer func() {
		if recover() != nil {
			ok = false
		}
	}()
	f := fs.Open(dir, name)
	defer fs.Close(f)
	var out []byte
	for {
		chunk := fs.ReadAt(f, uint64(len(out)), 1<<16)
		if len(chunk) == 0 {
			break
		}
		out = append(out, chunk...)
	}
	return out, true
}

func main() {
	impl := flag.String("impl", "dir", "dir | mem")
	rounds := flag.Int("rounds", 100, "rounds per scenario")
	size := flag.Int("size", 200000, "bytes per file")
	flag.Parse()
	bad, total := 0, 0
	report := func(format string, a ...interface{}) {
		bad++
		if bad <= 10 {
			fmt.Printf("BAD "+format+"\n", a...)
		}
	}
	for _, scenario := range []string{"different-dirs", "different-names", "same-name"} {
		for r := 0; r < *rounds; r++ {
			total++
			var fs filesys.Filesys
			root := ""
			if *impl == "dir" {
				var err error
				root, err = os.MkdirTemp("", "verif-acconc-")
				if err != nil {
					panic(err)
				}
				fs = filesys.NewDirFs(root)
			} else {
				fs = filesys.NewMemFs()
			}
			fs.Mkdir("d")
			fs.Mkdir("e")
			old := data('o', 1000)
			type target struct{ dir, name string }
			var ta, tb target
			switch scenario {
			case "different-dirs":
				ta, tb = target{"d", "f"}, target{"e", "f"}
			case "different-names":
				ta, tb = target{"d", "f"}, target{"d", "g"}
			default:
				ta, tb = target{"d", "f"}, target{"d", "f"}
			}
			fs.AtomicCreate(ta.dir, ta.name, old)
			fs.AtomicCreate(tb.dir, tb.name, old)
			A, B := data('a', *size+r), data('b', *size/2+r)
			var stop atomic.Bool
			var wg, rg sync.WaitGroup
			rg.Add(1)
			go func() { // polling reader on A's destination
				defer rg.Done()
				for !stop.Load() {
					b, ok := readAll(fs, ta.dir, ta.name)
					if !ok {
						report("%s round %d: reader could not open %s/%s", scenario, r, ta.dir, ta.name)
						return
					}
					if !(bytes.Equal(b, old) || bytes.Equal(b, A) || (ta == tb && bytes.Equal(b, B))) {
						report("%s round %d: reader saw %d bytes that are neither the old nor a complete new file", scenario, r, len(b))
						return
					}
				}
			}()
			panicked := atomic.Int32{}
			run := func(t target, d []byte) {
				defer wg.Done()
				defer func() {
					if recover() != nil {
						panicked.Add(1)
					}
				}()
				fs.AtomicCreate(t.dir, t.name, d)
			}
			wg.Add(2)
			go run(ta, A)
			go run(tb, B)
			wg.Wait()
			stop.Store(true)
			rg.Wait()
			if panicked.Load() > 0 {
				report("%s round %d: %d AtomicCreate call(s) panicked", scenario, r, panicked.Load())
			}
			// the calls have returned: the buffers are the callers' again, and they reuse them
			wantA, wantB := append([]byte(nil), A...), append([]byte(nil), B...)
			for i := range A {
				A[i] = 'z'
			}
			for i := range B {
				B[i] = 'y'
			}
			A, B = wantA, wantB
			fa, _ := readAll(fs, ta.dir, ta.name)
			fb, _ := readAll(fs, tb.dir, tb.name)
			if len(fa) > 0 && fa[0] == 'z' || len(fb) > 0 && fb[0] == 'y' {
				report("%s round %d: the file changed when the caller reused the buffer it had passed to AtomicCreate (after the call returned)", scenario, r)
			}
			if ta != tb {
				if !bytes.Equal(fa, A) || !bytes.Equal(fb, B) {
					report("%s round %d: final contents %d/%d bytes differ from the data written (%d/%d)", scenario, r, len(fa), len(fb), len(A), len(B))
				}
			} else if !(bytes.Equal(fa, A) || bytes.Equal(fa, B)) {
				report("%s round %d: final contents (%d bytes) are not the complete data of either call", scenario, r, len(fa))
			}
			if root != "" {
				// DirFs keeps a descriptor on its root directory and has no way to give it back
				if ents, err := os.ReadDir("/proc/self/fd"); err == nil {
					for _, e := range ents {
						if l, err := os.Readlink("/proc/self/fd/" + e.Name()); err == nil && l == root {
							var n int
							if _, err := fmt.Sscanf(e.Name(), "%d", &n); err == nil {
								syscall.Close(n)
							}
						}
					}
				}
				os.RemoveAll(root)
			}
		}
	}
	fmt.Printf("DONE rounds=%d bad=%d\n", total, bad)
}
