// fsdrv executes generated VALID filesystem histories on the real MemFs and
// DirFs of /repo (directly and through the package-level wrappers) and prints
// what each call returned.  Descriptors are printed symbolically: the k-th
// successful Create/Open of a history is descriptor k.
//
//	H <impl>                      mem | dir | gmem | gdir
//	M d -> U                      Mkdir
//	C d n -> F k | NOFD           Create
//	A k <rle> -> U                Append
//	X k -> U                      Close
//	O d n -> F k                  Open
//	R k off len -> D <rle>        ReadAt
//	D d n -> U                    Delete
//	L od on nd nn -> T | N        Link
//	K d n <rle> -> U              AtomicCreate
//	S d -> N a,b,c | N -          List (sorted name ids)
//	E
//
// A panic is printed as "-> P".  The client mutates every slice it passed or
// received afterwards; a correct filesystem never notices.
package main

import (
	"bufio"
	"flag"
	"fmt"
	"os"
	"sort"
	"strings"

	"github.com/goose-lang/goose/machine/filesys"
	"verif/harness/internal/enc"
	"verif/harness/internal/rng"
)

var dirNames = []string{"d0", "d1", "dir2"}
var fileNames = []string{"f0", "f1", "data", "data.tmp", "x", "f0.tmp"}

func nameID(s string) int {
	for i, n := range fileNames {
		if n == s {
			return i
		}
	}
	return -1
}

type api struct {
	fs filesys.Filesys
	g  bool // through the package-level wrappers
}

func (a api) Create(d, n string) (filesys.File, bool) {
	if a.g {
		return filesys.Create(d, n)
	}
	return a.fs.Create(d, n)
}
func (a api) Append(f filesys.File, b []byte) {
	if a.g {
		filesys.Append(f, b)
	} else {
		a.fs.Append(f, b)
	}
}
func (a api) Close(f filesys.File) {
	if a.g {
		filesys.Close(f)
	} else {
		a.fs.Close(f)
	}
}
func (a api) Open(d, n string) filesys.File {
	if a.g {
		return filesys.Open(d, n)
	}
	return a.fs.Open(d, n)
}
func (a api) ReadAt(f filesys.File, off, l uint64) []byte {
	if a.g {
		return filesys.ReadAt(f, off, l)
	}
	return a.fs.ReadAt(f, off, l)
}
func (a api) Delete(d, n string) {
	if a.g {
		filesys.Delete(d, n)
	} else {
		a.fs.Delete(d, n)
	}
}
func (a api) AtomicCreate(d, n string, b []byte) {
	if a.g {
		filesys.AtomicCreate(d, n, b)
	} else {
		a.fs.AtomicCreate(d, n, b)
	}
}
func (a api) Link(od, on, nd, nn string) bool {
	if a.g {
		return filesys.Link(od, on, nd, nn)
	}
	return a.fs.Link(od, on, nd, nn)
}
func (a api) List(d string) []string {
	if a.g {
		return filesys.List(d)
	}
	return a.fs.List(d)
}

// generator-side tracking, only to keep the history valid
type gfd struct {
	sym    int
	real   filesys.File
	app    bool
	inode  int
	closed bool
}

func try(f func()) (p bool) {
	defer func() {
		if recover() != nil {
			p = true
		}
	}()
	f()
	return false
}

var sizes = []int{0, 1, 3, 10, 100, 4095, 4096, 4097, 8192, 12289}

func genData(r *rng.R, ctr *int) []byte {
	*ctr++
	l := rng.Pick(r, sizes)
	if r.Intn(3) == 0 {
		l = r.Intn(40)
	}
	b := make([]byte, l)
	switch r.Intn(3) {
	case 0:
		for i := range b {
			b[i] = byte(*ctr)
		}
	case 1:
		for i := range b {
			b[i] = byte(i/256 + *ctr)
		}
		if l > 2 {
			b[0], b[l-1] = byte(*ctr), byte(*ctr>>8)^0xff
		}
	default:
		copy(b, r.Bytes(l))
	}
	return b
}

func main() {
	seed := flag.Uint64("seed", 1, "seed")
	nh := flag.Int("n", 100, "histories")
	maxOps := flag.Int("ops", 40, "max operations per history")
	only := flag.String("impl", "", "restrict to one implementation")
	flag.Parse()
	w := bufio.NewWriterSize(os.Stdout, 1<<20)
	defer w.Flush()
	impls := []string{"mem", "dir", "gmem", "gdir"}
	master := rng.New(*seed)
	for h := 0; h < *nh; h++ {
		r := master.Fork()
		impl := impls[h%len(impls)]
		if *only != "" {
			impl = *only
		}
		var a api
		var root string
		switch impl {
		case "mem", "gmem":
			a.fs = filesys.NewMemFs()
		default:
			var err error
			root, err = os.MkdirTemp("", "verif-fsdrv-")
			if err != nil {
				panic(err)
			}
			a.fs = filesys.NewDirFs(root)
		}
		if impl[0] == 'g' {
			filesys.Fs = a.fs
			a.g = true
		}
		fmt.Fprintf(w, "H %s\n", impl)
		dirs := map[int]bool{}
		ents := map[[2]int]int{} // (dir,name) -> inode id
		var fds []*gfd
		nino, nsym := 0, 0
		ctr := 0
		var pool [][]byte
		nops := 3 + r.Intn(*maxOps)
		ndirs := 1 + r.Intn(len(dirNames))
		emit := func(format string, args ...interface{}) { fmt.Fprintf(w, format+"\n", args...) }
		for i := 0; i < nops; i++ {
			// make sure there is a directory
			if len(dirs) < ndirs {
				d := len(dirs)
				if try(func() { a.fs.Mkdir(dirNames[d]) }) {
					emit("M %d -> P", d)
				} else {
					emit("M %d -> U", d)
				}
				dirs[d] = true
				continue
			}
			d := r.Intn(len(dirs))
			n := r.Intn(len(fileNames))
			if r.Intn(3) != 0 {
				n = r.Intn(3) // contention on few names
			}
			openFds := []*gfd{}
			for _, f := range fds {
				if !f.closed {
					openFds = append(openFds, f)
				}
			}
			switch k := r.Intn(20); {
			case k < 3: // Create
				var f filesys.File
				var ok bool
				if try(func() { f, ok = a.Create(dirNames[d], fileNames[n]) }) {
					emit("C %d %d -> P", d, n)
					break
				}
				_, exists := ents[[2]int{d, n}]
				if ok {
					nino++
					ents[[2]int{d, n}] = nino
					fds = append(fds, &gfd{sym: nsym, real: f, app: true, inode: nino})
					emit("C %d %d -> F %d", d, n, nsym)
					nsym++
				} else {
					emit("C %d %d -> NOFD", d, n)
				}
				_ = exists
			case k < 7: // Append
				var cand []*gfd
				for _, f := range openFds {
					if f.app {
						cand = append(cand, f)
					}
				}
				if len(cand) == 0 {
					continue
				}
				f := rng.Pick(r, cand)
				var data []byte
				if len(pool) > 0 && r.Intn(3) == 0 {
					data = pool[r.Intn(len(pool))]
				} else {
					data = genData(r, &ctr)
				}
				before := enc.RLE(data)
				if try(func() { a.Append(f.real, data) }) {
					emit("A %d %s -> P", f.sym, before)
				} else {
					emit("A %d %s -> U", f.sym, before)
				}
				for j := range data { // the caller re-uses its buffer
					data[j] ^= 0x5a
				}
				pool = append(pool, data)
			case k < 8: // Close
				if len(openFds) == 0 {
					continue
				}
				f := rng.Pick(r, openFds)
				if try(func() { a.Close(f.real) }) {
					emit("X %d -> P", f.sym)
				} else {
					emit("X %d -> U", f.sym)
				}
				f.closed = true
			case k < 11: // Open
				ino, ok := ents[[2]int{d, n}]
				if !ok {
					continue
				}
				var f filesys.File
				if try(func() { f = a.Open(dirNames[d], fileNames[n]) }) {
					emit("O %d %d -> P", d, n)
					break
				}
				fds = append(fds, &gfd{sym: nsym, real: f, inode: ino})
				emit("O %d %d -> F %d", d, n, nsym)
				nsym++
			case k < 15: // ReadAt
				var cand []*gfd
				for _, f := range openFds {
					if !f.app {
						cand = append(cand, f)
					}
				}
				if len(cand) == 0 {
					continue
				}
				f := rng.Pick(r, cand)
				off := uint64(rng.Pick(r, []int{0, 0, 1, 5, 4095, 4096, 4097, 8192, 12288, 12289, 20000}))
				if r.Bool() {
					off = uint64(r.Intn(50))
				}
				l := uint64(rng.Pick(r, []int{0, 1, 10, 4096, 4097, 8192, 20000}))
				var res []byte
				if try(func() { res = a.ReadAt(f.real, off, l) }) {
					emit("R %d %d %d -> P", f.sym, off, l)
				} else {
					emit("R %d %d %d -> D %s", f.sym, off, l, enc.RLE(res))
					if r.Intn(3) == 0 {
						// the caller keeps the result across another read (of any descriptor): it is the
						// caller's, so it still holds what was returned (reported as the same read again)
						g := rng.Pick(r, cand)
						off2, l2 := uint64(r.Intn(30)), uint64(rng.Pick(r, []int{1, 10, 4096, 20000}))
						var res2 []byte
						if try(func() { res2 = a.ReadAt(g.real, off2, l2) }) {
							emit("R %d %d %d -> P", g.sym, off2, l2)
						} else {
							emit("R %d %d %d -> D %s", g.sym, off2, l2, enc.RLE(res2))
						}
						emit("R %d %d %d -> D %s", f.sym, off, l, enc.RLE(res))
					}
					for j := range res { // mutate the returned slice
						res[j] ^= 0x77
					}
				}
			case k < 16: // Delete
				if _, ok := ents[[2]int{d, n}]; !ok {
					continue
				}
				if try(func() { a.Delete(dirNames[d], fileNames[n]) }) {
					emit("D %d %d -> P", d, n)
				} else {
					emit("D %d %d -> U", d, n)
				}
				delete(ents, [2]int{d, n})
			case k < 17: // Link
				ino, ok := ents[[2]int{d, n}]
				if !ok {
					continue
				}
				nd, nn := r.Intn(len(dirs)), r.Intn(len(fileNames))
				var res bool
				if try(func() { res = a.Link(dirNames[d], fileNames[n], dirNames[nd], fileNames[nn]) }) {
					emit("L %d %d %d %d -> P", d, n, nd, nn)
					break
				}
				if res {
					ents[[2]int{nd, nn}] = ino
					emit("L %d %d %d %d -> T", d, n, nd, nn)
				} else {
					emit("L %d %d %d %d -> N", d, n, nd, nn)
				}
			case k < 19: // AtomicCreate
				data := genData(r, &ctr)
				before := enc.RLE(data)
				if try(func() { a.AtomicCreate(dirNames[d], fileNames[n], data) }) {
					emit("K %d %d %s -> P", d, n, before)
				} else {
					emit("K %d %d %s -> U", d, n, before)
				}
				nino++
				ents[[2]int{d, n}] = nino
				for j := range data {
					data[j] = 0xee
				}
				pool = append(pool, data)
			default: // List
				var names []string
				if try(func() { names = a.List(dirNames[d]) }) {
					emit("S %d -> P", d)
					break
				}
				ids := []int{}
				unknown := []string{}
				for _, s := range names {
					if id := nameID(s); id >= 0 {
						ids = append(ids, id)
					} else {
						unknown = append(unknown, s)
					}
				}
				sort.Ints(ids)
				strs := []string{}
				for _, id := range ids {
					strs = append(strs, fmt.Sprint(id))
				}
				for _, u := range unknown {
					strs = append(strs, "?"+u)
				}
				if len(strs) == 0 {
					emit("S %d -> N -", d)
				} else {
					emit("S %d -> N %s", d, strings.Join(strs, ","))
				}
			}
			if len(pool) > 5 {
				pool = pool[len(pool)-5:]
			}
		}
		fmt.Fprintln(w, "E")
		if root != "" {
			if dfs, ok := a.fs.(filesys.DirFs); ok {
				for _, f := range fds {
					if !f.closed {
						try(func() { a.fs.Close(f.real) })
					}
				}
				dfs.CloseFs()
			}
			os.RemoveAll(root)
		}
	}
}
