// clidrv exercises the goose command line on scratch modules that mix
// translatable packages, packages with a conversion error and packages that do
// not type-check, with build-tagged files, over several prior states of the
// output directory.
//
//	K <ignore-errors 0|1> <pattern matched nothing 0|1>
//	Q <package path> <ok 0|1> <hex file contents / partial contents>      per package the toolchain matches (go list -tags goose)
//	X <hex path> <hex contents>                                           files in the output directory before the run
//	C <exit status>
//	W <hex path> <hex contents> <rewritten 0|1>                           files in the output directory after the run
//	G <ok|BAD text>                                                       build-tag check of the tagged package
//	E
package main

import (
	"bufio"
	"bytes"
	"encoding/hex"
	"flag"
	"fmt"
	"os"
	"os/exec"
	"path/filepath"
	"regexp"
	"sort"
	"strings"
	"time"

	"verif/harness/internal/rng"
)

const baseModName = "example.com/cm"

var convRe = regexp.MustCompile(`[A-Za-z0-9_]+__to__[A-Za-z0-9_]+`)

func goEnv() []string {
	return append(os.Environ(), "GOFLAGS=-mod=mod", "GOPROXY=off", "GOSUMDB=off", "GOTOOLCHAIN=local", "CGO_ENABLED=1")
}

func hx(s string) string {
	if s == "" {
		return "-"
	}
	return hex.EncodeToString([]byte(s))
}

var pkgSrc = map[string]map[string]string{
	"good1": {
		"a.go":          "package good1\n\nfunc Add(a uint64, b uint64) uint64 {\n\treturn a + b\n}\n",
		"only_goose.go": "//go:build goose\n\npackage good1\n\nfunc OnlyGoose() uint64 {\n\treturn 1\n}\n",
		"not_goose.go":  "//go:build !goose\n\npackage good1\n\nfunc NotGoose() uint64 {\n\treturn 2\n}\n",
	},
	"sub/good2": {
		"b.go": "package good2\n\ntype S struct {\n\ta uint64\n}\n\nfunc Get(s S) uint64 {\n\treturn s.a\n}\n",
	},
	"my-pkg": {
		"c.go": "package my_pkg\n\nfunc Three() uint64 {\n\treturn 3\n}\n",
	},
	"bad": {
		"d.go": "package bad\n\nfunc Fine1() uint64 {\n\treturn 1\n}\n\nfunc Unsupported(x uint64) uint64 {\n\tswitch x {\n\tcase 1:\n\t\treturn 2\n\t}\n\treturn 3\n}\n\nfunc Fine2() bool {\n\treturn true\n}\n",
	},
	// one file, no package comment, and its only declaration is not translatable: with
	// -ignore-errors the file holds the header and no definition
	"allbad": {
		"z.go": "package allbad\n\nfunc OnlyUnsupported(x uint64) uint64 {\n\tswitch x {\n\tcase 1:\n\t\treturn 2\n\t}\n\treturn 3\n}\n",
	},
	"broken": {
		"e.go": "package broken\n\nfunc Wrong() uint64 {\n\treturn \"not a number\"\n}\n",
	},
	// files selected by the cgo build constraint: the toolchain (cgo enabled) takes with_cgo.go, which is not translatable
	"cgopkg": {
		"with_cgo.go":    "//go:build cgo\n\npackage cgopkg\n\nfunc OnlyCgo(x uint64) uint64 {\n\tswitch x {\n\tcase 1:\n\t\treturn 2\n\t}\n\treturn 3\n}\n",
		"without_cgo.go": "//go:build !cgo\n\npackage cgopkg\n\nfunc OnlyNoCgo(x uint64) uint64 {\n\treturn x\n}\n",
		"common.go":      "package cgopkg\n\nfunc Common() uint64 {\n\treturn 1\n}\n",
	},
	// every file is excluded under the goose tag: the toolchain matches the package and cannot load it
	"excluded": {
		"x.go": "//go:build !goose\n\npackage excluded\n\nfunc Hidden() uint64 {\n\treturn 1\n}\n",
	},
	// two functions convert the same struct to the same interface; the first of them is not translatable
	"conv": {
		"c.go": "package conv\n\ntype Shape interface {\n\tArea() uint64\n}\n\ntype Sq struct {\n\ts uint64\n}\n\nfunc (q Sq) Area() uint64 {\n\treturn q.s * q.s\n}\n\nfunc measure(x Shape) uint64 {\n\treturn x.Area()\n}\n\nfunc First(q Sq) uint64 {\n\tswitch q.s {\n\tcase 1:\n\t\treturn 2\n\t}\n\treturn measure(q)\n}\n\nfunc Second(q Sq) uint64 {\n\treturn measure(q)\n}\n",
	},
}

func runGoose(goose, dir string, args ...string) (int, string) {
	cmd := exec.Command(goose, args...)
	cmd.Dir = dir
	cmd.Env = goEnv()
	var stderr bytes.Buffer
	cmd.Stderr = &stderr
	err := cmd.Run()
	code := 0
	if ee, ok := err.(*exec.ExitError); ok {
		code = ee.ExitCode()
	} else if err != nil {
		code = -1
	}
	return code, stderr.String()
}

func listFiles(dir string) map[string]string {
	res := map[string]string{}
	filepath.Walk(dir, func(p string, info os.FileInfo, err error) error {
		if err == nil && !info.IsDir() {
			rel, _ := filepath.Rel(dir, p)
			b, _ := os.ReadFile(p)
			res[rel] = string(b)
		}
		return nil
	})
	return res
}

func main() {
	seed := flag.Uint64("seed", 1, "seed")
	n := flag.Int("n", 10, "cases")
	goose := flag.String("goose", "", "goose binary built from /repo")
	repo := flag.String("repo", "/repo", "repository (for the replace directive)")
	flag.Parse()
	w := bufio.NewWriter(os.Stdout)
	defer w.Flush()
	master := rng.New(*seed)
	for c := 0; c < *n; c++ {
		r := master.Fork()
		root, err := os.MkdirTemp("", "verif-cli-")
		if err != nil {
			panic(err)
		}
		// the module path: plain, or with a major-version suffix (its root package then has an import path ending in /v2)
		modName := baseModName
		if r.Intn(4) == 0 {
			modName = baseModName + "/v2"
		}
		os.WriteFile(filepath.Join(root, "go.mod"), []byte(fmt.Sprintf(
			"module %s\n\ngo 1.22\n\nrequire github.com/goose-lang/goose v0.0.0\n\nreplace github.com/goose-lang/goose => %s\n", modName, *repo)), 0o644)
		sum, _ := os.ReadFile(filepath.Join(*repo, "go.sum"))
		os.WriteFile(filepath.Join(root, "go.sum"), sum, 0o644)
		ignore := r.Bool()
		// which packages exist in this module
		present := []string{"good1"}
		for _, p := range []string{"sub/good2", "my-pkg", "bad", "conv", "cgopkg", "allbad"} {
			if r.Intn(3) != 0 {
				present = append(present, p)
			}
		}
		if !ignore && r.Intn(4) == 0 {
			present = append(present, "broken") // a load error is not a conversion error: only without -ignore-errors
		}
		if !ignore && r.Intn(3) == 0 {
			present = append(present, "excluded") // matched only by a pattern that names it (./... leaves it out, like the toolchain)
		}
		rootPkg := r.Intn(3) == 0
		if rootPkg { // a package in the module's root directory
			os.WriteFile(filepath.Join(root, "r.go"), []byte("package cm\n\nfunc Root() uint64 {\n\treturn 4\n}\n"), 0o644)
		}
		for _, p := range present {
			os.MkdirAll(filepath.Join(root, p), 0o755)
			for fn, src := range pkgSrc[p] {
				os.WriteFile(filepath.Join(root, p, fn), []byte(src), 0o644)
			}
		}
		// patterns
		var patterns []string
		switch r.Intn(5) {
		case 0:
			patterns = []string{"./..."}
		case 1:
			patterns = []string{"./" + rng.Pick(r, present)}
		case 2:
			patterns = []string{"./nomatch/..."}
		case 3:
			for _, p := range present {
				if r.Bool() {
					patterns = append(patterns, "./"+p)
				}
			}
			if len(patterns) == 0 {
				patterns = []string{"./good1"}
			}
		default:
			// (a list in which only SOME patterns match nothing is left out: whether that is an
			// error is decided inside golang.org/x/tools/go/packages, which is not modelled)
			patterns = []string{"./good1"}
			for _, p := range present {
				if p == "sub/good2" {
					patterns = []string{"./sub/...", "./good1"}
				}
			}
		}
		for _, p := range present {
			if (p == "excluded" || p == "broken") && r.Intn(2) == 0 {
				// a package that cannot be loaded next to one that translates
				patterns = []string{"./good1", "./" + p}
			}
		}
		// the directory the packages are loaded from: the module root, or (like the toolchain,
		// which finds go.mod in a parent directory) a sub-directory of the module; given with
		// -dir while goose runs somewhere else, or as the working directory with no -dir at all
		ldir, cwd, dirArgs := root, root, []string{"-dir", root}
		for _, p := range present {
			if p == "sub/good2" && r.Intn(3) == 0 {
				ldir = filepath.Join(root, "sub")
				patterns = [][]string{{"./..."}, {"./good2"}, {"./good2/..."}, {"."}}[r.Intn(4)]
			}
		}
		switch r.Intn(3) {
		case 0:
			cwd, dirArgs = ldir, nil
		case 1:
			cwd, dirArgs = os.TempDir(), []string{"-dir", ldir}
		default:
			cwd, dirArgs = root, []string{"-dir", ldir}
		}
		if rootPkg && ldir == root && r.Intn(2) == 0 {
			patterns = [][]string{{"."}, {".", "./good1"}, {"./..."}}[r.Intn(3)]
		}
		extra := []string{}
		if r.Intn(3) == 0 {
			extra = append(extra, "-typecheck")
		}
		if r.Intn(3) == 0 {
			extra = append(extra, "-source-comments")
		}
		// what the toolchain matches
		lc := exec.Command("go", append([]string{"list", "-e", "-tags", "goose", "-f", "{{.ImportPath}}"}, patterns...)...)
		lc.Dir = ldir
		lc.Env = goEnv()
		lout, _ := lc.Output()
		var matched []string
		for _, l := range strings.Split(strings.TrimSpace(string(lout)), "\n") {
			if l == modName || strings.HasPrefix(l, modName+"/") {
				matched = append(matched, l)
			}
		}
		sort.Strings(matched)
		fmt.Fprintf(w, "K %d %d\n", map[bool]int{false: 0, true: 1}[ignore], map[bool]int{false: 0, true: 1}[len(matched) == 0])
		// reference result of every matched package, translated alone into its own directory
		refContents := map[string]string{}
		for _, m := range matched {
			rel := strings.TrimPrefix(strings.TrimPrefix(m, modName), "/")
			if rel == "" {
				rel = "."
			}
			ref := filepath.Join(root, "ref-"+strings.ReplaceAll(rel, "/", "_"))
			args := append([]string{"-ignore-errors", "-out", ref, "-dir", root}, extra...)
			code, _ := runGoose(*goose, root, append(args, "./"+rel)...)
			files := listFiles(ref)
			content := ""
			for _, v := range files {
				content = v
			}
			if rel == "broken" || rel == "excluded" {
				content = ""
			}
			refContents[m] = content
			if rel == "allbad" && (content == "" || strings.Contains(content, "Definition")) {
				fmt.Fprintf(w, "G BAD with -ignore-errors the package allbad, none of whose declarations translates, must get a file with the header and no definition; got %q\n", content)
			}
			fmt.Fprintf(w, "Q %s %d %s\n", m, map[bool]int{false: 0, true: 1}[code == 0], hx(content))
			os.RemoveAll(ref)
		}
		// prior state of the output directory
		outDir := filepath.Join(root, "out")
		prior := r.Intn(6)
		switch prior {
		case 1: // identical: a previous run with the same arguments
			args := append(append([]string{"-out", outDir}, dirArgs...), extra...)
			if ignore {
				args = append(args, "-ignore-errors")
			}
			runGoose(*goose, cwd, append(args, patterns...)...)
		case 2: // different contents at the places the run will write
			for _, m := range matched {
				p := filepath.Join(outDir, strings.NewReplacer(".", "_", "-", "_").Replace(m)+".v")
				os.MkdirAll(filepath.Dir(p), 0o755)
				os.WriteFile(p, []byte("(* stale *)\n"), 0o644)
			}
		case 4, 5: // the new contents followed by a stale tail (4) / cut short (5)
			for _, m := range matched {
				p := filepath.Join(outDir, strings.NewReplacer(".", "_", "-", "_").Replace(m)+".v")
				os.MkdirAll(filepath.Dir(p), 0o755)
				c := refContents[m]
				if prior == 4 {
					c += "\n(* stale declaration *)\nDefinition gone : expr := #0.\n"
				} else if len(c) > 10 {
					c = c[:len(c)-10]
				}
				os.WriteFile(p, []byte(c), 0o644)
			}
		case 3: // an unrelated file
			os.MkdirAll(filepath.Join(outDir, "other"), 0o755)
			os.WriteFile(filepath.Join(outDir, "other", "keep.v"), []byte("(* keep *)\n"), 0o644)
		}
		before := listFiles(outDir)
		var names []string
		for k := range before {
			names = append(names, k)
		}
		sort.Strings(names)
		old := time.Now().Add(-2 * time.Hour)
		for _, k := range names {
			os.Chtimes(filepath.Join(outDir, k), old, old)
			fmt.Fprintf(w, "X %s %s\n", hx(k), hx(before[k]))
		}
		// the run under test
		args := append(append([]string{"-out", outDir}, dirArgs...), extra...)
		if ignore {
			args = append(args, "-ignore-errors")
		}
		code, stderr := runGoose(*goose, cwd, append(args, patterns...)...)
		if strings.Contains(stderr, "goroutine ") {
			code = 222
		}
		fmt.Fprintf(w, "C %d\n", code)
		after := listFiles(outDir)
		names = names[:0]
		for k := range after {
			names = append(names, k)
		}
		sort.Strings(names)
		for _, k := range names {
			st, _ := os.Stat(filepath.Join(outDir, k))
			rewritten := 0
			if st.ModTime().After(old.Add(time.Hour)) {
				rewritten = 1
			}
			fmt.Fprintf(w, "W %s %s %d\n", hx(k), hx(after[k]), rewritten)
		}
		// build constraints other than the goose tag are the environment's: with cgo enabled the package
		// cgopkg consists of with_cgo.go and common.go
		for k, v := range after {
			if strings.HasSuffix(k, "cgopkg.v") && strings.Contains(v, "OnlyNoCgo") {
				fmt.Fprintln(w, "G BAD the cgo build constraint is not evaluated like the toolchain evaluates it (CGO_ENABLED=1): the translation contains OnlyNoCgo")
			}
		}
		// a written file defines every struct-to-interface conversion it uses
		for k, v := range after {
			for _, id := range convRe.FindAllString(v, -1) {
				if !strings.Contains(v, "Definition "+id+":") && !strings.Contains(v, "Definition "+id+" ") {
					fmt.Fprintf(w, "G BAD %s uses the conversion %s without defining it\n", k, id)
					break
				}
			}
		}
		// build tags: the translation of good1 contains OnlyGoose and not NotGoose
		for k, v := range after {
			if strings.HasSuffix(k, "good1.v") {
				if strings.Contains(v, "OnlyGoose") && !strings.Contains(v, "NotGoose") {
					fmt.Fprintln(w, "G ok")
				} else {
					fmt.Fprintln(w, "G BAD the goose build tag is not applied like the toolchain applies it")
				}
			}
		}
		// a file that cannot be written is an error: the place of one package's directory is taken by a regular file
		if r.Intn(3) == 0 {
			for _, m := range matched {
				if refContents[m] == "" || strings.Contains(m, "bad") || strings.Contains(m, "conv") {
					continue
				}
				out3 := filepath.Join(root, "out3")
				p := filepath.Join(out3, strings.NewReplacer(".", "_", "-", "_").Replace(m)+".v")
				os.MkdirAll(filepath.Dir(filepath.Dir(p)), 0o755)
				os.WriteFile(filepath.Dir(p), []byte("not a directory\n"), 0o644)
				args := append(append([]string{"-out", out3}, dirArgs...), extra...)
				if ignore {
					args = append(args, "-ignore-errors")
				}
				code3, _ := runGoose(*goose, cwd, append(args, patterns...)...)
				if _, err := os.Stat(p); err != nil && code3 == 0 {
					fmt.Fprintf(w, "G BAD goose exits 0 although it could not write %s (a regular file is where its directory has to be)\n", strings.TrimPrefix(p, out3+"/"))
				}
				os.RemoveAll(out3)
				break
			}
		}
		fmt.Fprintln(w, "E")
		os.RemoveAll(root)
	}
}
