// tgdrv generates gofmt-formatted package directories, runs the real test_gen
// (both modes) on them and prints, per directory:
//
//	D <class>                 class: plain | kf-rawstring | kf-duplicate
//	F <hex file name>         files in os.ReadDir (sorted) order
//	L <hex line>              its lines
//	T <0|1> <hex name>        the test functions the directory declares, in source order (expected tests)
//	G <hex>                   stdout of test_gen -go
//	C <hex>                   stdout of test_gen -coq
//	V ok|FAIL <msg>           go vet of the package with the generated Go file (only with -vet)
//	E
package main

import (
	"bufio"
	"encoding/hex"
	"flag"
	"fmt"
	"go/format"
	"os"
	"os/exec"
	"path/filepath"
	"sort"
	"strings"

	"verif/harness/internal/rng"
)

var stems = []string{"Add", "Sub", "X", "Loop1", "x_y", "A9", "Über", "_u", "λ2", "Foo", "Recover_failing_disk", "_failing_test2", "failing_", "testtest", "Gone_ok"}

type fn struct {
	name    string
	failing bool
	test    bool // counts as a test function (top-level, named [failing_]test<id chars>)
	stem    string
}

func genFile(r *rng.R, used map[string]bool, class string) (string, []fn) {
	var sb strings.Builder
	sb.WriteString("package semantics\n\n")
	var fns []fn
	nd := 1 + r.Intn(6)
	if r.Intn(3) == 0 {
		sb.WriteString("import \"fmt\"\n\nvar _ = fmt.Sprint\n\n")
	}
	typeDeclared := false
	for i := 0; i < nd; i++ {
		stem := rng.Pick(r, stems)
		switch k := r.Intn(12); {
		case k < 4, k < 6: // test / failing test
			name := "test" + stem
			failing := k >= 4
			if failing {
				name = "failing_" + name
			}
			if used[name] || (class != "kf-duplicate" && (used["test"+stem] || used["failing_test"+stem])) {
				continue
			}
			used[name] = true
			fns = append(fns, fn{name, failing, true, stem})
			switch r.Intn(5) {
			case 3: // a named result
				fmt.Fprintf(&sb, "func %s() (ok bool) {\n\tok = true\n\treturn ok\n}\n\n", name)
			case 4: // text that looks like the start of a block comment, in a string and in a line comment, before the test
				fmt.Fprintf(&sb, "const glob%d = \"logs/*\"\n\n// see tmp/*.go for the inputs\nfunc %s() bool {\n\treturn len(glob%d) > 0\n}\n\n", len(used), name, len(used))
			case 0:
				fmt.Fprintf(&sb, "func %s() bool {\n\treturn true\n}\n\n", name)
			case 1:
				fmt.Fprintf(&sb, "// %s checks something\n// func testInComment() bool\nfunc %s() bool {\n\tx := uint64(%d)\n\tif x > 0 {\n\t\treturn true\n\t}\n\treturn x == 0\n}\n\n", name, name, r.Intn(9))
			default:
				fmt.Fprintf(&sb, "func %s() bool { return true }\n\n", name)
			}
		case k < 7: // disabled test
			name := "disabled_test" + stem
			if used[name] {
				continue
			}
			used[name] = true
			fmt.Fprintf(&sb, "func %s() bool {\n\treturn false\n}\n\n", name)
		case k < 8: // helper
			name := "helper" + stem
			if used[name] {
				continue
			}
			used[name] = true
			fmt.Fprintf(&sb, "func %s(a uint64,\n\tb uint64) uint64 {\n\treturn a + b\n}\n\n", name)
		case k < 9: // a helper whose name merely contains test
			name := "mytest" + stem
			if used[name] {
				continue
			}
			used[name] = true
			fmt.Fprintf(&sb, "func %s() bool {\n\treturn true\n}\n\n", name)
		case k < 10: // method named test...
			if !typeDeclared {
				tn := "T" + fmt.Sprint(len(used))
				used[tn] = true
				fmt.Fprintf(&sb, "type %s struct {\n\tfunc_ uint64\n}\n\n", tn)
				fmt.Fprintf(&sb, "func (t %s) test%s() bool {\n\treturn t.func_ == 0\n}\n\n", tn, stem)
				typeDeclared = true
			}
		case k < 11: // declarations that are not functions
			vn := "v" + fmt.Sprint(len(used))
			used[vn] = true
			fmt.Fprintf(&sb, "var %s = func() bool {\n\treturn true\n}\n\nconst c%s = `not at column 0:\n  func testIndented() bool`\n\n", vn, vn)
		default:
			if class != "kf-rawstring" && r.Intn(3) == 0 {
				// a long comment line that quotes a function header far from its start (at a
				// multiple of 4096 bytes: a reader with a bounded line buffer must not see a header there)
				k := 1 + r.Intn(2)
				fmt.Fprintf(&sb, "// %sfunc testQuoted%d() bool { the old header of a function that is gone\n\n", strings.Repeat("x", 4096*k-3), len(used))
				used[fmt.Sprintf("long%d", len(used))] = true
			}
			if class == "kf-rawstring" {
				vn := "raw" + fmt.Sprint(len(used))
				used[vn] = true
				fmt.Fprintf(&sb, "const %s = `\nfunc testFake%d() bool {\n`\n\n", vn, len(used))
			}
		}
	}
	src, err := format.Source([]byte(sb.String()))
	if err != nil {
		panic(fmt.Sprintf("generated source does not parse: %v\n%s", err, sb.String()))
	}
	return string(src), fns
}

func main() {
	seed := flag.Uint64("seed", 1, "seed")
	nd := flag.Int("n", 20, "directories")
	testgen := flag.String("testgen", "", "path of the test_gen binary built from /repo")
	vet := flag.Int("vet", 0, "run go vet on the first k directories (needs -modroot)")
	modroot := flag.String("modroot", "", "a module directory (go.mod with replace to /repo) in which packages can be vetted")
	classFlag := flag.String("class", "", "force a class")
	flag.Parse()
	w := bufio.NewWriterSize(os.Stdout, 1<<20)
	defer w.Flush()
	hx := func(s string) string {
		if s == "" {
			return "-"
		}
		return hex.EncodeToString([]byte(s))
	}
	master := rng.New(*seed)
	for d := 0; d < *nd; d++ {
		r := master.Fork()
		class := "plain"
		if *classFlag != "" {
			class = *classFlag
		}
		dir, err := os.MkdirTemp("", "verif-tgdrv-")
		if err != nil {
			panic(err)
		}
		scratch := dir
		if *modroot != "" && d < *vet {
			os.RemoveAll(dir)
			dir = filepath.Join(*modroot, fmt.Sprintf("pkg%d", d))
			os.MkdirAll(dir, 0o755)
			scratch = dir
		} else if r.Intn(3) == 0 {
			// a package directory whose path has characters that mean something to a shell or a glob
			dir = filepath.Join(scratch, rng.Pick(r, []string{"work[1]", "a*b", "q?x", "two words", "[a-z]", "back\\slash"}), "semantics")
			os.MkdirAll(dir, 0o755)
		}
		used := map[string]bool{}
		type gfile struct {
			name string
			src  string
			fns  []fn
			skip bool
		}
		var files []gfile
		nf := 1 + r.Intn(5)
		for i := 0; i < nf; i++ {
			src, fns := genFile(r, used, class)
			files = append(files, gfile{fmt.Sprintf("%c%d.go", 'a'+byte(r.Intn(6)), i), src, fns, false})
		}
		// files the generators must skip
		if r.Bool() {
			src, fns := genFile(r, used, "plain")
			files = append(files, gfile{"zz_test.go", src, fns, true})
		}
		if r.Bool() {
			files = append(files, gfile{"semantics.gold.v", "(* autogenerated *)\nfunc testInGold() bool {\n", nil, true})
		}
		if r.Bool() {
			files = append(files, gfile{"a0.go~", "package semantics\n\nfunc testStaleBackup() bool {\n\treturn true\n}\n", nil, true})
			if r.Bool() {
				files = append(files, gfile{"a0_old.go~", "package semantics\n\nfunc testStaleBackup2() bool {\n\treturn true\n}\n", nil, true})
			}
		}
		sort.Slice(files, func(i, j int) bool { return files[i].name < files[j].name })
		fmt.Fprintf(w, "D %s\n", class)
		linkDir := ""
		for _, f := range files {
			if !(*modroot != "" && d < *vet) && strings.HasSuffix(f.name, ".go") && r.Intn(6) == 0 {
				// a source file that is a symbolic link (the Go toolchain compiles it like any other)
				if linkDir == "" {
					linkDir, _ = os.MkdirTemp("", "verif-tgdrv-links-")
					defer os.RemoveAll(linkDir)
				}
				target := filepath.Join(linkDir, f.name)
				if err := os.WriteFile(target, []byte(f.src), 0o644); err != nil {
					panic(err)
				}
				if err := os.Symlink(target, filepath.Join(dir, f.name)); err != nil {
					panic(err)
				}
			} else if err := os.WriteFile(filepath.Join(dir, f.name), []byte(f.src), 0o644); err != nil {
				panic(err)
			}
			fmt.Fprintf(w, "F %s\n", hx(f.name))
			lines := strings.Split(strings.TrimSuffix(f.src, "\n"), "\n")
			for _, l := range lines {
				fmt.Fprintf(w, "L %s\n", hx(l))
			}
		}
		for _, f := range files {
			if f.skip {
				continue
			}
			for _, x := range f.fns {
				if x.test {
					b := 0
					if x.failing {
						b = 1
					}
					fmt.Fprintf(w, "T %d %s\n", b, hx(x.stem))
				}
			}
		}
		useOut := r.Intn(3) == 0
		run := func(mode string) string {
			if useOut {
				// -out names a file left by an earlier, longer generation
				outFile := filepath.Join(os.TempDir(), fmt.Sprintf("verif-tgdrv-out-%d-%d%s", os.Getpid(), d, mode))
				defer os.Remove(outFile)
				first, _ := exec.Command(*testgen, mode, dir).Output()
				tail := "\n// stale tail of an earlier generation\nfunc (suite *GoTestSuite) TestGone() {\n}\n"
				if mode == "-coq" {
					tail = "\n(* stale tail of an earlier generation *)\nExample testGone_ok : testGone #() ~~> #true := t.\n"
				}
				os.WriteFile(outFile, append(first, []byte(tail)...), 0o644)
				if err := exec.Command(*testgen, mode, "-out", outFile, dir).Run(); err != nil {
					return "ERROR " + err.Error()
				}
				b, _ := os.ReadFile(outFile)
				return string(b)
			}
			out, err := exec.Command(*testgen, mode, dir).Output()
			if err != nil {
				return "ERROR " + err.Error()
			}
			return string(out)
		}
		goOut := run("-go")
		fmt.Fprintf(w, "G %s\n", hx(goOut))
		fmt.Fprintf(w, "C %s\n", hx(run("-coq")))
		if *modroot != "" && d < *vet {
			os.WriteFile(filepath.Join(dir, "generated_test.go"), []byte(goOut), 0o644)
			cmd := exec.Command("go", "vet", "./"+filepath.Base(dir))
			cmd.Dir = *modroot
			out, err := cmd.CombinedOutput()
			if err != nil {
				fmt.Fprintf(w, "V FAIL %s\n", hx(string(out)))
			} else {
				fmt.Fprintf(w, "V ok\n")
			}
		}
		fmt.Fprintln(w, "E")
		os.RemoveAll(dir)
		os.RemoveAll(scratch)
	}
}
