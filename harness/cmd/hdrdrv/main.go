// hdrdrv builds scratch modules with generated import graphs, runs the real
// goose binary on their root package and prints what the header of the emitted
// file contains, together with the import graph as the Go toolchain sees it.
//
//	P <root package path>
//	N <package path> <comma separated imports | ->      one line per package of `go list -deps`
//	I <import path>                                     imports of the root's files, in file order, with repetitions
//	X <exit status>
//	O <output path relative to -out | NONE>
//	R <hex Require line>                                in output order
//	H <hex FFI header block>                            the lines between the Requires and the first blank line
//	T <hex footer>                                      what follows the last declaration ("" or "\nEnd code.\n")
//	E
package main

import (
	"bufio"
	"bytes"
	"encoding/hex"
	"encoding/json"
	"flag"
	"fmt"
	"io"
	"os"
	"os/exec"
	"path/filepath"
	"sort"
	"strings"

	"verif/harness/internal/rng"
)

const baseModName = "example.com/m"

type pkgSpec struct {
	path    string   // relative dir
	imports []string // import paths
}

func goEnv() []string {
	return append(os.Environ(), "GOFLAGS=-mod=mod", "GOPROXY=off", "GOSUMDB=off", "GOTOOLCHAIN=local")
}

func hx(s string) string {
	if s == "" {
		return "-"
	}
	return hex.EncodeToString([]byte(s))
}

var emptyRoot, emptyRootInits bool

func writePkg(root string, rel, name string, files [][]string) {
	dir := filepath.Join(root, rel)
	os.MkdirAll(dir, 0o755)
	for i, imps := range files {
		var sb strings.Builder
		fmt.Fprintf(&sb, "package %s\n\n", name)
		// one import declaration, one per import, or two groups (all of them legal at the top of a file)
		switch style := (len(imps) + i + len(name)) % 3; {
		case len(imps) == 0:
		case style == 1 && len(imps) > 1:
			for _, im := range imps {
				fmt.Fprintf(&sb, "import %q\n", im)
			}
			sb.WriteString("\n")
		case style == 2 && len(imps) > 1:
			h := len(imps) / 2
			for _, part := range [][]string{imps[:h], imps[h:]} {
				sb.WriteString("import (\n")
				for _, im := range part {
					fmt.Fprintf(&sb, "\t%q\n", im)
				}
				sb.WriteString(")\n\n")
			}
		default:
			sb.WriteString("import (\n")
			for _, im := range imps {
				fmt.Fprintf(&sb, "\t%q\n", im)
			}
			sb.WriteString(")\n\n")
		}
		// use every import so that the package type-checks
		for j, im := range imps {
			base := im[strings.LastIndex(im, "/")+1:]
			base = strings.NewReplacer("-", "_", ".", "_").Replace(base)
			id := pkgIdent(im)
			fmt.Fprintf(&sb, "func use%d_%d() uint64 {\n\treturn %s.%s\n}\n\n", i, j, id, exported(im))
			_ = base
		}
		if !emptyRoot {
			fmt.Fprintf(&sb, "func F%d() uint64 {\n\treturn %d\n}\n", i, i)
		} else if i == 0 && len(imps) == 0 {
			// a package with nothing in it, or whose last declarations repeat a name (init)
			if emptyRootInits {
				sb.WriteString("func init() {\n}\n\nfunc init() {\n}\n")
			}
		}
		os.WriteFile(filepath.Join(dir, fmt.Sprintf("f%d.go", i)), []byte(sb.String()), 0o644)
	}
}

// the identifier a package is referred to by (its package name)
func pkgIdent(im string) string {
	switch im {
	case "github.com/goose-lang/goose/machine/disk", "github.com/goose-lang/primitive/disk":
		return "disk"
	case "github.com/goose-lang/goose/machine/async_disk", "github.com/goose-lang/primitive/async_disk":
		return "async_disk"
	case "github.com/mit-pdos/gokv/grove_ffi":
		return "grove_ffi"
	}
	return pkgNameOf(im)
}

func pkgNameOf(im string) string {
	base := im[strings.LastIndex(im, "/")+1:]
	if len(base) == 2 && base[0] == 'v' && base[1] >= '2' && base[1] <= '9' && strings.Contains(im, "/") {
		// a major-version directory: the package is named after the directory above it
		rest := im[:strings.LastIndex(im, "/")]
		base = rest[strings.LastIndex(rest, "/")+1:]
	}
	return strings.NewReplacer("-", "_", ".", "_").Replace(base)
}

func exported(im string) string {
	switch im {
	case "github.com/goose-lang/goose/machine/disk", "github.com/goose-lang/goose/machine/async_disk",
		"github.com/goose-lang/primitive/disk", "github.com/goose-lang/primitive/async_disk":
		return "BlockSize"
	case "github.com/mit-pdos/gokv/grove_ffi":
		return "Const"
	}
	return "Const"
}

func main() {
	seed := flag.Uint64("seed", 1, "seed")
	n := flag.Int("n", 10, "cases")
	goose := flag.String("goose", "", "goose binary built from /repo")
	repo := flag.String("repo", "/repo", "repository (for the replace directive)")
	flag.Parse()
	w := bufio.NewWriter(os.Stdout)
	defer w.Flush()
	master := rng.New(*seed)
	ffis := []string{"github.com/goose-lang/goose/machine/disk", "github.com/goose-lang/goose/machine/async_disk", "github.com/mit-pdos/gokv/grove_ffi"}
	// the helper packages may also import the other variant of an FFI (the one in
	// github.com/goose-lang/primitive): two packages, one FFI
	libFfis := append(append([]string{}, ffis...), "github.com/goose-lang/primitive/disk", "github.com/goose-lang/primitive/async_disk")
	for c := 0; c < *n; c++ {
		r := master.Fork()
		// the module path: usually with a dot in its first element, sometimes without (go mod init demo)
		modName := baseModName
		if r.Intn(4) == 0 {
			modName = "hdrmod"
		}
		root, err := os.MkdirTemp("", "verif-hdr-")
		if err != nil {
			panic(err)
		}
		// stand-in for the grove FFI module (the real one is not in the module cache)
		os.MkdirAll(filepath.Join(root, "gokv", "grove_ffi"), 0o755)
		os.WriteFile(filepath.Join(root, "gokv", "go.mod"), []byte("module github.com/mit-pdos/gokv\n\ngo 1.22\n"), 0o644)
		os.WriteFile(filepath.Join(root, "gokv", "grove_ffi", "g.go"), []byte("package grove_ffi\n\nconst Const uint64 = 7\n"), 0o644)
		os.WriteFile(filepath.Join(root, "go.mod"), []byte(fmt.Sprintf(
			"module %s\n\ngo 1.22\n\nrequire (\n\tgithub.com/goose-lang/goose v0.0.0\n\tgithub.com/mit-pdos/gokv v0.0.0\n)\n\nreplace github.com/goose-lang/goose => %s\n\nreplace github.com/mit-pdos/gokv => ./gokv\n", modName, *repo)), 0o644)
		sum, _ := os.ReadFile(filepath.Join(*repo, "go.sum"))
		os.WriteFile(filepath.Join(root, "go.sum"), sum, 0o644)
		// helper packages: plain libraries, some of which import an FFI themselves
		libs := []string{"lib1", "sub/my-pkg", "v1.2/x", "trusted_foo", "deep/a/b", "trusted_support/helpers", "store/wal", "store-utils/codec", "deep/trusted_bar", "api/v2"}
		libImports := map[string][]string{}
		for i, l := range libs {
			var imps []string
			if r.Intn(3) == 0 {
				imps = append(imps, rng.Pick(r, libFfis)) // an FFI reached transitively
			}
			if i > 0 && r.Intn(3) == 0 {
				imps = append(imps, modName+"/"+libs[r.Intn(i)]) // a chain of plain packages
			}
			libImports[l] = imps
			name := pkgNameOf(l)
			src := fmt.Sprintf("package %s\n\n", name)
			if len(imps) > 0 {
				src += "import (\n"
				for _, im := range imps {
					src += fmt.Sprintf("\t%q\n", im)
				}
				src += ")\n\n"
				for j, im := range imps {
					src += fmt.Sprintf("var _u%d = %s.%s\n\n", j, pkgIdent(im), exported(im))
				}
			}
			src += "const Const uint64 = 3\n"
			os.MkdirAll(filepath.Join(root, l), 0o755)
			os.WriteFile(filepath.Join(root, l, "l.go"), []byte(src), 0o644)
		}
		// the root package: 1-3 files, each importing a random selection (with repetition across files)
		cands := append([]string{}, ffis...)
		for _, l := range libs {
			cands = append(cands, modName+"/"+l)
		}
		nfiles := 1 + r.Intn(3)
		var files [][]string
		for i := 0; i < nfiles; i++ {
			var imps []string
			seen := map[string]bool{}
			k := r.Intn(4)
			if r.Intn(4) == 0 {
				k = 0
			}
			for j := 0; j < k; j++ {
				im := rng.Pick(r, cands)
				if r.Intn(3) != 0 && strings.HasPrefix(im, "github.com") && r.Intn(2) == 0 {
					im = rng.Pick(r, cands[3:]) // fewer direct FFIs
				}
				if !seen[im] {
					seen[im] = true
					imps = append(imps, im)
				}
			}
			sort.Strings(imps) // gofmt order
			files = append(files, imps)
		}
		emptyRoot, emptyRootInits = false, false
		if r.Intn(8) == 0 {
			emptyRoot, emptyRootInits = true, r.Bool()
			files = [][]string{{}}
		}
		rootRel := rng.Pick(r, []string{"app", "cmd/my-app", "pkg.v2"})
		writePkg(root, rootRel, pkgNameOf(rootRel), files)
		rootPath := modName + "/" + rootRel
		fmt.Fprintf(w, "P %s\n", rootPath)
		// the graph as the toolchain sees it
		cmd := exec.Command("go", "list", "-deps", "-json=ImportPath,Imports", "./"+rootRel)
		cmd.Dir = root
		cmd.Env = goEnv()
		var lerr bytes.Buffer
		cmd.Stderr = &lerr
		out, err := cmd.Output()
		if err != nil {
			fmt.Fprintf(os.Stderr, "go list failed: %s\n", lerr.String())
			fmt.Fprintf(w, "X golist-failed\nE\n")
			os.RemoveAll(root)
			continue
		}
		dec := json.NewDecoder(bytes.NewReader(out))
		for {
			var p struct {
				ImportPath string
				Imports    []string
			}
			if err := dec.Decode(&p); err == io.EOF {
				break
			} else if err != nil {
				panic(err)
			}
			// the standard library is irrelevant for FFIs but part of the graph; keep only non-std nodes and edges
			inGraph := func(path string) bool {
				return strings.Contains(path, ".") || path == modName || strings.HasPrefix(path, modName+"/")
			}
			if !inGraph(p.ImportPath) {
				continue
			}
			var imps []string
			for _, im := range p.Imports {
				if inGraph(im) {
					imps = append(imps, im)
				}
			}
			sort.Strings(imps)
			l := strings.Join(imps, ",")
			if l == "" {
				l = "-"
			}
			fmt.Fprintf(w, "N %s %s\n", p.ImportPath, l)
		}
		for _, imps := range files {
			for _, im := range imps {
				fmt.Fprintf(w, "I %s\n", im)
			}
		}
		outDir := filepath.Join(root, "out")
		g := exec.Command(*goose, "-out", outDir, "-dir", root, "./"+rootRel)
		var stderr bytes.Buffer
		g.Stderr = &stderr
		g.Env = goEnv()
		err = g.Run()
		code := 0
		if ee, ok := err.(*exec.ExitError); ok {
			code = ee.ExitCode()
		} else if err != nil {
			code = -1
		}
		fmt.Fprintf(w, "X %d\n", code)
		if strings.Contains(stderr.String(), "goroutine ") {
			fmt.Fprintf(w, "C %s\n", hx(stderr.String()[:min(len(stderr.String()), 600)]))
		}
		var produced []string
		filepath.Walk(outDir, func(p string, info os.FileInfo, err error) error {
			if err == nil && !info.IsDir() {
				rel, _ := filepath.Rel(outDir, p)
				produced = append(produced, rel)
			}
			return nil
		})
		if len(produced) == 0 {
			fmt.Fprintf(w, "O NONE\n")
		}
		for _, p := range produced {
			fmt.Fprintf(w, "O %s\n", p)
			data, _ := os.ReadFile(filepath.Join(outDir, p))
			text := string(data)
			lines := strings.Split(text, "\n")
			i := 2 // after the autogenerated comment and the prelude import
			for i < len(lines) && (strings.HasPrefix(lines[i], "From Goose Require") || strings.HasPrefix(lines[i], "From Perennial.goose_lang.trusted")) {
				fmt.Fprintf(w, "R %s\n", hx(lines[i]))
				i++
			}
			for i < len(lines) && lines[i] == "" {
				i++
			}
			var hdr []string
			for i < len(lines) && lines[i] != "" {
				hdr = append(hdr, lines[i])
				i++
			}
			fmt.Fprintf(w, "H %s\n", hx(strings.Join(hdr, "\n")))
			footer := ""
			if strings.HasSuffix(text, "\nEnd code.\n") {
				footer = "\nEnd code.\n"
			}
			fmt.Fprintf(w, "T %s\n", hx(footer))
		}
		// every Require of a package of this module names the file that translating the module writes
		if code == 0 {
			out2 := filepath.Join(root, "out2")
			g2 := exec.Command(*goose, "-out", out2, "-dir", root, "-ignore-errors", "./...")
			g2.Env = goEnv()
			g2.Run()
			// a package translated together with the others of its module (they share dependencies
			// and are translated at the same time) gets the file it gets when translated alone
			for _, p := range produced {
				alone, _ := os.ReadFile(filepath.Join(outDir, p))
				together, err := os.ReadFile(filepath.Join(out2, p))
				if err == nil && string(alone) != string(together) {
					a, b := strings.Split(string(alone), "\n"), strings.Split(string(together), "\n")
					k := 0
					for k < len(a) && k < len(b) && a[k] == b[k] {
						k++
					}
					la, lb := "<end of file>", "<end of file>"
					if k < len(a) {
						la = a[k]
					}
					if k < len(b) {
						lb = b[k]
					}
					fmt.Fprintf(w, "M %s\n", hx(fmt.Sprintf("%s differs when the whole module is translated in one call (goose ./...): line %d is %q alone and %q together", p, k+1, la, lb)))
				}
			}
			for _, p := range produced {
				data, _ := os.ReadFile(filepath.Join(outDir, p))
				for _, line := range strings.Split(string(data), "\n") {
					if !strings.HasPrefix(line, "From Goose Require ") {
						continue
					}
					for _, x := range strings.Fields(strings.TrimSuffix(strings.TrimPrefix(line, "From Goose Require "), ".")) {
						if !strings.HasPrefix(x, strings.NewReplacer(".", "_", "/", ".").Replace(modName)+".") {
							continue // another module (FFI stand-ins are not translated here)
						}
						f := filepath.Join(out2, strings.ReplaceAll(x, ".", "/")+".v")
						if _, err := os.Stat(f); err != nil {
							fmt.Fprintf(w, "M %s\n", hx("the header requires "+x+" but translating the module writes no file "+strings.ReplaceAll(x, ".", "/")+".v"))
						}
					}
				}
			}
		}
		fmt.Fprintln(w, "E")
		os.RemoveAll(root)
	}
}
