// detdrv checks that goose's output is a function of the sources: it
// translates one scratch module of generated packages (declarations shuffled
// and split over files, some packages with conversion errors) repeatedly,
// under different GOMAXPROCS values, package by package and in random subsets,
// and compares all written files and error reports byte for byte; it also runs
// a race-detector build of cmd/goose over the whole module.
//
//	MISMATCH kind=<...> ...
//	DONE packages=.. runs=.. subsets=.. files=.. race_runs=.. races=..
package main

import (
	"bufio"
	"bytes"
	"crypto/sha256"
	"encoding/hex"
	"flag"
	"fmt"
	"os"
	"os/exec"
	"path/filepath"
	"sort"
	"strings"

	"verif/harness/internal/progen"
	"verif/harness/internal/rng"
)

func goEnv(extra ...string) []string {
	return append(append(os.Environ(), "GOFLAGS=-mod=mod", "GOPROXY=off", "GOSUMDB=off", "GOTOOLCHAIN=local"), extra...)
}

// snapshot: relative path -> sha256 of every file under dir
func snapshot(dir string) map[string]string {
	out := map[string]string{}
	filepath.Walk(dir, func(p string, info os.FileInfo, err error) error {
		if err == nil && !info.IsDir() {
			b, _ := os.ReadFile(p)
			h := sha256.Sum256(b)
			rel, _ := filepath.Rel(dir, p)
			out[rel] = hex.EncodeToString(h[:])
		}
		return nil
	})
	return out
}

func run(goose, mod, out string, env []string, pats ...string) (int, string) {
	os.RemoveAll(out)
	cmd := exec.Command(goose, append([]string{"-out", out, "-ignore-errors"}, pats...)...)
	cmd.Dir = mod
	cmd.Env = env
	var buf bytes.Buffer
	cmd.Stdout = &buf
	cmd.Stderr = &buf
	err := cmd.Run()
	st := 0
	if err != nil {
		if ee, ok := err.(*exec.ExitError); ok {
			st = ee.ExitCode()
		} else {
			st = -1
		}
	}
	return st, buf.String()
}

// records: the individual error reports (message, snippet, goose location, source position)
func records(stderr string) map[string]bool {
	out := map[string]bool{}
	lines := strings.Split(stderr, "\n")
	for i, l := range lines {
		if strings.HasPrefix(l, "  src: ") {
			j := i
			for j > 0 && strings.TrimSpace(lines[j-1]) != "" && !strings.HasSuffix(lines[j-1], " errors") {
				j--
			}
			rec := strings.Join(lines[j:i+1], "\n")
			rec = strings.TrimPrefix(rec, "conversion failed: ")
			out[rec] = true
		}
	}
	return out
}

func main() {
	seed := flag.Uint64("seed", 1, "seed")
	n := flag.Int("n", 12, "packages")
	runs := flag.Int("runs", 6, "repetitions of the full translation")
	subsets := flag.Int("subsets", 6, "random subsets translated on their own")
	goose := flag.String("goose", "", "goose binary")
	gooseRace := flag.String("goose-race", "", "goose binary built with -race (optional)")
	raceRuns := flag.Int("race-runs", 3, "runs of the race build")
	repo := flag.String("repo", "/repo", "repository")
	flag.Parse()
	w := bufio.NewWriter(os.Stdout)
	defer w.Flush()
	root, err := os.MkdirTemp("", "verif-det-")
	if err != nil {
		panic(err)
	}
	defer os.RemoveAll(root)
	mod := filepath.Join(root, "mod")
	os.MkdirAll(mod, 0o755)
	os.WriteFile(filepath.Join(mod, "go.mod"), []byte(fmt.Sprintf(
		"module gen\n\ngo 1.22\n\nrequire github.com/goose-lang/goose v0.0.0\n\nreplace github.com/goose-lang/goose => %s\n", *repo)), 0o644)
	sum, _ := os.ReadFile(filepath.Join(*repo, "go.sum"))
	os.WriteFile(filepath.Join(mod, "go.sum"), sum, 0o644)
	master := rng.New(*seed)
	var pkgs []string
	for c := 0; c < *n; c++ {
		r := master.Fork()
		cfg := progen.DefaultConfig()
		cfg.Funcs = 6
		if c%3 == 2 {
			cfg.Inject, cfg.NoCalls = true, true // a package with conversion errors
		}
		name := fmt.Sprintf("p%03d", c)
		pkg := progen.Generate(r, name, cfg)
		fnames, order := pkg.Shuffled(r.Intn)
		files := pkg.GoFiles(fnames, order, nil)
		dir := filepath.Join(mod, "g", name)
		os.MkdirAll(dir, 0o755)
		for _, fn := range fnames {
			os.WriteFile(filepath.Join(dir, fn), []byte(files[fn]), 0o644)
		}
		pkgs = append(pkgs, "./g/"+name)
	}
	// packages that use an FFI (disk, async_disk) next to packages that use none: what a package's
	// header says must not depend on the packages translated with it
	ffiPkgs := map[string]string{
		"fdisk": "package fdisk\n\nimport \"github.com/goose-lang/goose/machine/disk\"\n\nfunc Blocks() uint64 {\n\treturn disk.Size()\n}\n",
		"fasync": "package fasync\n\nimport \"github.com/goose-lang/goose/machine/async_disk\"\n\nfunc Blocks() uint64 {\n\treturn async_disk.Size()\n}\n",
		"fnone": "package fnone\n\nfunc Seven() uint64 {\n\treturn 7\n}\n",
	}
	// packages whose translation prints expressions while the workers run (struct values and
	// interface conversions as call arguments): shared printer state would be raced on
	for i := 0; i < 4; i++ {
		name := fmt.Sprintf("sv%d", i)
		ffiPkgs[name] = fmt.Sprintf("package %s\n\ntype P struct {\n\ta uint64\n\tb uint64\n}\n\ntype Shape interface {\n\tArea() uint64\n}\n\nfunc (p P) Area() uint64 {\n\treturn p.a * p.b\n}\n\n"+
			"func use(p P, q P) uint64 {\n\treturn p.a + q.b\n}\n\nfunc area(s Shape) uint64 {\n\treturn s.Area()\n}\n\n"+
			"func F(x uint64) uint64 {\n\tp := P{a: x, b: %d}\n\tif x > 3 {\n\t\tif x > 5 {\n\t\t\treturn use(p, P{a: 1, b: x}) + area(p)\n\t\t}\n\t}\n\treturn use(P{a: x, b: 2}, p) + area(P{a: 2, b: x})\n}\n", name, i+1)
	}
	// two packages with the same name, different import paths and different FFIs
	ffiPkgs["blk/store"] = "package store\n\nimport \"github.com/goose-lang/goose/machine/disk\"\n\nfunc Blocks() uint64 {\n\treturn disk.Size() + 1\n}\n"
	ffiPkgs["mem/store"] = "package store\n\nfunc Blocks() uint64 {\n\treturn 9\n}\n"
	// packages that do not type-check (refused before conversion): their reports must come in a fixed order
	for i := 0; i < 5; i++ {
		name := fmt.Sprintf("tc%d", i)
		ffiPkgs[name] = fmt.Sprintf("package %s\n\nfunc Wrong%d() uint64 {\n\treturn \"not a number %d\"\n}\n", name, i, i)
	}
	// a package with errors attributed to parameter fields, next to packages that print Go text into comments
	ffiPkgs["vfield"] = "package vfield\n\nfunc Sum(xs ...uint64) uint64 {\n\treturn uint64(len(xs))\n}\n\nfunc Two(a, b uint64) uint64 {\n\treturn a + b\n}\n\nfunc Unnamed(uint64) uint64 {\n\treturn 1\n}\n"
	for i := 0; i < 3; i++ {
		name := fmt.Sprintf("logp%d", i)
		ffiPkgs[name] = fmt.Sprintf("package %s\n\nimport \"log\"\n\nfunc Hello(x uint64) uint64 {\n\tlog.Printf(\"hello %%d from %d\", x)\n\tlog.Println(\"bye\", x)\n\treturn x\n}\n", name, i)
	}
	// a package and an importer of it that both mention the same named struct type: translated in
	// one call the two workers hold the same type object, and each must still print the name its own way
	ffiPkgs["shr/entry"] = "package entry\n\ntype Entry struct {\n\tK uint64\n\tV uint64\n}\n\nfunc Mk(k uint64) Entry {\n\treturn Entry{K: k, V: 1}\n}\n\nfunc Sum(e Entry) uint64 {\n\treturn e.K + e.V\n}\n"
	ffiPkgs["shr/client"] = "package client\n\nimport \"gen/g/shr/entry\"\n\nfunc Use(k uint64) uint64 {\n\te := entry.Entry{K: k, V: 2}\n\treturn e.K + entry.Sum(e)\n}\n\nfunc Get(e entry.Entry) uint64 {\n\treturn e.V\n}\n"
	special := []string{"vfield", "logp0", "logp1", "logp2", "tc0", "tc1", "tc2", "tc3", "tc4", "sv0", "sv1", "sv2", "sv3", "blk/store", "mem/store", "fasync", "fdisk", "fnone", "shr/entry", "shr/client"}
	for _, name := range special {
		dir := filepath.Join(mod, "g", name)
		os.MkdirAll(dir, 0o755)
		os.WriteFile(filepath.Join(dir, "p.go"), []byte(ffiPkgs[name]), 0o644)
		pkgs = append(pkgs, "./g/"+name)
	}
	mism := 0
	// reference run
	refOut := filepath.Join(root, "ref")
	refSt, refErr := run(*goose, mod, refOut, goEnv(), "./g/...")
	ref := snapshot(refOut)
	if refSt != 0 && refSt != 1 {
		mism++
		fmt.Fprintf(w, "MISMATCH kind=crash status=%d stderr=%s\n", refSt, hex.EncodeToString([]byte(refErr)))
	}
	cmp := func(label string, got map[string]string, want map[string]string) {
		var keys []string
		for k := range want {
			keys = append(keys, k)
		}
		for k := range got {
			if _, ok := want[k]; !ok {
				keys = append(keys, k)
			}
		}
		sort.Strings(keys)
		for _, k := range keys {
			if got[k] != want[k] {
				mism++
				fmt.Fprintf(w, "MISMATCH kind=output-differs run=%s file=%s\n", label, k)
				return
			}
		}
	}
	procs := []string{"1", "2", "4", "16"}
	for i := 0; i < *runs; i++ {
		out := filepath.Join(root, fmt.Sprintf("run%d", i))
		st, e := run(*goose, mod, out, goEnv("GOMAXPROCS="+procs[i%len(procs)]), "./g/...")
		cmp(fmt.Sprintf("repeat-%d-GOMAXPROCS=%s", i, procs[i%len(procs)]), snapshot(out), ref)
		if st != refSt || e != refErr {
			mism++
			fmt.Fprintf(w, "MISMATCH kind=errors-differ run=repeat-%d status=%d/%d\n", i, st, refSt)
		}
		os.RemoveAll(out)
	}
	// an output directory that already holds files: the longer output of the same packages under
	// -typecheck -source-comments, stale files with a tail, an unrelated file; what a run leaves for
	// its packages must be what it leaves in an empty directory
	{
		out := filepath.Join(root, "dirty")
		os.RemoveAll(out)
		pre := exec.Command(*goose, "-out", out, "-ignore-errors", "-typecheck", "-source-comments", "./g/...")
		pre.Dir = mod
		pre.Env = goEnv()
		pre.Run()
		for k, v := range ref {
			if len(k)%3 == 0 {
				os.WriteFile(filepath.Join(out, k), []byte(v+"\n(* left over *)\nDefinition stale : val := #0.\n"), 0o644)
			}
		}
		again := exec.Command(*goose, "-out", out, "-ignore-errors", "./g/...")
		again.Dir = mod
		again.Env = goEnv()
		again.Run()
		cmp("rerun-into-a-used-output-directory", snapshot(out), ref)
		// ... and once more, now that every file there is up to date (nothing needs rewriting)
		third := exec.Command(*goose, "-out", out, "-ignore-errors", "./g/...")
		third.Dir = mod
		third.Env = goEnv()
		third.Run()
		cmp("rerun-into-an-up-to-date-output-directory", snapshot(out), ref)
		// a fresh directory in which only some packages are already there
		os.RemoveAll(out)
		some := exec.Command(*goose, "-out", out, "-ignore-errors", pkgs[0], pkgs[1])
		some.Dir = mod
		some.Env = goEnv()
		some.Run()
		rest := exec.Command(*goose, "-out", out, "-ignore-errors", "./g/...")
		rest.Dir = mod
		rest.Env = goEnv()
		rest.Run()
		cmp("rerun-after-translating-two-packages-alone", snapshot(out), ref)
		os.RemoveAll(out)
	}
	// subsets: every file a subset writes equals the file of the full run
	r := master.Fork()
	nsub := 0
	for i := 0; i < *subsets; i++ {
		var pats []string
		if i < 7 {
			pats = []string{pkgs[len(pkgs)-1-i]} // each FFI / non-FFI / same-name package on its own
		} else if i < 9 {
			pats = []string{pkgs[r.Intn(len(pkgs))]} // a package on its own
		} else {
			for _, p := range pkgs {
				if r.Intn(2) == 0 {
					pats = append(pats, p)
				}
			}
			if len(pats) == 0 {
				pats = []string{pkgs[0]}
			}
		}
		out := filepath.Join(root, fmt.Sprintf("sub%d", i))
		_, e := run(*goose, mod, out, goEnv(), pats...)
		got := snapshot(out)
		for k, h := range got {
			if ref[k] != h {
				mism++
				fmt.Fprintf(w, "MISMATCH kind=depends-on-cotranslated-packages subset=%s file=%s\n", strings.Join(pats, ","), k)
				break
			}
		}
		// the error reports of the subset's packages are those of the full run
		refRecs := records(refErr)
		for rec := range records(e) {
			if !refRecs[rec] {
				mism++
				fmt.Fprintf(w, "MISMATCH kind=error-report-differs subset=%s record=%s\n", strings.Join(pats, ","), hex.EncodeToString([]byte(rec)))
				break
			}
		}
		nsub++
		os.RemoveAll(out)
	}
	races, rr := 0, 0
	if *gooseRace != "" {
		for i := 0; i < *raceRuns; i++ {
			out := filepath.Join(root, "race")
			_, e := run(*gooseRace, mod, out, goEnv("GOMAXPROCS=8"), "./g/...")
			rr++
			if strings.Contains(e, "DATA RACE") {
				races++
				mism++
				idx := strings.Index(e, "WARNING: DATA RACE")
				rep := e[idx:]
				if len(rep) > 1500 {
					rep = rep[:1500]
				}
				fmt.Fprintf(w, "MISMATCH kind=data-race report=%s\n", hex.EncodeToString([]byte(rep)))
				break
			}
			cmp("race-build", snapshot(out), ref)
		}
	}
	fmt.Fprintf(w, "DONE packages=%d runs=%d subsets=%d files=%d race_runs=%d races=%d mismatches=%d status=%d\n", *n, *runs, nsub, len(ref), rr, races, mism, refSt)
}
