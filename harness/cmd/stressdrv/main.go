// stressdrv records concurrent histories from the real disk implementations.
// Every operation is bracketed by two draws from one global atomic counter
// (before the call = invocation, after it returned = response); sorting all
// events by that counter gives a history whose intervals contain the real
// ones, so it is linearizable whenever the real execution was.
//
//	H <numBlocks> <workload> <threads>
//	I <t> R <a> | I <t> T <a> | I <t> W <a> <byte> | I <t> S        invocation
//	O <t> B <byte> | O <t> TORN <rle> | O <t> U | O <t> N <n> | O <t> P   response
//	E
//
// Writes use uniform blocks (one byte value repeated), so a torn block is
// recognisable; the checker abstracts a uniform block to its byte.
package main

import (
	"bufio"
	"bytes"
	"flag"
	"fmt"
	"os"
	"path/filepath"
	"runtime"
	"sort"
	"sync"
	"sync/atomic"

	"github.com/goose-lang/goose/machine/disk"
	"verif/harness/internal/enc"
	"verif/harness/internal/rng"
)

const BS = 4096

type event struct {
	ts   uint64
	text string
}

func uniform(b []byte) (byte, bool) {
	for _, x := range b {
		if x != b[0] {
			return 0, false
		}
	}
	return b[0], true
}

var dropped int

type rec struct {
	ts1, ts2 uint64
	kind     int // 0 W, 1 R, 2 T, 3 S
	a        uint64
	x        byte
	resp     string
}

// overlapsWrite: some write of address a in ws was pending at some point of [ts1, ts2]
func overlapsWrite(ts1, ts2, a uint64, ws []rec) bool {
	for _, w := range ws {
		if w.kind == 0 && w.a == a && w.ts1 < ts2 && ts1 < w.ts2 {
			return true
		}
	}
	return false
}

// halves: both halves of a block are uniform, with small values
func halves(b []byte) (byte, byte, bool) {
	if len(b) != BS {
		return 0, 0, false
	}
	h1, ok1 := uniform(b[:BS/2])
	h2, ok2 := uniform(b[BS/2:])
	return h1, h2, ok1 && ok2 && h1 <= 3 && h2 <= 3
}

func main() {
	seed := flag.Uint64("seed", 1, "seed")
	nh := flag.Int("n", 100, "histories")
	workload := flag.String("workload", "mem", "mem | mem-halves | file-disjoint | file-first | file-handoff | file-shared | file-writers")
	maxThreads := flag.Int("threads", 5, "max goroutines")
	maxOps := flag.Int("ops", 5, "max ops per goroutine")
	sync_ := flag.Bool("sync", false, "spin barrier before every call so that calls of different goroutines overlap")
	quiet := flag.Bool("quiet", false, "do not print histories (race-detector runs)")
	flag.Parse()
	dir, err := os.MkdirTemp("", "verif-stress-")
	if err != nil {
		panic(err)
	}
	defer os.RemoveAll(dir)
	w := bufio.NewWriterSize(os.Stdout, 1<<20)
	defer w.Flush()
	master := rng.New(*seed)
	defer func() {
		if *workload == "file-shared" || *workload == "file-writers" {
			fmt.Fprintf(os.Stderr, "file-shared/file-writers: %d reads overlapping a write of their address were left out\n", dropped)
		}
	}()
	for h := 0; h < *nh; h++ {
		r := master.Fork()
		nthreads := 2 + r.Intn(*maxThreads-1)
		n := uint64(1 + r.Intn(3))
		if *workload == "file-first" {
			nthreads = *maxThreads
		}
		if *workload == "file-disjoint" || *workload == "file-first" {
			n = uint64(nthreads) * 2
		}
		if *workload == "file-writers" {
			n = 1
		}
		var d disk.Disk
		switch *workload {
		case "mem", "mem-halves":
			d = disk.NewMemDisk(n)
		default:
			p := filepath.Join(dir, "stress.img")
			os.Remove(p)
			fd, err := disk.NewFileDisk(p, n)
			if err != nil {
				panic(err)
			}
			d = fd
		}
		var ctr atomic.Uint64
		var handoff sync.Mutex
		recs := make([][]rec, nthreads)
		start := make(chan struct{})
		var wg sync.WaitGroup
		var arrived atomic.Int32
		rounds := make([]atomic.Int32, *maxOps+1) // optional per-call spin barrier (small histories: make calls overlap)
		for t := 0; t < nthreads; t++ {
			wg.Add(1)
			tr := r.Fork()
			nops := 1 + tr.Intn(*maxOps)
			if *workload == "file-first" {
				nops = 2
			}
			// everything is prepared before the hot loop so that the calls dominate the time
			plan := make([]rec, nops)
			blocks := make([][]byte, nops)
			for i := range plan {
				var a uint64
				switch *workload {
				case "file-disjoint":
					a = uint64(t)*2 + uint64(tr.Intn(2)) // addresses owned by this thread only
				default:
					a = uint64(tr.Intn(int(n)))
					if tr.Intn(10) == 0 {
						a = n // out of range
					}
				}
				k := tr.Intn(10)
				if *workload == "file-first" {
					// a fresh file; every goroutine writes blocks nobody has written yet, all at once
					a = uint64(t)*2 + uint64(i%2)
					k = 0
				}
				if *workload == "file-shared" || *workload == "file-writers" {
					// file-shared: one writer (goroutine 0), every other goroutine only reads:
					// writes to one address never overlap each other, reads race with them on
					// shared addresses.  file-writers: goroutines 0 and 1 both write (whole-block
					// pwrites of one file are serialised by the kernel's inode lock), values
					// drawn from a small set so that a value is written again later.
					if t == 0 || (t == 1 && *workload == "file-writers") {
						k = 0
					} else if k < 4 {
						k = 4 + k%5
					}
				}
				switch {
				case k < 4:
					x := byte(1 + (t*41+i*7)%250)
					if *workload == "file-writers" {
						x = byte(1 + t%2) // each writer keeps writing its own value
					}
					plan[i] = rec{kind: 0, a: a, x: x}
					blocks[i] = bytes.Repeat([]byte{x}, BS)
					if *workload == "mem-halves" {
						// blocks of two uniform halves drawn from {1,2,3}: blocks written concurrently
						// share prefixes and suffixes; the value is named 16*first + second
						h1, h2 := byte(1+tr.Intn(3)), byte(1+tr.Intn(3))
						plan[i].x = 16*h1 + h2
						copy(blocks[i][:BS/2], bytes.Repeat([]byte{h1}, BS/2))
						copy(blocks[i][BS/2:], bytes.Repeat([]byte{h2}, BS/2))
					}
				case k < 7:
					plan[i] = rec{kind: 1, a: a}
				case k < 9:
					plan[i] = rec{kind: 2, a: a}
				default:
					plan[i] = rec{kind: 3}
				}
			}
			go func(t int, plan []rec, blocks [][]byte) {
				defer wg.Done()
				runtime.LockOSThread() // one OS thread per client: real parallelism even for very short histories
				defer runtime.UnlockOSThread()
				<-start
				buf := make([]byte, BS)
				arrived.Add(1)
				for spins := 0; int(arrived.Load()) < nthreads && spins < 1000000; spins++ {
				}
				for i := range plan {
					p := &plan[i]
					if *workload == "file-handoff" {
						handoff.Lock()
					}
					if *sync_ && *workload != "file-handoff" {
						rounds[i].Add(1)
						for spins := 0; int(rounds[i].Load()) < nthreads && spins < 50000; spins++ {
						}
					}
					var res []byte
					var sz uint64
					panicked := false
					p.ts1 = ctr.Add(1)
					func() {
						defer func() {
							if recover() != nil {
								panicked = true
							}
						}()
						switch p.kind {
						case 0:
							d.Write(p.a, blocks[i])
						case 1:
							res = d.Read(p.a)
						case 2:
							d.ReadTo(p.a, buf)
							res = buf
						default:
							sz = d.Size()
						}
					}()
					p.ts2 = ctr.Add(1)
					switch {
					case panicked:
						p.resp = "P"
					case p.kind == 0:
						p.resp = "U"
					case p.kind == 3:
						p.resp = fmt.Sprintf("N %d", sz)
					default:
						if x, ok := uniform(res); ok && len(res) == BS && *workload != "mem-halves" {
							p.resp = fmt.Sprintf("B %d", x)
						} else if h1, h2, ok := halves(res); ok && *workload == "mem-halves" {
							p.resp = fmt.Sprintf("B %d", 16*int(h1)+int(h2)) // 0 for the initial block
						} else {
							p.resp = "TORN " + enc.RLE(res)
						}
					}
					if *workload == "file-handoff" {
						handoff.Unlock()
					}
				}
				recs[t] = plan
			}(t, plan, blocks)
		}
		close(start)
		wg.Wait()
		if *workload == "file-first" {
			// at rest: read every block back
			buf := make([]byte, BS)
			for a := uint64(0); a < n; a++ {
				rd := rec{kind: 2, a: a}
				rd.ts1 = ctr.Add(1)
				d.ReadTo(a, buf)
				rd.ts2 = ctr.Add(1)
				if y, ok := uniform(buf); ok {
					rd.resp = fmt.Sprintf("B %d", y)
				} else {
					rd.resp = "TORN " + enc.RLE(buf)
				}
				recs[0] = append(recs[0], rd)
			}
		}
		if *workload == "file-writers" {
			// at rest: on every address write 1, 2, 1 with a read after each (none of these overlaps anything)
			buf := make([]byte, BS)
			for a := uint64(0); a < n; a++ {
				for _, x := range []byte{1, 2, 1} {
					w := rec{kind: 0, a: a, x: x, resp: "U"}
					w.ts1 = ctr.Add(1)
					d.Write(a, bytes.Repeat([]byte{x}, BS))
					w.ts2 = ctr.Add(1)
					rd := rec{kind: 2, a: a}
					rd.ts1 = ctr.Add(1)
					d.ReadTo(a, buf)
					rd.ts2 = ctr.Add(1)
					if y, ok := uniform(buf); ok {
						rd.resp = fmt.Sprintf("B %d", y)
					} else {
						rd.resp = "TORN " + enc.RLE(buf)
					}
					recs[0] = append(recs[0], w, rd)
				}
			}
		}
		d.Close()
		var all []event
		for t, rs := range recs {
			for _, p := range rs {
				if (*workload == "file-shared" || *workload == "file-writers") && (p.kind == 1 || p.kind == 2) &&
					(overlapsWrite(p.ts1, p.ts2, p.a, recs[0]) || (*workload == "file-writers" && len(recs) > 1 && overlapsWrite(p.ts1, p.ts2, p.a, recs[1]))) {
					// the result of a pread racing with a pwrite of the same block is the
					// kernel's business; what is judged is every read ordered in real time
					// with all writes of its address (dropping reads keeps a linearizable
					// history linearizable)
					dropped++
					continue
				}
				inv := ""
				switch p.kind {
				case 0:
					inv = fmt.Sprintf("I %d W %d %d", t, p.a, p.x)
				case 1:
					inv = fmt.Sprintf("I %d R %d", t, p.a)
				case 2:
					inv = fmt.Sprintf("I %d T %d", t, p.a)
				default:
					inv = fmt.Sprintf("I %d S", t)
				}
				all = append(all, event{p.ts1, inv}, event{p.ts2, fmt.Sprintf("O %d %s", t, p.resp)})
			}
		}
		sort.Slice(all, func(i, j int) bool { return all[i].ts < all[j].ts })
		if !*quiet {
			fmt.Fprintf(w, "H %d %s %d\n", n, *workload, nthreads)
			for _, e := range all {
				fmt.Fprintln(w, e.text)
			}
			fmt.Fprintln(w, "E")
		}
	}
}
