// diskdrv executes generated operation histories on the real disk
// implementations of /repo (MemDisk, FileDisk, their async_disk aliases and
// the package-level wrappers) and prints what each call returned.
//
//	H <numBlocks> <impl>
//	R <a> -> B <rle> | P            Read
//	T <a> <rle buf> -> B <rle> | P  ReadTo (buffer contents afterwards)
//	W <a> <rle> -> U | P            Write
//	S -> N <n>                      Size
//	B -> U                          Barrier
//	E
//
// The client side plays aliasing games that are invisible in the printed
// history: buffers passed to Write and buffers returned by Read are mutated
// afterwards and re-used; a correct disk never notices.
package main

import (
	"bufio"
	"flag"
	"fmt"
	"os"
	"path/filepath"

	"github.com/goose-lang/goose/machine/async_disk"
	"github.com/goose-lang/goose/machine/disk"
	"verif/harness/internal/enc"
	"verif/harness/internal/rng"
)

const BS = 4096

func try(f func()) (panicked bool) {
	defer func() {
		if recover() != nil {
			panicked = true
		}
	}()
	f()
	return false
}

type api struct {
	read    func(a uint64) disk.Block
	readTo  func(a uint64, b disk.Block)
	write   func(a uint64, v disk.Block)
	size    func() uint64
	barrier func()
	close   func()
}

func direct(d disk.Disk) api {
	return api{d.Read, d.ReadTo, d.Write, d.Size, d.Barrier, d.Close}
}

func global(d disk.Disk) api {
	disk.Init(d)
	return api{disk.Read, func(a uint64, b disk.Block) { disk.Get().ReadTo(a, b) }, disk.Write, disk.Size, disk.Barrier, d.Close}
}

var impls = []string{"mem", "file", "amem", "afile", "gmem", "gfile"}

func open(impl string, n uint64, dir string, k int) api {
	path := filepath.Join(dir, fmt.Sprintf("disk-%d.img", k))
	switch impl {
	case "mem":
		return direct(disk.NewMemDisk(n))
	case "amem":
		return direct(async_disk.NewMemDisk(n))
	case "gmem":
		return global(disk.NewMemDisk(n))
	case "file", "gfile":
		os.Remove(path)
		d, err := disk.NewFileDisk(path, n)
		if err != nil {
			panic(err)
		}
		if impl == "gfile" {
			return global(d)
		}
		return direct(d)
	case "afile":
		os.Remove(path)
		d, err := async_disk.NewFileDisk(path, n)
		if err != nil {
			panic(err)
		}
		return direct(d)
	}
	panic("impl")
}

func genBlock(r *rng.R, length int, a uint64, ctr *int) []byte {
	b := make([]byte, length)
	*ctr++
	if r.Intn(8) == 0 {
		return b // an all-zero block (an implementation may be tempted to treat it specially)
	}
	switch r.Intn(4) {
	case 0: // uniform
		v := byte(1 + r.Intn(255))
		for i := range b {
			b[i] = v
		}
	case 1: // tagged: address and counter in front and at the end, uniform body
		v := byte(r.Intn(256))
		for i := range b {
			b[i] = v
		}
		if length >= 8 {
			b[0], b[1], b[2] = byte(a), byte(*ctr), byte(*ctr>>8)
			b[length-1], b[length-2] = byte(a)^0xff, byte(*ctr)
		}
	case 2: // two halves
		for i := range b {
			if i < length/2 {
				b[i] = 0xaa
			} else {
				b[i] = byte(*ctr)
			}
		}
	default: // random
		copy(b, r.Bytes(length))
	}
	return b
}

func genAddr(r *rng.R, n uint64) uint64 {
	switch r.Intn(20) {
	case 0:
		return rng.Pick(r, []uint64{1 << 32, 1 << 52, 1<<52 + uint64(r.Intn(4)), 1<<52 + n, 1 << 63, ^uint64(0), ^uint64(0) - uint64(r.Intn(3)), (1 << 52) * uint64(1+r.Intn(4095))})
	case 1:
		return n + uint64(r.Intn(3))
	default:
		if n == 0 {
			return uint64(r.Intn(2))
		}
		return uint64(r.Intn(int(n)))
	}
}

func main() {
	seed := flag.Uint64("seed", 1, "seed")
	nh := flag.Int("n", 100, "histories")
	maxOps := flag.Int("ops", 60, "max operations per history")
	contract := flag.Bool("contract", true, "only block-sized ReadTo buffers (the documented use)")
	dirFlag := flag.String("dir", "", "scratch directory for disk images")
	only := flag.String("impl", "", "restrict to one implementation")
	mode := flag.String("mode", "hist", "hist | reopen")
	flag.Parse()
	if *mode == "reopen" {
		reopenMain(*seed, *nh, *maxOps, *dirFlag)
		return
	}
	dir := *dirFlag
	if dir == "" {
		d, err := os.MkdirTemp("", "verif-diskdrv-")
		if err != nil {
			panic(err)
		}
		defer os.RemoveAll(d)
		dir = d
	}
	w := bufio.NewWriterSize(os.Stdout, 1<<20)
	defer w.Flush()
	master := rng.New(*seed)
	sizes := []uint64{0, 1, 2, 3, 3, 7, 7, 16}
	for h := 0; h < *nh; h++ {
		r := master.Fork()
		n := rng.Pick(r, sizes)
		if r.Intn(40) == 0 {
			n = 64
		}
		impl := impls[h%len(impls)]
		if *only != "" {
			impl = *only
		}
		d := open(impl, n, dir, h%4)
		fmt.Fprintf(w, "H %d %s\n", n, impl)
		nops := 1 + r.Intn(*maxOps)
		ctr := 0
		var pool [][]byte // client-owned buffers that were handed to / returned by the disk
		for i := 0; i < nops; i++ {
			a := genAddr(r, n)
			switch k := r.Intn(20); {
			case k < 7: // Write
				length := BS
				if r.Intn(8) == 0 {
					length = rng.Pick(r, []int{0, 1, 4095, 4097, 8192, 2048})
				}
				var v []byte
				if len(pool) > 0 && r.Intn(3) == 0 && length == BS {
					v = pool[r.Intn(len(pool))] // re-use a buffer the disk has seen
					if len(v) != BS {
						v = genBlock(r, length, a, &ctr)
					} else {
						v[r.Intn(BS)] ^= byte(1 + r.Intn(255))
					}
				} else {
					v = genBlock(r, length, a, &ctr)
				}
				before := enc.RLE(v)
				p := try(func() { d.write(a, v) })
				if p {
					fmt.Fprintf(w, "W %d %s -> P\n", a, before)
				} else {
					fmt.Fprintf(w, "W %d %s -> U\n", a, before)
					if r.Intn(5) == 0 {
						// the block is updated in place in the caller's buffer and written again
						for j := 0; j < len(v); j += 1 + r.Intn(700) {
							v[j] ^= 0x3c
						}
						before2 := enc.RLE(v)
						if try(func() { d.write(a, v) }) {
							fmt.Fprintf(w, "W %d %s -> P\n", a, before2)
						} else {
							fmt.Fprintf(w, "W %d %s -> U\n", a, before2)
						}
					}
				}
				// the caller mutates its buffer afterwards: must not affect the disk
				if len(v) > 0 {
					v[0] ^= 0x5a
					v[len(v)-1] ^= 0xa5
					if r.Bool() {
						for j := range v {
							v[j] = 0xee
						}
					}
				}
				pool = append(pool, v)
			case k < 13: // Read
				var res []byte
				p := try(func() { res = d.read(a) })
				if p {
					fmt.Fprintf(w, "R %d -> P\n", a)
				} else {
					fmt.Fprintf(w, "R %d -> B %s\n", a, enc.RLE(res))
					// mutate the returned buffer: must not affect the disk
					if len(res) > 0 {
						res[r.Intn(len(res))] ^= 0x77
						if r.Bool() {
							for j := range res {
								res[j] = 0xdd
							}
						}
					}
					pool = append(pool, res)
				}
			case k < 17: // ReadTo
				var buf []byte
				length := BS
				if !*contract && r.Intn(4) == 0 {
					length = rng.Pick(r, []int{0, 1, 100, 4095, 4097, 8192})
				}
				if len(pool) > 0 && r.Bool() && length == BS && len(pool[len(pool)-1]) == BS {
					buf = pool[r.Intn(len(pool))]
					if len(buf) != BS {
						buf = genBlock(r, length, a, &ctr)
					}
				} else {
					buf = genBlock(r, length, a, &ctr) // stale, non-zero contents
				}
				before := enc.RLE(buf)
				p := try(func() { d.readTo(a, buf) })
				if p {
					fmt.Fprintf(w, "T %d %s -> P\n", a, before)
				} else {
					fmt.Fprintf(w, "T %d %s -> B %s\n", a, before, enc.RLE(buf))
				}
				if len(buf) > 0 {
					buf[r.Intn(len(buf))] ^= 0x33
				}
				pool = append(pool, buf)
			case k < 19:
				fmt.Fprintf(w, "S -> N %d\n", d.size())
			default:
				d.barrier()
				fmt.Fprintf(w, "B -> U\n")
			}
			if len(pool) > 6 {
				pool = pool[len(pool)-6:]
			}
		}
		fmt.Fprintln(w, "E")
		d.close()
	}
}
