package main

import (
	"bufio"
	"fmt"
	"os"
	"path/filepath"

	"github.com/goose-lang/goose/machine/disk"
	"verif/harness/internal/enc"
	"verif/harness/internal/rng"
)

// reopen mode: histories over one backing file that is opened with prior
// images of many lengths, closed and reopened with the same or another size.
//
//	H 0 reopen
//	O <n> A|P|<rle image> -> OK <file size in bytes> | ERR
//	... R/T/W/S/B lines as in hist mode ...
//	C
//	E
//
// A = no file exists, P = the image left by the previous Close.
func reopenMain(seed uint64, nh, maxOps int, dir string) {
	if dir == "" {
		d, err := os.MkdirTemp("", "verif-reopen-")
		if err != nil {
			panic(err)
		}
		defer os.RemoveAll(d)
		dir = d
	}
	w := bufio.NewWriterSize(os.Stdout, 1<<20)
	defer w.Flush()
	master := rng.New(seed)
	for h := 0; h < nh; h++ {
		r := master.Fork()
		path := filepath.Join(dir, fmt.Sprintf("reopen-%d.img", h%4))
		os.Remove(path)
		fmt.Fprintf(w, "H 0 reopen\n")
		n := uint64(rng.Pick(r, []int{0, 1, 2, 3, 5, 8}))
		// prior image
		prev := "A"
		if r.Intn(4) != 0 {
			nb := int(n) * BS
			l := rng.Pick(r, []int{0, 1, int(n), 4095, 4096, 4097, nb - 1, nb, nb + 1, nb + BS, 2 * nb, nb / 2, 3, 100})
			if l < 0 {
				l = 0
			}
			img := make([]byte, l)
			ctr := 0
			for off := 0; off < l; off += BS {
				end := off + BS
				if end > l {
					end = l
				}
				copy(img[off:end], genBlock(r, BS, uint64(off/BS), &ctr))
			}
			if err := os.WriteFile(path, img, 0o644); err != nil {
				panic(err)
			}
			prev = enc.RLE(img)
		}
		rounds := 1 + r.Intn(3)
		for round := 0; round < rounds; round++ {
			d, err := disk.NewFileDisk(path, n)
			if err != nil {
				fmt.Fprintf(w, "O %d %s -> ERR\n", n, prev)
				break
			}
			st, _ := os.Stat(path)
			fmt.Fprintf(w, "O %d %s -> OK %d\n", n, prev, st.Size())
			ctr := 0
			// read everything first, then a few random operations, then read everything again
			readAll := func() {
				for a := uint64(0); a < n; a++ {
					var res []byte
					if try(func() { res = d.Read(a) }) {
						fmt.Fprintf(w, "R %d -> P\n", a)
					} else {
						fmt.Fprintf(w, "R %d -> B %s\n", a, enc.RLE(res))
					}
				}
				fmt.Fprintf(w, "S -> N %d\n", d.Size())
			}
			readAll()
			nops := r.Intn(maxOps + 1)
			for i := 0; i < nops; i++ {
				a := genAddr(r, n)
				if r.Intn(3) != 0 {
					v := genBlock(r, BS, a, &ctr)
					before := enc.RLE(v)
					if try(func() { d.Write(a, v) }) {
						fmt.Fprintf(w, "W %d %s -> P\n", a, before)
					} else {
						fmt.Fprintf(w, "W %d %s -> U\n", a, before)
						if r.Intn(4) == 0 {
							// the block is updated in place in the caller's buffer and written again
							for j := 0; j < len(v); j += 1 + r.Intn(700) {
								v[j] ^= 0x3c
							}
							before2 := enc.RLE(v)
							if try(func() { d.Write(a, v) }) {
								fmt.Fprintf(w, "W %d %s -> P\n", a, before2)
							} else {
								fmt.Fprintf(w, "W %d %s -> U\n", a, before2)
							}
						}
					}
				} else {
					var res []byte
					if try(func() { res = d.Read(a) }) {
						fmt.Fprintf(w, "R %d -> P\n", a)
					} else {
						fmt.Fprintf(w, "R %d -> B %s\n", a, enc.RLE(res))
					}
				}
			}
			if r.Bool() {
				d.Barrier()
				fmt.Fprintf(w, "B -> U\n")
			}
			d.Close()
			fmt.Fprintf(w, "C\n")
			prev = "P"
			// next size
			switch r.Intn(5) {
			case 0:
				n = n + 1
			case 1:
				if n > 0 {
					n = n - 1
				}
			case 2:
				n = n * 2
			case 3:
				n = n / 2
			}
		}
		fmt.Fprintln(w, "E")
	}
}
