(* Extraction of the executable models for the correspondence drivers.
   ExtrOcamlBasic only: bool/option/unit/list/prod/sumbool/sumor are mapped to
   OCaml's; N, Z, positive, nat, ascii, string stay Coq datatypes. *)
Require Extraction.
Require Import ExtrOcamlBasic.
From GV Require Import Enc.Enc Disk.Disk Disk.Reopen Conc.Lin Conc.LinCheck Conc.DiskLin Fs.Fs Conc.FsConc Prims.Prims TestGen.TestGen Tr.Header Tr.Cli.
From GVGen Require Import GenTables.
Extraction Language OCaml.
From Coq Require Import NArith ZArith.
Extraction "models.ml" N.add Z.add Z.mul put_le get_le
  regs_init regs_step mem_init mem_step file_init file_step open_disk close_disk disk_lin_check
  fs_init ref_step memfs_init memfs_step fs_lin_check to_string of_string gen_go gen_coq tests_of_dir
  visit_root get_ffi header_footer print_imports output_path builtin_imports ffi_mapping cli.
