(* Shim: this directory is mapped to the logical path Perennial.goose_lang, so
   that the UNMODIFIED files written by goose compile against the reference
   GooseLang of theories/Lang. *)
From Coq Require Export String List ZArith.
From GV Require Export Lang.GlSyntax Lang.GlNotation.
Export ListNotations.
Open Scope string_scope.
Open Scope Z_scope.
Open Scope list_scope.
Open Scope expr_scope.

(* the filesystem library is available without an FFI prelude *)
Module FS.
  Definition fileT : ty := extT "FS.file".
  Definition create : val := PrimV (PExt "FS.create") [].
  Definition append : val := PrimV (PExt "FS.append") [].
  Definition close : val := PrimV (PExt "FS.close") [].
  Definition open : val := PrimV (PExt "FS.open") [].
  Definition readAt : val := PrimV (PExt "FS.readAt") [].
  Definition delete : val := PrimV (PExt "FS.delete") [].
  Definition atomicCreate : val := PrimV (PExt "FS.atomicCreate") [].
  Definition link : val := PrimV (PExt "FS.link") [].
  Definition list : val := PrimV (PExt "FS.list") [].
End FS.
Definition fileT : ty := FS.fileT.
