From Perennial.goose_lang Require Export prelude.
