From Perennial.goose_lang Require Export prelude.
Module disk.
  Definition blockT : ty := extT "disk.block".
  Definition Disk : ty := extT "disk.Disk".
  Definition BlockSize : expr := Val (LitV (LitInt 4096)).
  Definition Read : val := PrimV (PExt "disk.Read") [].
  Definition ReadTo : val := PrimV (PExt "disk.ReadTo") [].
  Definition Write : val := PrimV (PExt "disk.Write") [].
  Definition Size : val := PrimV (PExt "disk.Size") [].
  Definition Barrier : val := PrimV (PExt "disk.Barrier") [].
  Definition Get : val := PrimV (PExt "disk.Get") [].
  Definition Init : val := PrimV (PExt "disk.Init") [].
  Definition Close : val := PrimV (PExt "disk.Close") [].
End disk.
Definition blockT : ty := disk.blockT.
