(* stand-in for the hand-written trusted model of the example package (only
   needed to validate the shim against the shipped gold file) *)
From Perennial.goose_lang Require Import prelude.
Module trusted_example.
  Definition Foo : val := PrimV (PExt "trusted_example.Foo") [].
End trusted_example.
