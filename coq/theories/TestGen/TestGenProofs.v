From Coq Require Import String Ascii List Bool Arith Lia.
From GV Require Import TestGen.TestGen.
Import ListNotations.
Open Scope string_scope.

Lemma strip_spec p : forall s r, strip p s = Some r <-> s = p ++ r.
Proof.
  induction p as [|a p IH]; intros s r; cbn [strip String.append].
  - split; [intros H; injection H as <-; reflexivity|intros ->; reflexivity].
  - destruct s as [|b s]; [split; [discriminate|discriminate]|].
    destruct (Ascii.eqb_spec a b) as [->|Hne].
    + rewrite IH. split; [intros ->; reflexivity|intros H; injection H; auto].
    + split; [discriminate|]. intros H. injection H as H1 _. congruence.
Qed.

Lemma strip_app p r : strip p (p ++ r) = Some r.
Proof. now apply strip_spec. Qed.

Lemma app_assoc' (a b c : string) : (a ++ b) ++ c = a ++ (b ++ c).
Proof. induction a as [|x a IH]; cbn; [reflexivity|now rewrite IH]. Qed.

(* stripping a prefix made of name characters from  name ++ "(" ++ rest  only looks at name *)
Lemma strip_name_paren p : all_namechars p = true -> forall name rest,
  strip p (name ++ "(" ++ rest) = match strip p name with Some r => Some (r ++ "(" ++ rest) | None => None end.
Proof.
  induction p as [|a p IH]; intros Hp name rest; cbn [strip]; [reflexivity|].
  cbn in Hp. apply andb_prop in Hp as [Ha Hp].
  destruct name as [|b name]; cbn [String.append].
  - (* name exhausted: the next character is "(" which is not a name character *)
    destruct (Ascii.eqb_spec a "("%char) as [->|Hne]; [discriminate Ha|reflexivity].
  - destruct (Ascii.eqb a b); [now apply IH|reflexivity].
Qed.

Lemma span_name_paren n : all_namechars n = true -> forall rest, span_name (n ++ "(" ++ rest) = (n, "(" ++ rest).
Proof.
  induction n as [|c n IH]; intros Hn rest; [reflexivity|].
  cbn in Hn. apply andb_prop in Hn as [Hc Hn]. change (String c n ++ "(" ++ rest) with (String c (n ++ "(" ++ rest)).
  cbn [span_name]. rewrite Hc, (IH Hn rest). reflexivity.
Qed.

Lemma all_namechars_strip p name r : all_namechars name = true -> strip p name = Some r -> all_namechars r = true.
Proof.
  revert name r. induction p as [|a p IH]; intros name r Hn H; cbn [strip] in H.
  - injection H as <-. exact Hn.
  - destruct name as [|b name]; [discriminate|]. cbn in Hn. apply andb_prop in Hn as [_ Hn].
    destruct (Ascii.eqb a b); [eapply IH; eauto|discriminate].
Qed.

(* THE LINE LEMMA: the header line of a top-level function yields exactly the
   test its name denotes *)
Theorem scan_func_line name rest : all_namechars name = true ->
  scan_line ("func " ++ name ++ "(" ++ rest) = test_of_name name.
Proof.
  intros Hn. unfold scan_line, test_of_name.
  change ("func " ++ name ++ "(" ++ rest) with ("func" ++ String " " (name ++ "(" ++ rest)).
  rewrite strip_app. change (is_space " ") with true. cbv iota.
  rewrite (strip_name_paren "failing_" eq_refl).
  destruct (strip "failing_" name) as [r|] eqn:Ef.
  - pose proof (all_namechars_strip _ _ _ Hn Ef) as Hr.
    rewrite (strip_name_paren "test" eq_refl).
    destruct (strip "test" r) as [n|] eqn:Et; [|reflexivity].
    pose proof (all_namechars_strip _ _ _ Hr Et) as Hnn.
    rewrite (span_name_paren n Hnn). destruct n as [|c n]; [reflexivity|].
    cbn [String.append]. rewrite Hnn. reflexivity.
  - rewrite (strip_name_paren "test" eq_refl).
    destruct (strip "test" name) as [n|] eqn:Et; [|reflexivity].
    pose proof (all_namechars_strip _ _ _ Hn Et) as Hnn.
    rewrite (span_name_paren n Hnn). destruct n as [|c n]; [reflexivity|].
    cbn [String.append]. rewrite Hnn. reflexivity.
Qed.

Lemma scan_method_line r : scan_line ("func (" ++ r) = None.
Proof. reflexivity. Qed.

Lemma scan_quiet_line l : quiet_line l = true -> scan_line l = None.
Proof.
  unfold quiet_line, scan_line. destruct (strip "func" l) as [[|c r]|]; auto.
  intros H. apply negb_true_iff in H. now rewrite H.
Qed.

Lemma tests_quiet ls : forallb quiet_line ls = true ->
  flat_map (fun l => match scan_line l with Some t => [t] | None => [] end) ls = [].
Proof.
  induction ls as [|l ls IH]; intros H; [reflexivity|]. cbn in H. apply andb_prop in H as [H1 H2].
  cbn [flat_map]. now rewrite (scan_quiet_line l H1), IH.
Qed.

Definition idents_ok (ds : list decl) : bool :=
  forallb (fun d => match d with DFunc name _ _ => all_namechars name | _ => true end) ds.

(* exactly one test per test function, in source order, nothing for anything else *)
Theorem one_test_per_function fname ds : forallb decl_ok ds = true -> idents_ok ds = true ->
  tests_of_file (fname, flat_map render_decl ds) = tests_of_decls ds.
Proof.
  unfold tests_of_file. cbn [snd]. induction ds as [|d ds IH]; intros Hok Hid; [reflexivity|].
  cbn in Hok, Hid. apply andb_prop in Hok as [Hd Hok]. apply andb_prop in Hid as [Hi Hid].
  cbn [flat_map]. rewrite flat_map_app, IH by assumption.
  unfold tests_of_decls at 2. cbn [flat_map]. fold (tests_of_decls ds). f_equal.
  destruct d as [name rest body|r body|ls]; cbn [render_decl decl_ok flat_map] in *.
  - rewrite (scan_func_line name rest Hi), (tests_quiet body Hd), app_nil_r. reflexivity.
  - rewrite scan_method_line, (tests_quiet body Hd). reflexivity.
  - apply tests_quiet. exact Hd.
Qed.

(* files: source order is preserved, skipped files contribute nothing *)
Theorem tests_of_dir_app d1 d2 : tests_of_dir (d1 ++ d2)%list = (tests_of_dir d1 ++ tests_of_dir d2)%list.
Proof. unfold tests_of_dir. now rewrite filter_app, flat_map_app. Qed.

Theorem skipped_file_ignored name ls d : skip_file name = true -> tests_of_dir ((name, ls) :: d) = tests_of_dir d.
Proof. intros H. unfold tests_of_dir. cbn [filter fst]. now rewrite H. Qed.

Theorem kept_file_scanned name ls d : skip_file name = false ->
  tests_of_dir ((name, ls) :: d) = (tests_of_file (name, ls) ++ tests_of_dir d)%list.
Proof. intros H. unfold tests_of_dir. cbn [filter fst]. rewrite H. reflexivity. Qed.

(* both generators emit the tests [tests_of_dir d], in that order *)
Definition coq_tests (d : list file) : list (bool * string) :=
  flat_map tests_of_file (filter (fun f => negb (skip_file (fst f))) d).

Theorem generators_agree d : coq_tests d = tests_of_dir d.
Proof. reflexivity. Qed.

Lemma concat_str_app a b : concat_str (a ++ b)%list = concat_str a ++ concat_str b.
Proof.
  induction a as [|x a IH]; [reflexivity|]. cbn [List.app concat_str fold_right].
  fold (concat_str (a ++ b)%list) (concat_str a). now rewrite IH, app_assoc'.
Qed.

(* the Coq output is the header followed, per kept file, by its comment line,
   one Example line per test of that file and a blank line *)
Theorem gen_coq_structure d :
  gen_coq d = coq_header ++
    concat_str (map (fun f => "(* " ++ fst f ++ " *)" ++ nl ++ concat_str (map coq_test (tests_of_file f)) ++ nl)
                    (filter (fun f => negb (skip_file (fst f))) d)).
Proof. reflexivity. Qed.

(* ---------------------------------------------------------------- the Go file uses what it imports *)
Fixpoint contains (pat s : string) : bool :=
  String.prefix pat s || match s with EmptyString => false | String _ t => contains pat t end.

Lemma gen_go_without_tests d : tests_of_dir d = [] -> gen_go d = (go_header_no_tests ++ go_footer)%string.
Proof. unfold gen_go. intros ->. reflexivity. Qed.

Lemma gen_go_with_tests d : tests_of_dir d <> [] ->
  gen_go d = (go_header ++ concat_str (map go_test (tests_of_dir d)) ++ go_footer)%string.
Proof. unfold gen_go. destruct (tests_of_dir d); [congruence|reflexivity]. Qed.

Lemma no_tests_file_does_not_mention_disk : contains "disk" (go_header_no_tests ++ go_footer) = false.
Proof. vm_compute. reflexivity. Qed.

Lemma go_test_mentions_disk t : contains "disk.Init" (go_test t) = true.
Proof.
  destruct t as [f n]. unfold go_test.
  assert (H : forall a b, contains "disk.Init" b = true -> contains "disk.Init" (a ++ b) = true).
  { induction a as [|c a IH]; intros b Hb; [exact Hb|]. cbn [String.append contains]. rewrite (IH _ Hb). apply Bool.orb_true_r. }
  do 8 apply H. reflexivity.
Qed.

Lemma go_file_without_tests d : tests_of_dir d = [] ->
  gen_go d = (go_header_no_tests ++ go_footer)%string /\ contains "disk" (gen_go d) = false.
Proof.
  intros H. rewrite (gen_go_without_tests d H). split; [reflexivity|exact no_tests_file_does_not_mention_disk].
Qed.

Lemma go_file_with_tests d : tests_of_dir d <> [] ->
  gen_go d = (go_header ++ concat_str (map go_test (tests_of_dir d)) ++ go_footer)%string /\
  forall t, In t (tests_of_dir d) -> contains "disk.Init" (go_test t) = true.
Proof. intros H. split; [exact (gen_go_with_tests d H)|intros t _; exact (go_test_mentions_disk t)]. Qed.
