(* Lexical model for C05: how Coq reads comments and string literals, and what
   internal/coq/coq.go buffer.AddComment does to the text of a Go comment.

   Coq's lexer, inside a comment: open-paren star opens a nested comment,
   star close-paren closes one, and a double quote starts a string literal that
   lasts until the next double quote (a doubled quote is two toggles); inside
   that string nothing else is special.  scan d s l runs it from nesting depth d (s: inside a string) and
   reports where the outermost comment closes. *)
From Coq Require Import String Ascii List Bool Arith.
Import ListNotations.
Local Open Scope char_scope.

Definition is (c x : ascii) : bool := Ascii.eqb c x.
Arguments is : simpl never.

Inductive lres :=
| LClosed (rest : list ascii)     (* the comment opened before l closes; rest follows it *)
| LOpen.                          (* the input ends inside the comment *)

Fixpoint scan (d : nat) (s : bool) (l : list ascii) : lres :=
  match l with
  | [] => LOpen
  | x :: tl =>
      if s then (if is """" x then scan d false tl else scan d true tl)
      else
        match tl with
        | y :: tl' =>
            if is "(" x && is "*" y then scan (S d) false tl'
            else if is "*" x && is ")" y then
              match d with
              | O | S O => LClosed tl'
              | S d' => scan d' false tl'
              end
            else if is """" x then scan d true tl
            else scan d false tl
        | [] => LOpen
        end
  end.

(* ---------------------------------------------------------------- AddComment *)
(* the first strings.ReplaceAll of AddComment (open delimiter gets a space): left to right, non-overlapping *)
Fixpoint repl_open (l : list ascii) : list ascii :=
  match l with
  | x :: tl =>
      match tl with
      | y :: tl' => if is "(" x && is "*" y then "(" :: " " :: "*" :: repl_open tl' else x :: repl_open tl
      | [] => [x]
      end
  | [] => []
  end.

(* the second strings.ReplaceAll (close delimiter gets a space) *)
Fixpoint repl_close (l : list ascii) : list ascii :=
  match l with
  | x :: tl =>
      match tl with
      | y :: tl' => if is "*" x && is ")" y then "*" :: " " :: ")" :: repl_close tl' else x :: repl_close tl
      | [] => [x]
      end
  | [] => []
  end.

Fixpoint quotes (l : list ascii) : nat :=
  match l with
  | [] => 0
  | x :: tl => (if is """" x then 1 else 0) + quotes tl
  end.

(* an odd number of double quotes: one more is appended *)
Definition close_quote (l : list ascii) : list ascii :=
  if Nat.odd (quotes l) then l ++ [""""] else l.

Definition sanitize (l : list ascii) : list ascii := close_quote (repl_close (repl_open l)).

(* pp.Block with the comment delimiters around the text *)
Definition comment_text (l : list ascii) : list ascii := "(" :: "*" :: " " :: sanitize l ++ [" "; "*"; ")"].

(* ---------------------------------------------------------------- string literals *)
(* in code, after an opening quote: the literal ends at the next quote that is
   not doubled *)
Fixpoint scan_string (l : list ascii) (acc : list ascii) : option (list ascii * list ascii) :=
  match l with
  | [] => None
  | x :: tl =>
      if is """" x then
        match tl with
        | y :: tl' => if is """" y then scan_string tl' (acc ++ [""""]) else Some (acc, tl)
        | [] => Some (acc, [])
        end
      else scan_string tl (acc ++ [x])
  end.
