(* Calls preserve meaning: for a package of the MiniGoC fragment that the
   translator model accepts, every function, every argument vector and every
   run of Go that returns, the value goose emits for the function, applied to
   the arguments, evaluates under the reference semantics to the value Go
   returns - through any depth of calls and recursion. *)
From Coq Require Import String List ZArith Bool Lia.
From GV Require Import Lang.GlSyntax Lang.GlSem Lang.GlSemProofs Tr.MiniGo Tr.MiniGoProofs Tr.MiniGoC.
Import ListNotations.
Local Open Scope nat_scope.
Local Open Scope list_scope.

(* ---------------------------------------------------------------- applications *)
(* an argument that evaluates without touching the store can be replaced by its value *)
Lemma evals_app_arg X a v s w s' :
  evals a s v s -> evals (App X (Val v)) s w s' -> evals (App X a) s w s'.
Proof.
  intros [k Ha] [n H]. destruct n as [|[|n]]; try discriminate.
  assert (Hle : S (S n) <= S (S (k + n))) by lia.
  pose proof (evals_fuel _ _ _ _ _ (S (S (k + n))) H Hle) as H'.
  exists (S (S (k + n))). rewrite eval_S_unfold in H' |- *. unfold eval_step at 1 in H'. unfold eval_step at 1.
  change (eval (S (k + n)) (Val v) s) with (RVal v s) in H'. cbv iota in H'.
  rewrite (evals_fuel _ _ _ _ _ (S (k + n)) Ha) by lia. exact H'.
Qed.

Lemma evals_apps_args : forall es vs F s w s',
  Forall2 (fun a v => forall s0, evals a s0 v s0) es vs ->
  evals (fold_left App (map Val vs) F) s w s' -> evals (fold_left App es F) s w s'.
Proof.
  induction es as [|a es IH]; intros vs F s w s' HF H; inversion HF as [|? v ? vs' Ha HF']; subst; cbn [map fold_left] in *; [exact H|].
  eapply IH; [exact HF'|]. revert H. apply sim_apps. intros s0 w0 s0' H0. eapply evals_app_arg; [apply Ha|exact H0].
Qed.

Lemma close_apps r es F : close r (fold_left App es F) = fold_left App (map (close r) es) (close r F).
Proof. revert F; induction es as [|a es IH]; intros F; cbn [map fold_left]; [reflexivity|]. rewrite IH, close_app. reflexivity. Qed.

(* the emitted definition applied to all its arguments enters the body with
   the parameters bound to the arguments and its own name to itself *)
Lemma call_protocol name p ps body args s v s' :
  NoDup (name :: p :: ps) -> length args = length (p :: ps) ->
  evals (close (rev (combine (p :: ps) args) ++ [(name, RecV (BNamed name) (BNamed p) (lams ps body))]) body) s v s' ->
  evals (fold_left App (map Val args) (Val (RecV (BNamed name) (BNamed p) (lams ps body)))) s v s'.
Proof.
  intros Hnd Hlen Hev. set (F := RecV (BNamed name) (BNamed p) (lams ps body)) in *.
  inversion Hnd as [|? ? Hname Hnd1]; subst. inversion Hnd1 as [|? ? Hp1 Hnd2]; subst.
  destruct args as [|a1 args]; [discriminate|]. cbn [length] in Hlen.
  assert (Hlps : length args = length ps) by lia.
  rewrite close_app_list in Hev.
  rewrite close_rev_nodup in Hev by (rewrite map_fst_combine by (cbn [length]; lia); constructor; assumption).
  cbn [combine close] in Hev.
  rewrite <- close_subst_comm in Hev by (rewrite map_fst_combine by lia; intros Hc; apply Hname; right; exact Hc).
  cbn [map fold_left].
  assert (Hne : name <> p) by (intros ->; apply Hname; left; reflexivity).
  eapply (sim_apps _ _ args (sim_beta_rec name p (lams ps body) a1 Hne)).
  rewrite !subst_lams by (intros Hc; first [apply Hp1, Hc | apply Hname; right; exact Hc]).
  apply (sim_lams ps args _ Hnd2 Hlps). exact Hev.
Qed.

Lemma call_protocol0 name body s v s' :
  evals (close [(name, RecV (BNamed name) BAnon body)] body) s v s' ->
  evals (App (Val (RecV (BNamed name) BAnon body)) UnitE) s v s'.
Proof.
  intros [n H]. cbn [close] in H. exists (S (S n)). rewrite eval_S_unfold. unfold eval_step at 1. unfold UnitE.
  change (eval (S n) (Val (LitV LitUnit)) s) with (RVal (LitV LitUnit) s). cbv iota.
  change (eval (S n) (Val (RecV (BNamed name) BAnon body)) s) with (RVal (RecV (BNamed name) BAnon body) s). cbv iota.
  cbn [subst']. apply (evals_fuel _ _ _ _ _ (S n) H). lia.
Qed.

(* what the caller writes: f #() for a function without parameters *)
Definition call_expr (F : val) (args : list val) : expr :=
  match args with
  | [] => App (Val F) UnitE
  | _ => fold_left App (map Val args) (Val F)
  end.

(* ---------------------------------------------------------------- lookups *)
Lemma smem_In x l : smem x l = true <-> In x l.
Proof.
  induction l as [|y l IH]; cbn [smem In]; [split; [discriminate|tauto]|].
  rewrite orb_true_iff, IH, String.eqb_eq. split; intros [H|H]; auto.
Qed.

Lemma nodupb_NoDup l : nodupb l = true -> NoDup l.
Proof.
  induction l as [|x l IH]; cbn [nodupb]; intros H; [constructor|].
  apply andb_true_iff in H. destruct H as [H1 H2]. constructor; [|apply IH, H2].
  intros Hin. apply smem_In in Hin. rewrite Hin in H1. discriminate.
Qed.

Lemma clookup_app_l x r E v : elookup x r = Some v -> clookup x (r ++ E) = Some v.
Proof. induction r as [|[y w] r IH]; cbn [elookup clookup app]; [discriminate|]. destruct (String.eqb x y); auto. Qed.

Lemma clookup_app_r x r F : elookup x r = None -> clookup x (r ++ [(x, F)]) = Some F.
Proof.
  induction r as [|[y w] r IH]; cbn [elookup clookup app].
  - rewrite String.eqb_refl. reflexivity.
  - destruct (String.eqb x y); [discriminate|exact IH].
Qed.

Lemma find_func_name f P fn : find_func f P = Some fn -> cf_name fn = f.
Proof.
  induction P as [|g P IH]; cbn [find_func]; [discriminate|].
  destruct (String.eqb f (cf_name g)) eqn:E; [|exact IH]. intros [= <-]. apply String.eqb_eq in E. auto.
Qed.

Lemma find_func_app P0 fn P1 : ~ In (cf_name fn) (map cf_name P0) -> find_func (cf_name fn) (P0 ++ fn :: P1) = Some fn.
Proof.
  induction P0 as [|g P0 IH]; cbn [app find_func map In]; intros Hn.
  - rewrite String.eqb_refl. reflexivity.
  - destruct (String.eqb (cf_name fn) (cf_name g)) eqn:E.
    + apply String.eqb_eq in E. exfalso. apply Hn. left. auto.
    + apply IH. tauto.
Qed.

(* ---------------------------------------------------------------- tables *)
(* a table all of whose entries are translations of functions of the package,
   each against the table before it *)
Inductive good (P : cprog) : ftable -> Prop :=
| good_nil : good P []
| good_cons T fn v : good P T -> find_func (cf_name fn) P = Some fn -> trc_func T fn = Some v ->
    good P ((cf_name fn, v) :: T).

Definition inside (P : cprog) (T : ftable) (fn : cfunc) (F : val) : Prop :=
  good P T /\ find_func (cf_name fn) P = Some fn /\ trc_func T fn = Some F.

Lemma good_lookup P T g v : good P T -> flookup g T = Some v ->
  exists Tg fn, inside P Tg fn v /\ cf_name fn = g.
Proof.
  induction 1 as [|T fn w Hg IH Hf Ht]; cbn [flookup]; [discriminate|].
  destruct (String.eqb g (cf_name fn)) eqn:E.
  - apply String.eqb_eq in E. subst g. intros [= <-]. exists T, fn. repeat split; auto.
  - exact IH.
Qed.

(* ---------------------------------------------------------------- the theorem *)
Section Main.
Variable P : cprog.

Definition PE (n : nat) : Prop := forall T fn F r e e' v s, inside P T fn F ->
  trc_expr T (cf_name fn) (map fst r) e = Some e' -> cgo_expr n P r e = Some v ->
  evals (close (r ++ [(cf_name fn, F)]) e') s v s.

Definition PA (n : nat) : Prop := forall T fn F r args acc e' vs, inside P T fn F ->
  trc_args T (cf_name fn) (map fst r) args acc = Some e' -> cgo_args n P r args = Some vs ->
  exists es, e' = fold_left App es acc /\
    Forall2 (fun a v => forall s, evals (close (r ++ [(cf_name fn, F)]) a) s v s) es vs.

Definition PB (n : nat) : Prop := forall T fn F r b b' v s, inside P T fn F ->
  trc_body T (cf_name fn) (map fst r) b = Some b' -> cgo_body n P r b = Some v ->
  evals (close (r ++ [(cf_name fn, F)]) b') s v s.

(* entering a function: from the body to the application of the emitted value *)
Lemma enter_correct n T fn F args v s : PB n -> inside P T fn F ->
  length args = length (cf_params fn) ->
  cgo_body n P (rev (combine (cf_params fn) args)) (cf_body fn) = Some v ->
  evals (call_expr F args) s v s.
Proof.
  intros HB Hin Hlen Hgo. pose proof Hin as (Hg & Hf & Ht). unfold trc_func in Ht.
  destruct (nodupb (cf_params fn) && negb (smem (cf_name fn) (cf_params fn))) eqn:Ec; [|discriminate].
  apply andb_true_iff in Ec. destruct Ec as [Hnd Hnm].
  destruct (trc_body T (cf_name fn) (rev (cf_params fn)) (cf_body fn)) as [body|] eqn:Eb; [|discriminate].
  assert (Hfst : map fst (rev (combine (cf_params fn) args)) = rev (cf_params fn)).
  { rewrite map_rev, map_fst_combine by lia. reflexivity. }
  rewrite <- Hfst in Eb.
  pose proof (HB T fn F _ _ _ v s Hin Eb Hgo) as Hev.
  destruct (cf_params fn) as [|p ps] eqn:Eps.
  - destruct args; [|discriminate]. injection Ht as <-. cbn [call_expr]. apply call_protocol0. exact Hev.
  - destruct args as [|a1 args]; [discriminate|]. injection Ht as <-. cbn [call_expr].
    apply call_protocol; [|exact Hlen|exact Hev].
    constructor; [|apply nodupb_NoDup, Hnd].
    intros Hin'. apply smem_In in Hin'. rewrite Hin' in Hnm. discriminate.
Qed.

Theorem all_correct : forall n, PE n /\ PA n /\ PB n.
Proof.
  induction n as [|n (IHE & IHA & IHB)].
  { unfold PE, PA, PB. split; [|split]; intros;
    match goal with H0 : _ O _ _ _ = Some _ |- _ => cbn in H0; discriminate H0 end. }
  split; [|split].
  - (* expressions *)
    intros T fn F r e e' v s Hin Htr Hgo. set (cs := (r ++ [(cf_name fn, F)])%list).
    destruct e as [k|b|x|op a b|a|f args].
    + cbn in Htr, Hgo. injection Htr as <-. injection Hgo as <-. unfold Lit. rewrite close_val. apply evals_val.
    + cbn in Htr, Hgo. injection Htr as <-. injection Hgo as <-. unfold BoolE. rewrite close_val. apply evals_val.
    + cbn [trc_expr] in Htr. destruct (smem x (map fst r)); [|discriminate]. injection Htr as <-.
      cbn [cgo_expr] in Hgo. unfold cs. rewrite close_var, (clookup_app_l _ _ _ _ Hgo). apply evals_val.
    + cbn [trc_expr] in Htr.
      destruct (trc_expr T (cf_name fn) (map fst r) a) as [a'|] eqn:Ea; [|discriminate].
      destruct (trc_expr T (cf_name fn) (map fst r) b) as [b'|] eqn:Eb; [|discriminate].
      destruct op.
      all: try (cbn [cgo_expr] in Hgo;
                destruct (cgo_expr n P r a) as [va|] eqn:Ga; [|discriminate];
                destruct (cgo_expr n P r b) as [vb|] eqn:Gb; [|discriminate];
                pose proof (IHE _ _ _ _ _ _ _ s Hin Ea Ga) as Ha; pose proof (IHE _ _ _ _ _ _ _ s Hin Eb Gb) as Hb;
                eapply go_binop_sound; [exact Hgo|exact Ha|exact Hb|apply close_tr_binop, Htr|discriminate|discriminate]).
      * (* && *)
        cbn [tr_binop] in Htr. injection Htr as <-. cbn [cgo_expr] in Hgo.
        destruct (cgo_expr n P r a) as [[[| | |[]| | | |]| | |]|] eqn:Ga; try discriminate;
          pose proof (IHE _ _ _ _ _ _ _ s Hin Ea Ga) as Ha; rewrite close_if.
        -- destruct (cgo_expr n P r b) as [[[| | |x| | | |]| | |]|] eqn:Gb; try discriminate. injection Hgo as <-.
           eapply evals_if; [exact Ha|]. cbn. apply (IHE _ _ _ _ _ _ _ s Hin Eb Gb).
        -- injection Hgo as <-. eapply evals_if; [exact Ha|]. cbn. unfold BoolE. rewrite close_val. apply evals_val.
      * (* || *)
        cbn [tr_binop] in Htr. injection Htr as <-. cbn [cgo_expr] in Hgo.
        destruct (cgo_expr n P r a) as [[[| | |[]| | | |]| | |]|] eqn:Ga; try discriminate;
          pose proof (IHE _ _ _ _ _ _ _ s Hin Ea Ga) as Ha; rewrite close_if.
        -- injection Hgo as <-. eapply evals_if; [exact Ha|]. cbn. unfold BoolE. rewrite close_val. apply evals_val.
        -- destruct (cgo_expr n P r b) as [[[| | |x| | | |]| | |]|] eqn:Gb; try discriminate. injection Hgo as <-.
           eapply evals_if; [exact Ha|]. cbn. apply (IHE _ _ _ _ _ _ _ s Hin Eb Gb).
    + cbn [trc_expr] in Htr. destruct (trc_expr T (cf_name fn) (map fst r) a) as [a'|] eqn:Ea; [|discriminate]. injection Htr as <-.
      cbn [cgo_expr] in Hgo. destruct (cgo_expr n P r a) as [[[| | |x| | | |]| | |]|] eqn:Ga; try discriminate. injection Hgo as <-.
      rewrite close_unop. eapply evals_unop; [apply (IHE _ _ _ _ _ _ _ s Hin Ea Ga)|reflexivity].
    + (* calls *)
      cbn [trc_expr] in Htr. destruct (smem f (map fst r)) eqn:Esm; [discriminate|].
      cbn [cgo_expr] in Hgo.
      destruct (elookup f r) as [?|] eqn:El; [discriminate|].
      destruct (find_func f P) as [fg|] eqn:Ef; [|discriminate].
      destruct (cgo_args n P r args) as [vs|] eqn:Eargs; [|discriminate].
      destruct (Nat.eqb (length vs) (length (cf_params fg))) eqn:Elen; [|discriminate].
      apply Nat.eqb_eq in Elen.
      (* the callee: the emitted value the function part closes to *)
      assert (Hcallee : exists fe, (if String.eqb f (cf_name fn) then Some (Var f) else option_map Val (flookup f T)) = Some fe /\
                exists Tg Fg, inside P Tg fg Fg /\ close cs fe = Val Fg).
      { destruct (String.eqb f (cf_name fn)) eqn:Eself.
        - apply String.eqb_eq in Eself. subst f. exists (Var (cf_name fn)). split; [reflexivity|].
          exists T, F. destruct Hin as (Hg & Hf & Ht). rewrite Hf in Ef. injection Ef as <-.
          split; [repeat split; assumption|]. unfold cs. rewrite close_var, (clookup_app_r _ _ _ El). reflexivity.
        - destruct (flookup f T) as [vg|] eqn:Efl; [|exfalso; cbn in Htr; discriminate Htr].
          exists (Val vg). split; [reflexivity|].
          destruct Hin as (Hg & _ & _). destruct (good_lookup _ _ _ _ Hg Efl) as (Tg & fn' & Hin' & Hname).
          pose proof Hin' as (_ & Hf' & _). rewrite Hname, Ef in Hf'. injection Hf' as <-.
          exists Tg, vg. split; [exact Hin'|apply close_val]. }
      destruct Hcallee as (fe & Efe & Tg & Fg & Hing & Hcl). rewrite Efe in Htr.
      pose proof (enter_correct n Tg fg Fg vs v s IHB Hing Elen Hgo) as Hcall.
      destruct args as [|a rest].
      * injection Htr as <-. destruct n as [|n']; [discriminate|]. cbn [cgo_args] in Eargs. injection Eargs as <-.
        cbn [call_expr] in Hcall. rewrite close_app, Hcl. unfold UnitE. rewrite close_val. exact Hcall.
      * destruct (IHA _ _ _ _ _ _ _ _ Hin Htr Eargs) as (es & -> & HF).
        rewrite close_apps, Hcl.
        assert (Hvs : vs <> []).
        { destruct n as [|n']; [discriminate|]. cbn [cgo_args] in Eargs.
          destruct (cgo_expr n' P r a); [|discriminate]. destruct (cgo_args n' P r rest); [|discriminate]. injection Eargs as <-. discriminate. }
        destruct vs as [|v1 vs]; [congruence|]. cbn [call_expr] in Hcall.
        eapply evals_apps_args; [|exact Hcall].
        clear -HF. induction HF as [|a0 v0 es0 vs0 H0 _ IH]; cbn [map]; constructor; auto.
  - (* arguments *)
    intros T fn F r args acc e' vs Hin Htr Hgo. destruct args as [|a rest]; cbn [trc_args cgo_args] in Htr, Hgo.
    + injection Htr as <-. injection Hgo as <-. exists []. split; [reflexivity|constructor].
    + destruct (trc_expr T (cf_name fn) (map fst r) a) as [a'|] eqn:Ea; [|discriminate].
      destruct (cgo_expr n P r a) as [v|] eqn:Ga; [|discriminate].
      destruct (cgo_args n P r rest) as [vs'|] eqn:Gr; [|discriminate]. injection Hgo as <-.
      destruct (IHA _ _ _ _ _ _ _ _ Hin Htr Gr) as (es & -> & HF).
      exists (a' :: es). split; [reflexivity|]. constructor; [|exact HF].
      intros s. apply (IHE _ _ _ _ _ _ _ s Hin Ea Ga).
  - (* bodies *)
    intros T fn F r b b' v s Hin Htr Hgo. destruct b as [e|x e k|c th el]; cbn [trc_body cgo_body] in Htr, Hgo.
    + apply (IHE _ _ _ _ _ _ _ s Hin Htr Hgo).
    + destruct (trc_expr T (cf_name fn) (map fst r) e) as [e1|] eqn:Ee; [|discriminate].
      destruct (trc_body T (cf_name fn) (x :: map fst r) k) as [k'|] eqn:Ek; [|discriminate]. injection Htr as <-.
      destruct (cgo_expr n P r e) as [v1|] eqn:Ge; [|discriminate].
      eapply evals_close_letin; [apply (IHE _ _ _ _ _ _ _ s Hin Ee Ge)|].
      cbn [bind]. change ((x, v1) :: r ++ [(cf_name fn, F)])%list with (((x, v1) :: r) ++ [(cf_name fn, F)])%list.
      apply (IHB T fn F ((x, v1) :: r) k k' v s Hin); [exact Ek|exact Hgo].
    + destruct (trc_expr T (cf_name fn) (map fst r) c) as [c'|] eqn:Ec; [|discriminate].
      destruct (trc_body T (cf_name fn) (map fst r) th) as [t'|] eqn:Et; [|discriminate].
      destruct (trc_body T (cf_name fn) (map fst r) el) as [l'|] eqn:El; [|discriminate]. injection Htr as <-.
      destruct (cgo_expr n P r c) as [[[| | |cb| | | |]| | |]|] eqn:Gc; try discriminate.
      rewrite close_if. eapply evals_if; [apply (IHE _ _ _ _ _ _ _ s Hin Ec Gc)|].
      destruct cb; [apply (IHB _ _ _ _ _ _ _ s Hin Et Hgo)|apply (IHB _ _ _ _ _ _ _ s Hin El Hgo)].
Qed.
End Main.

(* ---------------------------------------------------------------- packages *)
Lemma prog_inside P : forall P1 P0 T R, P = (P0 ++ P1)%list -> good P T -> map fst T = rev (map cf_name P0) ->
  trc_prog_from T P1 = Some R ->
  Forall2 (fun fn nv => fst nv = cf_name fn /\ exists Tg, inside P Tg fn (snd nv)) P1 R.
Proof.
  induction P1 as [|fn P1 IH]; intros P0 T R HP Hg Hfst Htr; cbn [trc_prog_from] in Htr.
  - injection Htr as <-. constructor.
  - destruct (negb (smem (cf_name fn) (map fst T))) eqn:Enm; [|discriminate].
    destruct (trc_func T fn) as [v|] eqn:Ef; [|discriminate].
    destruct (trc_prog_from ((cf_name fn, v) :: T) P1) as [R'|] eqn:Er; [|discriminate]. injection Htr as <-.
    assert (Hfind : find_func (cf_name fn) P = Some fn).
    { rewrite HP. apply find_func_app. intros Hin. apply in_rev in Hin. rewrite <- Hfst in Hin.
      apply smem_In in Hin. rewrite Hin in Enm. discriminate. }
    constructor.
    + split; [reflexivity|]. exists T. repeat split; assumption.
    + apply (IH (P0 ++ [fn])%list ((cf_name fn, v) :: T)); [rewrite <- app_assoc; exact HP|constructor; assumption| |exact Er].
      cbn [map fst]. rewrite map_app, rev_app_distr. cbn [map rev app]. rewrite Hfst. reflexivity.
Qed.

(* the i-th emitted value implements the i-th function of the package *)
Theorem prog_correct P vs :
  trc_prog P = Some vs ->
  Forall2 (fun fn F => forall n args v s,
             length args = length (cf_params fn) ->
             cgo_body n P (rev (combine (cf_params fn) args)) (cf_body fn) = Some v ->
             evals (call_expr F args) s v s) P vs.
Proof.
  unfold trc_prog. destruct (trc_prog_from [] P) as [R|] eqn:Er; [|discriminate]. cbn [option_map]. intros [= <-].
  pose proof (prog_inside P P [] [] R eq_refl (good_nil P) eq_refl Er) as HF.
  assert (Hgen : forall Q R1,
            Forall2 (fun fn nv => fst nv = cf_name fn /\ exists Tg, inside P Tg fn (snd nv)) Q R1 ->
            Forall2 (fun fn F => forall n args v s,
                       length args = length (cf_params fn) ->
                       cgo_body n P (rev (combine (cf_params fn) args)) (cf_body fn) = Some v ->
                       evals (call_expr F args) s v s) Q (map snd R1)).
  { intros Q R1 H1. induction H1 as [|fn nv Q1 R2 [_ [Tg Hin]] _ IH]; cbn [map]; constructor; [|exact IH].
    intros n args v s Hlen Hgo.
    destruct (all_correct P n) as (_ & _ & HB). eapply enter_correct; eassumption. }
  apply Hgen, HF.
Qed.

Lemma Forall2_nth {A B} (R : A -> B -> Prop) l1 l2 i a :
  Forall2 R l1 l2 -> nth_error l1 i = Some a -> exists b, nth_error l2 i = Some b /\ R a b.
Proof.
  intros HF. revert i. induction HF as [|x y l1 l2 H _ IH]; intros [|i] Hi; cbn [nth_error] in Hi |- *; try discriminate.
  - injection Hi as ->. exists y. split; [reflexivity|exact H].
  - apply IH, Hi.
Qed.

(* by name, as the harness calls it *)
Theorem call_correct P vs n f args v :
  trc_prog P = Some vs -> cgo_call n P f args = Some v ->
  exists i fn F, nth_error P i = Some fn /\ cf_name fn = f /\ nth_error vs i = Some F /\
    forall s, evals (call_expr F args) s v s.
Proof.
  intros Htr Hgo. pose proof (prog_correct P vs Htr) as HF. unfold cgo_call in Hgo.
  destruct (find_func f P) as [fn|] eqn:Ef; [|discriminate].
  destruct (Nat.eqb (length args) (length (cf_params fn))) eqn:El; [|discriminate]. apply Nat.eqb_eq in El.
  assert (Hin : exists i, nth_error P i = Some fn).
  { clear -Ef. induction P as [|g P IH]; cbn [find_func] in Ef; [discriminate|].
    destruct (String.eqb f (cf_name g)); [injection Ef as <-; exists 0; reflexivity|].
    destruct (IH Ef) as [i Hi]. exists (S i). exact Hi. }
  destruct Hin as [i Hi].
  destruct (Forall2_nth _ _ _ _ _ HF Hi) as (F & HnF & Hc).
  exists i, fn, F. repeat split; auto.
  - eapply find_func_name, Ef.
  - intros s. eapply Hc; eassumption.
Qed.

(* ---------------------------------------------------------------- non-vacuity *)
Open Scope string_scope.
Definition ex_gcd : cfunc := {| cf_name := "Gcd"; cf_params := ["a"; "b"]; cf_body :=
  CIf (CBin OEq (CVar "b") (CLit 0)) (CRet (CVar "a"))
      (CRet (CCall "Gcd" (CACons (CVar "b") (CACons (CBin ORem (CVar "a") (CVar "b")) CANil)))) |}.
Definition ex_seven : cfunc := {| cf_name := "Seven"; cf_params := []; cf_body := CRet (CLit 7) |}.
Definition ex_use : cfunc := {| cf_name := "Use"; cf_params := ["x"; "y"]; cf_body :=
  CLet "z" (CCall "Gcd" (CACons (CBin OAdd (CVar "x") (CLit 1)) (CACons (CCall "Seven" CANil) CANil)))
   (CIf (CBin OLAnd (CVar "y") (CBin OGt (CVar "z") (CLit 3)))
      (CLet "w" (CCall "Use" (CACons (CBin OSub (CVar "x") (CLit 1)) (CACons (CBool false) CANil)))
            (CRet (CBin OAdd (CVar "w") (CVar "z"))))
      (CRet (CCall "Gcd" (CACons (CVar "z") (CACons (CCall "Gcd" (CACons (CVar "x") (CACons (CLit 3) CANil))) CANil))))) |}.
Definition ex_prog : cprog := [ex_gcd; ex_seven; ex_use].

Lemma ex_prog_accepted_and_returns :
  (exists vs, trc_prog ex_prog = Some vs /\ length vs = 3%nat) /\
  cgo_call 200 ex_prog "Use" [LitV (LitInt 48); LitV (LitBool true)] = Some (LitV (LitInt 8)) /\
  cgo_call 200 ex_prog "Gcd" [LitV (LitInt 48); LitV (LitInt 18)] = Some (LitV (LitInt 6)).
Proof. split; [eexists; split; [vm_compute; reflexivity|reflexivity]|split; vm_compute; reflexivity]. Qed.

(* the restrictions are needed: a package in which a later function is used
   before it is emitted, or two functions call each other, has no translation *)
Lemma rejects_use_before_definition :
  trc_prog [ex_use; ex_gcd; ex_seven] = None.
Proof. vm_compute. reflexivity. Qed.

(* ---------------------------------------------------------------- Go's result is well defined *)
(* one unfolding of the fuelled semantics *)
Lemma cgo_expr_S n P r e : cgo_expr (S n) P r e =
  match e with
  | CLit k => Some (LitV (LitInt k))
  | CBool b => Some (LitV (LitBool b))
  | CVar x => elookup x r
  | CBin OLAnd a b =>
      match cgo_expr n P r a with
      | Some (LitV (LitBool true)) => match cgo_expr n P r b with Some (LitV (LitBool x)) => Some (LitV (LitBool x)) | _ => None end
      | Some (LitV (LitBool false)) => Some (LitV (LitBool false))
      | _ => None
      end
  | CBin OLOr a b =>
      match cgo_expr n P r a with
      | Some (LitV (LitBool true)) => Some (LitV (LitBool true))
      | Some (LitV (LitBool false)) => match cgo_expr n P r b with Some (LitV (LitBool x)) => Some (LitV (LitBool x)) | _ => None end
      | _ => None
      end
  | CBin op a b =>
      match cgo_expr n P r a, cgo_expr n P r b with
      | Some va, Some vb => go_binop op va vb
      | _, _ => None
      end
  | CNot a =>
      match cgo_expr n P r a with
      | Some (LitV (LitBool b)) => Some (LitV (LitBool (negb b)))
      | _ => None
      end
  | CCall f args =>
      match elookup f r, find_func f P, cgo_args n P r args with
      | None, Some fn, Some vs =>
          if Nat.eqb (length vs) (length (cf_params fn))
          then cgo_body n P (rev (combine (cf_params fn) vs)) (cf_body fn)
          else None
      | _, _, _ => None
      end
  end.
Proof. reflexivity. Qed.

Lemma cgo_args_S n P r args : cgo_args (S n) P r args =
  match args with
  | CANil => Some []
  | CACons a rest =>
      match cgo_expr n P r a, cgo_args n P r rest with
      | Some v, Some vs => Some (v :: vs)
      | _, _ => None
      end
  end.
Proof. reflexivity. Qed.

Lemma cgo_body_S n P r b : cgo_body (S n) P r b =
  match b with
  | CRet e => cgo_expr n P r e
  | CLet x e k =>
      match cgo_expr n P r e with
      | Some v => cgo_body n P ((x, v) :: r) k
      | None => None
      end
  | CIf c th el =>
      match cgo_expr n P r c with
      | Some (LitV (LitBool cb)) => cgo_body n P r (if cb then th else el)
      | _ => None
      end
  end.
Proof. reflexivity. Qed.

(* more fuel does not change a result: "Go returns v" does not depend on the
   fuel the run was given *)
Lemma cgo_mono : forall n,
  (forall P r e v, cgo_expr n P r e = Some v -> cgo_expr (S n) P r e = Some v) /\
  (forall P r a vs, cgo_args n P r a = Some vs -> cgo_args (S n) P r a = Some vs) /\
  (forall P r b v, cgo_body n P r b = Some v -> cgo_body (S n) P r b = Some v).
Proof.
  induction n as [|n (IHE & IHA & IHB)].
  { split; [|split]; intros; discriminate. }
  split; [|split].
  - intros P r e v H. rewrite cgo_expr_S in H. rewrite cgo_expr_S.
    destruct e as [k|b|x|op a b|a|f args]; try exact H.
    + destruct op;
        try (destruct (cgo_expr n P r a) as [va|] eqn:Ea; [|discriminate]; rewrite (IHE _ _ _ _ Ea);
             destruct (cgo_expr n P r b) as [vb|] eqn:Eb; [|discriminate]; rewrite (IHE _ _ _ _ Eb); exact H).
      * destruct (cgo_expr n P r a) as [va|] eqn:Ea; [|discriminate]. rewrite (IHE _ _ _ _ Ea).
        destruct va as [[| | |[]| | | |]| | |]; try discriminate; [|exact H].
        destruct (cgo_expr n P r b) as [vb|] eqn:Eb; [|discriminate]. rewrite (IHE _ _ _ _ Eb). exact H.
      * destruct (cgo_expr n P r a) as [va|] eqn:Ea; [|discriminate]. rewrite (IHE _ _ _ _ Ea).
        destruct va as [[| | |[]| | | |]| | |]; try discriminate; [exact H|].
        destruct (cgo_expr n P r b) as [vb|] eqn:Eb; [|discriminate]. rewrite (IHE _ _ _ _ Eb). exact H.
    + destruct (cgo_expr n P r a) as [va|] eqn:Ea; [|discriminate]. rewrite (IHE _ _ _ _ Ea). exact H.
    + destruct (elookup f r); [discriminate|].
      destruct (find_func f P) as [fg|]; [|discriminate].
      destruct (cgo_args n P r args) as [vs|] eqn:Ea; [|discriminate]. rewrite (IHA _ _ _ _ Ea).
      destruct (Nat.eqb (length vs) (length (cf_params fg))); [|discriminate]. apply IHB, H.
  - intros P r a vs H. rewrite cgo_args_S in H. rewrite cgo_args_S. destruct a as [|a rest]; [exact H|].
    destruct (cgo_expr n P r a) as [v|] eqn:Ea; [|discriminate]. rewrite (IHE _ _ _ _ Ea).
    destruct (cgo_args n P r rest) as [vs'|] eqn:Er; [|discriminate]. rewrite (IHA _ _ _ _ Er). exact H.
  - intros P r b v H. rewrite cgo_body_S in H. rewrite cgo_body_S. destruct b as [e|x e k|c th el].
    + apply IHE, H.
    + destruct (cgo_expr n P r e) as [v1|] eqn:Ee; [|discriminate]. rewrite (IHE _ _ _ _ Ee). apply IHB, H.
    + destruct (cgo_expr n P r c) as [vc|] eqn:Ec; [|discriminate]. rewrite (IHE _ _ _ _ Ec).
      destruct vc as [[| | |cb| | | |]| | |]; try discriminate. apply IHB, H.
Qed.

Theorem cgo_call_fuel_irrelevant P f args n m v w :
  cgo_call n P f args = Some v -> cgo_call m P f args = Some w -> v = w.
Proof.
  assert (Hle : forall k n0 b r v0, cgo_body n0 P r b = Some v0 -> cgo_body (k + n0) P r b = Some v0).
  { induction k as [|k IH]; intros n0 b r v0 H; [exact H|]. cbn [Nat.add]. apply (proj2 (proj2 (cgo_mono (k + n0)))), IH, H. }
  unfold cgo_call. destruct (find_func f P) as [fn|]; [|discriminate].
  destruct (Nat.eqb (length args) (length (cf_params fn))); [|discriminate].
  intros Hn Hm. pose proof (Hle m _ _ _ _ Hn) as H1. pose proof (Hle n _ _ _ _ Hm) as H2.
  rewrite Nat.add_comm in H2. rewrite H1 in H2. injection H2 as ->. reflexivity.
Qed.

(* ---------------------------------------------------------------- accepted packages are in dependency order *)
(* (the premise of C04's defined-before-use, for this fragment: what trc_prog
   accepts is emitted callee first, under pairwise distinct names, one value
   per function) *)
Local Open Scope list_scope.

Lemma NoDup_app_snoc {A} (l : list A) x : NoDup l -> ~ In x l -> NoDup (l ++ [x]).
Proof.
  induction l as [|y l IH]; cbn [app]; intros Hnd Hn.
  - constructor; [intros []|constructor].
  - inversion Hnd; subst. constructor.
    + intros Hin. apply in_app_or in Hin. destruct Hin as [Hin|[->|[]]]; [contradiction|]. apply Hn. left; reflexivity.
    + apply IH; [assumption|]. intros Hin. apply Hn. right; exact Hin.
Qed.

Fixpoint callees_e (e : cexpr) : list string :=
  match e with
  | CLit _ | CBool _ | CVar _ => []
  | CBin _ a b => callees_e a ++ callees_e b
  | CNot a => callees_e a
  | CCall f args => f :: callees_a args
  end
with callees_a (a : cargs) : list string :=
  match a with
  | CANil => []
  | CACons e rest => callees_e e ++ callees_a rest
  end.

Fixpoint callees_b (b : cbody) : list string :=
  match b with
  | CRet e => callees_e e
  | CLet _ e k => callees_e e ++ callees_b k
  | CIf c th el => callees_e c ++ callees_b th ++ callees_b el
  end.

Scheme cexpr_ind2 := Induction for cexpr Sort Prop
  with cargs_ind2 := Induction for cargs Sort Prop.
Combined Scheme cexpr_cargs_ind from cexpr_ind2, cargs_ind2.

Lemma flookup_In f T v : flookup f T = Some v -> In f (map fst T).
Proof.
  induction T as [|[g w] T IH]; cbn [flookup map fst In]; [discriminate|].
  destruct (String.eqb f g) eqn:E; [apply String.eqb_eq in E; auto|auto].
Qed.

Lemma trc_callees T self :
  (forall e G e', trc_expr T self G e = Some e' -> forall g, In g (callees_e e) -> g = self \/ In g (map fst T)) /\
  (forall a G acc e', trc_args T self G a acc = Some e' -> forall g, In g (callees_a a) -> g = self \/ In g (map fst T)).
Proof.
  apply cexpr_cargs_ind.
  - intros n G e' _ g [].
  - intros b G e' _ g [].
  - intros x G e' _ g [].
  - intros op a IHa b IHb G e' H g Hin. cbn [trc_expr] in H.
    destruct (trc_expr T self G a) eqn:Ea; [|discriminate]. destruct (trc_expr T self G b) eqn:Eb; [|discriminate].
    cbn [callees_e] in Hin. apply in_app_or in Hin. destruct Hin; eauto.
  - intros a IHa G e' H g Hin. cbn [trc_expr] in H. destruct (trc_expr T self G a) eqn:Ea; [|discriminate]. eauto.
  - intros f args IHargs G e' H g Hin. cbn [trc_expr] in H. destruct (smem f G); [discriminate|].
    cbn [callees_e In] in Hin. destruct Hin as [<-|Hin].
    + destruct (String.eqb f self) eqn:Es; [left; apply String.eqb_eq, Es|].
      destruct (flookup f T) eqn:Ef; [right; eapply flookup_In, Ef|discriminate].
    + destruct (if String.eqb f self then Some (Var f) else option_map Val (flookup f T)) as [fe|]; [|discriminate].
      destruct args as [|a rest]; [destruct Hin|]. eapply IHargs; eassumption.
  - intros G acc e' _ g [].
  - intros a IHa rest IHrest G acc e' H g Hin. cbn [trc_args] in H.
    destruct (trc_expr T self G a) eqn:Ea; [|discriminate].
    cbn [callees_a] in Hin. apply in_app_or in Hin. destruct Hin; eauto.
Qed.

Lemma trc_body_callees T self : forall b G b', trc_body T self G b = Some b' ->
  forall g, In g (callees_b b) -> g = self \/ In g (map fst T).
Proof.
  induction b as [e|x e k IHk|c th IHt el IHe]; intros G b' H g Hin; cbn [trc_body callees_b] in H, Hin.
  - eapply (proj1 (trc_callees T self)); eassumption.
  - destruct (trc_expr T self G e) eqn:Ee; [|discriminate]. destruct (trc_body T self (x :: G) k) eqn:Ek; [|discriminate].
    apply in_app_or in Hin. destruct Hin; [eapply (proj1 (trc_callees T self)); eassumption|eauto].
  - destruct (trc_expr T self G c) eqn:Ec; [|discriminate]. destruct (trc_body T self G th) eqn:Et; [|discriminate].
    destruct (trc_body T self G el) eqn:El; [|discriminate].
    apply in_app_or in Hin. destruct Hin as [Hin|Hin]; [eapply (proj1 (trc_callees T self)); eassumption|].
    apply in_app_or in Hin. destruct Hin; eauto.
Qed.

Lemma prog_order : forall P1 P0 T R, map fst T = rev (map cf_name P0) ->
  trc_prog_from T P1 = Some R ->
  length R = length P1 /\
  (NoDup (map cf_name P0) -> NoDup (map cf_name (P0 ++ P1))) /\
  forall i fn g, nth_error P1 i = Some fn -> In g (callees_b (cf_body fn)) ->
    g = cf_name fn \/ In g (map cf_name P0) \/ exists j gn, j < i /\ nth_error P1 j = Some gn /\ cf_name gn = g.
Proof.
  induction P1 as [|fn P1 IH]; intros P0 T R Hfst Htr; cbn [trc_prog_from] in Htr.
  - injection Htr as <-. split; [reflexivity|]. split; [rewrite app_nil_r; auto|]. intros [|i] ? ? H; discriminate H.
  - destruct (negb (smem (cf_name fn) (map fst T))) eqn:Enm; [|discriminate].
    destruct (trc_func T fn) as [v|] eqn:Ef; [|discriminate].
    destruct (trc_prog_from ((cf_name fn, v) :: T) P1) as [R'|] eqn:Er; [|discriminate]. injection Htr as <-.
    assert (Hfst' : map fst ((cf_name fn, v) :: T) = rev (map cf_name (P0 ++ [fn]))).
    { cbn [map fst]. rewrite map_app, rev_app_distr. cbn [map rev app]. rewrite Hfst. reflexivity. }
    destruct (IH (P0 ++ [fn]) _ _ Hfst' Er) as (Hlen & Hnd & Hcalls).
    assert (Hfresh : ~ In (cf_name fn) (map cf_name P0)).
    { intros Hin. apply in_rev in Hin. rewrite <- Hfst in Hin. apply smem_In in Hin. rewrite Hin in Enm. discriminate. }
    split; [cbn [length]; rewrite Hlen; reflexivity|]. split.
    + intros Hnd0. replace (P0 ++ fn :: P1) with ((P0 ++ [fn]) ++ P1) by (rewrite <- app_assoc; reflexivity).
      apply Hnd. rewrite map_app. cbn [map]. apply NoDup_app_snoc; assumption.
    + intros [|i] f0 g Hn Hin; cbn [nth_error] in Hn.
      * injection Hn as <-. unfold trc_func in Ef.
        destruct (nodupb (cf_params fn) && negb (smem (cf_name fn) (cf_params fn))); [|discriminate].
        destruct (trc_body T (cf_name fn) (rev (cf_params fn)) (cf_body fn)) eqn:Eb; [|discriminate].
        destruct (trc_body_callees _ _ _ _ _ Eb g Hin) as [->|HinT]; [left; reflexivity|].
        right. left. rewrite Hfst in HinT. apply in_rev, HinT.
      * destruct (Hcalls i f0 g Hn Hin) as [->|[Hin0|(j & gn & Hj & Hnj & Hg)]]; [left; reflexivity| |].
        -- rewrite map_app in Hin0. apply in_app_or in Hin0. destruct Hin0 as [Hin0|[<-|[]]]; [right; left; exact Hin0|].
           right. right. exists 0, fn. split; [apply Nat.lt_0_succ|]. split; reflexivity.
        -- right. right. exists (S j), gn. split; [apply -> Nat.succ_lt_mono; exact Hj|]. split; assumption.
Qed.

Theorem accepted_in_dependency_order P vs : trc_prog P = Some vs ->
  length vs = length P /\ NoDup (map cf_name P) /\
  forall i fn g, nth_error P i = Some fn -> In g (callees_b (cf_body fn)) ->
    g = cf_name fn \/ exists j gn, j < i /\ nth_error P j = Some gn /\ cf_name gn = g.
Proof.
  unfold trc_prog. destruct (trc_prog_from [] P) as [R|] eqn:Er; [|discriminate]. cbn [option_map]. intros [= <-].
  destruct (prog_order P [] [] R eq_refl Er) as (Hlen & Hnd & Hcalls).
  split; [rewrite map_length; exact Hlen|]. split; [apply (Hnd (NoDup_nil _))|].
  intros i fn g Hn Hin. destruct (Hcalls i fn g Hn Hin) as [H|[[]|H]]; auto.
Qed.

(* ---------------------------------------------------------------- rejected or faithful *)
Theorem prog_rejected_or_faithful P :
  trc_prog P = None \/
  exists vs, trc_prog P = Some vs /\
    Forall2 (fun fn F => forall n args v s,
               length args = length (cf_params fn) ->
               cgo_body n P (rev (combine (cf_params fn) args)) (cf_body fn) = Some v ->
               evals (call_expr F args) s v s) P vs.
Proof.
  destruct (trc_prog P) as [vs|] eqn:E; [right|left; reflexivity].
  exists vs. split; [reflexivity|apply prog_correct, E].
Qed.

(* the refusals of the fragment: a parameter with the name of its function
   (the recursion binder would capture it), for any body and any other
   parameters; two parameters of one name; two functions of one name *)
Lemma rejects_param_named_like_function T name ps1 ps2 body :
  trc_func T {| cf_name := name; cf_params := ps1 ++ name :: ps2; cf_body := body |} = None.
Proof.
  unfold trc_func. cbn [cf_name cf_params].
  assert (H : smem name (ps1 ++ name :: ps2) = true).
  { apply smem_In, in_or_app. right. left. reflexivity. }
  rewrite H. cbn [negb]. rewrite andb_false_r. reflexivity.
Qed.

Lemma rejects_two_functions_of_one_name T fn P R :
  In (cf_name fn) (map fst T) -> trc_prog_from T (fn :: P) = R -> R = None.
Proof.
  intros Hin <-. cbn [trc_prog_from]. apply smem_In in Hin. rewrite Hin. reflexivity.
Qed.

Lemma rejects_call_of_unknown_function T self G f args :
  String.eqb f self = false -> flookup f T = None -> trc_expr T self G (CCall f args) = None.
Proof. intros Hs Hf. cbn [trc_expr]. rewrite Hs, Hf. destruct (smem f G); reflexivity. Qed.

(* ---------------------------------------------------------------- on the thread machine *)
(* the machine of C03 (Lang/GlConc.v; on one thread, with condition-variable
   waits as the sequential semantics executes them) runs the emitted call to
   the value Go returns *)
From GV Require Import Lang.GlConc Lang.GlMachineSeq.

Lemma Forall2_weaken {A B} (R1 R2 : A -> B -> Prop) l1 l2 :
  (forall a b, R1 a b -> R2 a b) -> Forall2 R1 l1 l2 -> Forall2 R2 l1 l2.
Proof. intros Hi HF. induction HF; constructor; auto. Qed.

Theorem prog_correct_on_the_machine P vs :
  trc_prog P = Some vs ->
  Forall2 (fun fn F => forall n args v s,
             length args = length (cf_params fn) ->
             cgo_body n P (rev (combine (cf_params fn) args)) (cf_body fn) = Some v ->
             exists k, mrun_seq k (call_expr F args) s = Some (v, s)) P vs.
Proof.
  intros Htr. refine (Forall2_weaken _ _ _ _ _ (prog_correct P vs Htr)).
  intros fn F H n args v s Hlen Hgo. destruct (H n args v s Hlen Hgo) as [m Hm].
  exact (eval_is_mrun_seq m _ _ _ _ Hm).
Qed.
