(* Calls preserve meaning: for a package of the MiniGoC fragment that the
   translator model accepts, every function, every argument vector and every
   run of Go that returns, the value goose emits for the function, applied to
   the arguments, evaluates under the reference semantics to the value Go
   returns - through any depth of calls and recursion. *)
From Coq Require Import String List ZArith Bool Lia.
From GV Require Import Lang.GlSyntax Lang.GlSem Lang.GlSemProofs Tr.MiniGo Tr.MiniGoProofs Tr.MiniGoC.
Import ListNotations.
Local Open Scope nat_scope.
Local Open Scope list_scope.

(* ---------------------------------------------------------------- applications *)
(* an argument that evaluates without touching the store can be replaced by its value *)
Lemma evals_app_arg X a v s w s' :
  evals a s v s -> evals (App X (Val v)) s w s' -> evals (App X a) s w s'.
Proof.
  intros [k Ha] [n H]. destruct n as [|[|n]]; try discriminate.
  assert (Hle : S (S n) <= S (S (k + n))) by lia.
  pose proof (evals_fuel _ _ _ _ _ (S (S (k + n))) H Hle) as H'.
  exists (S (S (k + n))). rewrite eval_S_unfold in H' |- *. unfold eval_step at 1 in H'. unfold eval_step at 1.
  change (eval (S (k + n)) (Val v) s) with (RVal v s) in H'. cbv iota in H'.
  rewrite (evals_fuel _ _ _ _ _ (S (k + n)) Ha) by lia. exact H'.
Qed.

Lemma evals_apps_args : forall es vs F s w s',
  Forall2 (fun a v => forall s0, evals a s0 v s0) es vs ->
  evals (fold_left App (map Val vs) F) s w s' -> evals (fold_left App es F) s w s'.
Proof.
  induction es as [|a es IH]; intros vs F s w s' HF H; inversion HF as [|? v ? vs' Ha HF']; subst; cbn [map fold_left] in *; [exact H|].
  eapply IH; [exact HF'|]. revert H. apply sim_apps. intros s0 w0 s0' H0. eapply evals_app_arg; [apply Ha|exact H0].
Qed.

Lemma close_apps r es F : close r (fold_left App es F) = fold_left App (map (close r) es) (close r F).
Proof. revert F; induction es as [|a es IH]; intros F; cbn [map fold_left]; [reflexivity|]. rewrite IH, close_app. reflexivity. Qed.

(* the emitted definition applied to all its arguments enters the body with
   the parameters bound to the arguments and its own name to itself *)
Lemma call_protocol name p ps body args s v s' :
  NoDup (name :: p :: ps) -> length args = length (p :: ps) ->
  evals (close (rev (combine (p :: ps) args) ++ [(name, RecV (BNamed name) (BNamed p) (lams ps body))]) body) s v s' ->
  evals (fold_left App (map Val args) (Val (RecV (BNamed name) (BNamed p) (lams ps body)))) s v s'.
Proof.
  intros Hnd Hlen Hev. set (F := RecV (BNamed name) (BNamed p) (lams ps body)) in *.
  inversion Hnd as [|? ? Hname Hnd1]; subst. inversion Hnd1 as [|? ? Hp1 Hnd2]; subst.
  destruct args as [|a1 args]; [discriminate|]. cbn [length] in Hlen.
  assert (Hlps : length args = length ps) by lia.
  rewrite close_app_list in Hev.
  rewrite close_rev_nodup in Hev by (rewrite map_fst_combine by (cbn [length]; lia); constructor; assumption).
  cbn [combine close] in Hev.
  rewrite <- close_subst_comm in Hev by (rewrite map_fst_combine by lia; intros Hc; apply Hname; right; exact Hc).
  cbn [map fold_left].
  assert (Hne : name <> p) by (intros ->; apply Hname; left; reflexivity).
  eapply (sim_apps _ _ args (sim_beta_rec name p (lams ps body) a1 Hne)).
  rewrite !subst_lams by (intros Hc; first [apply Hp1, Hc | apply Hname; right; exact Hc]).
  apply (sim_lams ps args _ Hnd2 Hlps). exact Hev.
Qed.

Lemma call_protocol0 name body s v s' :
  evals (close [(name, RecV (BNamed name) BAnon body)] body) s v s' ->
  evals (App (Val (RecV (BNamed name) BAnon body)) UnitE) s v s'.
Proof.
  intros [n H]. cbn [close] in H. exists (S (S n)). rewrite eval_S_unfold. unfold eval_step at 1. unfold UnitE.
  change (eval (S n) (Val (LitV LitUnit)) s) with (RVal (LitV LitUnit) s). cbv iota.
  change (eval (S n) (Val (RecV (BNamed name) BAnon body)) s) with (RVal (RecV (BNamed name) BAnon body) s). cbv iota.
  cbn [subst']. apply (evals_fuel _ _ _ _ _ (S n) H). lia.
Qed.

(* what the caller writes: f #() for a function without parameters *)
Definition call_expr (F : val) (args : list val) : expr :=
  match args with
  | [] => App (Val F) UnitE
  | _ => fold_left App (map Val args) (Val F)
  end.

(* ---------------------------------------------------------------- lookups *)
Lemma smem_In x l : smem x l = true <-> In x l.
Proof.
  induction l as [|y l IH]; cbn [smem In]; [split; [discriminate|tauto]|].
  rewrite orb_true_iff, IH, String.eqb_eq. split; intros [H|H]; auto.
Qed.

Lemma nodupb_NoDup l : nodupb l = true -> NoDup l.
Proof.
  induction l as [|x l IH]; cbn [nodupb]; intros H; [constructor|].
  apply andb_true_iff in H. destruct H as [H1 H2]. constructor; [|apply IH, H2].
  intros Hin. apply smem_In in Hin. rewrite Hin in H1. discriminate.
Qed.

Lemma clookup_app_l x r E v : elookup x r = Some v -> clookup x (r ++ E) = Some v.
Proof. induction r as [|[y w] r IH]; cbn [elookup clookup app]; [discriminate|]. destruct (String.eqb x y); auto. Qed.

Lemma clookup_app_r x r F : elookup x r = None -> clookup x (r ++ [(x, F)]) = Some F.
Proof.
  induction r as [|[y w] r IH]; cbn [elookup clookup app].
  - rewrite String.eqb_refl. reflexivity.
  - destruct (String.eqb x y); [discriminate|exact IH].
Qed.

Lemma find_func_name f P fn : find_func f P = Some fn -> cf_name fn = f.
Proof.
  induction P as [|g P IH]; cbn [find_func]; [discriminate|].
  destruct (String.eqb f (cf_name g)) eqn:E; [|exact IH]. intros [= <-]. apply String.eqb_eq in E. auto.
Qed.

Lemma find_func_app P0 fn P1 : ~ In (cf_name fn) (map cf_name P0) -> find_func (cf_name fn) (P0 ++ fn :: P1) = Some fn.
Proof.
  induction P0 as [|g P0 IH]; cbn [app find_func map In]; intros Hn.
  - rewrite String.eqb_refl. reflexivity.
  - destruct (String.eqb (cf_name fn) (cf_name g)) eqn:E.
    + apply String.eqb_eq in E. exfalso. apply Hn. left. auto.
    + apply IH. tauto.
Qed.

(* ---------------------------------------------------------------- tables *)
(* a table all of whose entries are translations of functions of the package,
   each against the table before it *)
Inductive good (P : cprog) : ftable -> Prop :=
| good_nil : good P []
| good_cons T fn v : good P T -> find_func (cf_name fn) P = Some fn -> trc_func T fn = Some v ->
    good P ((cf_name fn, v) :: T).

Definition inside (P : cprog) (T : ftable) (fn : cfunc) (F : val) : Prop :=
  good P T /\ find_func (cf_name fn) P = Some fn /\ trc_func T fn = Some F.

Lemma good_lookup P T g v : good P T -> flookup g T = Some v ->
  exists Tg fn, inside P Tg fn v /\ cf_name fn = g.
Proof.
  induction 1 as [|T fn w Hg IH Hf Ht]; cbn [flookup]; [discriminate|].
  destruct (String.eqb g (cf_name fn)) eqn:E.
  - apply String.eqb_eq in E. subst g. intros [= <-]. exists T, fn. repeat split; auto.
  - exact IH.
Qed.

(* ---------------------------------------------------------------- the theorem *)
Section Main.
Variable P : cprog.

Definition PE (n : nat) : Prop := forall T fn F r e e' v s, inside P T fn F ->
  trc_expr T (cf_name fn) (map fst r) e = Some e' -> cgo_expr n P r e = Some v ->
  evals (close (r ++ [(cf_name fn, F)]) e') s v s.

Definition PA (n : nat) : Prop := forall T fn F r args acc e' vs, inside P T fn F ->
  trc_args T (cf_name fn) (map fst r) args acc = Some e' -> cgo_args n P r args = Some vs ->
  exists es, e' = fold_left App es acc /\
    Forall2 (fun a v => forall s, evals (close (r ++ [(cf_name fn, F)]) a) s v s) es vs.

Definition PB (n : nat) : Prop := forall T fn F r b b' v s, inside P T fn F ->
  trc_body T (cf_name fn) (map fst r) b = Some b' -> cgo_body n P r b = Some v ->
  evals (close (r ++ [(cf_name fn, F)]) b') s v s.

(* entering a function: from the body to the application of the emitted value *)
Lemma enter_correct n T fn F args v s : PB n -> inside P T fn F ->
  length args = length (cf_params fn) ->
  cgo_body n P (rev (combine (cf_params fn) args)) (cf_body fn) = Some v ->
  evals (call_expr F args) s v s.
Proof.
  intros HB Hin Hlen Hgo. pose proof Hin as (Hg & Hf & Ht). unfold trc_func in Ht.
  destruct (nodupb (cf_params fn) && negb (smem (cf_name fn) (cf_params fn))) eqn:Ec; [|discriminate].
  apply andb_true_iff in Ec. destruct Ec as [Hnd Hnm].
  destruct (trc_body T (cf_name fn) (rev (cf_params fn)) (cf_body fn)) as [body|] eqn:Eb; [|discriminate].
  assert (Hfst : map fst (rev (combine (cf_params fn) args)) = rev (cf_params fn)).
  { rewrite map_rev, map_fst_combine by lia. reflexivity. }
  rewrite <- Hfst in Eb.
  pose proof (HB T fn F _ _ _ v s Hin Eb Hgo) as Hev.
  destruct (cf_params fn) as [|p ps] eqn:Eps.
  - destruct args; [|discriminate]. injection Ht as <-. cbn [call_expr]. apply call_protocol0. exact Hev.
  - destruct args as [|a1 args]; [discriminate|]. injection Ht as <-. cbn [call_expr].
    apply call_protocol; [|exact Hlen|exact Hev].
    constructor; [|apply nodupb_NoDup, Hnd].
    intros Hin'. apply smem_In in Hin'. rewrite Hin' in Hnm. discriminate.
Qed.

Theorem all_correct : forall n, PE n /\ PA n /\ PB n.
Proof.
  induction n as [|n (IHE & IHA & IHB)].
  { unfold PE, PA, PB. split; [|split]; intros;
    match goal with H0 : _ O _ _ _ = Some _ |- _ => cbn in H0; discriminate H0 end. }
  split; [|split].
  - (* expressions *)
    intros T fn F r e e' v s Hin Htr Hgo. set (cs := (r ++ [(cf_name fn, F)])%list).
    destruct e as [k|b|x|op a b|a|f args].
    + cbn in Htr, Hgo. injection Htr as <-. injection Hgo as <-. unfold Lit. rewrite close_val. apply evals_val.
    + cbn in Htr, Hgo. injection Htr as <-. injection Hgo as <-. unfold BoolE. rewrite close_val. apply evals_val.
    + cbn [trc_expr] in Htr. destruct (smem x (map fst r)); [|discriminate]. injection Htr as <-.
      cbn [cgo_expr] in Hgo. unfold cs. rewrite close_var, (clookup_app_l _ _ _ _ Hgo). apply evals_val.
    + cbn [trc_expr] in Htr.
      destruct (trc_expr T (cf_name fn) (map fst r) a) as [a'|] eqn:Ea; [|discriminate].
      destruct (trc_expr T (cf_name fn) (map fst r) b) as [b'|] eqn:Eb; [|discriminate].
      destruct op.
      all: try (cbn [cgo_expr] in Hgo;
                destruct (cgo_expr n P r a) as [va|] eqn:Ga; [|discriminate];
                destruct (cgo_expr n P r b) as [vb|] eqn:Gb; [|discriminate];
                pose proof (IHE _ _ _ _ _ _ _ s Hin Ea Ga) as Ha; pose proof (IHE _ _ _ _ _ _ _ s Hin Eb Gb) as Hb;
                eapply go_binop_sound; [exact Hgo|exact Ha|exact Hb|apply close_tr_binop, Htr|discriminate|discriminate]).
      * (* && *)
        cbn [tr_binop] in Htr. injection Htr as <-. cbn [cgo_expr] in Hgo.
        destruct (cgo_expr n P r a) as [[[| | |[]| | | |]| | |]|] eqn:Ga; try discriminate;
          pose proof (IHE _ _ _ _ _ _ _ s Hin Ea Ga) as Ha; rewrite close_if.
        -- destruct (cgo_expr n P r b) as [[[| | |x| | | |]| | |]|] eqn:Gb; try discriminate. injection Hgo as <-.
           eapply evals_if; [exact Ha|]. cbn. apply (IHE _ _ _ _ _ _ _ s Hin Eb Gb).
        -- injection Hgo as <-. eapply evals_if; [exact Ha|]. cbn. unfold BoolE. rewrite close_val. apply evals_val.
      * (* || *)
        cbn [tr_binop] in Htr. injection Htr as <-. cbn [cgo_expr] in Hgo.
        destruct (cgo_expr n P r a) as [[[| | |[]| | | |]| | |]|] eqn:Ga; try discriminate;
          pose proof (IHE _ _ _ _ _ _ _ s Hin Ea Ga) as Ha; rewrite close_if.
        -- injection Hgo as <-. eapply evals_if; [exact Ha|]. cbn. unfold BoolE. rewrite close_val. apply evals_val.
        -- destruct (cgo_expr n P r b) as [[[| | |x| | | |]| | |]|] eqn:Gb; try discriminate. injection Hgo as <-.
           eapply evals_if; [exact Ha|]. cbn. apply (IHE _ _ _ _ _ _ _ s Hin Eb Gb).
    + cbn [trc_expr] in Htr. destruct (trc_expr T (cf_name fn) (map fst r) a) as [a'|] eqn:Ea; [|discriminate]. injection Htr as <-.
      cbn [cgo_expr] in Hgo. destruct (cgo_expr n P r a) as [[[| | |x| | | |]| | |]|] eqn:Ga; try discriminate. injection Hgo as <-.
      rewrite close_unop. eapply evals_unop; [apply (IHE _ _ _ _ _ _ _ s Hin Ea Ga)|reflexivity].
    + (* calls *)
      cbn [trc_expr] in Htr. destruct (smem f (map fst r)) eqn:Esm; [discriminate|].
      cbn [cgo_expr] in Hgo.
      destruct (elookup f r) as [?|] eqn:El; [discriminate|].
      destruct (find_func f P) as [fg|] eqn:Ef; [|discriminate].
      destruct (cgo_args n P r args) as [vs|] eqn:Eargs; [|discriminate].
      destruct (Nat.eqb (length vs) (length (cf_params fg))) eqn:Elen; [|discriminate].
      apply Nat.eqb_eq in Elen.
      (* the callee: the emitted value the function part closes to *)
      assert (Hcallee : exists fe, (if String.eqb f (cf_name fn) then Some (Var f) else option_map Val (flookup f T)) = Some fe /\
                exists Tg Fg, inside P Tg fg Fg /\ close cs fe = Val Fg).
      { destruct (String.eqb f (cf_name fn)) eqn:Eself.
        - apply String.eqb_eq in Eself. subst f. exists (Var (cf_name fn)). split; [reflexivity|].
          exists T, F. destruct Hin as (Hg & Hf & Ht). rewrite Hf in Ef. injection Ef as <-.
          split; [repeat split; assumption|]. unfold cs. rewrite close_var, (clookup_app_r _ _ _ El). reflexivity.
        - destruct (flookup f T) as [vg|] eqn:Efl; [|exfalso; cbn in Htr; discriminate Htr].
          exists (Val vg). split; [reflexivity|].
          destruct Hin as (Hg & _ & _). destruct (good_lookup _ _ _ _ Hg Efl) as (Tg & fn' & Hin' & Hname).
          pose proof Hin' as (_ & Hf' & _). rewrite Hname, Ef in Hf'. injection Hf' as <-.
          exists Tg, vg. split; [exact Hin'|apply close_val]. }
      destruct Hcallee as (fe & Efe & Tg & Fg & Hing & Hcl). rewrite Efe in Htr.
      pose proof (enter_correct n Tg fg Fg vs v s IHB Hing Elen Hgo) as Hcall.
      destruct args as [|a rest].
      * injection Htr as <-. destruct n as [|n']; [discriminate|]. cbn [cgo_args] in Eargs. injection Eargs as <-.
        cbn [call_expr] in Hcall. rewrite close_app, Hcl. unfold UnitE. rewrite close_val. exact Hcall.
      * destruct (IHA _ _ _ _ _ _ _ _ Hin Htr Eargs) as (es & -> & HF).
        rewrite close_apps, Hcl.
        assert (Hvs : vs <> []).
        { destruct n as [|n']; [discriminate|]. cbn [cgo_args] in Eargs.
          destruct (cgo_expr n' P r a); [|discriminate]. destruct (cgo_args n' P r rest); [|discriminate]. injection Eargs as <-. discriminate. }
        destruct vs as [|v1 vs]; [congruence|]. cbn [call_expr] in Hcall.
        eapply evals_apps_args; [|exact Hcall].
        clear -HF. induction HF as [|a0 v0 es0 vs0 H0 _ IH]; cbn [map]; constructor; auto.
  - (* arguments *)
    intros T fn F r args acc e' vs Hin Htr Hgo. destruct args as [|a rest]; cbn [trc_args cgo_args] in Htr, Hgo.
    + injection Htr as <-. injection Hgo as <-. exists []. split; [reflexivity|constructor].
    + destruct (trc_expr T (cf_name fn) (map fst r) a) as [a'|] eqn:Ea; [|discriminate].
      destruct (cgo_expr n P r a) as [v|] eqn:Ga; [|discriminate].
      destruct (cgo_args n P r rest) as [vs'|] eqn:Gr; [|discriminate]. injection Hgo as <-.
      destruct (IHA _ _ _ _ _ _ _ _ Hin Htr Gr) as (es & -> & HF).
      exists (a' :: es). split; [reflexivity|]. constructor; [|exact HF].
      intros s. apply (IHE _ _ _ _ _ _ _ s Hin Ea Ga).
  - (* bodies *)
    intros T fn F r b b' v s Hin Htr Hgo. destruct b as [e|x e k|c th el]; cbn [trc_body cgo_body] in Htr, Hgo.
    + apply (IHE _ _ _ _ _ _ _ s Hin Htr Hgo).
    + destruct (trc_expr T (cf_name fn) (map fst r) e) as [e1|] eqn:Ee; [|discriminate].
      destruct (trc_body T (cf_name fn) (x :: map fst r) k) as [k'|] eqn:Ek; [|discriminate]. injection Htr as <-.
      destruct (cgo_expr n P r e) as [v1|] eqn:Ge; [|discriminate].
      eapply evals_close_letin; [apply (IHE _ _ _ _ _ _ _ s Hin Ee Ge)|].
      cbn [bind]. change ((x, v1) :: r ++ [(cf_name fn, F)])%list with (((x, v1) :: r) ++ [(cf_name fn, F)])%list.
      apply (IHB T fn F ((x, v1) :: r) k k' v s Hin); [exact Ek|exact Hgo].
    + destruct (trc_expr T (cf_name fn) (map fst r) c) as [c'|] eqn:Ec; [|discriminate].
      destruct (trc_body T (cf_name fn) (map fst r) th) as [t'|] eqn:Et; [|discriminate].
      destruct (trc_body T (cf_name fn) (map fst r) el) as [l'|] eqn:El; [|discriminate]. injection Htr as <-.
      destruct (cgo_expr n P r c) as [[[| | |cb| | | |]| | |]|] eqn:Gc; try discriminate.
      rewrite close_if. eapply evals_if; [apply (IHE _ _ _ _ _ _ _ s Hin Ec Gc)|].
      destruct cb; [apply (IHB _ _ _ _ _ _ _ s Hin Et Hgo)|apply (IHB _ _ _ _ _ _ _ s Hin El Hgo)].
Qed.
End Main.

(* ---------------------------------------------------------------- packages *)
Lemma prog_inside P : forall P1 P0 T R, P = (P0 ++ P1)%list -> good P T -> map fst T = rev (map cf_name P0) ->
  trc_prog_from T P1 = Some R ->
  Forall2 (fun fn nv => fst nv = cf_name fn /\ exists Tg, inside P Tg fn (snd nv)) P1 R.
Proof.
  induction P1 as [|fn P1 IH]; intros P0 T R HP Hg Hfst Htr; cbn [trc_prog_from] in Htr.
  - injection Htr as <-. constructor.
  - destruct (negb (smem (cf_name fn) (map fst T))) eqn:Enm; [|discriminate].
    destruct (trc_func T fn) as [v|] eqn:Ef; [|discriminate].
    destruct (trc_prog_from ((cf_name fn, v) :: T) P1) as [R'|] eqn:Er; [|discriminate]. injection Htr as <-.
    assert (Hfind : find_func (cf_name fn) P = Some fn).
    { rewrite HP. apply find_func_app. intros Hin. apply in_rev in Hin. rewrite <- Hfst in Hin.
      apply smem_In in Hin. rewrite Hin in Enm. discriminate. }
    constructor.
    + split; [reflexivity|]. exists T. repeat split; assumption.
    + apply (IH (P0 ++ [fn])%list ((cf_name fn, v) :: T)); [rewrite <- app_assoc; exact HP|constructor; assumption| |exact Er].
      cbn [map fst]. rewrite map_app, rev_app_distr. cbn [map rev app]. rewrite Hfst. reflexivity.
Qed.

(* the i-th emitted value implements the i-th function of the package *)
Theorem prog_correct P vs :
  trc_prog P = Some vs ->
  Forall2 (fun fn F => forall n args v s,
             length args = length (cf_params fn) ->
             cgo_body n P (rev (combine (cf_params fn) args)) (cf_body fn) = Some v ->
             evals (call_expr F args) s v s) P vs.
Proof.
  unfold trc_prog. destruct (trc_prog_from [] P) as [R|] eqn:Er; [|discriminate]. cbn [option_map]. intros [= <-].
  pose proof (prog_inside P P [] [] R eq_refl (good_nil P) eq_refl Er) as HF.
  assert (Hgen : forall Q R1,
            Forall2 (fun fn nv => fst nv = cf_name fn /\ exists Tg, inside P Tg fn (snd nv)) Q R1 ->
            Forall2 (fun fn F => forall n args v s,
                       length args = length (cf_params fn) ->
                       cgo_body n P (rev (combine (cf_params fn) args)) (cf_body fn) = Some v ->
                       evals (call_expr F args) s v s) Q (map snd R1)).
  { intros Q R1 H1. induction H1 as [|fn nv Q1 R2 [_ [Tg Hin]] _ IH]; cbn [map]; constructor; [|exact IH].
    intros n args v s Hlen Hgo.
    destruct (all_correct P n) as (_ & _ & HB). eapply enter_correct; eassumption. }
  apply Hgen, HF.
Qed.

Lemma Forall2_nth {A B} (R : A -> B -> Prop) l1 l2 i a :
  Forall2 R l1 l2 -> nth_error l1 i = Some a -> exists b, nth_error l2 i = Some b /\ R a b.
Proof.
  intros HF. revert i. induction HF as [|x y l1 l2 H _ IH]; intros [|i] Hi; cbn [nth_error] in Hi |- *; try discriminate.
  - injection Hi as ->. exists y. split; [reflexivity|exact H].
  - apply IH, Hi.
Qed.

(* by name, as the harness calls it *)
Theorem call_correct P vs n f args v :
  trc_prog P = Some vs -> cgo_call n P f args = Some v ->
  exists i fn F, nth_error P i = Some fn /\ cf_name fn = f /\ nth_error vs i = Some F /\
    forall s, evals (call_expr F args) s v s.
Proof.
  intros Htr Hgo. pose proof (prog_correct P vs Htr) as HF. unfold cgo_call in Hgo.
  destruct (find_func f P) as [fn|] eqn:Ef; [|discriminate].
  destruct (Nat.eqb (length args) (length (cf_params fn))) eqn:El; [|discriminate]. apply Nat.eqb_eq in El.
  assert (Hin : exists i, nth_error P i = Some fn).
  { clear -Ef. induction P as [|g P IH]; cbn [find_func] in Ef; [discriminate|].
    destruct (String.eqb f (cf_name g)); [injection Ef as <-; exists 0; reflexivity|].
    destruct (IH Ef) as [i Hi]. exists (S i). exact Hi. }
  destruct Hin as [i Hi].
  destruct (Forall2_nth _ _ _ _ _ HF Hi) as (F & HnF & Hc).
  exists i, fn, F. repeat split; auto.
  - eapply find_func_name, Ef.
  - intros s. eapply Hc; eassumption.
Qed.

(* ---------------------------------------------------------------- non-vacuity *)
Open Scope string_scope.
Definition ex_gcd : cfunc := {| cf_name := "Gcd"; cf_params := ["a"; "b"]; cf_body :=
  CIf (CBin OEq (CVar "b") (CLit 0)) (CRet (CVar "a"))
      (CRet (CCall "Gcd" (CACons (CVar "b") (CACons (CBin ORem (CVar "a") (CVar "b")) CANil)))) |}.
Definition ex_seven : cfunc := {| cf_name := "Seven"; cf_params := []; cf_body := CRet (CLit 7) |}.
Definition ex_use : cfunc := {| cf_name := "Use"; cf_params := ["x"; "y"]; cf_body :=
  CLet "z" (CCall "Gcd" (CACons (CBin OAdd (CVar "x") (CLit 1)) (CACons (CCall "Seven" CANil) CANil)))
   (CIf (CBin OLAnd (CVar "y") (CBin OGt (CVar "z") (CLit 3)))
      (CLet "w" (CCall "Use" (CACons (CBin OSub (CVar "x") (CLit 1)) (CACons (CBool false) CANil)))
            (CRet (CBin OAdd (CVar "w") (CVar "z"))))
      (CRet (CCall "Gcd" (CACons (CVar "z") (CACons (CCall "Gcd" (CACons (CVar "x") (CACons (CLit 3) CANil))) CANil))))) |}.
Definition ex_prog : cprog := [ex_gcd; ex_seven; ex_use].

Lemma ex_prog_accepted_and_returns :
  (exists vs, trc_prog ex_prog = Some vs /\ length vs = 3%nat) /\
  cgo_call 200 ex_prog "Use" [LitV (LitInt 48); LitV (LitBool true)] = Some (LitV (LitInt 8)) /\
  cgo_call 200 ex_prog "Gcd" [LitV (LitInt 48); LitV (LitInt 18)] = Some (LitV (LitInt 6)).
Proof. split; [eexists; split; [vm_compute; reflexivity|reflexivity]|split; vm_compute; reflexivity]. Qed.

(* the restrictions are needed: a package in which a later function is used
   before it is emitted, or two functions call each other, has no translation *)
Lemma rejects_use_before_definition :
  trc_prog [ex_use; ex_gcd; ex_seven] = None.
Proof. vm_compute. reflexivity. Qed.
