From Coq Require Import List Arith Bool Permutation Lia.
From GV Require Import Tr.Workers.
Import ListNotations.

Section Proofs.
Variables A B : Type.
Variable rs : list (A * B).

Lemma length_set_nth {X} (l : list X) i x : length (set_nth l i x) = length l.
Proof. revert i; induction l; intros [|i]; cbn; auto. Qed.

Lemma nth_set_nth {X} (l : list X) i j x :
  nth_error (set_nth l i x) j = if Nat.eqb i j then (match nth_error l j with Some _ => Some x | None => None end) else nth_error l j.
Proof.
  revert i j; induction l as [|a l IH]; intros [|i] [|j]; cbn [set_nth nth_error Nat.eqb]; auto.
  all: try (destruct (Nat.eqb _ _); reflexivity).
Qed.

Definition has (e : ev) (sch : list ev) : bool := existsb (ev_eqb e) sch.

(* slot i after any sequence of stores: written iff its store occurred, and then with worker i's value *)
Lemma run_files : forall sch st i,
  length (fst st) = length rs -> i < length rs ->
  nth_error (fst (fold_left (exec A B rs) sch st)) i =
  if has (WFile i) sch then option_map (fun r => Some (fst r)) (nth_error rs i) else nth_error (fst st) i.
Proof.
  induction sch as [|e sch IH]; intros st i Hl Hi; [reflexivity|].
  cbn [fold_left has existsb]. destruct e as [j|j]; cbn [exec ev_eqb].
  - destruct (nth_error rs j) as [r|] eqn:Er.
    + rewrite IH by (cbn [fst]; rewrite ?length_set_nth; auto). cbn [fst].
      fold (has (WFile i) sch). destruct (has (WFile i) sch); [rewrite orb_true_r; reflexivity|].
      rewrite orb_false_r, nth_set_nth. rewrite (Nat.eqb_sym i j). destruct (Nat.eqb j i) eqn:E; [|reflexivity].
      apply Nat.eqb_eq in E; subst j. rewrite Er. cbn.
      destruct (nth_error (fst st) i) eqn:En; [reflexivity|]. apply nth_error_None in En. lia.
    + assert (Hj : i <> j) by (intros ->; apply nth_error_None in Er; lia).
      rewrite IH by auto. fold (has (WFile i) sch). apply Nat.eqb_neq in Hj. rewrite Hj. reflexivity.
  - destruct (nth_error rs j) as [r|]; rewrite IH by auto; reflexivity.
Qed.

Lemma run_errs : forall sch st i,
  length (snd st) = length rs -> i < length rs ->
  nth_error (snd (fold_left (exec A B rs) sch st)) i =
  if has (WErr i) sch then option_map (fun r => Some (snd r)) (nth_error rs i) else nth_error (snd st) i.
Proof.
  induction sch as [|e sch IH]; intros st i Hl Hi; [reflexivity|].
  cbn [fold_left has existsb]. destruct e as [j|j]; cbn [exec ev_eqb].
  - destruct (nth_error rs j) as [r|]; rewrite IH by auto; reflexivity.
  - destruct (nth_error rs j) as [r|] eqn:Er.
    + rewrite IH by (cbn [snd]; rewrite ?length_set_nth; auto). cbn [snd].
      fold (has (WErr i) sch). destruct (has (WErr i) sch); [rewrite orb_true_r; reflexivity|].
      rewrite orb_false_r, nth_set_nth. rewrite (Nat.eqb_sym i j). destruct (Nat.eqb j i) eqn:E; [|reflexivity].
      apply Nat.eqb_eq in E; subst j. rewrite Er. cbn.
      destruct (nth_error (snd st) i) eqn:En; [reflexivity|]. apply nth_error_None in En. lia.
    + assert (Hj : i <> j) by (intros ->; apply nth_error_None in Er; lia).
      rewrite IH by auto. fold (has (WErr i) sch). apply Nat.eqb_neq in Hj. rewrite Hj. reflexivity.
Qed.

Lemma run_lengths : forall sch st,
  length (fst (fold_left (exec A B rs) sch st)) = length (fst st) /\
  length (snd (fold_left (exec A B rs) sch st)) = length (snd st).
Proof.
  induction sch as [|e sch IH]; intros st; [auto|]. cbn [fold_left].
  destruct (IH (exec A B rs st e)) as [H1 H2]. rewrite H1, H2.
  destruct e as [j|j]; cbn [exec]; destruct (nth_error rs j); cbn [fst snd]; rewrite ?length_set_nth; auto.
Qed.

Lemma has_In e sch : has e sch = true <-> In e sch.
Proof.
  unfold has. rewrite existsb_exists. split.
  - intros (x & Hx & E). destruct e, x; cbn in E; try discriminate; apply Nat.eqb_eq in E; subst; exact Hx.
  - intros H. exists e. split; [exact H|]. destruct e; cbn; apply Nat.eqb_refl.
Qed.

Lemma all_events_in i : i < length rs -> In (WFile i) (all_events A B rs) /\ In (WErr i) (all_events A B rs).
Proof.
  intros Hi. unfold all_events. split; apply in_flat_map; exists i; (split; [apply in_seq; lia|cbn; auto]).
Qed.

Lemma nth_error_ext {X} (l1 l2 : list X) :
  length l1 = length l2 -> (forall i, i < length l1 -> nth_error l1 i = nth_error l2 i) -> l1 = l2.
Proof.
  revert l2; induction l1 as [|a l1 IH]; intros [|b l2] Hl H; cbn in Hl; try discriminate; auto.
  f_equal.
  - specialize (H 0 ltac:(cbn; lia)). cbn in H. congruence.
  - apply IH; [lia|]. intros i Hi. apply (H (S i)). cbn. lia.
Qed.

(* every schedule of the workers' stores (any interleaving, any order within a
   worker) leaves the state of the sequential map *)
Theorem schedule_independent : forall sch,
  Permutation sch (all_events A B rs) -> run A B rs sch = joined A B rs.
Proof.
  intros sch Hp. unfold run, joined.
  pose proof (run_lengths sch (init A B rs)) as HL.
  destruct (fold_left (exec A B rs) sch (init A B rs)) as [fs es] eqn:E. cbn [fst snd] in HL.
  destruct HL as [L1 L2]. unfold init in L1, L2. cbn [fst snd] in L1, L2. rewrite repeat_length in L1, L2.
  f_equal.
  - apply nth_error_ext; [rewrite map_length; exact L1|]. intros i Hi. rewrite L1 in Hi.
    pose proof (run_files sch (init A B rs) i) as H. rewrite E in H. cbn [fst] in H.
    rewrite H by (unfold init; cbn; rewrite ?repeat_length; auto).
    assert (Hh : has (WFile i) sch = true).
    { apply has_In. eapply Permutation_in; [apply Permutation_sym, Hp|]. apply all_events_in, Hi. }
    rewrite Hh, nth_error_map. destruct (nth_error rs i); reflexivity.
  - apply nth_error_ext; [rewrite map_length; exact L2|]. intros i Hi. rewrite L2 in Hi.
    pose proof (run_errs sch (init A B rs) i) as H. rewrite E in H. cbn [snd] in H.
    rewrite H by (unfold init; cbn; rewrite ?repeat_length; auto).
    assert (Hh : has (WErr i) sch = true).
    { apply has_In. eapply Permutation_in; [apply Permutation_sym, Hp|]. apply all_events_in, Hi. }
    rewrite Hh, nth_error_map. destruct (nth_error rs i); reflexivity.
Qed.
End Proofs.
