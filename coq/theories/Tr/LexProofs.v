From Coq Require Import String Ascii List Bool Arith Lia.
From GV Require Import Tr.Lex.
Import ListNotations.
Local Open Scope char_scope.

(* no adjacent open delimiter and no adjacent close delimiter *)
Definition po (x y : ascii) : bool := is "(" x && is "*" y.
Definition pc (x y : ascii) : bool := is "*" x && is ")" y.

Fixpoint nopair (p : ascii -> ascii -> bool) (l : list ascii) : bool :=
  match l with
  | x :: tl => match tl with y :: _ => negb (p x y) && nopair p tl | [] => true end
  | [] => true
  end.

Definition nosub (l : list ascii) : bool := nopair po l && nopair pc l.

Lemma nosub_cons x y tl : nosub (x :: y :: tl) = true -> po x y = false /\ pc x y = false /\ nosub (y :: tl) = true.
Proof.
  unfold nosub. cbn [nopair]. intros H. apply andb_true_iff in H as [H1 H2].
  apply andb_true_iff in H1 as [A1 A2]. apply andb_true_iff in H2 as [B1 B2].
  apply negb_true_iff in A1, B1. cbn [nopair]. rewrite A2, B2. auto.
Qed.

Lemma hd_repl_open l : hd " " (repl_open l) = hd " " l.
Proof. destruct l as [|x [|y tl]]; cbn [repl_open hd]; auto. destruct (is "(" x && is "*" y) eqn:E; cbn [hd]; auto.
  apply andb_true_iff in E as [E _]. apply Ascii.eqb_eq in E. subst. reflexivity. Qed.

Lemma hd_repl_close l : hd " " (repl_close l) = hd " " l.
Proof. destruct l as [|x [|y tl]]; cbn [repl_close hd]; auto. destruct (is "*" x && is ")" y) eqn:E; cbn [hd]; auto.
  apply andb_true_iff in E as [E _]. apply Ascii.eqb_eq in E. subst. reflexivity. Qed.

(* a list is a cons of its default-head when it is not empty *)
Lemma nopair_cons p x l : nopair p (x :: l) = match l with [] => true | y :: _ => negb (p x y) && nopair p l end.
Proof. reflexivity. Qed.

Lemma is_true_eq c x : is c x = true -> x = c.
Proof. intros H. apply Ascii.eqb_eq in H. auto. Qed.

(* strong induction on the length for the two-at-a-time recursions *)
Lemma list_ind2 (P : list ascii -> Prop) :
  P [] -> (forall x, P [x]) -> (forall x y tl, P tl -> P (y :: tl) -> P (x :: y :: tl)) -> forall l, P l.
Proof.
  intros H0 H1 H2. assert (H : forall l, P l /\ forall x, P (x :: l)).
  { induction l as [|y tl [IH1 IH2]].
    - split; [exact H0|exact H1].
    - split; [apply IH2|]. intros x. apply H2; [exact IH1|apply IH2]. }
  intros l. apply H.
Qed.

Lemma repl_open_cons2 x y tl :
  repl_open (x :: y :: tl) = if is "(" x && is "*" y then "(" :: " " :: "*" :: repl_open tl else x :: repl_open (y :: tl).
Proof. reflexivity. Qed.

Lemma repl_close_cons2 x y tl :
  repl_close (x :: y :: tl) = if is "*" x && is ")" y then "*" :: " " :: ")" :: repl_close tl else x :: repl_close (y :: tl).
Proof. reflexivity. Qed.

Lemma repl_open_nopair l : nopair po (repl_open l) = true.
Proof.
  induction l as [|x|x y tl IH1 IH2] using list_ind2; auto.
  rewrite repl_open_cons2. destruct (is "(" x && is "*" y) eqn:E.
  - cbn [nopair]. rewrite IH1. destruct (repl_open tl) as [|z r]; unfold po, is; cbn; reflexivity.
  - rewrite nopair_cons. destruct (repl_open (y :: tl)) as [|z r] eqn:Er; [reflexivity|].
    assert (z = y) by (pose proof (hd_repl_open (y :: tl)) as Hh; rewrite Er in Hh; exact Hh). subst z.
    rewrite IH2. unfold po. rewrite E. reflexivity.
Qed.

Lemma repl_close_nopair_pc l : nopair pc (repl_close l) = true.
Proof.
  induction l as [|x|x y tl IH1 IH2] using list_ind2; auto.
  rewrite repl_close_cons2. destruct (is "*" x && is ")" y) eqn:E.
  - cbn [nopair]. rewrite IH1. destruct (repl_close tl) as [|z r]; unfold pc, is; cbn; reflexivity.
  - rewrite nopair_cons. destruct (repl_close (y :: tl)) as [|z r] eqn:Er; [reflexivity|].
    assert (z = y) by (pose proof (hd_repl_close (y :: tl)) as Hh; rewrite Er in Hh; exact Hh). subst z.
    rewrite IH2. unfold pc. rewrite E. reflexivity.
Qed.

(* the second replacement does not create an open delimiter *)
Lemma repl_close_keeps_po l : nopair po l = true -> nopair po (repl_close l) = true.
Proof.
  induction l as [|x|x y tl IH1 IH2] using list_ind2; auto.
  intros H. rewrite nopair_cons in H. apply andb_true_iff in H as [Hxy Hrest].
  rewrite repl_close_cons2. destruct (is "*" x && is ")" y) eqn:E.
  - apply andb_true_iff in E as [Ex Ey]. apply is_true_eq in Ex, Ey. subst x y.
    assert (Htl : nopair po tl = true).
    { destruct tl as [|z r]; [reflexivity|]. rewrite nopair_cons in Hrest. apply andb_true_iff in Hrest as [_ H]. exact H. }
    cbn [nopair]. rewrite (IH1 Htl). destruct (repl_close tl) as [|z r]; unfold po, is; cbn; reflexivity.
  - rewrite nopair_cons. destruct (repl_close (y :: tl)) as [|z r] eqn:Er; [reflexivity|].
    assert (z = y) by (pose proof (hd_repl_close (y :: tl)) as Hh; rewrite Er in Hh; exact Hh). subst z.
    rewrite (IH2 Hrest), Hxy. reflexivity.
Qed.

Lemma nopair_app_quote p l : (forall x, p x """" = false) -> nopair p l = true -> nopair p (l ++ [""""]) = true.
Proof.
  intros Hp. induction l as [|x [|y tl] IH]; cbn [app nopair]; auto.
  - intros _. rewrite Hp. reflexivity.
  - cbn [app nopair] in IH. intros H. apply andb_true_iff in H as [H1 H2]. rewrite H1, (IH H2). reflexivity.
Qed.

Lemma sanitize_nosub l : nosub (sanitize l) = true.
Proof.
  unfold sanitize, close_quote, nosub.
  pose proof (repl_close_keeps_po _ (repl_open_nopair l)) as Ho.
  pose proof (repl_close_nopair_pc (repl_open l)) as Hc.
  destruct (Nat.odd _).
  - rewrite !nopair_app_quote; auto; intros x; unfold po, pc; cbn; apply andb_false_r.
  - rewrite Ho, Hc. reflexivity.
Qed.

Lemma quotes_app a b : quotes (a ++ b) = quotes a + quotes b.
Proof. induction a; cbn; auto. rewrite IHa. lia. Qed.

Lemma sanitize_even l : Nat.even (quotes (sanitize l)) = true.
Proof.
  unfold sanitize, close_quote. set (m := repl_close (repl_open l)).
  destruct (Nat.odd (quotes m)) eqn:E.
  - rewrite quotes_app. cbn. rewrite Nat.add_1_r, Nat.even_succ. exact E.
  - rewrite <- Nat.negb_odd, E. reflexivity.
Qed.

Lemma scan_code_step d x y tl :
  po x y = false -> pc x y = false ->
  scan d false (x :: y :: tl) = if is """" x then scan d true (y :: tl) else scan d false (y :: tl).
Proof. unfold po, pc. intros P1 P2. cbn [scan]. rewrite P1, P2. reflexivity. Qed.

Lemma scan_string_step d x tl :
  scan d true (x :: tl) = if is """" x then scan d false tl else scan d true tl.
Proof. reflexivity. Qed.

(* scanning text without comment delimiters inside a comment only toggles the string state *)
Lemma scan_body : forall l s rest,
  nosub l = true ->
  scan 1 s (l ++ " " :: rest) = scan 1 (xorb s (Nat.odd (quotes l))) (" " :: rest).
Proof.
  induction l as [|x l IH]; intros s rest Hn.
  - cbn. rewrite xorb_false_r. reflexivity.
  - assert (Hn' : nosub l = true) by (destruct l; [reflexivity|]; apply nosub_cons in Hn; apply Hn).
    cbn [app quotes]. destruct s.
    + rewrite scan_string_step. destruct (is """" x) eqn:Eq; rewrite (IH _ _ Hn'); cbn [Nat.add].
      * rewrite Nat.odd_succ, <- Nat.negb_odd. destruct (Nat.odd (quotes l)); reflexivity.
      * reflexivity.
    + (* not in a string: the next character exists and the pair is not special *)
      assert (Hpair : forall y, hd " " (l ++ " " :: rest) = y -> po x y = false /\ pc x y = false).
      { intros y Hy. destruct l as [|z l']; cbn in Hy; subst y.
        - unfold po, pc, is. split; [destruct (Ascii.eqb "(" x)|destruct (Ascii.eqb "*" x)]; reflexivity.
        - apply nosub_cons in Hn. split; apply Hn. }
      destruct (l ++ " " :: rest) as [|y tl] eqn:El; [destruct l; discriminate|].
      destruct (Hpair y eq_refl) as [P1 P2].
      rewrite (scan_code_step _ _ _ _ P1 P2). rewrite <- El.
      destruct (is """" x) eqn:Eq; rewrite (IH _ _ Hn'); cbn [Nat.add xorb].
      * rewrite Nat.odd_succ, <- Nat.negb_odd. destruct (Nat.odd (quotes l)); reflexivity.
      * reflexivity.
Qed.

(* the text AddComment emits for ANY Go comment is exactly one Coq comment:
   read from its opening delimiter it closes at its own closing delimiter, with
   nothing of the comment left over and nothing after it consumed *)
Theorem comment_is_one_comment : forall c rest,
  scan 1 false (" " :: sanitize c ++ [" "; "*"; ")"] ++ rest) = LClosed rest.
Proof.
  intros c rest.
  change (" " :: sanitize c ++ [" "; "*"; ")"] ++ rest) with ((" " :: sanitize c) ++ " " :: ("*" :: ")" :: rest)).
  rewrite scan_body.
  - assert (Hq : Nat.odd (quotes (" " :: sanitize c)) = false).
    { cbn [quotes]. replace (is """" " ") with false by reflexivity. cbn [Nat.add].
      rewrite <- Nat.negb_even, sanitize_even. reflexivity. }
    rewrite Hq. cbn [xorb].
    rewrite scan_code_step by reflexivity. replace (is """" " ") with false by reflexivity.
    cbn [scan]. replace (is "(" "*" && is "*" ")") with false by reflexivity.
    replace (is "*" "*" && is ")" ")") with true by reflexivity. reflexivity.
  - pose proof (sanitize_nosub c) as H. unfold nosub in *. destruct (sanitize c) as [|y tl]; [reflexivity|].
    apply andb_true_iff in H as [H1 H2]. cbn [nopair]. cbn [nopair] in H1, H2. rewrite H1, H2.
    unfold po, pc. cbn. reflexivity.
Qed.

(* without the repair of unmatched quotes the statement is false: *)
Definition sanitize_old (l : list ascii) : list ascii := repl_close (repl_open l).
Theorem comment_with_odd_quote_refuted :
  exists c rest, scan 1 false (" " :: sanitize_old c ++ [" "; "*"; ")"] ++ rest) <> LClosed rest.
Proof. exists [""""], ["x"]. vm_compute. discriminate. Qed.

(* string literals: text without a double quote, printed between quotes, is
   read back as exactly that text *)
Lemma scan_string_acc : forall s acc rest,
  quotes s = 0 -> hd " " rest <> """" ->
  scan_string (s ++ """" :: rest) acc = Some (acc ++ s, rest).
Proof.
  induction s as [|x s IH]; intros acc rest Hq Hr.
  - cbn. destruct rest as [|y r]; [rewrite app_nil_r; reflexivity|]. cbn in Hr.
    destruct (is """" y) eqn:E; [apply is_true_eq in E; congruence|]. rewrite app_nil_r. reflexivity.
  - cbn [quotes] in Hq. cbn [app scan_string]. destruct (is """" x); [discriminate|].
    rewrite IH by (auto; lia). rewrite <- app_assoc. reflexivity.
Qed.

Theorem string_literal_read_back : forall s rest,
  quotes s = 0 -> hd " " rest <> """" ->
  scan_string (s ++ """" :: rest) [] = Some (s, rest).
Proof. intros. apply scan_string_acc; auto. Qed.
