(* The header of an emitted file: which FFI prelude, which Requires, which
   output path.  Mirrors getFfi / ffisUsed (goose.go: golang.org/x/tools
   packages.Visit with a pre- and a post-callback), imports (goose.go),
   ImportDecl.CoqDecl, PrintImports, pathToCoqPath, ImportToPath (coq.go) and
   ffiHeaderFooter (interface.go).  The two tables are regenerated (GenTables). *)
From Coq Require Import String Ascii List Bool Arith.
Import ListNotations.
Open Scope string_scope.

Definition graph := list (string * list string).      (* package path -> its imports *)

Fixpoint imports_of (g : graph) (p : string) : list string :=
  match g with
  | [] => []
  | (q, is) :: g' => if String.eqb p q then is else imports_of g' p
  end.

Fixpoint assoc (k : string) (l : list (string * string)) : option string :=
  match l with
  | [] => None
  | (k', v) :: t => if String.eqb k k' then Some v else assoc k t
  end.

Definition mem (x : string) (l : list string) : bool := existsb (String.eqb x) l.

Section Visit.
Variable ffi_mapping : list (string * string).          (* package path -> FFI name *)
Variable g : graph.

Definition is_ffi (p : string) : bool := match assoc p ffi_mapping with Some _ => true | None => false end.

(* packages.Visit: depth first; a package is visited once; the pre-callback
   (not an FFI package) decides whether its imports are visited; the
   post-callback records the FFI of an FFI package.
   State: visited packages, FFIs seen, and whether the fuel sufficed. *)
Record vstate := { seen : list string; ffis : list string; fuel_ok : bool }.

Fixpoint visit (fuel : nat) (p : string) (s : vstate) : vstate :=
  match fuel with
  | O => {| seen := seen s; ffis := ffis s; fuel_ok := false |}
  | S f =>
      if mem p (seen s) then s
      else
        let s1 := {| seen := p :: seen s; ffis := ffis s; fuel_ok := fuel_ok s |} in
        match assoc p ffi_mapping with
        | Some x => {| seen := seen s1; ffis := x :: ffis s1; fuel_ok := fuel_ok s1 |}
        | None => fold_left (fun st q => visit f q st) (imports_of g p) s1
        end
  end.

Definition visit_root (fuel : nat) (root : string) : vstate :=
  visit fuel root {| seen := []; ffis := []; fuel_ok := true |}.

(* the specification: packages reachable from the root through imports of non-FFI packages *)
Inductive reach (root : string) : string -> Prop :=
| reach_root : reach root root
| reach_import p q : reach root p -> is_ffi p = false -> In q (imports_of g p) -> reach root q.

Inductive ffi_choice := FfiNone | FfiOne (x : string) | FfiRefuse.

Definition choose (l : list string) : ffi_choice :=
  match nodup string_dec l with
  | [] => FfiNone
  | [x] => FfiOne x
  | _ => FfiRefuse
  end.

Definition get_ffi (fuel : nat) (root : string) : ffi_choice := choose (ffis (visit_root fuel root)).
End Visit.

(* ffiHeaderFooter *)
Definition nl : string := String (ascii_of_nat 10) EmptyString.
Definition header_footer (c : ffi_choice) : option (string * string) :=
  match c with
  | FfiNone => Some ("Section code." ++ nl ++ "Context `{ext_ty: ext_types}." ++ nl ++ "Local Coercion Var' s: expr := Var s.",
                     nl ++ "End code." ++ nl)
  | FfiOne x => Some ("From Perennial.goose_lang Require Import ffi." ++ x ++ "_prelude.", "")
  | FfiRefuse => None
  end.

(* ---------------------------------------------------------------- paths and Requires *)
Definition map_char (c : ascii) : ascii :=
  if Ascii.eqb c "."%char || Ascii.eqb c "-"%char then "_"%char else c.
Fixpoint map_string (f : ascii -> ascii) (s : string) : string :=
  match s with EmptyString => EmptyString | String c s' => String (f c) (map_string f s') end.
Definition path_to_coq_path (p : string) : string := map_string map_char p.
Definition slash_to_dot (c : ascii) : ascii := if Ascii.eqb c "/"%char then "."%char else c.
Definition logical_path (p : string) : string := map_string slash_to_dot (path_to_coq_path p).

(* last path component *)
Fixpoint base_name_aux (s acc : string) : string :=
  match s with
  | EmptyString => acc
  | String c s' => if Ascii.eqb c "/"%char then base_name_aux s' EmptyString else base_name_aux s' (acc ++ String c EmptyString)
  end.
Definition base_name (p : string) : string := base_name_aux p EmptyString.

Definition is_trusted (p : string) : bool := prefix "trusted_" (base_name p).

Definition require_line (p : string) : string :=
  if is_trusted p then "From Perennial.goose_lang.trusted Require Import " ++ logical_path p ++ "."
  else "From Goose Require " ++ logical_path p ++ ".".

(* ImportToPath: the output file, for a clean import path *)
Definition output_path (p : string) : string := path_to_coq_path p ++ ".v".

(* PrintImports: Requires of the non-builtin imports, without duplicates, sorted *)
Fixpoint insert_sorted (x : string) (l : list string) : list string :=
  match l with
  | [] => [x]
  | y :: t => if String.leb x y then x :: l else y :: insert_sorted x t
  end.
Definition sort_strings (l : list string) : list string := fold_right insert_sorted [] l.

Definition print_imports (builtin : list string) (imports : list string) : list string :=
  sort_strings (nodup string_dec (map require_line (filter (fun p => negb (mem p builtin)) imports))).
