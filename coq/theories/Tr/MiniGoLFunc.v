(* MiniGoL: the emitted *definition* (curried header, recursion binder) applied
   to the arguments evaluates to Go's result — the function-level form of
   Tr/MiniGoLBlocks.lbodyk_correct.  The fragment has no calls, so the
   function's own name does not occur in the emitted body (trl_nofree) and the
   recursion binder substitutes nothing. *)
From Coq Require Import String List Bool Arith Lia.
From GV Require Import Lang.GlSyntax Lang.GlSem Lang.GlSemProofs Tr.MiniGo Tr.MiniGoProofs Tr.MiniGoL Tr.MiniGoLProofs Tr.MiniGoLBlocks.
Import ListNotations.
Local Open Scope nat_scope.

Lemma tlookup_params_none x ps : ~ In x (map fst ps) -> tlookup x (params_env ps) = None.
Proof.
  unfold params_env. rewrite <- map_rev. intros Hn.
  assert (Hr : ~ In x (map fst (rev ps))) by (rewrite map_rev, <- in_rev; exact Hn).
  induction (rev ps) as [|[y t] l IH]; [reflexivity|].
  cbn [map fst tlookup]. cbn [map fst In] in Hr.
  destruct (String.eqb x y) eqn:E; [apply String.eqb_eq in E; subst; tauto|]. apply IH. tauto.
Qed.

Theorem lfunc_correct n fn f args v s' :
  trl_func fn = Some f ->
  NoDup (lf_name fn :: map fst (lf_params fn)) -> lf_params fn <> [] ->
  length args = length (lf_params fn) ->
  lgo_call n fn args = LRet v s' ->
  evals (fold_left App (map Val args) (Val f)) state0 v s'.
Proof.
  intros Htr Hnd Hne Hlen Hgo. unfold trl_func in Htr.
  destruct (trl (lsize (lf_body fn)) (params_env (lf_params fn)) UReturned (lf_body fn) None) as [body|] eqn:Eb; [|discriminate].
  pose proof (lbodyk_correct n _ fn body args v s' Eb Hlen Hgo) as Hev.
  inversion Hnd as [|? ? Hname Hnd1]; subst.
  pose proof (trl_nofree (lf_name fn) _ _ _ _ _ _ Eb (tlookup_params_none _ _ Hname) I) as Hnf.
  destruct (lf_params fn) as [|[p1 t1] prs] eqn:Eps; [congruence|]. cbn [map fst] in Htr, Hnd1, Hname, Hev. injection Htr as <-.
  destruct args as [|a1 args]; [discriminate|]. cbn [length] in Hlen.
  set (name := lf_name fn) in *. set (ps := map fst prs) in *.
  inversion Hnd1 as [|? ? Hp1 Hnd2]; subst.
  assert (Hlps : length args = length ps) by (unfold ps; rewrite map_length; lia).
  rewrite cs_of_rev_combine in Hev.
  rewrite close_rev_nodup in Hev by (rewrite map_fst_combine by (cbn [length]; lia); constructor; assumption).
  cbn [combine close] in Hev.
  cbn [map fold_left].
  eapply (sim_apps _ _ args (sim_beta_rec name p1 (lams ps body) a1 ltac:(intros ->; apply Hname; left; reflexivity))).
  rewrite !subst_lams by (intros Hc; first [apply Hp1, Hc | apply Hname; right; exact Hc]).
  apply (sim_lams ps args _ Hnd2 Hlps).
  rewrite (subst_subst_comm name p1) by (intros ->; apply Hname; left; reflexivity).
  rewrite (Hnf _). exact Hev.
Qed.

(* a function without parameters is called with the unit value *)
Theorem lfunc_correct_nullary n fn f v s' :
  trl_func fn = Some f -> lf_params fn = [] ->
  lgo_call n fn [] = LRet v s' ->
  evals (App (Val f) (Val vunit)) state0 v s'.
Proof.
  intros Htr Hps Hgo. unfold trl_func in Htr.
  destruct (trl (lsize (lf_body fn)) (params_env (lf_params fn)) UReturned (lf_body fn) None) as [body|] eqn:Eb; [|discriminate].
  assert (Hlen : length (@nil val) = length (lf_params fn)) by (rewrite Hps; reflexivity).
  pose proof (lbodyk_correct n _ fn body [] v s' Eb Hlen Hgo) as Hev.
  pose proof (trl_nofree (lf_name fn) _ _ _ _ _ _ Eb (tlookup_params_none (lf_name fn) (lf_params fn) ltac:(rewrite Hps; intros [])) I) as Hnf.
  rewrite Hps in Htr, Hev. cbn [map] in Htr. injection Htr as <-. cbn [map combine rev cs_of close] in Hev.
  destruct Hev as [m Hm]. exists (S (S m)). rewrite eval_S_unfold. unfold eval_step at 1.
  change (eval (S m) (Val vunit) state0) with (RVal vunit state0). cbv iota.
  change (eval (S m) (Val (RecV (BNamed (lf_name fn)) BAnon body)) state0) with (RVal (RecV (BNamed (lf_name fn)) BAnon body) state0). cbv iota.
  cbn [subst']. rewrite (Hnf _). apply (evals_fuel _ _ _ _ _ (S m) Hm). lia.
Qed.

(* ---------------------------------------------------------------- guards of the loop fragment *)
Lemma rejects_break_outside_loop f G u k : u <> ULoop -> trl f G u (LCons LBreak LNil) k = None.
Proof. destruct f; [reflexivity|]. destruct u; cbn [trl]; congruence. Qed.

Lemma rejects_continue_outside_loop f G u k : u <> ULoop -> trl f G u (LCons LContinue LNil) k = None.
Proof. destruct f; [reflexivity|]. destruct u; cbn [trl]; congruence. Qed.

Lemma rejects_code_after_break f G u st rest k : trl f G u (LCons LBreak (LCons st rest)) k = None.
Proof. destruct f; reflexivity. Qed.

Lemma rejects_code_after_continue f G u st rest k : trl f G u (LCons LContinue (LCons st rest)) k = None.
Proof. destruct f; reflexivity. Qed.

Lemma rejects_return_in_loop_body f G e k : trl f G ULoop (LCons (LReturn e) LNil) k = None.
Proof. destruct f; reflexivity. Qed.

Lemma rejects_return_before_end_l f G u e st rest k : trl f G u (LCons (LReturn e) (LCons st rest)) k = None.
Proof. destruct f; reflexivity. Qed.

(* a loop whose post statement declares a variable *)
Lemma rejects_declaring_post f G u init cond x e body rest k :
  trl f G u (LCons (LFor init cond (Some (SDefine x e)) body) rest) k = None.
Proof.
  destruct f; [reflexivity|]. cbn [trl].
  set (G1 := match init with Some (i, e0) => (i, (true, type_of G e0)) :: G | None => G end).
  destruct (match cond with Some c => tr_expr G1 c | None => Some (BoolE true) end); [|reflexivity].
  cbn [tr_simple]. destruct (tr_expr G1 e); reflexivity.
Qed.
