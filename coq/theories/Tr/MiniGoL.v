(* MiniGoL: MiniGo extended with for loops (3-clause and condition-only, with
   break and continue) and nested blocks.  Expressions and the simple statements
   are those of MiniGo.v.

   trl mirrors goose.go stmts / ifStmt / stmtInBlock / forStmt / blockStmt /
   scopedStmtShadows composed with the printer read back with Coq's notation
   levels.  A nested block or a loop with an init statement that is followed by
   more statements is printed without delimiters unless it declares a name that
   hides a visible variable: its let-bindings then extend over the following
   statements.  The translation is therefore written with a continuation k, the
   already translated remainder that is spliced after the last expression. *)
From Coq Require Import String List ZArith Bool.
From GV Require Import Lang.GlSyntax Lang.GlSem Tr.MiniGo.
Import ListNotations.
Open Scope string_scope.

Inductive lstmt :=
| LSimple (s : gstmt)                 (* x := e, var, x = e, x op= e, x++ (a gstmt that is not an if or return) *)
| LIf (c : gexpr) (th : lblock) (el : option lblock)
| LReturn (e : gexpr)
| LFor (init : option (string * gexpr)) (cond : option gexpr) (post : option gstmt) (body : lblock)
| LBreak
| LContinue
| LBlock (b : lblock)
with lblock :=
| LNil
| LCons (s : lstmt) (rest : lblock).

Inductive lusage := UReturned | ULocal | ULoop.

(* ---------------------------------------------------------------- names declared inside a statement *)
Definition simple_names (s : gstmt) : list string :=
  match s with SDefine x _ => [x] | SVar x _ _ => [x] | _ => [] end.

Fixpoint names_block (b : lblock) : list string :=
  match b with
  | LNil => []
  | LCons s rest => (names_stmt s ++ names_block rest)%list
  end
with names_stmt (s : lstmt) : list string :=
  match s with
  | LSimple g => simple_names g
  | LIf _ th el => (names_block th ++ match el with Some e => names_block e | None => [] end)%list
  | LFor init _ _ body => (match init with Some (i, _) => [i] | None => [] end ++ names_block body)%list
  | LBlock b => names_block b
  | _ => []
  end.

Fixpoint lsize (b : lblock) : nat :=
  match b with
  | LNil => 1
  | LCons s rest => lssize s + lsize rest
  end
with lssize (s : lstmt) : nat :=
  match s with
  | LIf _ th (Some el) => 1 + lsize th + lsize el
  | LIf _ th None => 1 + lsize th
  | LFor _ _ _ body => 1 + lsize body
  | LBlock b => 1 + lsize b
  | _ => 1
  end.

(* scopedStmtShadows: the statement declares a name that hides a visible local *)
Definition shadows (G : tenv) (s : lstmt) : bool :=
  existsb (fun x => match tlookup x G with Some _ => true | None => false end) (names_stmt s).

(* ---------------------------------------------------------------- translator *)
Definition ContinueE : expr := Val (LitV (LitBool true)).
Definition BreakE : expr := Val (LitV (LitBool false)).
Definition SkipE : expr := App (Val (RecV BAnon BAnon (Val (LitV LitUnit)))) (Val (LitV LitUnit)).
Definition ForE (c b p : expr) : expr := App (App (App (Val (PrimV PFor [])) c) b) p.
Definition Thunk (e : expr) : expr := Rec BAnon BAnon e.

Definition llast (b : lblock) : bool := match b with LNil => true | _ => false end.

Fixpoint llast_stmt (b : lblock) : option lstmt :=
  match b with
  | LNil => None
  | LCons s LNil => Some s
  | LCons _ rest => llast_stmt rest
  end.

(* stmtsEndWithReturn: return, break and continue all count *)
Fixpoint lends (fuel : nat) (b : lblock) : bool :=
  match fuel with
  | O => false
  | S f =>
      match llast_stmt b with
      | Some (LReturn _) | Some LBreak | Some LContinue => true
      | Some (LIf _ th (Some el)) => lends f th && lends f el
      | _ => false
      end
  end.

Definition lblock_of (o : option lblock) : lblock := match o with Some b => b | None => LNil end.

(* what is appended when a list is not finalised by its last statement *)
Definition final_of (u : lusage) : option expr :=
  match u with UReturned => Some UnitE | ULoop => Some ContinueE | ULocal => None end.

(* splice: the text "e" followed by ";; k" when there is a continuation *)
Definition then_k (e : expr) (k : option expr) : expr :=
  match k with Some r => Seq e r | None => e end.

(* trl fuel G u b k: the statements b, under usage u, followed by the already
   translated continuation k (None: b ends the enclosing delimited expression). *)
Fixpoint trl (fuel : nat) (G : tenv) (u : lusage) (b : lblock) (k : option expr) : option expr :=
  match fuel with
  | O => None
  | S f =>
      match b with
      | LNil =>
          (* an empty list: #() / Continue, or #() for a local block *)
          Some (then_k (match final_of u with Some e => e | None => UnitE end) k)
      | LCons (LIf c th el) rest =>
          match tr_expr G c with
          | None => None
          | Some c' =>
              if llast rest then
                match trl f G u th None, trl f G u (lblock_of el) None with
                | Some t', Some e' => Some (then_k (If c' t' e') k)
                | _, _ => None
                end
              else if lends (lsize th) th then
                if llast (lblock_of el) then
                  match trl f G u th None, trl f G u rest None with
                  | Some t', Some r' => Some (then_k (If c' t' r') k)
                  | _, _ => None
                  end
                else None
              else
                match trl f G ULocal th None, trl f G ULocal (lblock_of el) None, trl f G u rest k with
                | Some t', Some e', Some r' => Some (Seq (If c' t' e') r')
                | _, _, _ => None
                end
          end
      | LCons (LReturn e) LNil =>
          match u with
          | UReturned => match tr_expr G e with Some e' => Some (then_k e' k) | None => None end
          | _ => None
          end
      | LCons (LReturn _) _ => None
      | LCons LBreak LNil => match u with ULoop => Some (then_k BreakE k) | _ => None end
      | LCons LContinue LNil => match u with ULoop => Some (then_k ContinueE k) | _ => None end
      | LCons LBreak _ | LCons LContinue _ => None
      | LCons (LSimple g) LNil =>
          match tr_simple G g with
          | Some (x, e, _) =>
              match final_of u with
              | Some fin => Some (LetIn x e (then_k fin k))
              | None => Some (then_k e k)
              end
          | None => None
          end
      | LCons (LSimple g) rest =>
          match tr_simple G g with
          | Some (x, e, G') =>
              match trl f G' u rest k with
              | Some r' => Some (LetIn x e r')
              | None => None
              end
          | None => None
          end
      | LCons (LBlock inner) LNil =>
          (* the last statement: the usage goes into the block, which is printed in place *)
          trl f G u inner k
      | LCons (LBlock inner) rest =>
          match trl f G u rest k with
          | None => None
          | Some r' =>
              if shadows G (LBlock inner) then
                match trl f G ULocal inner None with Some i' => Some (Seq i' r') | None => None end
              else trl f G ULocal inner (Some r')
          end
      | LCons (LFor init cond post body) rest =>
          let G1 := match init with Some (i, e) => (i, (true, type_of G e)) :: G | None => G end in
          let c' := match cond with Some c => tr_expr G1 c | None => Some (BoolE true) end in
          let p' := match post with
                    | Some g => match tr_simple G1 g with Some (BAnon, e, _) => Some e | _ => None end
                    | None => Some SkipE
                    end in
          match c', p', trl f G1 ULoop body None with
          | Some c', Some p', Some b' =>
              let loop := ForE (Thunk c') (Thunk b') (Thunk p') in
              (* what follows the loop inside the enclosing list *)
              let after : option (option expr) :=
                if llast rest then
                  match final_of u with
                  | Some fin => Some (Some (then_k fin k))
                  | None => Some k
                  end
                else match trl f G u rest k with Some r' => Some (Some r') | None => None end in
              match after with
              | None => None
              | Some after =>
                  match init with
                  | None => Some (Seq SkipE (then_k loop after))
                  | Some (i, e) =>
                      match tr_expr G e with
                      | None => None
                      | Some e' =>
                          let cell := RefTo (ty_of (type_of G e)) e' in
                          if negb (llast rest) && shadows G (LFor init cond post body)
                          then Some (then_k (LetIn (BNamed i) cell loop) after)    (* printed in parentheses *)
                          else Some (LetIn (BNamed i) cell (then_k loop after))
                      end
                  end
              end
          | _, _, _ => None
          end
      end
  end.

Record lfunc := { lf_name : string; lf_params : list (string * gty); lf_body : lblock }.

Definition trl_func (fn : lfunc) : option val :=
  match trl (lsize (lf_body fn)) (params_env (lf_params fn)) UReturned (lf_body fn) None with
  | Some body =>
      match map fst (lf_params fn) with
      | [] => Some (RecV (BNamed (lf_name fn)) BAnon body)
      | p :: ps => Some (RecV (BNamed (lf_name fn)) (BNamed p) (lams ps body))
      end
  | None => None
  end.

(* ---------------------------------------------------------------- Go semantics *)
Inductive lout :=
| LNormal (r : genv) (s : state)
| LRet (v : val) (s : state)
| LBrk (s : state)
| LCont (s : state)
| LErr
| LFuelOut.

Fixpoint lgo (fuel : nat) (r : genv) (s : state) (b : lblock) : lout :=
  match fuel with
  | O => LFuelOut
  | S f =>
      match b with
      | LNil => LNormal r s
      | LCons st rest =>
          match st with
          | LSimple g =>
              match go_simple r s g with
              | Some (r1, s1) => lgo f r1 s1 rest
              | None => LErr
              end
          | LIf c th el =>
              match go_expr r s c with
              | Some (LitV (LitBool cb)) =>
                  match lgo f r s (if cb then th else lblock_of el) with
                  | LNormal _ s' => lgo f r s' rest
                  | o => o
                  end
              | _ => LErr
              end
          | LReturn e => match go_expr r s e with Some v => LRet v s | None => LErr end
          | LBreak => LBrk s
          | LContinue => LCont s
          | LBlock inner =>
              match lgo f r s inner with
              | LNormal _ s' => lgo f r s' rest
              | o => o
              end
          | LFor init cond post body =>
              match (match init with
                     | Some (i, e) => match go_expr r s e with
                                      | Some v => let '(b, s1) := alloc_cell v s in Some ((i, Cell b) :: r, s1)
                                      | None => None
                                      end
                     | None => Some (r, s)
                     end) with
              | Some (r1, s1) =>
                  match lloop f r1 s1 cond post body with
                  | LNormal _ s2 => lgo f r s2 rest
                  | o => o
                  end
              | None => LErr
              end
          end
      end
  end
with lloop (fuel : nat) (r : genv) (s : state) (cond : option gexpr) (post : option gstmt) (body : lblock) : lout :=
  match fuel with
  | O => LFuelOut
  | S f =>
      match (match cond with Some c => go_expr r s c | None => Some (LitV (LitBool true)) end) with
      | Some (LitV (LitBool false)) => LNormal r s
      | Some (LitV (LitBool true)) =>
          let next (s' : state) :=
            match (match post with Some g => match go_simple r s' g with Some (_, s'') => Some s'' | None => None end | None => Some s' end) with
            | Some s'' => lloop f r s'' cond post body
            | None => LErr
            end in
          match lgo f r s body with
          | LNormal _ s' => next s'
          | LCont s' => next s'
          | LBrk s' => LNormal r s'
          | o => o
          end
      | _ => LErr
      end
  end.

Definition lgo_call (fuel : nat) (fn : lfunc) (args : list val) : lout :=
  lgo fuel (rev (combine (map fst (lf_params fn)) (map Imm args))) state0 (lf_body fn).

From GV Require Import Lang.Show.
Definition show_lout (o : lout) : string :=
  match o with
  | LRet v _ => show_val v
  | LNormal _ _ => "normal"
  | LBrk _ | LCont _ => "loop-control"
  | LErr => "stuck:"
  | LFuelOut => "fuel"
  end.
