From Coq Require Import String Ascii List Bool Arith Lia.
From GV Require Import Tr.Header Tr.HeaderProofs Tr.Cli.
Import ListNotations.
Open Scope string_scope.

(* exit status 0 exactly when every matched package translated without error *)
Theorem cli_exit ig out ex rs : fst (cli false ig out ex rs) = 0 <-> forall pr, In pr rs -> is_ok (snd pr) = true.
Proof.
  unfold cli. cbn [fst]. destruct (forallb (fun pr => is_ok (snd pr)) rs) eqn:E.
  - rewrite forallb_forall in E. split; auto.
  - split; [discriminate|]. intros H. rewrite <- forallb_forall in H. congruence.
Qed.

Theorem cli_pattern_error ig out ex rs : cli true ig out ex rs = (1, []).
Proof. reflexivity. Qed.

(* what is written: for a translated package one write of its file at its
   path unless the file already has these contents; for a package with an error
   nothing unless -ignore-errors, and then the partial file *)
Theorem cli_writes ig out ex rs w :
  In w (snd (cli false ig out ex rs)) <->
  exists pkg r, In (pkg, r) rs /\ (is_ok r = true \/ ig = true) /\
                w = {| w_path := out_file out pkg; w_data := contents r |} /\ ex (out_file out pkg) <> Some (contents r).
Proof.
  unfold cli. cbn [snd]. rewrite in_flat_map. split.
  - intros ([pkg r] & Hin & Hw). unfold writes_for in Hw.
    destruct (is_ok r || ig) eqn:E; [|destruct Hw].
    unfold write_if_changed in Hw. exists pkg, r. split; [exact Hin|].
    split; [apply orb_true_iff in E; destruct E; auto|].
    destruct (ex (out_file out pkg)) as [c|] eqn:Ee.
    + destruct (String.eqb_spec c (contents r)) as [->|Hne]; [destruct Hw|].
      destruct Hw as [<-|[]]. split; [reflexivity|congruence].
    + destruct Hw as [<-|[]]. split; [reflexivity|discriminate].
  - intros (pkg & r & Hin & Hor & -> & Hne). exists (pkg, r). split; [exact Hin|].
    unfold writes_for. replace (is_ok r || ig) with true by (symmetry; apply orb_true_iff; destruct Hor; auto).
    unfold write_if_changed. destruct (ex (out_file out pkg)) as [c|] eqn:Ee.
    + destruct (String.eqb_spec c (contents r)) as [->|Hn]; [congruence|now left].
    + now left.
Qed.

(* a file whose contents would not change is not rewritten *)
Theorem cli_unchanged_not_rewritten ig out ex rs pkg r :
  In (pkg, r) rs -> ex (out_file out pkg) = Some (contents r) ->
  (forall pkg' r', In (pkg', r') rs -> out_file out pkg' = out_file out pkg -> contents r' = contents r) ->
  forall w, In w (snd (cli false ig out ex rs)) -> w_path w <> out_file out pkg.
Proof.
  intros Hin Hex Huniq w Hw E. apply cli_writes in Hw as (pkg' & r' & Hin' & _ & -> & Hne).
  cbn [w_path] in E. apply Hne. rewrite E, Hex. f_equal. symmetry. eapply Huniq; eauto.
Qed.

(* without -ignore-errors every write comes from a package that translated without error *)
Theorem cli_errors_not_written out ex rs w :
  In w (snd (cli false false out ex rs)) ->
  exists pkg c, In (pkg, ROk c) rs /\ w = {| w_path := out_file out pkg; w_data := c |}.
Proof.
  intros Hw. apply cli_writes in Hw as (pkg & r & Hin & [Hok|Hig] & -> & _); [|discriminate].
  destruct r as [c|c]; [|discriminate]. exists pkg, c. auto.
Qed.

(* distinct package paths without '.'/'-' vs '_' clashes are written to distinct files *)
Lemma map_string_inj f : (forall a b, f a = f b -> a = b) -> forall s t, map_string f s = map_string f t -> s = t.
Proof.
  intros Hf s. induction s as [|a s IH]; intros [|b t] H; cbn in H; try discriminate; [reflexivity|].
  injection H as H1 H2. f_equal; auto.
Qed.

Definition plain_char (c : Ascii.ascii) : bool := negb (Ascii.eqb c "."%char || Ascii.eqb c "-"%char)%bool.
Fixpoint plain (s : string) : bool := match s with EmptyString => true | String c s' => plain_char c && plain s' end.

Lemma path_to_coq_path_plain s : plain s = true -> path_to_coq_path s = s.
Proof.
  induction s as [|c s IH]; intros H; [reflexivity|]. cbn in H. apply andb_prop in H as [Hc Hs].
  unfold path_to_coq_path in *. cbn [map_string]. rewrite IH by exact Hs. f_equal.
  unfold map_char. unfold plain_char in Hc. apply negb_true_iff in Hc. now rewrite Hc.
Qed.

Lemma length_append (a b : string) : String.length (a ++ b) = String.length a + String.length b.
Proof. induction a as [|x a IH]; cbn; [reflexivity|now rewrite IH]. Qed.

Lemma append_inv_head (a x y : string) : a ++ x = a ++ y -> x = y.
Proof. induction a as [|c a IH]; cbn; intros H; [exact H|]. injection H as H. auto. Qed.

Lemma append_inv_tail (x y c : string) : x ++ c = y ++ c -> x = y.
Proof.
  revert y. induction x as [|a x IH]; intros [|b y] H; cbn in H.
  - reflexivity.
  - exfalso. apply (f_equal String.length) in H. cbn in H. rewrite length_append in H. lia.
  - exfalso. apply (f_equal String.length) in H. cbn in H. rewrite length_append in H. lia.
  - injection H as -> H. f_equal. now apply IH.
Qed.

Theorem cli_paths_injective_partial out p q : plain p = true -> plain q = true ->
  out_file out p = out_file out q -> p = q.
Proof.
  unfold out_file, output_path. intros Hp Hq. rewrite !path_to_coq_path_plain by assumption.
  intros H. apply append_inv_head in H. apply append_inv_head in H. now apply append_inv_tail in H.
Qed.
