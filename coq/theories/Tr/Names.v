(* The Coq names goose gives to the top-level declarations of a package
   (internal/coq/coq.go MethodName, goose.go funcDecl / typeDecl / constDecl /
   globalVarDecl): a function, type, constant or variable keeps its Go name; the
   method m of type T is called T__m.  Go guarantees that the package-level
   identifiers are pairwise distinct and that a type has at most one method of
   a given name; whether the Coq names are distinct as well is the question. *)
From Coq Require Import String List Bool Ascii.
Import ListNotations.
Open Scope string_scope.

Inductive gdecl :=
| GFunc (name : string)
| GMethod (ty name : string)
| GType (name : string)
| GConst (name : string)
| GVar (name : string).

Definition method_name (ty m : string) : string := ty ++ "__" ++ m.

Definition coq_name (d : gdecl) : string :=
  match d with
  | GFunc f => f
  | GMethod t m => method_name t m
  | GType t => t
  | GConst c => c
  | GVar v => v
  end.

(* what Go itself guarantees *)
Definition pkg_ident (d : gdecl) : option string :=
  match d with GFunc f => Some f | GType t => Some t | GConst c => Some c | GVar v => Some v | GMethod _ _ => None end.
Definition method_key (d : gdecl) : option (string * string) :=
  match d with GMethod t m => Some (t, m) | _ => None end.
Fixpoint somes {X} (l : list (option X)) : list X :=
  match l with [] => [] | Some x :: t => x :: somes t | None :: t => somes t end.
Definition go_valid (ds : list gdecl) : Prop :=
  NoDup (somes (map pkg_ident ds)) /\ NoDup (somes (map method_key ds)).

(* identifiers without an underscore *)
Fixpoint no_us (s : string) : bool :=
  match s with
  | EmptyString => true
  | String c t => negb (Ascii.eqb c "_"%char) && no_us t
  end.
Definition idents_of (d : gdecl) : list string :=
  match d with GFunc f => [f] | GMethod t m => [t; m] | GType t => [t] | GConst c => [c] | GVar v => [v] end.
Definition plain (ds : list gdecl) : Prop := forall d s, In d ds -> In s (idents_of d) -> no_us s = true.
