(* MiniGoS: calls and mutable variables together.  The expressions of MiniGoC
   (uint64 and bool values, all operators, calls of the functions of the package
   in any position, recursion) with the variables of MiniGo: var-declared
   locals live in heap cells (ref_to / load / store), := locals and parameters
   are let-bound; assignment, op-assignment, ++/--, if/else with early returns.

   trs_prog mirrors goose.go (funcDecl, callExpr, the identifier rule, varSpec,
   defineStmt, assignStmt, incDecStmt, ifStmt) composed with the printer read
   back with the notation levels of GlNotation.v, for the functions in the
   order of the emitted file.  None = goose reports a conversion error, or the
   package does not type-check, or the functions are not callee first.

   The Go semantics threads the store: a callee allocates its own cells, which
   stay behind as garbage.  Operands and arguments are evaluated in the order
   the emitted term evaluates them (right operand first, except > and >=, whose
   operands goose swaps; last argument first), so that the two stores agree
   cell for cell; in Go the order is not observable in this fragment - a
   function can reach no cell but its own, and a run that returns evaluates
   every operand - and the model is compared with the Go toolchain on every
   run. *)
From Coq Require Import String List ZArith Bool.
From GV Require Import Lang.GlSyntax Lang.GlSem Tr.MiniGo Tr.MiniGoC.
Import ListNotations.
Open Scope string_scope.

(* statements without control effects, and lists of them: the branches of an if
   that is followed by more statements *)
Inductive sstmt :=
| TLet (x : string) (e : cexpr)                         (* x := e *)
| TVarD (x : string) (t : gty) (e : option cexpr)       (* var x T [= e] *)
| TAsg (x : string) (e : cexpr)                         (* x = e *)
| TOpAsg (op : gop) (x : string) (e : cexpr)            (* x op= e *)
| TIncD (inc : bool) (x : string).                      (* x++ / x-- *)

Inductive sloc :=
| LEnd
| LSimple (st : sstmt) (k : sloc)
| LIfL (c : cexpr) (th el : sloc) (k : sloc).           (* if c { th } else { el }; k *)

Inductive sbody :=
| SIfL (c : cexpr) (th el : sloc) (k : sbody)           (* if c { th } else { el }; k   (no return inside) *)
| SRet (e : cexpr)                                      (* return e *)
| SLet (x : string) (e : cexpr) (k : sbody)             (* x := e; k *)
| SVarD (x : string) (t : gty) (e : option cexpr) (k : sbody)   (* var x T [= e]; k *)
| SAsg (x : string) (e : cexpr) (k : sbody)             (* x = e; k *)
| SOpAsg (op : gop) (x : string) (e : cexpr) (k : sbody)  (* x op= e; k *)
| SIncD (inc : bool) (x : string) (k : sbody)           (* x++ / x--; k *)
| SIfT (c : cexpr) (th el : sbody).                     (* if c { th } else { el } / if c { th }; el *)

Record sfunc := { sf_name : string; sf_params : list (string * gty); sf_body : sbody }.
Definition sprog := list sfunc.

(* ---------------------------------------------------------------- translator *)
Definition tbound (x : string) (G : tenv) : bool := match tlookup x G with Some _ => true | None => false end.

Fixpoint trs_expr (T : ftable) (self : string) (G : tenv) (e : cexpr) : option expr :=
  match e with
  | CLit n => Some (Lit n)
  | CBool b => Some (BoolE b)
  | CVar x =>
      match tlookup x G with
      | Some (true, t) => Some (Load (ty_of t) (Var x))
      | Some (false, _) => Some (Var x)
      | None => None
      end
  | CBin op a b =>
      match trs_expr T self G a, trs_expr T self G b with
      | Some a', Some b' => tr_binop op a' b'
      | _, _ => None
      end
  | CNot a => match trs_expr T self G a with Some a' => Some (UnOp NegOp a') | None => None end
  | CCall f args =>
      if tbound f G then None
      else
        match (if String.eqb f self then Some (Var f) else option_map Val (flookup f T)) with
        | Some fe =>
            match args with
            | CANil => Some (App fe UnitE)
            | _ => trs_args T self G args fe
            end
        | None => None
        end
  end
with trs_args (T : ftable) (self : string) (G : tenv) (args : cargs) (acc : expr) : option expr :=
  match args with
  | CANil => Some acc
  | CACons a rest =>
      match trs_expr T self G a with
      | Some a' => trs_args T self G rest (App acc a')
      | None => None
      end
  end.

(* a statement as a binding: the name it binds, its expression, the environment after it *)
Definition trs_simple (T : ftable) (self : string) (G : tenv) (st : sstmt) : option (binder * expr * tenv) :=
  match st with
  | TLet x e =>
      match trs_expr T self G e with
      | Some e' => Some (BNamed x, e', (x, (false, TU64)) :: G)
      | None => None
      end
  | TVarD x t (Some e) =>
      match trs_expr T self G e with
      | Some e' => Some (BNamed x, RefTo (ty_of t) e', (x, (true, t)) :: G)
      | None => None
      end
  | TVarD x t None => Some (BNamed x, RefZero (ty_of t), (x, (true, t)) :: G)
  | TAsg x e =>
      match tlookup x G, trs_expr T self G e with
      | Some (true, t), Some e' => Some (BAnon, Store (ty_of t) (Var x) e', G)
      | _, _ => None
      end
  | TOpAsg op x e =>
      match tlookup x G, trs_expr T self G e with
      | Some (true, t), Some e' =>
          if assign_op op then
            match tr_binop op (Load (ty_of t) (Var x)) e' with
            | Some rhs => Some (BAnon, Store (ty_of t) (Var x) rhs, G)
            | None => None
            end
          else None
      | _, _ => None
      end
  | TIncD inc x =>
      match tlookup x G with
      | Some (true, t) =>
          Some (BAnon, Store (ty_of t) (Var x) (BinOp (if inc then PlusOp else MinusOp) (Load (ty_of t) (Var x)) (Lit 1)), G)
      | _ => None
      end
  end.

Definition lend (k : sloc) : bool := match k with LEnd => true | _ => false end.

(* stmts with usage Local: the last statement's expression is the value of the
   list, an empty list is #() *)
Fixpoint trs_loc (T : ftable) (self : string) (G : tenv) (l : sloc) : option expr :=
  match l with
  | LEnd => Some UnitE
  | LSimple st k =>
      match trs_simple T self G st with
      | Some (x, e, G') =>
          if lend k then Some e
          else match trs_loc T self G' k with
               | Some k' => Some (LetIn x e k')
               | None => None
               end
      | None => None
      end
  | LIfL c th el k =>
      match trs_expr T self G c, trs_loc T self G th, trs_loc T self G el with
      | Some c', Some t', Some e' =>
          if lend k then Some (If c' t' e')
          else match trs_loc T self G k with
               | Some k' => Some (Seq (If c' t' e') k')
               | None => None
               end
      | _, _, _ => None
      end
  end.

Fixpoint trs_body (T : ftable) (self : string) (G : tenv) (b : sbody) : option expr :=
  match b with
  | SIfL c th el k =>
      match trs_expr T self G c, trs_loc T self G th, trs_loc T self G el, trs_body T self G k with
      | Some c', Some t', Some e', Some k' => Some (Seq (If c' t' e') k')
      | _, _, _, _ => None
      end
  | SRet e => trs_expr T self G e
  | SLet x e k =>
      match trs_expr T self G e, trs_body T self ((x, (false, TU64)) :: G) k with
      | Some e', Some k' => Some (LetIn (BNamed x) e' k')
      | _, _ => None
      end
  | SVarD x t (Some e) k =>
      match trs_expr T self G e, trs_body T self ((x, (true, t)) :: G) k with
      | Some e', Some k' => Some (LetIn (BNamed x) (RefTo (ty_of t) e') k')
      | _, _ => None
      end
  | SVarD x t None k =>
      match trs_body T self ((x, (true, t)) :: G) k with
      | Some k' => Some (LetIn (BNamed x) (RefZero (ty_of t)) k')
      | None => None
      end
  | SAsg x e k =>
      match tlookup x G, trs_expr T self G e, trs_body T self G k with
      | Some (true, t), Some e', Some k' => Some (Seq (Store (ty_of t) (Var x) e') k')
      | _, _, _ => None
      end
  | SOpAsg op x e k =>
      match tlookup x G, trs_expr T self G e, trs_body T self G k with
      | Some (true, t), Some e', Some k' =>
          if assign_op op then
            match tr_binop op (Load (ty_of t) (Var x)) e' with
            | Some rhs => Some (Seq (Store (ty_of t) (Var x) rhs) k')
            | None => None
            end
          else None
      | _, _, _ => None
      end
  | SIncD inc x k =>
      match tlookup x G, trs_body T self G k with
      | Some (true, t), Some k' =>
          Some (Seq (Store (ty_of t) (Var x) (BinOp (if inc then PlusOp else MinusOp) (Load (ty_of t) (Var x)) (Lit 1))) k')
      | _, _ => None
      end
  | SIfT c th el =>
      match trs_expr T self G c, trs_body T self G th, trs_body T self G el with
      | Some c', Some t', Some e' => Some (If c' t' e')
      | _, _, _ => None
      end
  end.

Definition trs_func (T : ftable) (fn : sfunc) : option val :=
  let ps := map fst (sf_params fn) in
  if nodupb ps && negb (smem (sf_name fn) ps) then
    match trs_body T (sf_name fn) (params_env (sf_params fn)) (sf_body fn) with
    | Some body =>
        match ps with
        | [] => Some (RecV (BNamed (sf_name fn)) BAnon body)
        | p :: ps' => Some (RecV (BNamed (sf_name fn)) (BNamed p) (lams ps' body))
        end
    | None => None
    end
  else None.

Fixpoint trs_prog_from (T : ftable) (P : sprog) : option ftable :=
  match P with
  | [] => Some []
  | fn :: P' =>
      if negb (smem (sf_name fn) (map fst T)) then
        match trs_func T fn with
        | Some v =>
            match trs_prog_from ((sf_name fn, v) :: T) P' with
            | Some R => Some ((sf_name fn, v) :: R)
            | None => None
            end
        | None => None
        end
      else None
  end.

Definition trs_prog (P : sprog) : option (list val) := option_map (map snd) (trs_prog_from [] P).

(* ---------------------------------------------------------------- Go semantics *)
Fixpoint find_sfunc (f : string) (P : sprog) : option sfunc :=
  match P with
  | [] => None
  | fn :: P' => if String.eqb f (sf_name fn) then Some fn else find_sfunc f P'
  end.

(* goose prints a > b as b < a: the operands are evaluated in the other order *)
Definition swapped (op : gop) : bool := match op with OGt | OGe => true | _ => false end.

(* a statement without control effects, given the evaluator of expressions *)
Definition sgo_simple (ev : genv -> state -> cexpr -> option (val * state)) (r : genv) (s : state) (st : sstmt) : option (genv * state) :=
  match st with
  | TLet x e =>
      match ev r s e with
      | Some (v, s1) => Some ((x, Imm v) :: r, s1)
      | None => None
      end
  | TVarD x t eo =>
      match (match eo with Some e => ev r s e | None => Some (zero_of t, s) end) with
      | Some (v, s1) => let '(b, s2) := alloc_cell v s1 in Some ((x, Cell b) :: r, s2)
      | None => None
      end
  | TAsg x e =>
      match glookup x r, ev r s e with
      | Some (Cell b), Some (v, s1) => match write_cell b v s1 with Some s2 => Some (r, s2) | None => None end
      | _, _ => None
      end
  | TOpAsg op x e =>
      match glookup x r, ev r s e with
      | Some (Cell b), Some (v, s1) =>
          match read_cell b s1 with
          | Some old =>
              match go_binop op old v with
              | Some nv => match write_cell b nv s1 with Some s2 => Some (r, s2) | None => None end
              | None => None
              end
          | None => None
          end
      | _, _ => None
      end
  | TIncD inc x =>
      match glookup x r with
      | Some (Cell b) =>
          match read_cell b s with
          | Some old =>
              match go_binop (if inc then OAdd else OSub) old (LitV (LitInt 1)) with
              | Some nv => match write_cell b nv s with Some s2 => Some (r, s2) | None => None end
              | None => None
              end
          | None => None
          end
      | _ => None
      end
  end.

Fixpoint sgo_expr (n : nat) (P : sprog) (r : genv) (s : state) (e : cexpr) {struct n} : option (val * state) :=
  match n with
  | O => None
  | S n' =>
      match e with
      | CLit k => Some (LitV (LitInt k), s)
      | CBool b => Some (LitV (LitBool b), s)
      | CVar x =>
          match glookup x r with
          | Some (Imm v) => Some (v, s)
          | Some (Cell b) => match read_cell b s with Some v => Some (v, s) | None => None end
          | None => None
          end
      | CBin OLAnd a b =>
          match sgo_expr n' P r s a with
          | Some (LitV (LitBool true), s1) =>
              match sgo_expr n' P r s1 b with Some (LitV (LitBool x), s2) => Some (LitV (LitBool x), s2) | _ => None end
          | Some (LitV (LitBool false), s1) => Some (LitV (LitBool false), s1)
          | _ => None
          end
      | CBin OLOr a b =>
          match sgo_expr n' P r s a with
          | Some (LitV (LitBool true), s1) => Some (LitV (LitBool true), s1)
          | Some (LitV (LitBool false), s1) =>
              match sgo_expr n' P r s1 b with Some (LitV (LitBool x), s2) => Some (LitV (LitBool x), s2) | _ => None end
          | _ => None
          end
      | CBin op a b =>
          if swapped op then
            match sgo_expr n' P r s a with
            | Some (va, s1) =>
                match sgo_expr n' P r s1 b with
                | Some (vb, s2) => match go_binop op va vb with Some v => Some (v, s2) | None => None end
                | None => None
                end
            | None => None
            end
          else
            match sgo_expr n' P r s b with
            | Some (vb, s1) =>
                match sgo_expr n' P r s1 a with
                | Some (va, s2) => match go_binop op va vb with Some v => Some (v, s2) | None => None end
                | None => None
                end
            | None => None
            end
      | CNot a =>
          match sgo_expr n' P r s a with
          | Some (LitV (LitBool b), s1) => Some (LitV (LitBool (negb b)), s1)
          | _ => None
          end
      | CCall f args =>
          match glookup f r, find_sfunc f P, sgo_args n' P r s args with
          | None, Some fn, Some (vs, s1) =>
              if Nat.eqb (length vs) (length (sf_params fn))
              then sgo_body n' P (rev (combine (map fst (sf_params fn)) (map Imm vs))) s1 (sf_body fn)
              else None
          | _, _, _ => None
          end
      end
  end
with sgo_args (n : nat) (P : sprog) (r : genv) (s : state) (args : cargs) {struct n} : option (list val * state) :=
  match n with
  | O => None
  | S n' =>
      match args with
      | CANil => Some ([], s)
      | CACons a rest =>
          (* the last argument first *)
          match sgo_args n' P r s rest with
          | Some (vs, s1) =>
              match sgo_expr n' P r s1 a with
              | Some (v, s2) => Some (v :: vs, s2)
              | None => None
              end
          | None => None
          end
      end
  end
with sgo_loc (n : nat) (P : sprog) (r : genv) (s : state) (l : sloc) {struct n} : option state :=
  (* the declarations of the list end with it: only the store comes back *)
  match n with
  | O => None
  | S n' =>
      match l with
      | LEnd => Some s
      | LSimple st k =>
          match sgo_simple (sgo_expr n' P) r s st with
          | Some (r1, s1) => sgo_loc n' P r1 s1 k
          | None => None
          end
      | LIfL c th el k =>
          match sgo_expr n' P r s c with
          | Some (LitV (LitBool cb), s1) =>
              match sgo_loc n' P r s1 (if cb then th else el) with
              | Some s2 => sgo_loc n' P r s2 k
              | None => None
              end
          | _ => None
          end
      end
  end
with sgo_body (n : nat) (P : sprog) (r : genv) (s : state) (b : sbody) {struct n} : option (val * state) :=
  match n with
  | O => None
  | S n' =>
      match b with
      | SIfL c th el k =>
          match sgo_expr n' P r s c with
          | Some (LitV (LitBool cb), s1) =>
              match sgo_loc n' P r s1 (if cb then th else el) with
              | Some s2 => sgo_body n' P r s2 k
              | None => None
              end
          | _ => None
          end
      | SRet e => sgo_expr n' P r s e
      | SLet x e k =>
          match sgo_expr n' P r s e with
          | Some (v, s1) => sgo_body n' P ((x, Imm v) :: r) s1 k
          | None => None
          end
      | SVarD x t eo k =>
          match (match eo with Some e => sgo_expr n' P r s e | None => Some (zero_of t, s) end) with
          | Some (v, s1) => let '(b, s2) := alloc_cell v s1 in sgo_body n' P ((x, Cell b) :: r) s2 k
          | None => None
          end
      | SAsg x e k =>
          match glookup x r, sgo_expr n' P r s e with
          | Some (Cell b), Some (v, s1) =>
              match write_cell b v s1 with Some s2 => sgo_body n' P r s2 k | None => None end
          | _, _ => None
          end
      | SOpAsg op x e k =>
          (* the right-hand side first, then the variable is read *)
          match glookup x r, sgo_expr n' P r s e with
          | Some (Cell b), Some (v, s1) =>
              match read_cell b s1 with
              | Some old =>
                  match go_binop op old v with
                  | Some nv => match write_cell b nv s1 with Some s2 => sgo_body n' P r s2 k | None => None end
                  | None => None
                  end
              | None => None
              end
          | _, _ => None
          end
      | SIncD inc x k =>
          match glookup x r with
          | Some (Cell b) =>
              match read_cell b s with
              | Some old =>
                  match go_binop (if inc then OAdd else OSub) old (LitV (LitInt 1)) with
                  | Some nv => match write_cell b nv s with Some s2 => sgo_body n' P r s2 k | None => None end
                  | None => None
                  end
              | None => None
              end
          | _ => None
          end
      | SIfT c th el =>
          match sgo_expr n' P r s c with
          | Some (LitV (LitBool cb), s1) => sgo_body n' P r s1 (if cb then th else el)
          | _ => None
          end
      end
  end.

Definition sgo_call (n : nat) (P : sprog) (f : string) (args : list val) : option (val * state) :=
  match find_sfunc f P with
  | Some fn =>
      if Nat.eqb (length args) (length (sf_params fn))
      then sgo_body n P (rev (combine (map fst (sf_params fn)) (map Imm args))) state0 (sf_body fn)
      else None
  | None => None
  end.

From GV Require Import Lang.Show.
Definition show_sres (o : option (val * state)) : string :=
  match o with
  | Some (v, _) => show_val v
  | None => "none"
  end.

(* ---------------------------------------------------------------- the package as the emission-order model sees it *)
(* (Tr/Decls.v: every function is one declaration named after it that mentions
   the functions it calls; used by the harness to compare the order of the
   emitted file with the order the model of Decls computes) *)
From GV Require Import Tr.Decls.

Fixpoint scallees_e (e : cexpr) : list string :=
  match e with
  | CLit _ | CBool _ | CVar _ => []
  | CBin _ a b => scallees_e a ++ scallees_e b
  | CNot a => scallees_e a
  | CCall f args => f :: scallees_a args
  end
with scallees_a (a : cargs) : list string :=
  match a with
  | CANil => []
  | CACons e rest => scallees_e e ++ scallees_a rest
  end.

Definition scallees_o (eo : option cexpr) : list string := match eo with Some e => scallees_e e | None => [] end.

Definition scallees_st (st : sstmt) : list string :=
  match st with
  | TLet _ e | TAsg _ e | TOpAsg _ _ e => scallees_e e
  | TVarD _ _ eo => scallees_o eo
  | TIncD _ _ => []
  end.

Fixpoint scallees_l (l : sloc) : list string :=
  match l with
  | LEnd => []
  | LSimple st k => scallees_st st ++ scallees_l k
  | LIfL c th el k => scallees_e c ++ scallees_l th ++ scallees_l el ++ scallees_l k
  end.

Fixpoint scallees_b (b : sbody) : list string :=
  match b with
  | SIfL c th el k => scallees_e c ++ scallees_l th ++ scallees_l el ++ scallees_b k
  | SRet e => scallees_e e
  | SLet _ e k | SAsg _ e k | SOpAsg _ _ e k => scallees_e e ++ scallees_b k
  | SVarD _ _ eo k => scallees_o eo ++ scallees_b k
  | SIncD _ _ k => scallees_b k
  | SIfT c th el => scallees_e c ++ scallees_b th ++ scallees_b el
  end.

Definition sdecls_of (P : sprog) : list decl :=
  map (fun fn => {| d_names := [sf_name fn]; d_deps := scallees_b (sf_body fn) |}) P.
Definition spick (P : sprog) (order : list nat) : sprog :=
  flat_map (fun i => match nth_error P i with Some fn => [fn] | None => [] end) order.
