From Coq Require Import String List Arith Bool Lia.
From GV Require Import Tr.Decls.
Import ListNotations.

Lemma mem_nat_In x l : mem_nat x l = true <-> In x l.
Proof.
  unfold mem_nat. rewrite existsb_exists. split.
  - intros (y & Hy & E). apply Nat.eqb_eq in E. subst. exact Hy.
  - intros H. exists x. split; [exact H|apply Nat.eqb_refl].
Qed.

Lemma mem_nat_false x l : mem_nat x l = false <-> ~ In x l.
Proof. rewrite <- mem_nat_In. destruct (mem_nat x l); split; congruence. Qed.

Lemma NoDup_snoc {A} (l : list A) x : NoDup l -> ~ In x l -> NoDup (l ++ [x]).
Proof.
  induction l as [|a l IH]; cbn; intros Hn Hx.
  - constructor; [intros []|constructor].
  - inversion Hn; subst. constructor.
    + intros Hc. apply in_app_or in Hc as [Hc|[<-|[]]]; [auto|]. apply Hx. left; reflexivity.
    + apply IH; auto.
Qed.

Definition gray (st : list nat * list nat) (g : nat) : Prop := In g (fst st) /\ ~ In g (snd st).

(* ---------------------------------------------------------------- once each *)
(* what one visit does to the state, whatever the dependency graph *)
Definition step_ok (st st' : list nat * list nat) : Prop :=
  (exists added, snd st' = snd st ++ added /\ forall x, In x added -> ~ In x (fst st)) /\
  incl (fst st) (fst st') /\
  (forall g, gray st' g -> gray st g).

Lemma step_ok_refl st : step_ok st st.
Proof. split; [exists []; rewrite app_nil_r; split; [reflexivity|intros x []]|]. split; [apply incl_refl|auto]. Qed.

Lemma step_ok_trans a b c : step_ok a b -> step_ok b c -> step_ok a c.
Proof.
  intros [(ad1 & E1 & N1) [I1 G1]] [(ad2 & E2 & N2) [I2 G2]]. split; [|split].
  - exists (ad1 ++ ad2). rewrite E2, E1, app_assoc. split; [reflexivity|].
    intros x Hx. apply in_app_or in Hx as [Hx|Hx]; [auto|]. intros Hc. apply (N2 x Hx). apply I1, Hc.
  - eapply incl_tran; eauto.
  - auto.
Qed.

Lemma visit_step : forall f ds id st st',
  visit f ds id st = Some st' -> incl (snd st) (fst st) -> NoDup (snd st) ->
  step_ok st st' /\ In id (fst st') /\ incl (snd st') (fst st') /\ NoDup (snd st') /\ (~ gray st id -> In id (snd st')).
Proof.
  induction f as [|f IH]; intros ds id st st' Hv Hin Hnd; [discriminate|].
  cbn [visit] in Hv. destruct (mem_nat id (fst st)) eqn:Em.
  - injection Hv as <-. apply mem_nat_In in Em.
    split; [apply step_ok_refl|]. split; [exact Em|]. split; [exact Hin|]. split; [exact Hnd|].
    intros Hng. destruct (in_dec Nat.eq_dec id (snd st)); [assumption|]. exfalso. apply Hng. split; assumption.
  - apply mem_nat_false in Em.
    change (fold_left _ (deps_of ds id) (Some (id :: fst st, snd st))) with (visit_deps f ds (deps_of ds id) (Some (id :: fst st, snd st))) in Hv.
    destruct (visit_deps f ds (deps_of ds id) (Some (id :: fst st, snd st))) as [st1|] eqn:Ed; [|discriminate].
    injection Hv as <-.
    (* the fold over the dependencies *)
    assert (Hfold : forall deps s0 s1, visit_deps f ds deps (Some s0) = Some s1 ->
                     incl (snd s0) (fst s0) -> NoDup (snd s0) ->
                     step_ok s0 s1 /\ incl (snd s1) (fst s1) /\ NoDup (snd s1)).
    { induction deps as [|dep deps IHd]; intros s0 s1 Hf Hi0 Hn0.
      - cbn in Hf. injection Hf as <-. auto using step_ok_refl.
      - cbn [visit_deps fold_left] in Hf. destruct (resolve ds dep) as [j|].
        + destruct (visit f ds j s0) as [s0'|] eqn:Ev.
          * destruct (IH _ _ _ _ Ev Hi0 Hn0) as (S1 & _ & I1 & N1 & _).
            destruct (IHd _ _ Hf I1 N1) as (S2 & I2 & N2). eauto using step_ok_trans.
          * exfalso. clear -Hf. induction deps; cbn in Hf; [discriminate|auto].
        + apply IHd; auto. }
    assert (Hi0 : incl (snd (id :: fst st, snd st)) (fst (id :: fst st, snd st))) by (cbn; intros x Hx; right; auto).
    destruct (Hfold _ _ _ Ed Hi0 Hnd) as ([(added & Ea & Na) [I1 G1]] & I2 & N2).
    cbn [fst snd] in *.
    assert (Hidn : ~ In id (snd st1)).
    { rewrite Ea. intros Hc. apply in_app_or in Hc as [Hc|Hc]; [apply Em, Hin, Hc|]. apply (Na id Hc). left; reflexivity. }
    split; [split; [|split]|split; [|split; [|split]]].
    + exists (added ++ [id]). cbn [snd]. rewrite Ea, app_assoc. split; [reflexivity|].
      intros x Hx. apply in_app_or in Hx as [Hx|[<-|[]]]; [|exact Em]. intros Hc. apply (Na x Hx). right; exact Hc.
    + cbn [fst]. intros x Hx. apply I1. right; exact Hx.
    + intros g [Hg1 Hg2]. cbn [fst snd] in *.
      assert (Hg : gray (id :: fst st, snd st) g).
      { apply G1. split; [exact Hg1|]. intros Hc. apply Hg2, in_or_app. left; exact Hc. }
      destruct Hg as [[<-|Hg] Hg']; [exfalso; apply Hg2, in_or_app; right; left; reflexivity|]. split; assumption.
    + cbn [fst]. apply I1. left; reflexivity.
    + cbn [fst snd]. intros x Hx. apply in_app_or in Hx as [Hx|[<-|[]]]; [apply I2, Hx|apply I1; left; reflexivity].
    + cbn [snd]. apply NoDup_snoc; assumption.
    + intros _. cbn [snd]. apply in_or_app. right; left; reflexivity.
Qed.

Lemma visit_deps_none f ds deps : visit_deps f ds deps None = None.
Proof. induction deps; cbn; auto. Qed.

Lemma visit_deps_cons f ds dep deps s0 :
  visit_deps f ds (dep :: deps) (Some s0) =
  visit_deps f ds deps (match resolve ds dep with Some j => visit f ds j s0 | None => Some s0 end).
Proof. reflexivity. Qed.

(* the main loop: nothing is gray between two visits *)
Lemma emit_all_spec fuel ds : forall ids st st',
  fold_left (fun acc id => match acc with None => None | Some st => visit fuel ds id st end) ids (Some st) = Some st' ->
  incl (snd st) (fst st) -> NoDup (snd st) -> (forall g, ~ gray st g) ->
  incl (snd st') (fst st') /\ NoDup (snd st') /\ (forall g, ~ gray st' g) /\
  (forall x, In x (snd st) -> In x (snd st')) /\ (forall id, In id ids -> In id (snd st')).
Proof.
  induction ids as [|id ids IH]; intros st st' Hf Hi Hn Hg.
  - cbn in Hf. injection Hf as <-. repeat split; auto. intros id [].
  - cbn [fold_left] in Hf. destruct (visit fuel ds id st) as [s1|] eqn:Ev.
    + destruct (visit_step _ _ _ _ _ Ev Hi Hn) as ([(ad & Ea & _) [I1 G1]] & _ & I2 & N2 & Hin).
      assert (Hg1 : forall g, ~ gray s1 g) by (intros g Hc; exact (Hg g (G1 g Hc))).
      destruct (IH _ _ Hf I2 N2 Hg1) as (A & B & C & D & E).
      repeat split; auto.
      * intros x Hx. apply D. rewrite Ea. apply in_or_app. left; exact Hx.
      * intros x [<-|Hx]; [apply D, Hin, Hg|apply E, Hx].
    + exfalso. clear -Hf. induction ids; cbn in Hf; [discriminate|auto].
Qed.

(* every declaration is emitted, and emitted once *)
Theorem emitted_once ds order :
  emit_order ds = Some order ->
  NoDup order /\ forall id, id < length ds -> In id order.
Proof.
  unfold emit_order, emit_all. destruct (fold_left _ _ _) as [st'|] eqn:Ef; [|discriminate].
  cbn [option_map]. intros [= <-].
  destruct (emit_all_spec _ _ _ _ _ Ef) as (_ & N & _ & _ & E); cbn; auto using incl_refl, NoDup_nil.
  - intros g [[] _].
  - split; [exact N|]. intros id Hid. apply E. apply in_seq. lia.
Qed.

(* ---------------------------------------------------------------- defined before use *)
Definition edge (ds : list decl) (id j : nat) : Prop :=
  exists dep, In dep (deps_of ds id) /\ resolve ds dep = Some j /\ j <> id.

(* the dependency graph is acyclic: some rank decreases along every edge *)
Definition acyclic (ds : list decl) (rk : nat -> nat) : Prop := forall id j, edge ds id j -> rk j < rk id.

Definition closed_before (ds : list decl) (out : list nat) : Prop :=
  forall pre id post, out = pre ++ id :: post -> forall j, edge ds id j -> In j pre.

Lemma split_snoc {A} (pre post l : list A) x y :
  pre ++ x :: post = l ++ [y] ->
  (post = [] /\ pre = l /\ x = y) \/ (exists post', post = post' ++ [y] /\ l = pre ++ x :: post').
Proof.
  revert l; induction pre as [|p pre IH]; intros l H.
  - destruct l as [|a l]; cbn in H.
    + injection H as <- ->. left; auto.
    + injection H as <- ->. right. exists l. auto.
  - destruct l as [|a l]; cbn in H.
    + injection H as _ H. destruct pre; discriminate.
    + injection H as <- H. destruct (IH _ H) as [(-> & -> & ->)|(post' & -> & ->)].
      * left; auto.
      * right. exists post'. auto.
Qed.

Lemma closed_before_snoc ds out id :
  closed_before ds out -> (forall j, edge ds id j -> In j out) -> closed_before ds (out ++ [id]).
Proof.
  intros Hc Hid pre x post Heq j He. symmetry in Heq. apply split_snoc in Heq as [(-> & -> & ->)|(post' & -> & ->)].
  - apply Hid, He.
  - eapply Hc; [reflexivity|exact He].
Qed.

Lemma visit_order ds rk : acyclic ds rk -> forall f id st st',
  visit f ds id st = Some st' -> incl (snd st) (fst st) -> NoDup (snd st) -> closed_before ds (snd st) ->
  (forall g, gray st g -> rk id < rk g) ->
  closed_before ds (snd st').
Proof.
  intros Hac. induction f as [|f IH]; intros id st st' Hv Hin Hnd Hcb Hgr; [discriminate|].
  cbn [visit] in Hv. destruct (mem_nat id (fst st)) eqn:Em; [injection Hv as <-; exact Hcb|].
  apply mem_nat_false in Em.
  change (fold_left _ (deps_of ds id) (Some (id :: fst st, snd st))) with (visit_deps f ds (deps_of ds id) (Some (id :: fst st, snd st))) in Hv.
  destruct (visit_deps f ds (deps_of ds id) (Some (id :: fst st, snd st))) as [st1|] eqn:Ed; [|discriminate].
  injection Hv as <-. cbn [snd].
  assert (Hfold : forall deps s0 s1, visit_deps f ds deps (Some s0) = Some s1 ->
            incl deps (deps_of ds id) -> In id (fst s0) ->
            incl (snd s0) (fst s0) -> NoDup (snd s0) -> closed_before ds (snd s0) ->
            (forall g, gray s0 g -> g = id \/ rk id < rk g) ->
            closed_before ds (snd s1) /\
            (forall dep j, In dep deps -> resolve ds dep = Some j -> j <> id -> In j (snd s1)) /\
            (forall x, In x (snd s0) -> In x (snd s1))).
  { induction deps as [|dep deps IHd]; intros s0 s1 Hf Hsub Hid Hi0 Hn0 Hc0 Hg0.
    - cbn in Hf. injection Hf as <-. split; [exact Hc0|]. split; [intros ? ? []|auto].
    - rewrite visit_deps_cons in Hf. destruct (resolve ds dep) as [j|] eqn:Er.
      + destruct (visit f ds j s0) as [s0'|] eqn:Ev; [|rewrite visit_deps_none in Hf; discriminate].
        destruct (visit_step _ _ _ _ _ Ev Hi0 Hn0) as ([(ad & Ea & _) [I1 G1]] & _ & I2 & N2 & Hinj).
        destruct (Nat.eq_dec j id) as [->|Hne].
        * (* a declaration that mentions itself: already marked, nothing happens *)
          assert (s0' = s0).
          { destruct f; [discriminate|]. cbn [visit] in Ev. apply mem_nat_In in Hid. rewrite Hid in Ev. congruence. }
          subst s0'.
          assert (P1 : incl deps (deps_of ds id)) by (intros x Hx; apply Hsub; right; exact Hx).
          destruct (IHd _ _ Hf P1 Hid Hi0 Hn0 Hc0 Hg0) as (A & B & C).
          split; [exact A|]. split; [|exact C].
          intros dep' j' [<-|Hd] Hr Hn; [congruence|eauto].
        * assert (Hej : edge ds id j) by (exists dep; split; [apply Hsub; left; reflexivity|auto]).
          assert (Hrk : rk j < rk id) by (apply Hac, Hej).
          assert (Hgj : forall g, gray s0 g -> rk j < rk g).
          { intros g Hg. destruct (Hg0 g Hg) as [->|Hlt]; lia. }
          assert (Hc1 : closed_before ds (snd s0')) by (eapply IH; eauto).
          assert (Hj : In j (snd s0')).
          { apply Hinj. intros Hg. specialize (Hgj j Hg). lia. }
          assert (P1 : incl deps (deps_of ds id)) by (intros x Hx; apply Hsub; right; exact Hx).
          assert (P2 : In id (fst s0')) by (apply I1, Hid).
          assert (P3 : forall g, gray s0' g -> g = id \/ rk id < rk g) by (intros g Hg; apply Hg0, G1, Hg).
          destruct (IHd _ _ Hf P1 P2 I2 N2 Hc1 P3) as (A & B & C).
          split; [exact A|]. split.
          -- intros dep' j' [<-|Hd] Hr Hn; [|eauto]. rewrite Er in Hr. injection Hr as <-. apply C, Hj.
          -- intros x Hx. apply C. rewrite Ea. apply in_or_app. left; exact Hx.
      + assert (P1 : incl deps (deps_of ds id)) by (intros x Hx; apply Hsub; right; exact Hx).
        destruct (IHd _ _ Hf P1 Hid Hi0 Hn0 Hc0 Hg0) as (A & B & C).
        split; [exact A|]. split; [|exact C].
        intros dep' j' [<-|Hd] Hr Hn; [congruence|eauto]. }
  destruct (Hfold _ _ _ Ed) as (A & B & _); cbn [fst snd]; auto using incl_refl.
  - left; reflexivity.
  - intros x Hx. right. apply Hin, Hx.
  - intros g [[<-|Hg1] Hg2]; [left; reflexivity|]. right. apply Hgr. split; assumption.
  - apply closed_before_snoc; [exact A|]. intros j (dep & Hd & Hr & Hn). eapply B; eauto.
Qed.

Lemma emit_all_order ds rk fuel : acyclic ds rk -> forall ids st st',
  fold_left (fun acc id => match acc with None => None | Some st => visit fuel ds id st end) ids (Some st) = Some st' ->
  incl (snd st) (fst st) -> NoDup (snd st) -> (forall g, ~ gray st g) -> closed_before ds (snd st) ->
  closed_before ds (snd st').
Proof.
  intros Hac. induction ids as [|id ids IH]; intros st st' Hf Hi Hn Hg Hc.
  - cbn in Hf. injection Hf as <-. exact Hc.
  - cbn [fold_left] in Hf. destruct (visit fuel ds id st) as [s1|] eqn:Ev.
    + destruct (visit_step _ _ _ _ _ Ev Hi Hn) as ([_ [I1 G1]] & _ & I2 & N2 & _).
      eapply IH; [exact Hf|exact I2|exact N2| |].
      * intros g Hc'. exact (Hg g (G1 g Hc')).
      * eapply visit_order; eauto. intros g Hg'. exfalso. exact (Hg g Hg').
    + exfalso. clear -Hf. induction ids; cbn in Hf; [discriminate|auto].
Qed.

(* when the dependency graph is acyclic, a declaration comes after every other
   declaration it mentions *)
Theorem defined_before_use ds rk order :
  acyclic ds rk -> emit_order ds = Some order ->
  forall pre id post, order = pre ++ id :: post -> forall j, edge ds id j -> In j pre.
Proof.
  intros Hac. unfold emit_order, emit_all. destruct (fold_left _ _ _) as [st'|] eqn:Ef; [|discriminate].
  cbn [option_map]. intros [= <-].
  apply (emit_all_order ds rk _ Hac _ _ _ Ef); cbn; auto using incl_refl, NoDup_nil.
  - intros g [[] _].
  - intros pre id post H. destruct pre; discriminate.
Qed.

(* an example: three declarations written in reverse dependency order *)
Example order_example :
  emit_order [ {| d_names := ["f"%string]; d_deps := ["g"%string; "T"%string] |};
               {| d_names := ["g"%string]; d_deps := ["T"%string; "g"%string] |};
               {| d_names := ["T"%string]; d_deps := [] |} ] = Some [2; 1; 0].
Proof. vm_compute. reflexivity. Qed.


(* ---------------------------------------------------------------- errors *)
Section Errors.
Variables X E : Type.

(* without a foreign panic the translation of a package ends with the
   definitions of every declaration that translated and one error per
   declaration that did not, in source order *)
Theorem no_crash_gives_result (rs : list (tres X E)) :
  (forall r, In r rs -> is_crash r = false) ->
  exists groups errs, translate_decls rs = Some (groups, errs) /\
    length groups = length rs /\
    (forall i r, nth_error rs i = Some r -> nth_error groups i = Some (defs_of r)) /\
    length errs = length (filter (fun r => match r with TErr _ => true | _ => false end) rs).
Proof.
  intros Hn. unfold translate_decls.
  assert (Hex : existsb is_crash rs = false).
  { apply Bool.not_true_iff_false. intros H. apply existsb_exists in H as (r & Hr & Hc). rewrite (Hn r Hr) in Hc. discriminate. }
  rewrite Hex. eexists _, _. split; [reflexivity|]. split; [apply map_length|]. split.
  - intros i r H. rewrite nth_error_map, H. reflexivity.
  - clear. induction rs as [|[d|e|] rs' IH]; cbn; auto.
Qed.

(* an error in one declaration does not stop the others: what declaration i
   contributes depends on declaration i alone *)
Theorem declarations_independent (rs1 rs2 : list (tres X E)) g1 e1 g2 e2 i :
  translate_decls rs1 = Some (g1, e1) -> translate_decls rs2 = Some (g2, e2) ->
  nth_error rs1 i = nth_error rs2 i -> nth_error g1 i = nth_error g2 i.
Proof.
  unfold translate_decls. destruct (existsb is_crash rs1); [discriminate|]. destruct (existsb is_crash rs2); [discriminate|].
  intros [= <- _] [= <- _] H. rewrite !nth_error_map, H. reflexivity.
Qed.

(* success (exit status 0) exactly when every declaration translated *)
Theorem no_errors_iff_all_ok (rs : list (tres X E)) g e :
  translate_decls rs = Some (g, e) -> (e = [] <-> forall r, In r rs -> exists d, r = TOk d).
Proof.
  unfold translate_decls. destruct (existsb is_crash rs) eqn:Ex; [discriminate|]. intros [= _ <-].
  assert (Hn : forall r, In r rs -> is_crash r = false).
  { intros r Hr. destruct (is_crash r) eqn:Ec; [|reflexivity]. exfalso.
    assert (existsb is_crash rs = true) by (apply existsb_exists; eauto). congruence. }
  clear Ex. induction rs as [|r rs' IH]; cbn.
  - split; [intros _ r []|reflexivity].
  - assert (IH' := IH (fun r Hr => Hn r (or_intror Hr))). destruct r as [d|err|].
    + cbn. rewrite IH'. split; [intros H r [<-|Hr]; eauto|intros H r Hr; apply H; auto].
    + cbn. split; [discriminate|]. intros H. destruct (H (TErr err) (or_introl eq_refl)) as [d Hd]. discriminate.
    + specialize (Hn TCrash (or_introl eq_refl)). discriminate.
Qed.
End Errors.

(* ---------------------------------------------------------------- the fuel suffices *)
Lemma resolve_from_lt ds n : forall i acc j,
  (forall k, acc = Some k -> k < i + length ds) ->
  resolve_from i ds n acc = Some j -> j < i + length ds.
Proof.
  induction ds as [|d ds IH]; cbn [resolve_from length]; intros i acc j Hacc H.
  - apply Hacc, H.
  - replace (i + S (length ds)) with (S i + length ds) by lia. eapply IH; [|exact H].
    intros k Hk. destruct (mem_str n (d_names d)); [injection Hk as <-; lia|]. specialize (Hacc k Hk). lia.
Qed.

Lemma resolve_lt ds n j : resolve ds n = Some j -> j < length ds.
Proof. unfold resolve. intros H. apply (resolve_from_lt ds n 0 None j); [discriminate|exact H]. Qed.

Definition bounded (N : nat) (l : list nat) : Prop := forall x, In x l -> x < N.

Lemma bounded_nodup_length N l : NoDup l -> bounded N l -> length l <= N.
Proof.
  intros Hn Hb. rewrite <- (seq_length N 0). apply NoDup_incl_length; [exact Hn|].
  intros x Hx. apply in_seq. specialize (Hb x Hx). lia.
Qed.

(* with more fuel than unmarked declarations the visit finishes *)
Lemma visit_terminates ds : forall f id st,
  id < length ds -> NoDup (fst st) -> bounded (length ds) (fst st) ->
  length ds - length (fst st) < f ->
  exists st', visit f ds id st = Some st' /\ NoDup (fst st') /\ bounded (length ds) (fst st') /\ incl (fst st) (fst st').
Proof.
  induction f as [|f IH]; intros id st Hid Hn Hb Hf; [lia|].
  cbn [visit]. destruct (mem_nat id (fst st)) eqn:Em.
  - exists st. auto using incl_refl.
  - apply mem_nat_false in Em.
    change (fold_left _ (deps_of ds id) (Some (id :: fst st, snd st))) with (visit_deps f ds (deps_of ds id) (Some (id :: fst st, snd st))).
    assert (Hn1 : NoDup (id :: fst st)) by (constructor; assumption).
    assert (Hb1 : bounded (length ds) (id :: fst st)) by (intros x [<-|Hx]; auto).
    assert (Hlen : S (length (fst st)) <= length ds) by (apply (bounded_nodup_length _ (id :: fst st)); assumption).
    assert (Hfold : forall deps s0, NoDup (fst s0) -> bounded (length ds) (fst s0) -> length ds - length (fst s0) < f ->
              exists s1, visit_deps f ds deps (Some s0) = Some s1 /\ NoDup (fst s1) /\ bounded (length ds) (fst s1) /\ incl (fst s0) (fst s1)).
    { induction deps as [|dep deps IHd]; intros s0 N0 B0 F0.
      - exists s0. cbn. auto using incl_refl.
      - rewrite visit_deps_cons. destruct (resolve ds dep) as [j|] eqn:Er.
        + destruct (IH j s0 (resolve_lt _ _ _ Er) N0 B0 F0) as (s0' & Ev & N1 & B1 & I1). rewrite Ev.
          assert (F1 : length ds - length (fst s0') < f).
          { pose proof (NoDup_incl_length N0 I1). lia. }
          destruct (IHd s0' N1 B1 F1) as (s1 & E1 & N2 & B2 & I2).
          exists s1. repeat split; auto. eapply incl_tran; eauto.
        + apply IHd; auto. }
    destruct (Hfold (deps_of ds id) (id :: fst st, snd st)) as (s1 & E1 & N1 & B1 & I1); cbn [fst]; auto.
    { cbn [length]. lia. }
    rewrite E1. eexists. split; [reflexivity|]. cbn [fst]. repeat split; auto.
    intros x Hx. apply I1. right; exact Hx.
Qed.

(* the emission never runs out of fuel: emit_order is total *)
Theorem emit_order_total ds : exists order, emit_order ds = Some order.
Proof.
  unfold emit_order, emit_all.
  assert (H : forall ids st, (forall id, In id ids -> id < length ds) -> NoDup (fst st) -> bounded (length ds) (fst st) ->
            exists st', fold_left (fun acc id => match acc with None => None | Some st => visit (S (length ds)) ds id st end) ids (Some st) = Some st').
  { induction ids as [|id ids IHi]; intros st Hids Hn Hb; [eexists; reflexivity|].
    cbn [fold_left].
    destruct (visit_terminates ds (S (length ds)) id st) as (s1 & E & N1 & B1 & _); auto.
    - apply Hids. left; reflexivity.
    - lia.
    - rewrite E. apply IHi; auto. intros x Hx. apply Hids. right; exact Hx. }
  destruct (H (seq 0 (length ds)) ([], [])) as (st' & E).
  - intros id Hid. apply in_seq in Hid. lia.
  - cbn. apply NoDup_nil.
  - intros x [].
  - rewrite E. eexists. reflexivity.
Qed.
