(* The order goose emits is an order the call theorem applies to.

   Tr/Decls.v models goose's emission (a depth-first visit over the names a
   declaration mentions) for any package; Tr/MiniGoC.v needs the functions of a
   package callee first.  Here the two are composed: for a package of the
   MiniGoC fragment in SOURCE order - distinct function names, every call
   naming a function of the package, every function translatable on its own,
   no cycle of calls other than a function calling itself - the order Decls
   computes is accepted by trc_prog, so prog_correct applies to what goose
   emits. *)
From Coq Require Import String List Arith Bool Lia.
From GV Require Import Lang.GlSyntax Lang.GlSem Tr.MiniGo Tr.MiniGoProofs Tr.MiniGoC Tr.MiniGoCProofs Tr.Decls Tr.DeclsProofs.
Import ListNotations.
Local Open Scope nat_scope.
Local Open Scope list_scope.

Definition decl_of (fn : cfunc) : decl := {| d_names := [cf_name fn]; d_deps := callees_b (cf_body fn) |}.
Definition decls_of (P : cprog) : list decl := map decl_of P.
Definition pick (P : cprog) (order : list nat) : cprog :=
  flat_map (fun i => match nth_error P i with Some fn => [fn] | None => [] end) order.

(* ---------------------------------------------------------------- success does not depend on the values in the table *)
Lemma tr_binop_some op a b e a' b' : tr_binop op a b = Some e -> exists e', tr_binop op a' b' = Some e'.
Proof. destruct op; cbn [tr_binop]; intros H; try discriminate H; eexists; reflexivity. Qed.

Lemma flookup_some_In g T : In g (map fst T) -> flookup g T <> None.
Proof.
  induction T as [|[h w] T IH]; cbn [map fst In flookup]; [tauto|]. intros [<-|Hin].
  - rewrite String.eqb_refl. discriminate.
  - destruct (String.eqb g h); [discriminate|auto].
Qed.

Lemma trc_table_indep T0 T self :
  (forall e G e0, trc_expr T0 self G e = Some e0 ->
     (forall g, In g (callees_e e) -> g = self \/ flookup g T <> None) ->
     exists e1, trc_expr T self G e = Some e1) /\
  (forall a G acc0 e0, trc_args T0 self G a acc0 = Some e0 ->
     (forall g, In g (callees_a a) -> g = self \/ flookup g T <> None) ->
     forall acc1, exists e1, trc_args T self G a acc1 = Some e1).
Proof.
  apply cexpr_cargs_ind.
  - intros n G e0 _ _. eexists; reflexivity.
  - intros b G e0 _ _. eexists; reflexivity.
  - intros x G e0 H _. cbn [trc_expr] in H |- *. destruct (smem x G); [eexists; reflexivity|discriminate].
  - intros op a IHa b IHb G e0 H Hc. cbn [trc_expr] in H |- *.
    destruct (trc_expr T0 self G a) as [a0|] eqn:Ea; [|discriminate].
    destruct (trc_expr T0 self G b) as [b0|] eqn:Eb; [|discriminate].
    destruct (IHa _ _ Ea) as [a1 ->]; [intros g Hg; apply Hc; cbn [callees_e]; apply in_or_app; auto|].
    destruct (IHb _ _ Eb) as [b1 ->]; [intros g Hg; apply Hc; cbn [callees_e]; apply in_or_app; auto|].
    eapply tr_binop_some, H.
  - intros a IHa G e0 H Hc. cbn [trc_expr] in H |- *.
    destruct (trc_expr T0 self G a) as [a0|] eqn:Ea; [|discriminate].
    destruct (IHa _ _ Ea Hc) as [a1 ->]. eexists; reflexivity.
  - intros f args IHargs G e0 H Hc. cbn [trc_expr] in H |- *. destruct (smem f G); [discriminate|].
    assert (Hfe : exists fe, (if String.eqb f self then Some (Var f) else option_map Val (flookup f T)) = Some fe).
    { destruct (String.eqb f self) eqn:Es; [eexists; reflexivity|].
      destruct (Hc f) as [->|Hf]; [left; reflexivity|rewrite String.eqb_refl in Es; discriminate|].
      destruct (flookup f T); [eexists; reflexivity|congruence]. }
    destruct Hfe as [fe ->].
    destruct (if String.eqb f self then Some (Var f) else option_map Val (flookup f T0)) as [fe0|]; [|discriminate].
    destruct args as [|a rest]; [eexists; reflexivity|].
    eapply IHargs; [exact H|]. intros g Hg. apply Hc. right. exact Hg.
  - intros G acc0 e0 _ _ acc1. eexists; reflexivity.
  - intros a IHa rest IHrest G acc0 e0 H Hc acc1. cbn [trc_args] in H |- *.
    destruct (trc_expr T0 self G a) as [a0|] eqn:Ea; [|discriminate].
    destruct (IHa _ _ Ea) as [a1 ->]; [intros g Hg; apply Hc; cbn [callees_a]; apply in_or_app; auto|].
    eapply IHrest; [exact H|]. intros g Hg. apply Hc. cbn [callees_a]. apply in_or_app; auto.
Qed.

Lemma trc_body_indep T0 T self : forall b G b0, trc_body T0 self G b = Some b0 ->
  (forall g, In g (callees_b b) -> g = self \/ flookup g T <> None) ->
  exists b1, trc_body T self G b = Some b1.
Proof.
  induction b as [e|x e k IHk|c th IHt el IHe]; intros G b0 H Hc; cbn [trc_body callees_b] in H, Hc |- *.
  - eapply (proj1 (trc_table_indep T0 T self)); eassumption.
  - destruct (trc_expr T0 self G e) as [e0|] eqn:Ee; [|discriminate].
    destruct (trc_body T0 self (x :: G) k) as [k0|] eqn:Ek; [|discriminate].
    destruct (proj1 (trc_table_indep T0 T self) _ _ _ Ee) as [e1 ->]; [intros g Hg; apply Hc, in_or_app; auto|].
    destruct (IHk _ _ Ek) as [k1 ->]; [intros g Hg; apply Hc, in_or_app; auto|]. eexists; reflexivity.
  - destruct (trc_expr T0 self G c) as [c0|] eqn:Ec; [|discriminate].
    destruct (trc_body T0 self G th) as [t0|] eqn:Et; [|discriminate].
    destruct (trc_body T0 self G el) as [l0|] eqn:El; [|discriminate].
    destruct (proj1 (trc_table_indep T0 T self) _ _ _ Ec) as [c1 ->]; [intros g Hg; apply Hc, in_or_app; auto|].
    destruct (IHt _ _ Et) as [t1 ->]; [intros g Hg; apply Hc, in_or_app; right; apply in_or_app; auto|].
    destruct (IHe _ _ El) as [l1 ->]; [intros g Hg; apply Hc, in_or_app; right; apply in_or_app; auto|].
    eexists; reflexivity.
Qed.

Lemma trc_func_indep T0 T fn v0 : trc_func T0 fn = Some v0 ->
  (forall g, In g (callees_b (cf_body fn)) -> g = cf_name fn \/ flookup g T <> None) ->
  exists v, trc_func T fn = Some v.
Proof.
  unfold trc_func. intros H Hc.
  destruct (nodupb (cf_params fn) && negb (smem (cf_name fn) (cf_params fn))); [|discriminate].
  destruct (trc_body T0 (cf_name fn) (rev (cf_params fn)) (cf_body fn)) as [b0|] eqn:Eb; [|discriminate].
  destruct (trc_body_indep T0 T _ _ _ _ Eb Hc) as [b1 ->].
  destruct (cf_params fn); eexists; reflexivity.
Qed.

(* ---------------------------------------------------------------- names resolve to their function *)
Lemma mem_str_single n m : mem_str n [m] = String.eqb n m.
Proof. unfold mem_str. cbn [existsb]. apply orb_false_r. Qed.

Lemma resolve_from_absent P n : ~ In n (map cf_name P) -> forall i acc, resolve_from i (decls_of P) n acc = acc.
Proof.
  induction P as [|fn P IH]; intros Hn i acc; [reflexivity|]. cbn [decls_of map resolve_from decl_of d_names].
  rewrite mem_str_single. cbn [map In] in Hn.
  destruct (String.eqb n (cf_name fn)) eqn:E; [apply String.eqb_eq in E; exfalso; apply Hn; left; auto|].
  apply IH. tauto.
Qed.

Lemma resolve_from_nth : forall P j gn i acc, NoDup (map cf_name P) -> nth_error P j = Some gn ->
  resolve_from i (decls_of P) (cf_name gn) acc = Some (i + j).
Proof.
  induction P as [|fn P IH]; intros j gn i acc Hnd Hn; [destruct j; discriminate|].
  cbn [decls_of map resolve_from decl_of d_names]. rewrite mem_str_single.
  cbn [map] in Hnd. inversion Hnd as [|? ? Hfresh Hnd']; subst.
  destruct j as [|j]; cbn [nth_error] in Hn.
  - injection Hn as <-. rewrite String.eqb_refl. rewrite (resolve_from_absent P _ Hfresh). f_equal. lia.
  - assert (Hin : In (cf_name gn) (map cf_name P)) by (apply in_map, (nth_error_In _ _ Hn)).
    destruct (String.eqb (cf_name gn) (cf_name fn)) eqn:E.
    + apply String.eqb_eq in E. rewrite E in Hin. contradiction.
    + change (resolve_from (S i) (map decl_of P) (cf_name gn) acc) with (resolve_from (S i) (decls_of P) (cf_name gn) acc).
      rewrite (IH j gn (S i) acc Hnd' Hn). f_equal. lia.
Qed.

Lemma resolve_nth P j gn : NoDup (map cf_name P) -> nth_error P j = Some gn -> resolve (decls_of P) (cf_name gn) = Some j.
Proof. intros Hnd Hn. unfold resolve. rewrite (resolve_from_nth P j gn 0 None Hnd Hn). reflexivity. Qed.

Lemma nth_error_name_inj P i j fi fj : NoDup (map cf_name P) ->
  nth_error P i = Some fi -> nth_error P j = Some fj -> cf_name fi = cf_name fj -> i = j.
Proof.
  intros Hnd Hi Hj He.
  assert (Hi' : nth_error (map cf_name P) i = Some (cf_name fi)) by (rewrite nth_error_map, Hi; reflexivity).
  assert (Hj' : nth_error (map cf_name P) j = Some (cf_name fj)) by (rewrite nth_error_map, Hj; reflexivity).
  rewrite He in Hi'. rewrite <- Hj' in Hi'.
  apply (proj1 (NoDup_nth_error _) Hnd); [|exact Hi'].
  apply nth_error_Some. rewrite Hi'. rewrite Hj'. discriminate.
Qed.

(* ---------------------------------------------------------------- the composition *)
Section Order.
Variable P : cprog.
Hypothesis Hnames : NoDup (map cf_name P).
Hypothesis Hdeclared : forall fn g, In fn P -> In g (callees_b (cf_body fn)) -> exists gn, In gn P /\ cf_name gn = g.
Hypothesis Hlocal : forall fn, In fn P -> exists T0 v, trc_func T0 fn = Some v.
Variable rk : nat -> nat.
Hypothesis Hacyclic : acyclic (decls_of P) rk.
Variable order : list nat.
Hypothesis Horder : emit_order (decls_of P) = Some order.

Definition names_of (pre : list nat) (g : string) : Prop :=
  exists i fn, In i pre /\ nth_error P i = Some fn /\ cf_name fn = g.

Lemma accepted_from : forall rest pre T,
  order = pre ++ rest ->
  (forall g, In g (map fst T) <-> names_of pre g) ->
  exists R, trc_prog_from T (pick P rest) = Some R.
Proof.
  induction rest as [|id rest IH]; intros pre T Ho HT; [exists []; reflexivity|].
  cbn [pick flat_map]. destruct (nth_error P id) as [fn|] eqn:En; cbn [app].
  2:{ apply (IH (pre ++ [id]) T); [rewrite <- app_assoc; exact Ho|].
      intros g. rewrite HT. split; intros (i & f & Hi & Hn & Hg).
      - exists i, f. split; [apply in_or_app; auto|auto].
      - apply in_app_or in Hi. destruct Hi as [Hi|[<-|[]]]; [exists i, f; auto|congruence]. }
  pose proof (emitted_once _ _ Horder) as [Hnd _].
  assert (Hid : ~ In id pre).
  { rewrite Ho in Hnd. intros Hin. apply NoDup_remove_2 in Hnd. apply Hnd, in_or_app. left; exact Hin. }
  cbn [trc_prog_from].
  assert (Hfresh : smem (cf_name fn) (map fst T) = false).
  { destruct (smem (cf_name fn) (map fst T)) eqn:E; [|reflexivity]. apply smem_In in E. apply HT in E.
    destruct E as (i & f & Hi & Hn & Hg). rewrite (nth_error_name_inj P i id f fn Hnames Hn En Hg) in Hi. contradiction. }
  rewrite Hfresh. cbn [negb].
  assert (HinP : In fn P) by (eapply nth_error_In, En).
  destruct (Hlocal fn HinP) as (T0 & v0 & Hv0).
  destruct (trc_func_indep T0 T fn v0 Hv0) as [v Hv].
  { intros g Hg. destruct (String.eqb g (cf_name fn)) eqn:Eg; [left; apply String.eqb_eq, Eg|right].
    destruct (Hdeclared fn g HinP Hg) as (gn & HgnP & Hgn).
    destruct (In_nth_error _ _ HgnP) as [j Hj].
    apply flookup_some_In, HT. exists j, gn. split; [|auto].
    assert (Hjid : j <> id).
    { intros ->. rewrite En in Hj. injection Hj as ->. rewrite Hgn, String.eqb_refl in Eg. discriminate. }
    apply (defined_before_use _ rk _ Hacyclic Horder pre id rest Ho j).
    exists g. split; [|split; [|exact Hjid]].
    - unfold deps_of, decls_of. rewrite nth_error_map, En. exact Hg.
    - rewrite <- Hgn. apply resolve_nth; assumption. }
  rewrite Hv.
  destruct (IH (pre ++ [id]) ((cf_name fn, v) :: T)) as [R HR]; [rewrite <- app_assoc; exact Ho| |unfold pick in HR; rewrite HR; eexists; reflexivity].
  intros g. cbn [map fst In]. rewrite HT. split.
  - intros [<-|(i & f & Hi & Hn & Hg)]; [exists id, fn; split; [apply in_or_app; right; left; reflexivity|auto]|].
    exists i, f. split; [apply in_or_app; auto|auto].
  - intros (i & f & Hi & Hn & Hg). apply in_app_or in Hi. destruct Hi as [Hi|[<-|[]]]; [right; exists i, f; auto|].
    left. rewrite En in Hn. injection Hn as <-. exact Hg.
Qed.

Theorem goose_order_is_accepted : exists vs, trc_prog (pick P order) = Some vs.
Proof.
  destruct (accepted_from order [] [] eq_refl) as [R HR].
  - intros g. split; [intros []|intros (i & f & [] & _)].
  - unfold trc_prog. rewrite HR. eexists; reflexivity.
Qed.
End Order.

(* ... hence what goose emits for such a package preserves meaning *)
Theorem goose_order_preserves_meaning P rk order :
  NoDup (map cf_name P) ->
  (forall fn g, In fn P -> In g (callees_b (cf_body fn)) -> exists gn, In gn P /\ cf_name gn = g) ->
  (forall fn, In fn P -> exists T0 v, trc_func T0 fn = Some v) ->
  acyclic (decls_of P) rk -> emit_order (decls_of P) = Some order ->
  exists vs, trc_prog (pick P order) = Some vs /\
    Forall2 (fun fn F => forall n args v s,
               length args = length (cf_params fn) ->
               cgo_body n (pick P order) (rev (combine (cf_params fn) args)) (cf_body fn) = Some v ->
               evals (call_expr F args) s v s) (pick P order) vs.
Proof.
  intros H1 H2 H3 H4 H5. destruct (goose_order_is_accepted P H1 H2 H3 rk H4 order H5) as [vs Hvs].
  exists vs. split; [exact Hvs|apply prog_correct, Hvs].
Qed.

(* the hypotheses are satisfiable: the example package of MiniGoCProofs written
   caller first *)
Definition ex_src : cprog := [ex_use; ex_gcd; ex_seven].
Definition ex_rk (i : nat) : nat := match i with 0 => 1 | _ => 0 end.

Example ex_src_order : emit_order (decls_of ex_src) = Some [1; 2; 0].
Proof. vm_compute. reflexivity. Qed.

Example ex_src_hypotheses :
  NoDup (map cf_name ex_src) /\
  (forall fn g, In fn ex_src -> In g (callees_b (cf_body fn)) -> exists gn, In gn ex_src /\ cf_name gn = g) /\
  (forall fn, In fn ex_src -> exists T0 v, trc_func T0 fn = Some v) /\
  acyclic (decls_of ex_src) ex_rk.
Proof.
  split; [|split; [|split]].
  - apply nodupb_NoDup. vm_compute. reflexivity.
  - intros fn g Hfn Hg. cbn [ex_src In] in Hfn. destruct Hfn as [<-|[<-|[<-|[]]]]; cbn in Hg;
      repeat (destruct Hg as [<-|Hg]; [first [exists ex_use; split; [cbn; tauto|reflexivity]
                                             |exists ex_gcd; split; [cbn; tauto|reflexivity]
                                             |exists ex_seven; split; [cbn; tauto|reflexivity]]|]); destruct Hg.
  - intros fn Hfn. exists [("Gcd"%string, LitV LitUnit); ("Seven"%string, LitV LitUnit); ("Use"%string, LitV LitUnit)].
    cbn [ex_src In] in Hfn. destruct Hfn as [<-|[<-|[<-|[]]]]; eexists; vm_compute; reflexivity.
  - intros id j (dep & Hin & Hres & Hne). unfold deps_of in Hin.
    destruct id as [|[|[|id]]]; cbn in Hin.
    + repeat (destruct Hin as [<-|Hin]; [vm_compute in Hres; injection Hres as <-; first [congruence|cbn; lia]|]). destruct Hin.
    + repeat (destruct Hin as [<-|Hin]; [vm_compute in Hres; injection Hres as <-; first [congruence|cbn; lia]|]). destruct Hin.
    + destruct Hin.
    + destruct id; destruct Hin.
Qed.

Example ex_src_accepted_in_goose_order :
  exists vs, trc_prog (pick ex_src [1; 2; 0]) = Some vs /\ length vs = 3.
Proof. eexists. split; [vm_compute; reflexivity|reflexivity]. Qed.
