(* Model of interface.go TranslatePackages: one worker per package; worker i
   computes translate(pkg_i) and stores its two components into files[i] and
   errs[i]; the workers run in any interleaving and are joined by a wait
   group.  Whatever the interleaving of the stores, the joined state is the
   sequential map. *)
From Coq Require Import List Arith Bool Permutation Lia.
Import ListNotations.

Section Workers.
Variables A B : Type.

Inductive ev := WFile (i : nat) | WErr (i : nat).

Definition ev_eqb (a b : ev) : bool :=
  match a, b with
  | WFile i, WFile j | WErr i, WErr j => Nat.eqb i j
  | _, _ => false
  end.

Fixpoint set_nth {X} (l : list X) (i : nat) (x : X) : list X :=
  match l, i with
  | [], _ => []
  | _ :: t, O => x :: t
  | h :: t, S i' => h :: set_nth t i' x
  end.

(* the results the workers computed, by package index *)
Variable rs : list (A * B).

Definition state := (list (option A) * list (option B))%type.

Definition exec (st : state) (e : ev) : state :=
  match e with
  | WFile i => match nth_error rs i with Some r => (set_nth (fst st) i (Some (fst r)), snd st) | None => st end
  | WErr i => match nth_error rs i with Some r => (fst st, set_nth (snd st) i (Some (snd r))) | None => st end
  end.

Definition init : state := (repeat None (length rs), repeat None (length rs)).

(* all stores of all workers *)
Definition all_events : list ev := flat_map (fun i => [WFile i; WErr i]) (seq 0 (length rs)).

Definition run (sch : list ev) : state := fold_left exec sch init.

Definition joined : state := (map (fun r => Some (fst r)) rs, map (fun r => Some (snd r)) rs).
End Workers.
