(* cmd/goose/main.go: translate and writeFileIfChanged.
   Package loading and the translation of each package are inputs: [results]
   is the list TranslatePackages returned (in pattern-matching order), each
   package with its import path and either its complete file or an error
   together with the partial file (the declarations that did translate). *)
From Coq Require Import String List Bool Arith.
From GV Require Import Tr.Header.
Import ListNotations.
Open Scope string_scope.

Inductive result :=
| ROk (contents : string)
| RErr (partial : string).

Definition is_ok (r : result) : bool := match r with ROk _ => true | RErr _ => false end.
Definition contents (r : result) : string := match r with ROk c | RErr c => c end.

Record write_op := { w_path : string; w_data : string }.

(* the state of the output directory: path -> contents of an existing file *)
Definition outdir := string -> option string.

Definition out_file (out_root pkg : string) : string := out_root ++ "/" ++ output_path pkg.

(* writeFileIfChanged: nothing is written when the file already has the contents *)
Definition write_if_changed (existing : outdir) (name data : string) : list write_op :=
  match existing name with
  | Some c => if String.eqb c data then [] else [{| w_path := name; w_data := data |}]
  | None => [{| w_path := name; w_data := data |}]
  end.

Definition writes_for (ignore_errors : bool) (out_root : string) (existing : outdir) (pr : string * result) : list write_op :=
  let '(pkg, r) := pr in
  if is_ok r || ignore_errors then write_if_changed existing (out_file out_root pkg) (contents r) else [].

(* the loop of translate: (exit status, writes in order); a pattern error exits 1 without writing *)
Definition cli (pattern_error ignore_errors : bool) (out_root : string) (existing : outdir)
           (results : list (string * result)) : nat * list write_op :=
  if pattern_error then (1, [])
  else (if forallb (fun pr => is_ok (snd pr)) results then 0 else 1,
        flat_map (writes_for ignore_errors out_root existing) results).
