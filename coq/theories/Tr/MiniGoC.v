(* MiniGoC: calls.  A model of goose's translation of packages of first-order
   functions that call each other and themselves (uint64 and bool values; :=
   locals; if/else with early returns; calls in any expression position,
   recursion through the recursion binder), together with a Go semantics for
   that fragment.

   trc_prog mirrors goose.go (funcDecl, callExpr, identExpr for a function name,
   the dependency order of Decls) composed with the printer read back with the
   notation levels of GlNotation.v:
     - a call of an earlier function of the package is the application of the
       Coq constant of that function (a value) to the arguments, one by one;
     - a call of the function being defined goes through the recursion binder
       (the string of its name);
     - a function without parameters takes the unit value.
   None = goose reports a conversion error, the package does not type-check
   (a call of a name that is a local variable), or the declarations are not in
   dependency order (goose orders them; mutual recursion has no order). *)
From Coq Require Import String List ZArith Bool.
From GV Require Import Lang.GlSyntax Lang.GlSem Tr.MiniGo.
Import ListNotations.
Open Scope string_scope.

Inductive cexpr :=
| CLit (n : Z)
| CBool (b : bool)
| CVar (x : string)
| CBin (op : gop) (a b : cexpr)
| CNot (a : cexpr)
| CCall (f : string) (args : cargs)
with cargs :=
| CANil
| CACons (a : cexpr) (rest : cargs).

(* function bodies in tail form: x := e; k  |  return e  |  if c { th } else { el }
   where the else branch is either written out or the rest of the list after
   an if whose body ends with return (goose emits the same term for both) *)
Inductive cbody :=
| CRet (e : cexpr)
| CLet (x : string) (e : cexpr) (k : cbody)
| CIf (c : cexpr) (th el : cbody).

Record cfunc := { cf_name : string; cf_params : list string; cf_body : cbody }.
Definition cprog := list cfunc.

(* ---------------------------------------------------------------- translator *)
Definition ftable := list (string * val).       (* the functions emitted so far *)

Fixpoint flookup (f : string) (T : ftable) : option val :=
  match T with
  | [] => None
  | (g, v) :: T' => if String.eqb f g then Some v else flookup f T'
  end.

Fixpoint smem (x : string) (l : list string) : bool :=
  match l with
  | [] => false
  | y :: l' => String.eqb x y || smem x l'
  end.

Fixpoint trc_expr (T : ftable) (self : string) (G : list string) (e : cexpr) : option expr :=
  match e with
  | CLit n => Some (Lit n)
  | CBool b => Some (BoolE b)
  | CVar x => if smem x G then Some (Var x) else None
  | CBin op a b =>
      match trc_expr T self G a, trc_expr T self G b with
      | Some a', Some b' => tr_binop op a' b'
      | _, _ => None
      end
  | CNot a => match trc_expr T self G a with Some a' => Some (UnOp NegOp a') | None => None end
  | CCall f args =>
      if smem f G then None            (* f is a variable here: not a call of the function *)
      else
        match (if String.eqb f self then Some (Var f) else option_map Val (flookup f T)) with
        | Some fe =>
            match args with
            | CANil => Some (App fe UnitE)
            | _ => trc_args T self G args fe
            end
        | None => None
        end
  end
with trc_args (T : ftable) (self : string) (G : list string) (args : cargs) (acc : expr) : option expr :=
  match args with
  | CANil => Some acc
  | CACons a rest =>
      match trc_expr T self G a with
      | Some a' => trc_args T self G rest (App acc a')
      | None => None
      end
  end.

Fixpoint trc_body (T : ftable) (self : string) (G : list string) (b : cbody) : option expr :=
  match b with
  | CRet e => trc_expr T self G e
  | CLet x e k =>
      match trc_expr T self G e, trc_body T self (x :: G) k with
      | Some e', Some k' => Some (LetIn (BNamed x) e' k')
      | _, _ => None
      end
  | CIf c th el =>
      match trc_expr T self G c, trc_body T self G th, trc_body T self G el with
      | Some c', Some t', Some e' => Some (If c' t' e')
      | _, _, _ => None
      end
  end.

Fixpoint nodupb (l : list string) : bool :=
  match l with
  | [] => true
  | x :: l' => negb (smem x l') && nodupb l'
  end.

(* funcDecl: the parameters are distinct (Go) and none has the function's name
   (goose rejects that: the recursion binder would capture it) *)
Definition trc_func (T : ftable) (fn : cfunc) : option val :=
  if nodupb (cf_params fn) && negb (smem (cf_name fn) (cf_params fn)) then
    match trc_body T (cf_name fn) (rev (cf_params fn)) (cf_body fn) with
    | Some body =>
        match cf_params fn with
        | [] => Some (RecV (BNamed (cf_name fn)) BAnon body)
        | p :: ps => Some (RecV (BNamed (cf_name fn)) (BNamed p) (lams ps body))
        end
    | None => None
    end
  else None.

(* the package, in the order of the emitted file: every function sees the ones before it *)
Fixpoint trc_prog_from (T : ftable) (P : cprog) : option ftable :=
  match P with
  | [] => Some []
  | fn :: P' =>
      if negb (smem (cf_name fn) (map fst T)) then
        match trc_func T fn with
        | Some v =>
            match trc_prog_from ((cf_name fn, v) :: T) P' with
            | Some R => Some ((cf_name fn, v) :: R)
            | None => None
            end
        | None => None
        end
      else None                     (* two functions of one name: not Go *)
  end.

Definition trc_prog (P : cprog) : option (list val) := option_map (map snd) (trc_prog_from [] P).

(* ---------------------------------------------------------------- Go semantics *)
Definition cenv := list (string * val).

Fixpoint elookup (x : string) (r : cenv) : option val :=
  match r with
  | [] => None
  | (y, v) :: r' => if String.eqb x y then Some v else elookup x r'
  end.

Fixpoint find_func (f : string) (P : cprog) : option cfunc :=
  match P with
  | [] => None
  | fn :: P' => if String.eqb f (cf_name fn) then Some fn else find_func f P'
  end.

(* every function of the package is visible everywhere; None = panic, ill-typed
   or out of fuel.  The fuel goes down with every constructor and every call. *)
Fixpoint cgo_expr (n : nat) (P : cprog) (r : cenv) (e : cexpr) {struct n} : option val :=
  match n with
  | O => None
  | S n' =>
      match e with
      | CLit k => Some (LitV (LitInt k))
      | CBool b => Some (LitV (LitBool b))
      | CVar x => elookup x r
      | CBin OLAnd a b =>
          match cgo_expr n' P r a with
          | Some (LitV (LitBool true)) => match cgo_expr n' P r b with Some (LitV (LitBool x)) => Some (LitV (LitBool x)) | _ => None end
          | Some (LitV (LitBool false)) => Some (LitV (LitBool false))
          | _ => None
          end
      | CBin OLOr a b =>
          match cgo_expr n' P r a with
          | Some (LitV (LitBool true)) => Some (LitV (LitBool true))
          | Some (LitV (LitBool false)) => match cgo_expr n' P r b with Some (LitV (LitBool x)) => Some (LitV (LitBool x)) | _ => None end
          | _ => None
          end
      | CBin op a b =>
          match cgo_expr n' P r a, cgo_expr n' P r b with
          | Some va, Some vb => go_binop op va vb
          | _, _ => None
          end
      | CNot a =>
          match cgo_expr n' P r a with
          | Some (LitV (LitBool b)) => Some (LitV (LitBool (negb b)))
          | _ => None
          end
      | CCall f args =>
          match elookup f r, find_func f P, cgo_args n' P r args with
          | None, Some fn, Some vs =>
              if Nat.eqb (length vs) (length (cf_params fn))
              then cgo_body n' P (rev (combine (cf_params fn) vs)) (cf_body fn)
              else None
          | _, _, _ => None
          end
      end
  end
with cgo_args (n : nat) (P : cprog) (r : cenv) (args : cargs) {struct n} : option (list val) :=
  match n with
  | O => None
  | S n' =>
      match args with
      | CANil => Some []
      | CACons a rest =>
          match cgo_expr n' P r a, cgo_args n' P r rest with
          | Some v, Some vs => Some (v :: vs)
          | _, _ => None
          end
      end
  end
with cgo_body (n : nat) (P : cprog) (r : cenv) (b : cbody) {struct n} : option val :=
  match n with
  | O => None
  | S n' =>
      match b with
      | CRet e => cgo_expr n' P r e
      | CLet x e k =>
          match cgo_expr n' P r e with
          | Some v => cgo_body n' P ((x, v) :: r) k
          | None => None
          end
      | CIf c th el =>
          match cgo_expr n' P r c with
          | Some (LitV (LitBool cb)) => cgo_body n' P r (if cb then th else el)
          | _ => None
          end
      end
  end.

(* running a function of the package on argument values *)
Definition cgo_call (n : nat) (P : cprog) (f : string) (args : list val) : option val :=
  match find_func f P with
  | Some fn =>
      if Nat.eqb (length args) (length (cf_params fn))
      then cgo_body n P (rev (combine (cf_params fn) args)) (cf_body fn)
      else None
  | None => None
  end.

(* rendering for the differential harness *)
From GV Require Import Lang.Show.
Definition show_cres (o : option val) : string :=
  match o with
  | Some v => show_val v
  | None => "none"
  end.
