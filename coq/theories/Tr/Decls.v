(* Model of interface.go Ctx.Decls: every top-level declaration is translated
   on its own (its definitions, the names it introduces, the names it
   mentions), then the declarations are emitted by a depth-first visit that
   emits the declarations a declaration mentions before the declaration
   itself, each declaration once. *)
From Coq Require Import String List Arith Bool.
Import ListNotations.

Record decl := { d_names : list string; d_deps : list string }.

Definition mem_nat (x : nat) (l : list nat) : bool := existsb (Nat.eqb x) l.
Definition mem_str (x : string) (l : list string) : bool := existsb (String.eqb x) l.

(* nameDecls[n] = id is overwritten by later declarations: the last one wins *)
Fixpoint resolve_from (i : nat) (ds : list decl) (n : string) (acc : option nat) : option nat :=
  match ds with
  | [] => acc
  | d :: ds' => resolve_from (S i) ds' n (if mem_str n (d_names d) then Some i else acc)
  end.
Definition resolve (ds : list decl) (n : string) : option nat := resolve_from 0 ds n None.

Definition deps_of (ds : list decl) (id : nat) : list string :=
  match nth_error ds id with Some d => d_deps d | None => [] end.

(* processDecl; state = (generated, emitted in order).  None: out of fuel. *)
Fixpoint visit (fuel : nat) (ds : list decl) (id : nat) (st : list nat * list nat) : option (list nat * list nat) :=
  match fuel with
  | O => None
  | S f =>
      if mem_nat id (fst st) then Some st
      else
        match fold_left (fun acc dep =>
                           match acc with
                           | None => None
                           | Some st' => match resolve ds dep with
                                         | Some j => visit f ds j st'
                                         | None => Some st'
                                         end
                           end) (deps_of ds id) (Some (id :: fst st, snd st)) with
        | Some st' => Some (fst st', snd st' ++ [id])
        | None => None
        end
  end.

Definition visit_deps (f : nat) (ds : list decl) (deps : list string) (st : option (list nat * list nat)) :=
  fold_left (fun acc dep =>
               match acc with
               | None => None
               | Some st' => match resolve ds dep with
                             | Some j => visit f ds j st'
                             | None => Some st'
                             end
               end) deps st.

(* the main loop: every declaration in file order *)
Definition emit_all (fuel : nat) (ds : list decl) : option (list nat * list nat) :=
  fold_left (fun acc id => match acc with None => None | Some st => visit fuel ds id st end)
            (seq 0 (length ds)) (Some ([], [])).

Definition emit_order (ds : list decl) : option (list nat) :=
  option_map snd (emit_all (S (length ds)) ds).

(* errors: a declaration that fails contributes an error and no definitions;
   the others are unaffected *)
Record tdecl := { t_decl : decl; t_defs : list string; t_err : option string }.

Definition errors_of (ts : list tdecl) : list string :=
  flat_map (fun t => match t_err t with Some e => [e] | None => [] end) ts.

Definition output_of (ts : list tdecl) (order : list nat) : list string :=
  flat_map (fun id => match nth_error ts id with Some t => t_defs t | None => [] end) order.

(* ---------------------------------------------------------------- errors *)
(* declsOrError: translating one declaration yields its definitions, or a
   structured conversion error (a typed panic recovered per declaration), or a
   foreign panic that is re-raised and aborts the process *)
Inductive tres (X E : Type) := TOk (defs : list X) | TErr (e : E) | TCrash.
Arguments TOk {X E}. Arguments TErr {X E}. Arguments TCrash {X E}.

Definition is_crash {X E} (r : tres X E) : bool := match r with TCrash => true | _ => false end.
Definition defs_of {X E} (r : tres X E) : list X := match r with TOk d => d | _ => [] end.
Definition errs_of {X E} (r : tres X E) : list E := match r with TErr e => [e] | _ => [] end.

(* the first loop of Decls over all declarations of all files: None = abort *)
Definition translate_decls {X E} (rs : list (tres X E)) : option (list (list X) * list E) :=
  if existsb is_crash rs then None else Some (map defs_of rs, flat_map errs_of rs).
