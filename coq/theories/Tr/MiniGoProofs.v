(* The translation of MiniGo preserves meaning: whenever the Go semantics of
   the fragment gives a result, the GooseLang term goose emits (tr_block)
   evaluates, under the reference semantics, to the same result and store. *)
From Coq Require Import String List ZArith Bool Lia.
From GV Require Import Lang.GlSyntax Lang.GlSem Lang.GlSemProofs Tr.MiniGo.
Import ListNotations.
Local Open Scope nat_scope.

(* ---------------------------------------------------------------- evaluation rules *)
Definition evals (e : expr) (s : state) (v : val) (s' : state) : Prop :=
  exists n, eval n e s = RVal v s'.

Lemma evals_fuel e s v s' n m : eval n e s = RVal v s' -> n <= m -> eval m e s = RVal v s'.
Proof. intros H Hle. apply (eval_mono n m Hle e s _ H). discriminate. Qed.

Lemma eval_S_unfold n e s : eval (S n) e s = eval_step (eval n) e s.
Proof. reflexivity. Qed.

Lemma evals_val v s : evals (Val v) s v s.
Proof. exists 1. reflexivity. Qed.

Lemma evals_unop op e s v s' r :
  evals e s v s' -> un_op_eval op v = Some r -> evals (UnOp op e) s r s'.
Proof.
  intros [n H] Hop. exists (S n). rewrite eval_S_unfold. unfold eval_step. rewrite H, Hop. reflexivity.
Qed.

Lemma evals_binop op e1 e2 s v1 v2 s1 s2 r :
  evals e2 s v2 s1 -> evals e1 s1 v1 s2 -> bin_op_eval op v1 v2 = Some r ->
  evals (BinOp op e1 e2) s r s2.
Proof.
  intros [n H2] [m H1] Hop. exists (S (n + m)). rewrite eval_S_unfold. unfold eval_step.
  rewrite (evals_fuel _ _ _ _ _ (n + m) H2) by lia.
  rewrite (evals_fuel _ _ _ _ _ (n + m) H1) by lia.
  rewrite Hop. reflexivity.
Qed.

Lemma evals_if e0 e1 e2 s (b : bool) s1 v s2 :
  evals e0 s (LitV (LitBool b)) s1 -> evals (if b then e1 else e2) s1 v s2 ->
  evals (If e0 e1 e2) s v s2.
Proof.
  intros [n H0] [m H1]. exists (S (n + m)). rewrite eval_S_unfold. unfold eval_step.
  rewrite (evals_fuel _ _ _ _ _ (n + m) H0) by lia.
  destruct b; apply (evals_fuel _ _ _ _ _ (n + m) H1); lia.
Qed.

Lemma evals_letin x e1 e2 s v s1 w s2 :
  evals e1 s v s1 -> evals (subst' x v e2) s1 w s2 -> evals (LetIn x e1 e2) s w s2.
Proof.
  intros [n H1] [m H2]. exists (S (S (n + m))). unfold LetIn, Lam.
  rewrite eval_S_unfold. unfold eval_step at 1.
  rewrite (evals_fuel _ _ _ _ _ (S (n + m)) H1) by lia.
  rewrite eval_S_unfold. unfold eval_step at 1. cbn [subst'].
  apply (evals_fuel _ _ _ _ _ _ H2). lia.
Qed.

(* a library function of one argument that is not a loop *)
Lemma evals_prim1 p e s a s1 v s2 :
  arity p = 1 -> is_loop p = false ->
  evals e s a s1 -> exec_prim p [a] s1 = RVal v s2 ->
  evals (App (Val (PrimV p [])) e) s v s2.
Proof.
  intros Ha Hl [n H] Hx. exists (S (S n)). rewrite eval_S_unfold. unfold eval_step at 1.
  rewrite (evals_fuel _ _ _ _ _ (S n) H) by lia.
  rewrite eval_S_unfold. unfold eval_step at 1. cbn [app length]. rewrite Ha. cbn [Nat.ltb Nat.leb]. rewrite Hl. exact Hx.
Qed.

(* ... and of two *)
Lemma evals_prim2 p e1 e2 s a1 a2 s1 s2 v s3 :
  arity p = 2 -> is_loop p = false ->
  evals e2 s a2 s1 -> evals e1 s1 a1 s2 -> exec_prim p [a1; a2] s2 = RVal v s3 ->
  evals (App (App (Val (PrimV p [])) e1) e2) s v s3.
Proof.
  intros Ha Hl [n H2] [m H1] Hx. exists (S (S (S (n + m)))).
  rewrite eval_S_unfold. unfold eval_step at 1.
  rewrite (evals_fuel _ _ _ _ _ (S (S (n + m))) H2) by lia.
  rewrite eval_S_unfold. unfold eval_step at 1.
  rewrite (evals_fuel _ _ _ _ _ (S (n + m)) H1) by lia.
  rewrite eval_S_unfold. unfold eval_step at 1. cbn [app length]. rewrite Ha. cbn [Nat.ltb Nat.leb].
  cbn [app length]. rewrite Ha. cbn [Nat.ltb Nat.leb]. rewrite Hl. exact Hx.
Qed.

(* ---------------------------------------------------------------- substitution *)
Lemma subst_subst_same x v w e : subst x w (subst x v e) = subst x v e.
Proof.
  induction e; cbn [subst]; try congruence.
  - destruct (String.eqb x x0) eqn:E; cbn [subst]; [reflexivity|]. rewrite E. reflexivity.
  - destruct (binder_is f x || binder_is x0 x) eqn:E; cbn [subst]; rewrite E; [reflexivity|]. congruence.
Qed.

Lemma subst_subst_comm x y v w e :
  x <> y -> subst x v (subst y w e) = subst y w (subst x v e).
Proof.
  intros Hne. induction e; cbn [subst]; try congruence.
  - destruct (String.eqb y x0) eqn:E1; destruct (String.eqb x x0) eqn:E2; cbn [subst]; rewrite ?E1, ?E2; try reflexivity.
    apply String.eqb_eq in E1, E2. congruence.
  - destruct (binder_is f y || binder_is x0 y) eqn:E1; destruct (binder_is f x || binder_is x0 x) eqn:E2;
      cbn [subst]; rewrite ?E1, ?E2; try reflexivity. congruence.
Qed.

Definition csub := list (string * val).

Fixpoint close (r : csub) (e : expr) : expr :=
  match r with
  | [] => e
  | (x, v) :: r' => close r' (subst x v e)
  end.

Fixpoint clookup (x : string) (r : csub) : option val :=
  match r with
  | [] => None
  | (y, v) :: r' => if String.eqb x y then Some v else clookup x r'
  end.

Fixpoint cremove (x : string) (r : csub) : csub :=
  match r with
  | [] => []
  | (y, v) :: r' => if String.eqb x y then cremove x r' else (y, v) :: cremove x r'
  end.

Lemma close_val r v : close r (Val v) = Val v.
Proof. induction r as [|[x w] r IH]; cbn [close subst]; auto. Qed.

Lemma close_app r a b : close r (App a b) = App (close r a) (close r b).
Proof. revert a b; induction r as [|[x w] r IH]; intros; cbn [close subst]; auto. Qed.

Lemma close_unop r op a : close r (UnOp op a) = UnOp op (close r a).
Proof. revert a; induction r as [|[x w] r IH]; intros; cbn [close subst]; auto. Qed.

Lemma close_binop r op a b : close r (BinOp op a b) = BinOp op (close r a) (close r b).
Proof. revert a b; induction r as [|[x w] r IH]; intros; cbn [close subst]; auto. Qed.

Lemma close_if r a b c : close r (If a b c) = If (close r a) (close r b) (close r c).
Proof. revert a b c; induction r as [|[x w] r IH]; intros; cbn [close subst]; auto. Qed.

Lemma close_var r x : close r (Var x) = match clookup x r with Some v => Val v | None => Var x end.
Proof.
  induction r as [|[y w] r IH]; cbn [close subst clookup]; auto.
  rewrite String.eqb_sym. destruct (String.eqb x y) eqn:E.
  - apply close_val.
  - exact IH.
Qed.

Lemma close_lam_anon r b : close r (Rec BAnon BAnon b) = Rec BAnon BAnon (close r b).
Proof. revert b; induction r as [|[x w] r IH]; intros; cbn [close subst binder_is orb]; auto. Qed.

Lemma close_lam r x b : close r (Rec BAnon (BNamed x) b) = Rec BAnon (BNamed x) (close (cremove x r) b).
Proof.
  revert b; induction r as [|[y w] r IH]; intros; cbn [close subst binder_is orb cremove]; auto.
  rewrite String.eqb_sym. destruct (String.eqb x y) eqn:E; cbn [close]; apply IH.
Qed.

Lemma close_remove_subst x v r e : close (cremove x r) (subst x v e) = close r (subst x v e).
Proof.
  revert e; induction r as [|[y w] r IH]; intros; cbn [close cremove]; auto.
  destruct (String.eqb x y) eqn:E.
  - apply String.eqb_eq in E; subst y. rewrite subst_subst_same. apply IH.
  - cbn [close]. apply String.eqb_neq in E.
    rewrite (subst_subst_comm y x w v e) by congruence. apply IH.
Qed.

Lemma subst_close_remove x v r e : subst x v (close (cremove x r) e) = close (cremove x r) (subst x v e).
Proof.
  revert e; induction r as [|[y w] r IH]; intros; cbn [close cremove]; auto.
  destruct (String.eqb x y) eqn:E; [apply IH|].
  cbn [close]. rewrite IH. apply String.eqb_neq in E.
  rewrite (subst_subst_comm x y v w e) by congruence. reflexivity.
Qed.

(* entering a binder: the body closed without x, then x substituted *)
Lemma subst_close x v r e : subst x v (close (cremove x r) e) = close ((x, v) :: r) e.
Proof. rewrite subst_close_remove, close_remove_subst. reflexivity. Qed.

Definition bind (x : binder) (v : val) (r : csub) : csub :=
  match x with BNamed y => (y, v) :: r | BAnon => r end.

Definition cremove' (x : binder) (r : csub) : csub :=
  match x with BNamed y => cremove y r | BAnon => r end.

Lemma close_letin r x e1 e2 :
  close r (LetIn x e1 e2) = LetIn x (close r e1) (close (cremove' x r) e2).
Proof.
  unfold LetIn, Lam. rewrite close_app. destruct x as [|y]; cbn [cremove'].
  - rewrite close_lam_anon. reflexivity.
  - rewrite close_lam. reflexivity.
Qed.

Lemma subst'_close x v r e : subst' x v (close (cremove' x r) e) = close (bind x v r) e.
Proof. destruct x as [|y]; cbn [subst' cremove' bind]; [reflexivity|apply subst_close]. Qed.

(* let: x := e1 in e2 under a closing substitution *)
Lemma evals_close_letin r x e1 e2 s v s1 w s2 :
  evals (close r e1) s v s1 -> evals (close (bind x v r) e2) s1 w s2 ->
  evals (close r (LetIn x e1 e2)) s w s2.
Proof.
  intros H1 H2. rewrite close_letin. eapply evals_letin; [exact H1|]. rewrite subst'_close. exact H2.
Qed.

(* ---------------------------------------------------------------- environments *)
Definition val_of (b : gbinding) : val :=
  match b with Imm v => v | Cell b => LitV (LitLoc b 0) end.

Definition cs_of (r : genv) : csub := map (fun p => (fst p, val_of (snd p))) r.

Lemma clookup_cs r x : clookup x (cs_of r) = option_map val_of (glookup x r).
Proof.
  induction r as [|[y k] r IH]; cbn [cs_of map clookup glookup fst snd option_map]; auto.
  destruct (String.eqb x y); auto.
Qed.

(* the translator's view of the variables agrees with the run-time environment *)
Inductive agree : tenv -> genv -> state -> Prop :=
| ag_nil s : agree [] [] s
| ag_imm x t v G r s : agree G r s -> agree ((x, (false, t)) :: G) ((x, Imm v) :: r) s
| ag_cell x t b v G r s : agree G r s -> read_cell b s = Some v -> agree ((x, (true, t)) :: G) ((x, Cell b) :: r) s.

Definition cells_kept (s s' : state) : Prop :=
  forall b v, read_cell b s = Some v -> exists v', read_cell b s' = Some v'.

Lemma cells_kept_refl s : cells_kept s s.
Proof. intros b v H. eauto. Qed.

Lemma cells_kept_trans s1 s2 s3 : cells_kept s1 s2 -> cells_kept s2 s3 -> cells_kept s1 s3.
Proof. intros H1 H2 b v H. destruct (H1 _ _ H) as [v' H']. eapply H2; eauto. Qed.

Lemma agree_kept G r s s' : agree G r s -> cells_kept s s' -> agree G r s'.
Proof.
  induction 1 as [s|x t v G r s H IH|x t b v G r s H IH Hc]; intros Hk.
  - constructor.
  - constructor. auto.
  - destruct (Hk _ _ Hc) as [v' Hv']. econstructor; eauto.
Qed.

Lemma agree_lookup G r s x k t :
  agree G r s -> tlookup x G = Some (k, t) ->
  (k = false -> exists v, glookup x r = Some (Imm v)) /\
  (k = true -> exists b v, glookup x r = Some (Cell b) /\ read_cell b s = Some v).
Proof.
  induction 1 as [s|y t' v G r s H IH|y t' b v G r s H IH Hc]; cbn [tlookup glookup]; intros Hl.
  - discriminate.
  - destruct (String.eqb x y).
    + injection Hl as <- <-. split; [eauto|discriminate].
    + auto.
  - destruct (String.eqb x y).
    + injection Hl as <- <-. split; [discriminate|eauto].
    + auto.
Qed.

(* ---------------------------------------------------------------- memory facts *)
Lemma exec_load t b v s :
  read_cell b s = Some v -> exec_prim (PLoad (ty_of t)) [LitV (LitLoc b 0)] s = RVal v s.
Proof.
  unfold read_cell. intros H. cbn [exec_prim]. unfold load, read_cells.
  destruct (nth_error (heap s) b) as [[[|c [|? ?]]|]|]; try discriminate. injection H as ->.
  destruct t; reflexivity.
Qed.

Lemma exec_store t b v old s s' :
  read_cell b s = Some old -> write_cell b v s = Some s' ->
  exec_prim (PStore (ty_of t)) [LitV (LitLoc b 0); v] s = RVal (LitV LitUnit) s'.
Proof.
  unfold read_cell, write_cell. intros H Hw. cbn [exec_prim]. unfold store, write_cells.
  destruct (nth_error (heap s) b) as [[[|c [|? ?]]|]|]; try discriminate. injection Hw as <-.
  destruct t; reflexivity.
Qed.

Lemma read_alloc v s b w : read_cell b s = Some w -> read_cell b (snd (alloc_cell v s)) = Some w.
Proof.
  unfold read_cell, alloc_cell. cbn [snd heap]. intros H.
  destruct (nth_error (heap s) b) eqn:E; [|discriminate].
  rewrite nth_error_app1; [rewrite E; exact H|]. apply nth_error_Some. congruence.
Qed.

Lemma read_alloc_new v s : read_cell (fst (alloc_cell v s)) (snd (alloc_cell v s)) = Some v.
Proof.
  unfold read_cell, alloc_cell. cbn [fst snd heap].
  rewrite nth_error_app2 by lia. rewrite Nat.sub_diag. reflexivity.
Qed.

Lemma nth_error_set_nth {A} (l : list A) i j x :
  nth_error (set_nth l i x) j = if Nat.eqb i j then (match nth_error l j with Some _ => Some x | None => None end) else nth_error l j.
Proof.
  revert i j; induction l as [|a l IH]; intros [|i] [|j]; cbn [set_nth nth_error Nat.eqb]; auto.
  all: try (destruct (Nat.eqb _ _); reflexivity).
Qed.

Lemma write_kept b v s s' : write_cell b v s = Some s' -> cells_kept s s'.
Proof.
  unfold write_cell, cells_kept, read_cell. intros Hw b' w Hr.
  destruct (nth_error (heap s) b) as [[[|c [|? ?]]|]|] eqn:E; try discriminate. injection Hw as <-.
  cbn [heap]. rewrite nth_error_set_nth. destruct (Nat.eqb b b') eqn:Eb.
  - apply Nat.eqb_eq in Eb; subst b'. rewrite E. eauto.
  - destruct (nth_error (heap s) b') as [[[|c' [|? ?]]|]|]; try discriminate. eauto.
Qed.

Lemma alloc_kept v s : cells_kept s (snd (alloc_cell v s)).
Proof. intros b w H. exists w. apply read_alloc, H. Qed.

(* ---------------------------------------------------------------- expressions *)
Lemma go_binop_sound op va vb v a b s e :
  go_binop op va vb = Some v ->
  evals a s va s -> evals b s vb s ->
  tr_binop op a b = Some e ->
  op <> OLAnd -> op <> OLOr ->
  evals e s v s.
Proof.
  intros Hgo Ha Hb Htr N1 N2.
  destruct op; try congruence; cbn [tr_binop] in Htr; try discriminate Htr; injection Htr as <-;
    destruct va as [[]| | |]; try discriminate;
    destruct vb as [[]| | |]; try discriminate; cbn [go_binop] in Hgo.
  all: try (injection Hgo as <-).
  all: try (eapply evals_binop; [exact Hb|exact Ha|reflexivity]).
  all: try (eapply evals_binop; [exact Ha|exact Hb|reflexivity]).
  (* division and remainder: the divisor is not zero *)
  - destruct (n0 =? 0)%Z eqn:E; [discriminate|]. injection Hgo as <-.
    eapply evals_binop; [exact Hb|exact Ha|]. cbn [bin_op_eval word_op]. rewrite E. reflexivity.
  - destruct (n0 =? 0)%Z eqn:E; [discriminate|]. injection Hgo as <-.
    eapply evals_binop; [exact Hb|exact Ha|]. cbn [bin_op_eval word_op]. rewrite E. reflexivity.
  (* != *)
  - eapply evals_unop; [eapply evals_binop; [exact Hb|exact Ha|reflexivity]|reflexivity].
  - eapply evals_unop; [eapply evals_binop; [exact Hb|exact Ha|reflexivity]|reflexivity].
Qed.

Lemma close_load r t e : close r (Load t e) = Load t (close r e).
Proof. unfold Load. rewrite close_app, close_val. reflexivity. Qed.

Lemma close_store r t l e : close r (Store t l e) = Store t (close r l) (close r e).
Proof. unfold Store. rewrite !close_app, close_val. reflexivity. Qed.

Lemma evals_load_var G r s x t v :
  agree G r s -> tlookup x G = Some (true, t) -> go_expr r s (EVar x) = Some v ->
  evals (close (cs_of r) (Load (ty_of t) (Var x))) s v s.
Proof.
  intros Hag Hl Hgo. destruct (agree_lookup _ _ _ _ _ _ Hag Hl) as [_ H]. destruct (H eq_refl) as (b & w & Hg & Hr).
  cbn [go_expr] in Hgo. rewrite Hg, Hr in Hgo. injection Hgo as <-.
  rewrite close_load, close_var, clookup_cs, Hg. cbn [option_map val_of].
  eapply evals_prim1; [reflexivity|reflexivity|apply evals_val|]. apply exec_load, Hr.
Qed.

Theorem tr_expr_correct G r s : agree G r s ->
  forall e e' v, tr_expr G e = Some e' -> go_expr r s e = Some v ->
  evals (close (cs_of r) e') s v s.
Proof.
  intros Hag. induction e as [n|b|x|op a IHa b IHb|a IHa]; intros e' v Htr Hgo.
  - cbn in Htr, Hgo. injection Htr as <-. injection Hgo as <-. unfold Lit. rewrite close_val. apply evals_val.
  - cbn in Htr, Hgo. injection Htr as <-. injection Hgo as <-. unfold BoolE. rewrite close_val. apply evals_val.
  - cbn [tr_expr] in Htr. destruct (tlookup x G) as [[[] t]|] eqn:Hl; [| |discriminate]; injection Htr as <-.
    + eapply evals_load_var; eauto.
    + destruct (agree_lookup _ _ _ _ _ _ Hag Hl) as [H _]. destruct (H eq_refl) as (w & Hg).
      cbn [go_expr] in Hgo. rewrite Hg in Hgo. injection Hgo as <-.
      rewrite close_var, clookup_cs, Hg. apply evals_val.
  - cbn [tr_expr] in Htr.
    destruct (tr_expr G a) as [a'|] eqn:Ea; [|discriminate].
    destruct (tr_expr G b) as [b'|] eqn:Eb; [|discriminate].
    destruct op.
    all: try (cbn [go_expr] in Hgo;
              destruct (go_expr r s a) as [va|] eqn:Ga; [|discriminate];
              destruct (go_expr r s b) as [vb|] eqn:Gb; [|discriminate];
              specialize (IHa _ _ eq_refl eq_refl); specialize (IHb _ _ eq_refl eq_refl);
              match type of Htr with
              | tr_binop ?o _ _ = Some _ =>
                  assert (Hc : tr_binop o (close (cs_of r) a') (close (cs_of r) b') = Some (close (cs_of r) e'))
                    by (cbn [tr_binop] in Htr |- *; first [discriminate Htr | injection Htr as <-];
                        rewrite ?close_unop, ?close_binop; reflexivity)
              end;
              eapply go_binop_sound; [exact Hgo|exact IHa|exact IHb|exact Hc|discriminate|discriminate]).
    + (* && *)
      cbn [tr_binop] in Htr. injection Htr as <-. cbn [go_expr] in Hgo.
      destruct (go_expr r s a) as [[[| | |[]| | | |]| | |]|] eqn:Ga; try discriminate;
        specialize (IHa _ _ eq_refl eq_refl); rewrite close_if.
      * destruct (go_expr r s b) as [[[| | |x| | | |]| | |]|] eqn:Gb; try discriminate. injection Hgo as <-.
        eapply evals_if; [exact IHa|]. cbn. apply (IHb _ _ eq_refl eq_refl).
      * injection Hgo as <-. eapply evals_if; [exact IHa|]. cbn. unfold BoolE. rewrite close_val. apply evals_val.
    + (* || *)
      cbn [tr_binop] in Htr. injection Htr as <-. cbn [go_expr] in Hgo.
      destruct (go_expr r s a) as [[[| | |[]| | | |]| | |]|] eqn:Ga; try discriminate;
        specialize (IHa _ _ eq_refl eq_refl); rewrite close_if.
      * injection Hgo as <-. eapply evals_if; [exact IHa|]. cbn. unfold BoolE. rewrite close_val. apply evals_val.
      * destruct (go_expr r s b) as [[[| | |x| | | |]| | |]|] eqn:Gb; try discriminate. injection Hgo as <-.
        eapply evals_if; [exact IHa|]. cbn. apply (IHb _ _ eq_refl eq_refl).
  - cbn [tr_expr] in Htr. destruct (tr_expr G a) as [a'|] eqn:Ea; [|discriminate]. injection Htr as <-.
    cbn [go_expr] in Hgo. destruct (go_expr r s a) as [[[| | |x| | | |]| | |]|] eqn:Ga; try discriminate. injection Hgo as <-.
    rewrite close_unop. eapply evals_unop; [apply (IHa _ _ eq_refl eq_refl)|reflexivity].
Qed.

(* ---------------------------------------------------------------- simple statements *)
Lemma close_tr_binop r op a b e :
  tr_binop op a b = Some e -> tr_binop op (close r a) (close r b) = Some (close r e).
Proof.
  destruct op; cbn [tr_binop]; intros H; try discriminate H; injection H as <-;
    rewrite ?close_unop, ?close_binop, ?close_if; unfold BoolE; rewrite ?close_val; reflexivity.
Qed.

Lemma evals_cell_load G r s y t b old :
  agree G r s -> tlookup y G = Some (true, t) -> glookup y r = Some (Cell b) -> read_cell b s = Some old ->
  evals (close (cs_of r) (Load (ty_of t) (Var y))) s old s.
Proof.
  intros Hag Hl Hg Hr. eapply evals_load_var; eauto. cbn [go_expr]. rewrite Hg. exact Hr.
Qed.

Lemma evals_cell_store G r s y t b old v s' e :
  agree G r s -> tlookup y G = Some (true, t) -> glookup y r = Some (Cell b) -> read_cell b s = Some old ->
  evals (close (cs_of r) e) s v s -> write_cell b v s = Some s' ->
  evals (close (cs_of r) (Store (ty_of t) (Var y) e)) s (LitV LitUnit) s'.
Proof.
  intros Hag Hl Hg Hr He Hw. rewrite close_store, close_var, clookup_cs, Hg. cbn [option_map val_of].
  eapply evals_prim2; [reflexivity|reflexivity|exact He|apply evals_val|]. eapply exec_store; eauto.
Qed.

Lemma simple_correct G r s st x e1 G' r1 s1 :
  agree G r s -> tr_simple G st = Some (x, e1, G') -> go_simple r s st = Some (r1, s1) ->
  exists v1, evals (close (cs_of r) e1) s v1 s1 /\ agree G' r1 s1 /\
             cs_of r1 = bind x v1 (cs_of r) /\ cells_kept s s1.
Proof.
  intros Hag Htr Hgo. destruct st as [y e|y t [e|]|y e|op y e|inc y|c th el|e]; cbn [tr_simple go_simple] in Htr, Hgo; try discriminate.
  - (* y := e *)
    destruct (tr_expr G e) as [e'|] eqn:Et; [|discriminate]. injection Htr as <- <- <-.
    destruct (go_expr r s e) as [v|] eqn:Eg; [|discriminate]. injection Hgo as <- <-.
    exists v. repeat split.
    + eapply tr_expr_correct; eauto.
    + constructor. exact Hag.
    + apply cells_kept_refl.
  - (* var y t = e *)
    destruct (tr_expr G e) as [e'|] eqn:Et; [|discriminate]. injection Htr as <- <- <-.
    destruct (go_expr r s e) as [v|] eqn:Eg; [|discriminate].
    destruct (alloc_cell v s) as [b s'] eqn:Ea. injection Hgo as <- <-.
    exists (LitV (LitLoc b 0)). repeat split.
    + unfold RefTo. rewrite close_app, close_val.
      eapply evals_prim1; [reflexivity|reflexivity|eapply tr_expr_correct; eauto|].
      unfold alloc_cell in Ea. injection Ea as <- <-. destruct t; reflexivity.
    + replace b with (fst (alloc_cell v s)) by (rewrite Ea; reflexivity).
      replace s' with (snd (alloc_cell v s)) by (rewrite Ea; reflexivity).
      econstructor; [eapply agree_kept; [exact Hag|apply alloc_kept]|apply read_alloc_new].
    + replace s' with (snd (alloc_cell v s)) by (rewrite Ea; reflexivity). apply alloc_kept.
  - (* var y t *)
    injection Htr as <- <- <-.
    destruct (alloc_cell (zero_of t) s) as [b s'] eqn:Ea. injection Hgo as <- <-.
    exists (LitV (LitLoc b 0)). repeat split.
    + unfold RefZero. rewrite close_app, !close_val.
      eapply evals_prim1; [reflexivity|reflexivity|apply evals_val|].
      unfold alloc_cell in Ea. injection Ea as <- <-. destruct t; reflexivity.
    + replace b with (fst (alloc_cell (zero_of t) s)) by (rewrite Ea; reflexivity).
      replace s' with (snd (alloc_cell (zero_of t) s)) by (rewrite Ea; reflexivity).
      econstructor; [eapply agree_kept; [exact Hag|apply alloc_kept]|apply read_alloc_new].
    + replace s' with (snd (alloc_cell (zero_of t) s)) by (rewrite Ea; reflexivity). apply alloc_kept.
  - (* y = e *)
    destruct (tlookup y G) as [[[] t]|] eqn:Hl; try discriminate.
    destruct (tr_expr G e) as [e'|] eqn:Et; [|discriminate]. injection Htr as <- <- <-.
    destruct (glookup y r) as [[|b]|] eqn:Hg; try discriminate.
    destruct (go_expr r s e) as [v|] eqn:Eg; [|discriminate].
    destruct (write_cell b v s) as [s'|] eqn:Hw; [|discriminate]. injection Hgo as <- <-.
    destruct (agree_lookup _ _ _ _ _ _ Hag Hl) as [_ H]. destruct (H eq_refl) as (b0 & old & Hg0 & Hr).
    rewrite Hg in Hg0. injection Hg0 as <-.
    exists (LitV LitUnit). repeat split.
    + eapply evals_cell_store; eauto. eapply tr_expr_correct; eauto.
    + eapply agree_kept; [exact Hag|eapply write_kept; eauto].
    + eapply write_kept; eauto.
  - (* y op= e *)
    destruct (tlookup y G) as [[[] t]|] eqn:Hl; try discriminate.
    destruct (tr_expr G e) as [e'|] eqn:Et; [|discriminate].
    destruct (assign_op op) eqn:Eop; [|discriminate].
    destruct (tr_binop op (Load (ty_of t) (Var y)) e') as [rhs|] eqn:Eb; [|discriminate]. injection Htr as <- <- <-.
    destruct (glookup y r) as [[|b]|] eqn:Hg; try discriminate.
    destruct (go_expr r s e) as [v|] eqn:Eg; [|discriminate].
    destruct (read_cell b s) as [old|] eqn:Hr; [|discriminate].
    destruct (go_binop op old v) as [nv|] eqn:Ebin; [|discriminate].
    destruct (write_cell b nv s) as [s'|] eqn:Hw; [|discriminate]. injection Hgo as <- <-.
    exists (LitV LitUnit). repeat split.
    + eapply evals_cell_store; eauto.
      eapply go_binop_sound; [exact Ebin|eapply evals_cell_load; eauto|eapply tr_expr_correct; eauto|apply close_tr_binop, Eb| |];
        intros ->; discriminate.
    + eapply agree_kept; [exact Hag|eapply write_kept; eauto].
    + eapply write_kept; eauto.
  - (* y++ / y-- *)
    destruct (tlookup y G) as [[[] t]|] eqn:Hl; try discriminate. injection Htr as <- <- <-.
    destruct (glookup y r) as [[|b]|] eqn:Hg; try discriminate.
    destruct (read_cell b s) as [old|] eqn:Hr; [|discriminate].
    destruct (go_binop (if inc then OAdd else OSub) old (LitV (LitInt 1))) as [nv|] eqn:Ebin; [|discriminate].
    destruct (write_cell b nv s) as [s'|] eqn:Hw; [|discriminate]. injection Hgo as <- <-.
    exists (LitV LitUnit). repeat split.
    + eapply evals_cell_store; eauto.
      eapply go_binop_sound; [exact Ebin|eapply evals_cell_load; eauto| |apply close_tr_binop| |].
      * unfold Lit. rewrite close_val. apply evals_val.
      * destruct inc; reflexivity.
      * destruct inc; discriminate.
      * destruct inc; discriminate.
    + eapply agree_kept; [exact Hag|eapply write_kept; eauto].
    + eapply write_kept; eauto.
Qed.

(* ---------------------------------------------------------------- blocks *)
Lemma last_stmt_cons st st2 rest : last_stmt (BCons st (BCons st2 rest)) = last_stmt (BCons st2 rest).
Proof. reflexivity. Qed.

Lemma ewr_cons k st st2 rest :
  ends_with_return k (BCons st (BCons st2 rest)) = ends_with_return k (BCons st2 rest).
Proof. destruct k; [reflexivity|]. cbn [ends_with_return]. rewrite last_stmt_cons. reflexivity. Qed.

(* a list that "ends with return" never falls off its end *)
Lemma ewr_not_normal : forall n k b r s r' s',
  ends_with_return k b = true -> go_block n r s b <> ONormal r' s'.
Proof.
  induction n as [|n IH]; intros k b r s r' s' Hewr; [discriminate|].
  destruct b as [|st [|st2 rest]].
  - destruct k; discriminate.
  - destruct k as [|k]; [discriminate|]. cbn [ends_with_return last_stmt] in Hewr.
    destruct st as [y e|y t eo|y e|op y e|inc y|c th [el|]|e]; try discriminate.
    + apply andb_true_iff in Hewr as [H1 H2]. cbn [go_block].
      destruct (go_expr r s c) as [[[| | |cb| | | |]| | |]|]; try discriminate.
      destruct (go_block n r s (if cb then th else block_of (Some el))) eqn:E; try discriminate.
      exfalso. destruct cb; [exact (IH _ _ _ _ _ _ H1 E)|exact (IH _ _ _ _ _ _ H2 E)].
    + cbn [go_block]. destruct (go_expr r s e); discriminate.
  - rewrite ewr_cons in Hewr.
    destruct st as [y e|y t eo|y e|op y e|inc y|c th el|e]; cbn [go_block].
    all: try (destruct (go_simple r s _) as [[r1 s1]|]; [exact (IH _ _ _ _ _ _ Hewr)|discriminate]).
    + destruct (go_expr r s c) as [[[| | |cb| | | |]| | |]|]; try discriminate.
      destruct (go_block n r s (if cb then th else block_of el)) eqn:E; try discriminate.
      exact (IH _ _ _ _ _ _ Hewr).
    + destruct (go_expr r s e); discriminate.
Qed.

Definition post (u : usage) (e : expr) (r : genv) (s : state) (o : outcome) : Prop :=
  match o with
  | OReturn v s' => u = Returned /\ evals (close (cs_of r) e) s v s'
  | ONormal _ s' => (exists w, evals (close (cs_of r) e) s w s' /\ (u = Returned -> w = LitV LitUnit)) /\ cells_kept s s'
  | OError | OFuel => True
  end.

Lemma post_letin u x e1 e2 r s v1 r1 s1 o :
  evals (close (cs_of r) e1) s v1 s1 -> cs_of r1 = bind x v1 (cs_of r) -> cells_kept s s1 ->
  post u e2 r1 s1 o -> post u (LetIn x e1 e2) r s o.
Proof.
  intros H1 Hcs Hk Hp. destruct o as [r' s'|v s'| |]; cbn [post] in *; auto.
  - destruct Hp as [(w & Hw & Hu) Hk']. split; [|eapply cells_kept_trans; eauto].
    exists w. split; [|exact Hu]. eapply evals_close_letin; [exact H1|]. rewrite <- Hcs. exact Hw.
  - destruct Hp as [Hu Hw]. split; [exact Hu|]. eapply evals_close_letin; [exact H1|]. rewrite <- Hcs. exact Hw.
Qed.

Lemma post_if u c' (cb : bool) t' e' r s o :
  evals (close (cs_of r) c') s (LitV (LitBool cb)) s ->
  post u (if cb then t' else e') r s o -> post u (If c' t' e') r s o.
Proof.
  intros Hc Hp. destruct o as [r' s'|v s'| |]; cbn [post] in *; auto.
  - destruct Hp as [(w & Hw & Hu) Hk']. split; [|exact Hk']. exists w. split; [|exact Hu].
    rewrite close_if. eapply evals_if; [exact Hc|]. destruct cb; exact Hw.
  - destruct Hp as [Hu Hw]. split; [exact Hu|]. rewrite close_if. eapply evals_if; [exact Hc|]. destruct cb; exact Hw.
Qed.

Lemma go_block_nil n r s : go_block n r s BNil = match n with O => OFuel | S _ => ONormal r s end.
Proof. destruct n; reflexivity. Qed.

Theorem block_correct : forall n tf G u b e r s,
  tr_block tf G u b = Some e -> agree G r s -> post u e r s (go_block n r s b).
Proof.
  induction n as [|n IH]; intros tf G u b e r s Htr Hag; [exact I|].
  destruct tf as [|tf]; [discriminate|].
  destruct b as [|st rest].
  - (* empty list *)
    cbn in Htr. injection Htr as <-. cbn [go_block post]. split; [|apply cells_kept_refl].
    exists (LitV LitUnit). split; [|reflexivity]. unfold UnitE. rewrite close_val. apply evals_val.
  - destruct st as [y e0|y t eo|y e0|op y e0|inc y|c th el|e0].
    (* the five simple statements share one argument *)
    1-5: (cbn [go_block];
          match goal with |- context [go_simple _ _ ?st] => set (ST := st) in * end;
          destruct rest as [|st2 rest2];
          [ (* last statement *)
            cbn [tr_block] in Htr;
            destruct (tr_simple G ST) as [[[x e1] G']|] eqn:Es; [|discriminate];
            destruct (go_simple r s ST) as [[r1 s1]|] eqn:Eg; [|exact I];
            destruct (simple_correct _ _ _ _ _ _ _ _ _ Hag Es Eg) as (v1 & Hv1 & Hag1 & Hcs & Hk);
            rewrite go_block_nil; destruct n; [exact I|];
            destruct u; injection Htr as <-; cbn [post];
            [ split; [|exact Hk]; exists (LitV LitUnit); split; [|reflexivity];
              eapply evals_close_letin; [exact Hv1|]; unfold UnitE; rewrite close_val; apply evals_val
            | split; [|exact Hk]; exists v1; split; [exact Hv1|discriminate] ]
          | (* more statements follow *)
            cbn [tr_block] in Htr;
            destruct (tr_simple G ST) as [[[x e1] G']|] eqn:Es; [|discriminate];
            destruct (tr_block tf G' u (BCons st2 rest2)) as [r'|] eqn:Er; [|discriminate]; injection Htr as <-;
            destruct (go_simple r s ST) as [[r1 s1]|] eqn:Eg; [|exact I];
            destruct (simple_correct _ _ _ _ _ _ _ _ _ Hag Es Eg) as (v1 & Hv1 & Hag1 & Hcs & Hk);
            eapply post_letin; [exact Hv1|exact Hcs|exact Hk|]; eapply IH; eauto ]).
    + (* if *)
      cbn [tr_block] in Htr. destruct (tr_expr G c) as [c'|] eqn:Ec; [|discriminate].
      cbn [go_block]. destruct (go_expr r s c) as [[[| | |cb| | | |]| | |]|] eqn:Gc; try exact I.
      pose proof (tr_expr_correct _ _ _ Hag _ _ _ Ec Gc) as Hc.
      destruct (is_nil rest) eqn:Enil.
      * (* nothing follows: the usage goes to both branches *)
        destruct rest; [|discriminate].
        destruct (tr_block tf G u th) as [t'|] eqn:Et; [|discriminate].
        destruct (tr_block tf G u (block_of el)) as [e'|] eqn:Ee; [|discriminate]. injection Htr as <-.
        assert (Hb : post u (if cb then t' else e') r s (go_block n r s (if cb then th else block_of el)))
          by (destruct cb; eapply IH; eauto).
        destruct (go_block n r s (if cb then th else block_of el)) as [r2 s2|v s2| |] eqn:Eo; try exact I.
        -- rewrite go_block_nil. destruct n; [exact I|]. eapply post_if; [exact Hc|].
           cbn [post] in Hb |- *. exact Hb.
        -- eapply post_if; [exact Hc|exact Hb].
      * destruct (ends_with_return (bsize th) th) eqn:Eewr.
        -- (* early return: the rest is the else branch *)
           destruct (is_nil (block_of el)) eqn:Eel; [|discriminate].
           destruct (tr_block tf G u th) as [t'|] eqn:Et; [|discriminate].
           destruct (tr_block tf G u rest) as [r'|] eqn:Er; [|discriminate]. injection Htr as <-.
           destruct cb.
           ++ pose proof (IH _ _ _ _ _ _ _ Et Hag) as Hb.
              destruct (go_block n r s th) as [r2 s2|v s2| |] eqn:Eo; try exact I.
              ** exfalso. eapply ewr_not_normal; eauto.
              ** eapply (post_if u c' true); [exact Hc|exact Hb].
           ++ destruct (block_of el); [|discriminate]. rewrite go_block_nil. destruct n; [exact I|].
              eapply (post_if u c' false); [exact Hc|]. eapply IH; eauto.
        -- (* a conditional in the middle of the list *)
           destruct (tr_block tf G Local th) as [t'|] eqn:Et; [|discriminate].
           destruct (tr_block tf G Local (block_of el)) as [e'|] eqn:Ee; [|discriminate].
           destruct (tr_block tf G u rest) as [r'|] eqn:Er; [|discriminate]. injection Htr as <-.
           assert (Hb : post Local (if cb then t' else e') r s (go_block n r s (if cb then th else block_of el)))
             by (destruct cb; eapply IH; eauto).
           destruct (go_block n r s (if cb then th else block_of el)) as [r2 s2|v s2| |] eqn:Eo; try exact I.
           ++ cbn [post] in Hb. destruct Hb as [(w & Hw & _) Hk].
              unfold Seq. eapply post_letin with (r1 := r) (v1 := w); [|reflexivity|exact Hk|].
              ** rewrite close_if. eapply evals_if; [exact Hc|]. destruct cb; exact Hw.
              ** eapply IH; [exact Er|]. eapply agree_kept; eauto.
           ++ cbn [post] in Hb. destruct Hb as [Hu _]. discriminate.
    + (* return *)
      destruct rest; cbn [tr_block] in Htr; [|discriminate]. destruct u; [|discriminate].
      cbn [go_block]. destruct (go_expr r s e0) as [v|] eqn:Ge; [|exact I].
      cbn [post]. split; [reflexivity|]. eapply tr_expr_correct; eauto.
Qed.

(* ---------------------------------------------------------------- function bodies *)
Lemma agree_snoc G r s x t v : agree G r s -> agree (G ++ [(x, (false, t))])%list (r ++ [(x, Imm v)])%list s.
Proof.
  induction 1 as [s|y t' w G r s H IH|y t' b w G r s H IH Hc]; cbn [app].
  - repeat constructor.
  - constructor. exact IH.
  - econstructor; eauto.
Qed.

Lemma agree_params ps args s :
  length args = length ps ->
  agree (params_env ps) (rev (combine (map fst ps) (map Imm args))) s.
Proof.
  revert args; induction ps as [|[p t] ps IH]; intros [|a args] Hlen; cbn in Hlen; try discriminate.
  - constructor.
  - unfold params_env. cbn [map rev combine fst snd]. apply agree_snoc. apply IH. lia.
Qed.

(* the body of a translated function, with the parameters replaced by the
   argument values, evaluates to the result Go computes, in the same store *)
Theorem body_correct n tf fn e args v s' :
  tr_block tf (params_env (f_params fn)) Returned (f_body fn) = Some e ->
  length args = length (f_params fn) ->
  go_call n fn args = OReturn v s' ->
  evals (close (cs_of (rev (combine (map fst (f_params fn)) (map Imm args)))) e) state0 v s'.
Proof.
  intros Htr Hlen Hgo. unfold go_call in Hgo.
  pose proof (block_correct n tf _ Returned _ e _ state0 Htr (agree_params _ _ state0 Hlen)) as Hp.
  rewrite Hgo in Hp. cbn [post] in Hp. apply Hp.
Qed.

(* a function without a result falls off the end of its body: the emitted body evaluates to #() *)
Theorem body_correct_unit n tf fn e args r' s' :
  tr_block tf (params_env (f_params fn)) Returned (f_body fn) = Some e ->
  length args = length (f_params fn) ->
  go_call n fn args = ONormal r' s' ->
  evals (close (cs_of (rev (combine (map fst (f_params fn)) (map Imm args)))) e) state0 (LitV LitUnit) s'.
Proof.
  intros Htr Hlen Hgo. unfold go_call in Hgo.
  pose proof (block_correct n tf _ Returned _ e _ state0 Htr (agree_params _ _ state0 Hlen)) as Hp.
  rewrite Hgo in Hp. cbn [post] in Hp. destruct Hp as [(w & Hw & Hu) _]. rewrite <- (Hu eq_refl). exact Hw.
Qed.

(* what the model rejects (goose reports a conversion error) *)
Lemma rejects_assign_to_letbound G x t e rest tf u :
  tlookup x G = Some (false, t) -> tr_block tf G u (BCons (SAssign x e) rest) = None.
Proof.
  intros H. destruct tf; [reflexivity|]. destruct rest; cbn [tr_block tr_simple]; rewrite H; reflexivity.
Qed.

Lemma rejects_return_before_end G e st rest tf u : tr_block tf G u (BCons (SReturn e) (BCons st rest)) = None.
Proof. destruct tf; reflexivity. Qed.

Lemma rejects_return_outside_tail G e tf : tr_block tf G Local (BCons (SReturn e) BNil) = None.
Proof. destruct tf; reflexivity. Qed.

Lemma rejects_unsupported_opassign G x e rest tf u op :
  assign_op op = false -> tr_block tf G u (BCons (SOpAssign op x e) rest) = None.
Proof.
  intros H. destruct tf; [reflexivity|].
  destruct rest; cbn [tr_block tr_simple]; destruct (tlookup x G) as [[[] ?]|]; try reflexivity;
    destruct (tr_expr G e); try reflexivity; rewrite H; reflexivity.
Qed.

Lemma rejects_early_return_with_else G c th el st rest tf u :
  tr_expr G c <> None -> ends_with_return (bsize th) th = true -> is_nil el = false ->
  tr_block tf G u (BCons (SIf c th (Some el)) (BCons st rest)) = None.
Proof.
  intros Hc Hewr Hel. destruct tf; [reflexivity|]. cbn [tr_block is_nil block_of].
  destruct (tr_expr G c); [|congruence]. rewrite Hewr, Hel. reflexivity.
Qed.

(* non-vacuity: a function with a shadowing block, an early return and updates,
   accepted by the model and returning in Go *)
Definition example_fn : gfunc :=
  {| f_name := "F"; f_params := [("a", TU64); ("b", TBool)];
     f_body := BCons (SVar "x" TU64 (Some (EVar "a")))
              (BCons (SIf (EVar "b") (BCons (SDefine "a" (ELit 7)) (BCons (SOpAssign OAdd "x" (EVar "a")) BNil)) None)
              (BCons (SIf (EBin OLt (EVar "x") (ELit 10)) (BCons (SReturn (EBin OMul (EVar "x") (ELit 3))) BNil) None)
              (BCons (SIncDec true "x")
              (BCons (SReturn (EBin OAdd (EVar "x") (EVar "a"))) BNil)))) |}.

Example example_fn_accepted_and_returns :
  (exists e, tr_block 20 (params_env (f_params example_fn)) Returned (f_body example_fn) = Some e) /\
  (exists s', go_call 20 example_fn [LitV (LitInt 1); LitV (LitBool true)] = OReturn (LitV (LitInt 24)) s') /\
  (exists s', go_call 20 example_fn [LitV (LitInt 40); LitV (LitBool false)] = OReturn (LitV (LitInt 81)) s').
Proof. repeat split; eexists; vm_compute; reflexivity. Qed.

(* ---------------------------------------------------------------- the function header *)
(* the translator's environment can be extended at the low-priority end *)
Lemma tlookup_app x G E k : tlookup x G = Some k -> tlookup x (G ++ E)%list = Some k.
Proof. induction G as [|[y k'] G IH]; cbn; [discriminate|]. destruct (String.eqb x y); auto. Qed.

Lemma tr_expr_ext E : forall G e e', tr_expr G e = Some e' -> tr_expr (G ++ E)%list e = Some e'.
Proof.
  intros G. induction e as [n|b|x|op a IHa b IHb|a IHa]; cbn [tr_expr]; intros e' H; auto.
  - destruct (tlookup x G) as [k|] eqn:El; [|discriminate]. rewrite (tlookup_app _ _ E _ El). exact H.
  - destruct (tr_expr G a) as [a'|]; [|discriminate]. destruct (tr_expr G b) as [b'|]; [|discriminate].
    rewrite (IHa _ eq_refl), (IHb _ eq_refl). exact H.
  - destruct (tr_expr G a) as [a'|]; [|discriminate]. rewrite (IHa _ eq_refl). exact H.
Qed.

Lemma type_of_ext E G e e' : tr_expr G e = Some e' -> type_of (G ++ E)%list e = type_of G e.
Proof.
  revert e'. induction e as [n|b|x|op a IHa b IHb|a IHa]; cbn [tr_expr type_of]; intros e' H; auto.
  - destruct (tlookup x G) as [k|] eqn:El; [|discriminate]. rewrite (tlookup_app _ _ E _ El). reflexivity.
  - destruct (tr_expr G a) as [a'|]; [|discriminate]. destruct op; auto; eapply IHa; reflexivity.
Qed.

Lemma tr_simple_ext E G s x e G' :
  tr_simple G s = Some (x, e, G') -> tr_simple (G ++ E)%list s = Some (x, e, (G' ++ E)%list).
Proof.
  destruct s as [y e0|y t [e0|]|y e0|op y e0|inc y|c th el|e0]; cbn [tr_simple]; intros H; try discriminate.
  - destruct (tr_expr G e0) as [e'|] eqn:Et; [|discriminate]. rewrite (tr_expr_ext E _ _ _ Et), (type_of_ext E _ _ _ Et).
    injection H as <- <- <-. reflexivity.
  - destruct (tr_expr G e0) as [e'|] eqn:Et; [|discriminate]. rewrite (tr_expr_ext E _ _ _ Et).
    injection H as <- <- <-. reflexivity.
  - injection H as <- <- <-. reflexivity.
  - destruct (tlookup y G) as [[[] t]|] eqn:El; try discriminate. rewrite (tlookup_app _ _ E _ El).
    destruct (tr_expr G e0) as [e'|] eqn:Et; [|discriminate]. rewrite (tr_expr_ext E _ _ _ Et).
    injection H as <- <- <-. reflexivity.
  - destruct (tlookup y G) as [[[] t]|] eqn:El; try discriminate. rewrite (tlookup_app _ _ E _ El).
    destruct (tr_expr G e0) as [e'|] eqn:Et; [|discriminate]. rewrite (tr_expr_ext E _ _ _ Et).
    destruct (assign_op op); [|discriminate]. destruct (tr_binop op _ e'); [|discriminate].
    injection H as <- <- <-. reflexivity.
  - destruct (tlookup y G) as [[[] t]|] eqn:El; try discriminate. rewrite (tlookup_app _ _ E _ El).
    injection H as <- <- <-. reflexivity.
Qed.

Lemma tr_block_ext E : forall tf G u b e, tr_block tf G u b = Some e -> tr_block tf (G ++ E)%list u b = Some e.
Proof.
  induction tf as [|tf IH]; intros G u b e H; [discriminate|].
  destruct b as [|st rest]; [exact H|].
  destruct st as [y e0|y t eo|y e0|op y e0|inc y|c th el|e0].
  1-5: (destruct rest as [|st2 rest2]; cbn [tr_block] in H |- *;
        [ destruct (tr_simple G _) as [[[x e1] G']|] eqn:Es; [|discriminate];
          rewrite (tr_simple_ext E _ _ _ _ _ Es); exact H
        | destruct (tr_simple G _) as [[[x e1] G']|] eqn:Es; [|discriminate];
          rewrite (tr_simple_ext E _ _ _ _ _ Es);
          destruct (tr_block tf G' u (BCons st2 rest2)) as [r'|] eqn:Er; [|discriminate];
          rewrite (IH _ _ _ _ Er); exact H ]).
  - cbn [tr_block] in H |- *. destruct (tr_expr G c) as [c'|] eqn:Ec; [|discriminate]. rewrite (tr_expr_ext E _ _ _ Ec).
    destruct (is_nil rest).
    + destruct (tr_block tf G u th) as [t'|] eqn:Et; [|discriminate]. rewrite (IH _ _ _ _ Et).
      destruct (tr_block tf G u (block_of el)) as [e'|] eqn:Ee; [|discriminate]. rewrite (IH _ _ _ _ Ee). exact H.
    + destruct (ends_with_return (bsize th) th).
      * destruct (is_nil (block_of el)); [|discriminate].
        destruct (tr_block tf G u th) as [t'|] eqn:Et; [|discriminate]. rewrite (IH _ _ _ _ Et).
        destruct (tr_block tf G u rest) as [r'|] eqn:Er; [|discriminate]. rewrite (IH _ _ _ _ Er). exact H.
      * destruct (tr_block tf G Local th) as [t'|] eqn:Et; [|discriminate]. rewrite (IH _ _ _ _ Et).
        destruct (tr_block tf G Local (block_of el)) as [e'|] eqn:Ee; [|discriminate]. rewrite (IH _ _ _ _ Ee).
        destruct (tr_block tf G u rest) as [r'|] eqn:Er; [|discriminate]. rewrite (IH _ _ _ _ Er). exact H.
  - destruct rest; cbn [tr_block] in H |- *; [|discriminate]. destruct u; [|discriminate]. apply tr_expr_ext, H.
Qed.

Lemma close_app_list a b e : close (a ++ b)%list e = close b (close a e).
Proof. revert e; induction a as [|[x v] a IH]; intros e; cbn [app close]; auto. Qed.

(* substitutions for distinct names commute *)
Lemma close_subst_comm x v r e : ~ In x (map fst r) -> close r (subst x v e) = subst x v (close r e).
Proof.
  revert e; induction r as [|[y w] r IH]; intros e Hn; cbn [close]; auto.
  cbn [map fst In] in Hn. rewrite <- IH by tauto. f_equal. apply subst_subst_comm. intros ->. tauto.
Qed.

Lemma subst_lams x v ps e : ~ In x ps -> subst x v (lams ps e) = lams ps (subst x v e).
Proof.
  induction ps as [|p ps IH]; cbn [lams]; intros Hn; auto.
  unfold Lam. cbn [subst binder_is orb]. destruct (String.eqb x p) eqn:E.
  - apply String.eqb_eq in E. subst. exfalso. apply Hn. left; reflexivity.
  - rewrite IH; [reflexivity|]. intros H. apply Hn. right; exact H.
Qed.

(* evaluation of an application whose function part is replaced by something that evaluates like it *)
Definition sim (e e' : expr) : Prop := forall s w s', evals e' s w s' -> evals e s w s'.

Lemma sim_app_val e e' a : sim e e' -> sim (App e (Val a)) (App e' (Val a)).
Proof.
  intros Hs s w s' [n H]. destruct n as [|[|n]]; try discriminate.
  rewrite eval_S_unfold in H. unfold eval_step at 1 in H.
  change (eval (S n) (Val a) s) with (RVal a s) in H. cbv iota in H.
  destruct (eval (S n) e' s) as [vf s1| |] eqn:Ef; try discriminate.
  destruct (Hs s vf s1 (ex_intro _ (S n) Ef)) as [m Hm].
  exists (S (S (n + m))). rewrite eval_S_unfold. unfold eval_step at 1.
  change (eval (S (n + m)) (Val a) s) with (RVal a s). cbv iota.
  rewrite (evals_fuel _ _ _ _ _ (S (n + m)) Hm) by lia.
  destruct vf as [l|fb xb body|v1 v2|p args]; try discriminate.
  - apply (evals_fuel _ _ _ _ _ (S (n + m)) H). lia.
  - destruct (Nat.ltb _ _); [exact H|]. destruct (is_loop p).
    + destruct (expand_loop _ _ _); [|discriminate]. apply (evals_fuel _ _ _ _ _ (S (n + m)) H). lia.
    + exact H.
Qed.

Lemma sim_apps e e' args : sim e e' -> sim (fold_left App (map Val args) e) (fold_left App (map Val args) e').
Proof. revert e e'; induction args as [|a args IH]; intros e e' H; cbn [map fold_left]; [exact H|]. apply IH, sim_app_val, H. Qed.

Lemma sim_beta p b v : sim (App (Lam (BNamed p) b) (Val v)) (subst p v b).
Proof. intros s w s' H. apply (evals_letin (BNamed p) (Val v) b s v s w s'); [apply evals_val|exact H]. Qed.

Lemma sim_trans a b c : sim a b -> sim b c -> sim a c.
Proof. intros H1 H2 s w s' H. apply H1, H2, H. Qed.

(* applying the nested lambdas to all arguments *)
Lemma sim_lams : forall ps args b, NoDup ps -> length args = length ps ->
  sim (fold_left App (map Val args) (lams ps b)) (close (combine ps args) b).
Proof.
  induction ps as [|p ps IH]; intros [|a args] b Hn Hl; cbn in Hl; try discriminate.
  - intros s w s' H. exact H.
  - cbn [lams map fold_left combine close]. inversion Hn; subst.
    eapply sim_trans; [apply sim_apps, sim_beta|]. rewrite subst_lams by assumption. apply IH; [assumption|lia].
Qed.

Lemma close_rev_nodup : forall r e, NoDup (map fst r) -> close (rev r) e = close r e.
Proof.
  induction r as [|[x v] r IH]; intros e Hn; [reflexivity|]. cbn [rev]. inversion Hn; subst.
  rewrite close_app_list. cbn [close]. rewrite IH by assumption. symmetry. apply close_subst_comm. assumption.
Qed.

Lemma map_fst_combine {X Y} (l1 : list X) (l2 : list Y) : length l1 = length l2 -> map fst (combine l1 l2) = l1.
Proof. revert l2; induction l1; intros [|y l2] H; cbn in *; try discriminate; auto. f_equal. apply IHl1. lia. Qed.

Lemma cs_of_rev_combine ps args :
  cs_of (rev (combine ps (map Imm args))) = rev (combine ps args).
Proof.
  unfold cs_of. rewrite map_rev. f_equal. revert args; induction ps as [|p ps IH]; intros [|a args]; cbn; auto. f_equal. apply IH.
Qed.

(* Go's semantics does not look at bindings it does not need: an environment
   can be extended at the low-priority end *)
Lemma glookup_app x r E k : glookup x r = Some k -> glookup x (r ++ E)%list = Some k.
Proof. induction r as [|[y k'] r IH]; cbn; [discriminate|]. destruct (String.eqb x y); auto. Qed.

Lemma go_expr_ext E r s : forall e v, go_expr r s e = Some v -> go_expr (r ++ E)%list s e = Some v.
Proof.
  induction e as [n|b|x|op a IHa b IHb|a IHa]; cbn [go_expr]; intros v H; auto.
  - destruct (glookup x r) as [k|] eqn:El; [|discriminate]. rewrite (glookup_app _ _ E _ El). exact H.
  - destruct op;
      try (destruct (go_expr r s a) as [va|] eqn:Ea; [|discriminate]; rewrite (IHa _ eq_refl);
           destruct (go_expr r s b) as [vb|] eqn:Eb; [|discriminate]; rewrite (IHb _ eq_refl); exact H).
    + destruct (go_expr r s a) as [va|] eqn:Ea; [|discriminate]. rewrite (IHa _ eq_refl).
      destruct va as [[| | |[]| | | |]| | |]; try discriminate; [|exact H].
      destruct (go_expr r s b) as [vb|] eqn:Eb; [|discriminate]. rewrite (IHb _ eq_refl). exact H.
    + destruct (go_expr r s a) as [va|] eqn:Ea; [|discriminate]. rewrite (IHa _ eq_refl).
      destruct va as [[| | |[]| | | |]| | |]; try discriminate; [exact H|].
      destruct (go_expr r s b) as [vb|] eqn:Eb; [|discriminate]. rewrite (IHb _ eq_refl). exact H.
  - destruct (go_expr r s a) as [va|] eqn:Ea; [|discriminate]. rewrite (IHa _ eq_refl). exact H.
Qed.

Lemma go_simple_ext E r s st r1 s1 :
  go_simple r s st = Some (r1, s1) -> go_simple (r ++ E)%list s st = Some ((r1 ++ E)%list, s1).
Proof.
  destruct st as [y e|y t [e|]|y e|op y e|inc y|c th el|e]; cbn [go_simple]; intros H; try discriminate.
  - destruct (go_expr r s e) as [v|] eqn:Ee; [|discriminate]. rewrite (go_expr_ext E _ _ _ _ Ee). injection H as <- <-. reflexivity.
  - destruct (go_expr r s e) as [v|] eqn:Ee; [|discriminate]. rewrite (go_expr_ext E _ _ _ _ Ee).
    destruct (alloc_cell v s). injection H as <- <-. reflexivity.
  - destruct (alloc_cell (zero_of t) s). injection H as <- <-. reflexivity.
  - destruct (glookup y r) as [[|b]|] eqn:El; try discriminate. rewrite (glookup_app _ _ E _ El).
    destruct (go_expr r s e) as [v|] eqn:Ee; [|discriminate]. rewrite (go_expr_ext E _ _ _ _ Ee).
    destruct (write_cell b v s); [|discriminate]. injection H as <- <-. reflexivity.
  - destruct (glookup y r) as [[|b]|] eqn:El; try discriminate. rewrite (glookup_app _ _ E _ El).
    destruct (go_expr r s e) as [v|] eqn:Ee; [|discriminate]. rewrite (go_expr_ext E _ _ _ _ Ee).
    destruct (read_cell b s); [|discriminate]. destruct (go_binop op v0 v); [|discriminate].
    destruct (write_cell b v1 s); [|discriminate]. injection H as <- <-. reflexivity.
  - destruct (glookup y r) as [[|b]|] eqn:El; try discriminate. rewrite (glookup_app _ _ E _ El).
    destruct (read_cell b s); [|discriminate]. destruct (go_binop _ v _); [|discriminate].
    destruct (write_cell b v0 s); [|discriminate]. injection H as <- <-. reflexivity.
Qed.

Lemma go_block_ext E : forall n r s b,
  match go_block n r s b with
  | OReturn v s' => go_block n (r ++ E)%list s b = OReturn v s'
  | ONormal r' s' => go_block n (r ++ E)%list s b = ONormal (r' ++ E)%list s'
  | _ => True
  end.
Proof.
  induction n as [|n IH]; intros r s b; [exact I|].
  destruct b as [|st rest]; [reflexivity|].
  destruct st as [y e|y t eo|y e|op y e|inc y|c th el|e]; cbn [go_block].
  1-5: (match goal with |- context [go_simple ?r0 ?s0 ?st] => destruct (go_simple r0 s0 st) as [[r1 s1]|] eqn:Eg end; [|exact I];
        rewrite (go_simple_ext E _ _ _ _ _ Eg); apply IH).
  - destruct (go_expr r s c) as [vc|] eqn:Ec; [|exact I]. rewrite (go_expr_ext E _ _ _ _ Ec).
    destruct vc as [[| | |cb| | | |]| | |]; try exact I.
    pose proof (IH r s (if cb then th else block_of el)) as Hb.
    destruct (go_block n r s (if cb then th else block_of el)) as [r2 s2|v s2| |]; try exact I.
    + rewrite Hb. apply IH.
    + rewrite Hb. reflexivity.
  - destruct (go_expr r s e) as [v|] eqn:Ee; [|exact I]. rewrite (go_expr_ext E _ _ _ _ Ee). reflexivity.
Qed.

Lemma sim_beta_rec f p b v : f <> p ->
  sim (App (Val (RecV (BNamed f) (BNamed p) b)) (Val v)) (subst f (RecV (BNamed f) (BNamed p) b) (subst p v b)).
Proof.
  intros Hfp s w s' [n H]. exists (S (S n)). rewrite eval_S_unfold. unfold eval_step at 1.
  change (eval (S n) (Val v) s) with (RVal v s). cbv iota.
  change (eval (S n) (Val (RecV (BNamed f) (BNamed p) b)) s) with (RVal (RecV (BNamed f) (BNamed p) b) s). cbv iota.
  cbn [subst']. rewrite (subst_subst_comm p f) by congruence. apply (evals_fuel _ _ _ _ _ (S n) H). lia.
Qed.

Lemma cs_of_app a b : cs_of (a ++ b)%list = (cs_of a ++ cs_of b)%list.
Proof. unfold cs_of. apply map_app. Qed.

(* the emitted definition applied to the arguments evaluates to Go's result *)
Theorem func_correct n fn f args v s' :
  tr_func fn = Some f ->
  NoDup (f_name fn :: map fst (f_params fn)) -> f_params fn <> [] ->
  length args = length (f_params fn) ->
  go_call n fn args = OReturn v s' ->
  evals (fold_left App (map Val args) (Val f)) state0 v s'.
Proof.
  intros Htr Hnd Hne Hlen Hgo. unfold tr_func in Htr.
  destruct (tr_block (bsize (f_body fn)) (params_env (f_params fn)) Returned (f_body fn)) as [body|] eqn:Eb; [|discriminate].
  destruct (f_params fn) as [|[p1 t1] prs] eqn:Eps; [congruence|]. cbn [map fst] in Htr, Hnd. injection Htr as <-.
  destruct args as [|a1 args]; [discriminate|]. cbn [length] in Hlen.
  set (name := f_name fn) in *. set (ps := map fst prs) in *.
  set (F := RecV (BNamed name) (BNamed p1) (lams ps body)).
  inversion Hnd as [|? ? Hname Hnd1]; subst. inversion Hnd1 as [|? ? Hp1 Hnd2]; subst.
  assert (Hlps : length args = length ps) by (unfold ps; rewrite map_length; lia).
  (* the body under the parameters, with the function's own name bound last *)
  pose proof (tr_block_ext [(name, (false, TU64))] _ _ _ _ _ Eb) as Eb'.
  set (r0 := rev (combine (p1 :: ps) (map Imm (a1 :: args)))).
  assert (Hag : agree (params_env ((p1, t1) :: prs) ++ [(name, (false, TU64))])%list (r0 ++ [(name, Imm F)])%list state0).
  { apply agree_snoc. unfold r0. replace (p1 :: ps) with (map fst ((p1, t1) :: prs)) by reflexivity. apply agree_params. cbn [length]. lia. }
  pose proof (block_correct n _ _ Returned _ body _ state0 Eb' Hag) as Hp.
  unfold go_call in Hgo. rewrite Eps in Hgo.
  change (go_block n r0 state0 (f_body fn) = OReturn v s') in Hgo.
  pose proof (go_block_ext [(name, Imm F)] n r0 state0 (f_body fn)) as Hext. rewrite Hgo in Hext.
  rewrite Hext in Hp. cbn [post] in Hp. destruct Hp as [_ Hev].
  rewrite cs_of_app in Hev. unfold r0 in Hev. rewrite cs_of_rev_combine, close_app_list in Hev. cbn [cs_of map fst snd val_of close] in Hev.
  rewrite close_rev_nodup in Hev by (rewrite map_fst_combine by (cbn [length]; lia); constructor; assumption).
  cbn [combine close] in Hev.
  rewrite <- close_subst_comm in Hev by (rewrite map_fst_combine by lia; intros Hc; apply Hname; right; exact Hc).
  (* now the applications *)
  cbn [map fold_left].
  eapply (sim_apps _ _ args (sim_beta_rec name p1 (lams ps body) a1 ltac:(intros ->; apply Hname; left; reflexivity))).
  rewrite !subst_lams by (intros Hc; first [apply Hp1, Hc | apply Hname; right; exact Hc]).
  apply (sim_lams ps args _ Hnd2 Hlps). exact Hev.
Qed.
