(* MiniGo: a model of goose's translation of function bodies for the core
   fragment (uint64 and bool values; := and var locals with shadowing;
   assignment, op-assignment, ++/--; if/else; early returns), together with a
   Go semantics for that fragment.

   tr_block mirrors goose.go (stmts, ifStmt, stmtsEndWithReturn, stmtInBlock,
   defineStmt, varSpec, assignStmt, incDecStmt, binExpr, unaryExpr, variable)
   composed with the printer of internal/coq/coq.go read back with the
   notation levels of GlNotation.v: the result is the GooseLang term Coq parses
   from the emitted text.  None = goose reports a conversion error. *)
From Coq Require Import String List ZArith Bool.
From GV Require Import Lang.GlSyntax Lang.GlSem.
Import ListNotations.
Open Scope string_scope.

Inductive gty := TU64 | TBool.
Definition ty_of (t : gty) : ty := match t with TU64 => uint64T | TBool => boolT end.

Inductive gop :=
| OAdd | OSub | OMul | OQuo | ORem | OAnd | OOr | OXor | OShl | OShr
| OLt | OLe | OGt | OGe | OEq | ONe | OLAnd | OLOr
| OAndNot.                                  (* &^ : not supported by goose *)

Inductive gexpr :=
| ELit (n : Z)
| EBool (b : bool)
| EVar (x : string)
| EBin (op : gop) (a b : gexpr)
| ENot (a : gexpr).

Inductive gstmt :=
| SDefine (x : string) (e : gexpr)                   (* x := e *)
| SVar (x : string) (t : gty) (e : option gexpr)     (* var x T [= e] *)
| SAssign (x : string) (e : gexpr)                   (* x = e *)
| SOpAssign (op : gop) (x : string) (e : gexpr)      (* x op= e *)
| SIncDec (inc : bool) (x : string)                  (* x++ / x-- *)
| SIf (c : gexpr) (th : gblock) (el : option gblock) (* if c { th } [else { el }] *)
| SReturn (e : gexpr)
with gblock :=
| BNil
| BCons (s : gstmt) (rest : gblock).

(* ---------------------------------------------------------------- translator *)
(* what goose knows about a Go variable: pointer-wrapped (declared with var) or
   let-bound, and its type *)
Definition tenv := list (string * (bool * gty)).

Fixpoint tlookup (x : string) (G : tenv) : option (bool * gty) :=
  match G with
  | [] => None
  | (y, k) :: G' => if String.eqb x y then Some k else tlookup x G'
  end.

Definition Load (t : ty) (e : expr) : expr := App (Val (PrimV (PLoad t) [])) e.
Definition Store (t : ty) (l e : expr) : expr := App (App (Val (PrimV (PStore t) [])) l) e.
Definition RefTo (t : ty) (e : expr) : expr := App (Val (PrimV (PRefTo t) [])) e.
Definition RefZero (t : ty) : expr := App (Val (PrimV PRef [])) (Val (zero_val t)).
Definition Lit (n : Z) : expr := Val (LitV (LitInt n)).
Definition BoolE (b : bool) : expr := Val (LitV (LitBool b)).
Definition UnitE : expr := Val (LitV LitUnit).

(* binExpr's table and BinaryExpr.Coq, read with GlNotation's notations *)
Definition tr_binop (op : gop) (a b : expr) : option expr :=
  match op with
  | OAdd => Some (BinOp PlusOp a b) | OSub => Some (BinOp MinusOp a b) | OMul => Some (BinOp MultOp a b)
  | OQuo => Some (BinOp QuotOp a b) | ORem => Some (BinOp RemOp a b)
  | OAnd => Some (BinOp AndOp a b) | OOr => Some (BinOp OrOp a b) | OXor => Some (BinOp XorOp a b)
  | OShl => Some (BinOp ShiftLOp a b) | OShr => Some (BinOp ShiftROp a b)
  | OLt => Some (BinOp LtOp a b) | OLe => Some (BinOp LeOp a b)
  | OGt => Some (BinOp LtOp b a) | OGe => Some (BinOp LeOp b a)
  | OEq => Some (BinOp EqOp a b) | ONe => Some (UnOp NegOp (BinOp EqOp a b))
  | OLAnd => Some (If a b (BoolE false)) | OLOr => Some (If a (BoolE true) b)
  | OAndNot => None
  end.

Fixpoint tr_expr (G : tenv) (e : gexpr) : option expr :=
  match e with
  | ELit n => Some (Lit n)
  | EBool b => Some (BoolE b)
  | EVar x =>
      match tlookup x G with
      | Some (true, t) => Some (Load (ty_of t) (Var x))
      | Some (false, _) => Some (Var x)
      | None => None
      end
  | EBin op a b =>
      match tr_expr G a, tr_expr G b with
      | Some a', Some b' => tr_binop op a' b'
      | _, _ => None
      end
  | ENot a => match tr_expr G a with Some a' => Some (UnOp NegOp a') | None => None end
  end.

(* the type goose's type checker reports for an expression *)
Fixpoint type_of (G : tenv) (e : gexpr) : gty :=
  match e with
  | ELit _ => TU64
  | EBool _ => TBool
  | EVar x => match tlookup x G with Some (_, t) => t | None => TU64 end
  | EBin op a _ =>
      match op with
      | OLt | OLe | OGt | OGe | OEq | ONe | OLAnd | OLOr => TBool
      | _ => type_of G a
      end
  | ENot _ => TBool
  end.

Inductive usage := Returned | Local.

(* stmtsEndWithReturn *)
Fixpoint last_stmt (b : gblock) : option gstmt :=
  match b with
  | BNil => None
  | BCons s BNil => Some s
  | BCons _ rest => last_stmt rest
  end.

Fixpoint ends_with_return (fuel : nat) (b : gblock) : bool :=
  match fuel with
  | O => false
  | S f =>
      match last_stmt b with
      | Some (SReturn _) => true
      | Some (SIf _ th (Some el)) => ends_with_return f th && ends_with_return f el
      | _ => false
      end
  end.

Fixpoint bsize (b : gblock) : nat :=
  match b with
  | BNil => 1
  | BCons s rest => ssize s + bsize rest
  end
with ssize (s : gstmt) : nat :=
  match s with
  | SIf _ th (Some el) => 1 + bsize th + bsize el
  | SIf _ th None => 1 + bsize th
  | _ => 1
  end.

Definition is_nil (b : gblock) : bool := match b with BNil => true | _ => false end.
Definition block_of (o : option gblock) : gblock := match o with Some b => b | None => BNil end.

(* assignOps of assignStmt *)
Definition assign_op (op : gop) : bool :=
  match op with OAdd | OSub | OOr | OAnd | OXor => true | _ => false end.

(* a statement other than if/return as a binding: the name it binds (if any),
   its expression and the environment for the statements that follow *)
Definition tr_simple (G : tenv) (s : gstmt) : option (binder * expr * tenv) :=
  match s with
  | SDefine x e =>
      match tr_expr G e with
      | Some e' => Some (BNamed x, e', (x, (false, type_of G e)) :: G)
      | None => None
      end
  | SVar x t (Some e) =>
      match tr_expr G e with
      | Some e' => Some (BNamed x, RefTo (ty_of t) e', (x, (true, t)) :: G)
      | None => None
      end
  | SVar x t None => Some (BNamed x, RefZero (ty_of t), (x, (true, t)) :: G)
  | SAssign x e =>
      match tlookup x G, tr_expr G e with
      | Some (true, t), Some e' => Some (BAnon, Store (ty_of t) (Var x) e', G)
      | _, _ => None            (* not assignable, or a conversion error in e *)
      end
  | SOpAssign op x e =>
      match tlookup x G, tr_expr G e with
      | Some (true, t), Some e' =>
          if assign_op op then
            match tr_binop op (Load (ty_of t) (Var x)) e' with
            | Some rhs => Some (BAnon, Store (ty_of t) (Var x) rhs, G)
            | None => None
            end
          else None
      | _, _ => None
      end
  | SIncDec inc x =>
      match tlookup x G with
      | Some (true, t) =>
          Some (BAnon, Store (ty_of t) (Var x) (BinOp (if inc then PlusOp else MinusOp) (Load (ty_of t) (Var x)) (Lit 1)), G)
      | _ => None
      end
  | SIf _ _ _ | SReturn _ => None
  end.

(* stmts / ifStmt / stmtInBlock; fuel bounds the nesting (bsize suffices) *)
Fixpoint tr_block (fuel : nat) (G : tenv) (u : usage) (b : gblock) : option expr :=
  match fuel with
  | O => None
  | S f =>
      match b with
      | BNil => Some UnitE       (* finalisation of an empty list: #() for both usages *)
      | BCons (SIf c th el) rest =>
          match tr_expr G c with
          | None => None
          | Some c' =>
              if is_nil rest then
                match tr_block f G u th, tr_block f G u (block_of el) with
                | Some t', Some e' => Some (If c' t' e')
                | _, _ => None
                end
              else if ends_with_return (bsize th) th then
                (* early return: the remainder goes into the else branch, which must be empty *)
                if is_nil (block_of el) then
                  match tr_block f G u th, tr_block f G u rest with
                  | Some t', Some r' => Some (If c' t' r')
                  | _, _ => None
                  end
                else None
              else
                match tr_block f G Local th, tr_block f G Local (block_of el), tr_block f G u rest with
                | Some t', Some e', Some r' => Some (Seq (If c' t' e') r')
                | _, _, _ => None
                end
          end
      | BCons (SReturn e) BNil =>
          match u with
          | Returned => tr_expr G e
          | Local => None            (* return in unsupported position *)
          end
      | BCons (SReturn _) _ => None  (* return in unsupported position *)
      | BCons s BNil =>
          match tr_simple G s with
          | Some (x, e, _) =>
              match u with
              | Returned => Some (LetIn x e UnitE)   (* not finalised: #() is appended *)
              | Local => Some e
              end
          | None => None
          end
      | BCons s rest =>
          match tr_simple G s with
          | Some (x, e, G') =>
              match tr_block f G' u rest with
              | Some r' => Some (LetIn x e r')
              | None => None
              end
          | None => None
          end
      end
  end.

(* a function: parameters are let-bound *)
Record gfunc := { f_name : string; f_params : list (string * gty); f_body : gblock }.

Definition params_env (ps : list (string * gty)) : tenv :=
  rev (map (fun p => (fst p, (false, snd p))) ps).

Fixpoint lams (ps : list string) (body : expr) : expr :=
  match ps with
  | [] => body
  | p :: ps' => Lam (BNamed p) (lams ps' body)
  end.

Definition tr_func (fn : gfunc) : option val :=
  match tr_block (bsize (f_body fn)) (params_env (f_params fn)) Returned (f_body fn) with
  | Some body =>
      match map fst (f_params fn) with
      | [] => Some (RecV (BNamed (f_name fn)) BAnon body)
      | p :: ps => Some (RecV (BNamed (f_name fn)) (BNamed p) (lams ps body))
      end
  | None => None
  end.

(* ---------------------------------------------------------------- Go semantics *)
(* values are uint64 and bool literals; a variable is bound to a value (:=,
   parameters) or to a cell of the store (var); the store is the heap of the
   reference semantics, one single-cell block per var-declared variable *)
Inductive gbinding := Imm (v : val) | Cell (b : nat).
Definition genv := list (string * gbinding).

Fixpoint glookup (x : string) (r : genv) : option gbinding :=
  match r with
  | [] => None
  | (y, k) :: r' => if String.eqb x y then Some k else glookup x r'
  end.

Definition read_cell (b : nat) (s : state) : option val :=
  match nth_error (heap s) b with
  | Some (BCells [v]) => Some v
  | _ => None
  end.

Definition write_cell (b : nat) (v : val) (s : state) : option state :=
  match nth_error (heap s) b with
  | Some (BCells [_]) => Some {| heap := set_nth (heap s) b (BCells [v]); rand_seed := rand_seed s |}
  | _ => None
  end.

Definition alloc_cell (v : val) (s : state) : nat * state :=
  (length (heap s), {| heap := heap s ++ [BCells [v]]; rand_seed := rand_seed s |}).

Definition zero_of (t : gty) : val := match t with TU64 => LitV (LitInt 0) | TBool => LitV (LitBool false) end.

(* Go's operators on uint64 and bool (None: the program panics or is ill-typed) *)
Definition go_binop (op : gop) (v1 v2 : val) : option val :=
  match op, v1, v2 with
  | OAdd, LitV (LitInt a), LitV (LitInt b) => Some (LitV (LitInt ((a + b) mod 2 ^ 64)))
  | OSub, LitV (LitInt a), LitV (LitInt b) => Some (LitV (LitInt ((a - b) mod 2 ^ 64)))
  | OMul, LitV (LitInt a), LitV (LitInt b) => Some (LitV (LitInt ((a * b) mod 2 ^ 64)))
  | OQuo, LitV (LitInt a), LitV (LitInt b) => if (b =? 0)%Z then None else Some (LitV (LitInt (a / b)))
  | ORem, LitV (LitInt a), LitV (LitInt b) => if (b =? 0)%Z then None else Some (LitV (LitInt (a mod b)))
  | OAnd, LitV (LitInt a), LitV (LitInt b) => Some (LitV (LitInt (Z.land a b)))
  | OOr, LitV (LitInt a), LitV (LitInt b) => Some (LitV (LitInt (Z.lor a b)))
  | OXor, LitV (LitInt a), LitV (LitInt b) => Some (LitV (LitInt (Z.lxor a b)))
  | OShl, LitV (LitInt a), LitV (LitInt b) => Some (LitV (LitInt (if (64 <=? b)%Z then 0 else (Z.shiftl a b) mod 2 ^ 64)))
  | OShr, LitV (LitInt a), LitV (LitInt b) => Some (LitV (LitInt (if (64 <=? b)%Z then 0 else Z.shiftr a b)))
  | OLt, LitV (LitInt a), LitV (LitInt b) => Some (LitV (LitBool (a <? b)%Z))
  | OLe, LitV (LitInt a), LitV (LitInt b) => Some (LitV (LitBool (a <=? b)%Z))
  | OGt, LitV (LitInt a), LitV (LitInt b) => Some (LitV (LitBool (b <? a)%Z))
  | OGe, LitV (LitInt a), LitV (LitInt b) => Some (LitV (LitBool (b <=? a)%Z))
  | OEq, LitV (LitInt a), LitV (LitInt b) => Some (LitV (LitBool (a =? b)%Z))
  | ONe, LitV (LitInt a), LitV (LitInt b) => Some (LitV (LitBool (negb (a =? b)%Z)))
  | OEq, LitV (LitBool a), LitV (LitBool b) => Some (LitV (LitBool (Bool.eqb a b)))
  | ONe, LitV (LitBool a), LitV (LitBool b) => Some (LitV (LitBool (negb (Bool.eqb a b))))
  | _, _, _ => None
  end.

Fixpoint go_expr (r : genv) (s : state) (e : gexpr) : option val :=
  match e with
  | ELit n => Some (LitV (LitInt n))
  | EBool b => Some (LitV (LitBool b))
  | EVar x =>
      match glookup x r with
      | Some (Imm v) => Some v
      | Some (Cell b) => read_cell b s
      | None => None
      end
  | EBin OLAnd a b =>
      match go_expr r s a with
      | Some (LitV (LitBool true)) => match go_expr r s b with Some (LitV (LitBool x)) => Some (LitV (LitBool x)) | _ => None end
      | Some (LitV (LitBool false)) => Some (LitV (LitBool false))
      | _ => None
      end
  | EBin OLOr a b =>
      match go_expr r s a with
      | Some (LitV (LitBool true)) => Some (LitV (LitBool true))
      | Some (LitV (LitBool false)) => match go_expr r s b with Some (LitV (LitBool x)) => Some (LitV (LitBool x)) | _ => None end
      | _ => None
      end
  | EBin op a b =>
      match go_expr r s a, go_expr r s b with
      | Some va, Some vb => go_binop op va vb
      | _, _ => None
      end
  | ENot a =>
      match go_expr r s a with
      | Some (LitV (LitBool b)) => Some (LitV (LitBool (negb b)))
      | _ => None
      end
  end.

Inductive outcome :=
| ONormal (r : genv) (s : state)      (* fell off the end of the list *)
| OReturn (v : val) (s : state)
| OError                               (* panic / ill-typed *)
| OFuel.

(* statements other than if and return: the new environment and store *)
Definition go_simple (r : genv) (s : state) (st : gstmt) : option (genv * state) :=
  match st with
  | SDefine x e =>
      match go_expr r s e with
      | Some v => Some ((x, Imm v) :: r, s)
      | None => None
      end
  | SVar x t eo =>
      match (match eo with Some e => go_expr r s e | None => Some (zero_of t) end) with
      | Some v => let '(b, s') := alloc_cell v s in Some ((x, Cell b) :: r, s')
      | None => None
      end
  | SAssign x e =>
      match glookup x r, go_expr r s e with
      | Some (Cell b), Some v => match write_cell b v s with Some s' => Some (r, s') | None => None end
      | _, _ => None
      end
  | SOpAssign op x e =>
      match glookup x r, go_expr r s e with
      | Some (Cell b), Some v =>
          match read_cell b s with
          | Some old =>
              match go_binop op old v with
              | Some nv => match write_cell b nv s with Some s' => Some (r, s') | None => None end
              | None => None
              end
          | None => None
          end
      | _, _ => None
      end
  | SIncDec inc x =>
      match glookup x r with
      | Some (Cell b) =>
          match read_cell b s with
          | Some old =>
              match go_binop (if inc then OAdd else OSub) old (LitV (LitInt 1)) with
              | Some nv => match write_cell b nv s with Some s' => Some (r, s') | None => None end
              | None => None
              end
          | None => None
          end
      | _ => None
      end
  | SIf _ _ _ | SReturn _ => None
  end.

Fixpoint go_block (fuel : nat) (r : genv) (s : state) (b : gblock) : outcome :=
  match fuel with
  | O => OFuel
  | S f =>
      match b with
      | BNil => ONormal r s
      | BCons (SIf c th el) rest =>
          match go_expr r s c with
          | Some (LitV (LitBool cb)) =>
              (* the branch runs in a new scope: its declarations end with it *)
              match go_block f r s (if cb then th else block_of el) with
              | ONormal _ s' => go_block f r s' rest
              | o => o
              end
          | _ => OError
          end
      | BCons (SReturn e) _ =>
          match go_expr r s e with
          | Some v => OReturn v s
          | None => OError
          end
      | BCons st rest =>
          match go_simple r s st with
          | Some (r1, s1) => go_block f r1 s1 rest
          | None => OError
          end
      end
  end.

(* running a function on argument values *)
Definition go_call (fuel : nat) (fn : gfunc) (args : list val) : outcome :=
  go_block fuel (rev (combine (map fst (f_params fn)) (map Imm args))) state0 (f_body fn).

(* rendering for the differential harness *)
From GV Require Import Lang.Show.
Definition show_outcome (o : outcome) : string :=
  match o with
  | OReturn v _ => show_val v
  | ONormal _ _ => "normal"
  | OError => "stuck:"
  | OFuel => "fuel"
  end.
