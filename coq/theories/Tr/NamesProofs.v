From Coq Require Import String List Bool Ascii Lia.
From GV Require Import Tr.Names.
Import ListNotations.
Open Scope string_scope.

Lemma no_us_app a b : no_us (a ++ b) = no_us a && no_us b.
Proof. induction a as [|c a IH]; cbn [String.append no_us]; [reflexivity|]. rewrite IH. apply andb_assoc. Qed.

Lemma method_name_has_us t m : no_us (method_name t m) = false.
Proof. unfold method_name. rewrite !no_us_app. cbn. apply andb_false_r. Qed.

(* without underscores in the type names, the first underscore of T__m ends T *)
Lemma method_name_injective t1 m1 t2 m2 :
  no_us t1 = true -> no_us t2 = true -> method_name t1 m1 = method_name t2 m2 -> t1 = t2 /\ m1 = m2.
Proof.
  unfold method_name. revert t2; induction t1 as [|c t1 IH]; intros [|c2 t2] H1 H2 H; cbn [String.append no_us] in *.
  - injection H as H. auto.
  - exfalso. injection H as Hc _. subst c2. cbn in H2. discriminate.
  - exfalso. injection H as Hc _. subst c. cbn in H1. discriminate.
  - injection H as -> H. apply andb_true_iff in H1 as [_ H1]. apply andb_true_iff in H2 as [_ H2].
    destruct (IH _ H1 H2 H) as [-> ->]. auto.
Qed.

Lemma in_somes {X} (x : X) l : In (Some x) l -> In x (somes l).
Proof. induction l as [|[y|] l IH]; cbn; [tauto| |]; intros [E|H]; try discriminate; [injection E as ->; auto|auto|auto]. Qed.

Lemma NoDup_somes_cons {X} (x : X) l : NoDup (somes (Some x :: l)) -> ~ In (Some x) l /\ NoDup (somes l).
Proof. cbn. intros H. inversion H; subst. split; [|assumption]. intros Hin. apply H2, in_somes, Hin. Qed.

(* in a package whose identifiers contain no underscore, the Coq names are
   pairwise distinct *)
Theorem names_unique_plain : forall ds, go_valid ds -> plain ds -> NoDup (map coq_name ds).
Proof.
  induction ds as [|d ds IH]; intros [Hp Hm] Hpl; [constructor|].
  assert (Hpl' : plain ds) by (intros d' s Hd Hs; apply (Hpl d' s); [right; exact Hd|exact Hs]).
  cbn [map]. constructor.
  - (* the name of d is not the name of a later declaration *)
    intros Hin. apply in_map_iff in Hin as (d' & Hn & Hd').
    assert (Hus : forall s, In s (idents_of d) -> no_us s = true) by (intros s Hs; apply (Hpl d s); [left; reflexivity|exact Hs]).
    assert (Hus' : forall s, In s (idents_of d') -> no_us s = true) by (intros s Hs; apply (Hpl d' s); [right; exact Hd'|exact Hs]).
    destruct d as [f|t m|t|c|v]; destruct d' as [f'|t' m'|t'|c'|v']; cbn [coq_name] in Hn;
      try (* a method name against a plain identifier *)
        (match type of Hn with
         | method_name ?a ?b = ?x => assert (Hx : no_us x = true) by (apply Hus; cbn; auto); rewrite <- Hn, method_name_has_us in Hx; discriminate
         | ?x = method_name ?a ?b => assert (Hx : no_us x = true) by (apply Hus'; cbn; auto); rewrite Hn, method_name_has_us in Hx; discriminate
         end);
      try (* two package-level identifiers *)
        (subst; cbn [map pkg_ident] in Hp; apply NoDup_somes_cons in Hp as [Hn' _]; apply Hn';
         apply in_map_iff; eexists; split; [|exact Hd']; reflexivity).
    (* two methods *)
    destruct (method_name_injective t' m' t m) as [-> ->]; [apply Hus'; cbn; auto|apply Hus; cbn; auto|exact Hn|].
    cbn [map method_key] in Hm. apply NoDup_somes_cons in Hm as [Hn' _]. apply Hn'.
    apply in_map_iff. exists (GMethod t m). split; [reflexivity|exact Hd'].
  - apply IH; [|exact Hpl']. split.
    + destruct d; cbn [map pkg_ident somes] in Hp; try (inversion Hp; assumption); exact Hp.
    + destruct d; cbn [map method_key somes] in Hm; try (inversion Hm; assumption); exact Hm.
Qed.

(* ... and not in general: Go-valid packages with two definitions of one name *)
Theorem names_unique_refuted :
  exists ds, go_valid ds /\ ~ NoDup (map coq_name ds).
Proof.
  exists [GType "A"; GMethod "A" "b"; GFunc "A__b"]. split.
  - split; cbn; repeat constructor; cbn; intuition discriminate.
  - cbn. intros H. inversion H as [|? ? _ H1]; subst. inversion H1 as [|? ? Hn _]; subst. apply Hn. left. reflexivity.
Qed.

(* the same with underscores only at the ends of identifiers, none doubled *)
Theorem names_unique_refuted_single_underscores :
  exists ds, go_valid ds /\ ~ NoDup (map coq_name ds).
Proof.
  exists [GType "a_"; GType "a"; GMethod "a_" "b"; GMethod "a" "_b"]. split.
  - split; cbn; repeat constructor; cbn; intuition discriminate.
  - cbn. intros H. inversion H as [|? ? _ H1]; subst. inversion H1 as [|? ? _ H2]; subst. inversion H2 as [|? ? Hn _]; subst.
    apply Hn. left. reflexivity.
Qed.

Example plain_package_is_covered :
  go_valid [GType "Log"; GMethod "Log" "Append"; GFunc "Open"; GConst "MaxLen"] /\
  plain [GType "Log"; GMethod "Log" "Append"; GFunc "Open"; GConst "MaxLen"].
Proof.
  split.
  - split; cbn; repeat constructor; cbn; intuition discriminate.
  - intros d s Hd Hs. cbn in Hd. repeat (destruct Hd as [<-|Hd]; [cbn in Hs; repeat (destruct Hs as [<-|Hs]; [reflexivity|]); destruct Hs|]). destruct Hd.
Qed.
