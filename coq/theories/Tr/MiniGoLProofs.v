(* Preservation for MiniGoL: loops with break/continue and nested blocks. *)
From Coq Require Import String List ZArith Bool Lia.
From GV Require Import Lang.GlSyntax Lang.GlSem Lang.GlSemProofs Tr.MiniGo Tr.MiniGoProofs Tr.MiniGoL.
Import ListNotations.
Local Open Scope nat_scope.

(* ---------------------------------------------------------------- names the output does not mention *)
(* x is not free in the translation when goose does not know x as a variable *)
Definition nofree (x : string) (e : expr) : Prop := forall v, subst x v e = e.

Lemma nofree_val x v : nofree x (Val v).
Proof. intros w. reflexivity. Qed.

Lemma nofree_app x a b : nofree x a -> nofree x b -> nofree x (App a b).
Proof. intros Ha Hb v. cbn [subst]. rewrite Ha, Hb. reflexivity. Qed.

Lemma nofree_binop x op a b : nofree x a -> nofree x b -> nofree x (BinOp op a b).
Proof. intros Ha Hb v. cbn [subst]. rewrite Ha, Hb. reflexivity. Qed.

Lemma nofree_unop x op a : nofree x a -> nofree x (UnOp op a).
Proof. intros Ha v. cbn [subst]. rewrite Ha. reflexivity. Qed.

Lemma nofree_if x a b c : nofree x a -> nofree x b -> nofree x c -> nofree x (If a b c).
Proof. intros Ha Hb Hc v. cbn [subst]. rewrite Ha, Hb, Hc. reflexivity. Qed.

Lemma nofree_var x y : x <> y -> nofree x (Var y).
Proof. intros Hne v. cbn [subst]. destruct (String.eqb x y) eqn:E; [apply String.eqb_eq in E; congruence|reflexivity]. Qed.

Lemma nofree_thunk x e : nofree x e -> nofree x (Thunk e).
Proof. intros H v. unfold Thunk. cbn [subst binder_is orb]. rewrite H. reflexivity. Qed.

(* let: y := a in b — b may mention y *)
Lemma nofree_letin x y a b : nofree x a -> (BNamed x <> y -> nofree x b) -> nofree x (LetIn y a b).
Proof.
  intros Ha Hb v. unfold LetIn, Lam. cbn [subst binder_is orb]. rewrite Ha. f_equal.
  destruct y as [|z]; cbn [binder_is].
  - rewrite Hb by discriminate. reflexivity.
  - destruct (String.eqb x z) eqn:E; [reflexivity|]. rewrite Hb; [reflexivity|].
    intros [= ->]. rewrite String.eqb_refl in E. discriminate.
Qed.

Lemma nofree_seq x a b : nofree x a -> nofree x b -> nofree x (Seq a b).
Proof. intros Ha Hb. unfold Seq. apply nofree_letin; auto. Qed.

Lemma tr_binop_nofree x op a b e : tr_binop op a b = Some e -> nofree x a -> nofree x b -> nofree x e.
Proof.
  destruct op; cbn [tr_binop]; intros H Ha Hb; try discriminate; injection H as <-;
    repeat first [apply nofree_binop | apply nofree_unop | apply nofree_if | apply nofree_val | assumption].
Qed.

Lemma tr_expr_nofree G x : tlookup x G = None -> forall e e', tr_expr G e = Some e' -> nofree x e'.
Proof.
  intros Hx. induction e as [n|b|y|op a IHa b IHb|a IHa]; cbn [tr_expr]; intros e' H.
  - injection H as <-. apply nofree_val.
  - injection H as <-. apply nofree_val.
  - destruct (tlookup y G) as [[[] t]|] eqn:El; try discriminate; injection H as <-.
    + apply nofree_app; [apply nofree_val|]. apply nofree_var. intros ->. congruence.
    + apply nofree_var. intros ->. congruence.
  - destruct (tr_expr G a) as [a'|]; [|discriminate]. destruct (tr_expr G b) as [b'|]; [|discriminate].
    eapply tr_binop_nofree; eauto.
  - destruct (tr_expr G a) as [a'|]; [|discriminate]. injection H as <-. apply nofree_unop. eauto.
Qed.

Lemma tlookup_cons_none x y k G : tlookup x ((y, k) :: G) = None -> x <> y /\ tlookup x G = None.
Proof. cbn. destruct (String.eqb x y) eqn:E; [discriminate|]. apply String.eqb_neq in E. auto. Qed.

(* a simple statement: its expression does not mention x; the environment it
   leaves knows x only if it declares x *)
Lemma tr_simple_nofree G x g xb e G' :
  tlookup x G = None -> tr_simple G g = Some (xb, e, G') ->
  nofree x e /\ (BNamed x <> xb -> tlookup x G' = None).
Proof.
  intros Hx H. destruct g as [y e0|y t [e0|]|y e0|op y e0|inc y|c th el|e0]; cbn [tr_simple] in H; try discriminate.
  - destruct (tr_expr G e0) as [e'|] eqn:Et; [|discriminate]. injection H as <- <- <-. split; [eapply tr_expr_nofree; eauto|].
    intros Hne. cbn. destruct (String.eqb x y) eqn:E; [apply String.eqb_eq in E; congruence|exact Hx].
  - destruct (tr_expr G e0) as [e'|] eqn:Et; [|discriminate]. injection H as <- <- <-. split.
    + apply nofree_app; [apply nofree_val|eapply tr_expr_nofree; eauto].
    + intros Hne. cbn. destruct (String.eqb x y) eqn:E; [apply String.eqb_eq in E; congruence|exact Hx].
  - injection H as <- <- <-. split; [apply nofree_app; apply nofree_val|].
    intros Hne. cbn. destruct (String.eqb x y) eqn:E; [apply String.eqb_eq in E; congruence|exact Hx].
  - destruct (tlookup y G) as [[[] t]|] eqn:El; try discriminate.
    destruct (tr_expr G e0) as [e'|] eqn:Et; [|discriminate]. injection H as <- <- <-. split; [|auto].
    repeat apply nofree_app; try apply nofree_val; [apply nofree_var; intros ->; congruence|eapply tr_expr_nofree; eauto].
  - destruct (tlookup y G) as [[[] t]|] eqn:El; try discriminate.
    destruct (tr_expr G e0) as [e'|] eqn:Et; [|discriminate]. destruct (assign_op op); [|discriminate].
    destruct (tr_binop op _ e') as [rhs|] eqn:Eb; [|discriminate]. injection H as <- <- <-. split; [|auto].
    assert (Hy : nofree x (Var y)) by (apply nofree_var; intros ->; congruence).
    repeat apply nofree_app; try apply nofree_val; auto.
    eapply tr_binop_nofree; [exact Eb| |eapply tr_expr_nofree; eauto]. apply nofree_app; [apply nofree_val|exact Hy].
  - destruct (tlookup y G) as [[[] t]|] eqn:El; try discriminate. injection H as <- <- <-. split; [|auto].
    assert (Hy : nofree x (Var y)) by (apply nofree_var; intros ->; congruence).
    repeat apply nofree_app; try apply nofree_val; auto.
    apply nofree_binop; [apply nofree_app; [apply nofree_val|exact Hy]|apply nofree_val].
Qed.

Definition knofree (x : string) (k : option expr) : Prop := match k with Some r => nofree x r | None => True end.

Lemma nofree_then_k x e k : nofree x e -> knofree x k -> nofree x (then_k e k).
Proof. destruct k; cbn; intros; [apply nofree_seq|]; auto. Qed.

Lemma nofree_final x u k : knofree x k -> nofree x (then_k (match final_of u with Some e => e | None => UnitE end) k).
Proof. intros. apply nofree_then_k; auto. destruct u; apply nofree_val. Qed.

Lemma trl_nofree x : forall fuel G u b k e,
  trl fuel G u b k = Some e -> tlookup x G = None -> knofree x k -> nofree x e.
Proof.
  induction fuel as [|f IH]; intros G u b k e H Hx Hk; [discriminate|].
  destruct b as [|st rest]; [injection H as <-; apply nofree_final, Hk|].
  destruct st as [g|c th el|e0|init cond post body| | |inner].
  - (* simple *)
    destruct rest as [|st2 rest2]; cbn [trl] in H.
    + destruct (tr_simple G g) as [[[xb e1] G']|] eqn:Es; [|discriminate].
      destruct (tr_simple_nofree _ _ _ _ _ _ Hx Es) as [He1 _].
      destruct (final_of u) as [fin|] eqn:Ef; injection H as <-.
      * apply nofree_letin; [exact He1|]. intros _. apply nofree_then_k; [|exact Hk]. destruct u; try discriminate; injection Ef as <-; apply nofree_val.
      * apply nofree_then_k; assumption.
    + destruct (tr_simple G g) as [[[xb e1] G']|] eqn:Es; [|discriminate].
      destruct (tr_simple_nofree _ _ _ _ _ _ Hx Es) as [He1 HG'].
      destruct (trl f G' u (LCons st2 rest2) k) as [r'|] eqn:Er; [|discriminate]. injection H as <-.
      apply nofree_letin; [exact He1|]. intros Hne. eapply IH; eauto.
  - (* if *)
    cbn [trl] in H. destruct (tr_expr G c) as [c'|] eqn:Ec; [|discriminate].
    pose proof (tr_expr_nofree _ _ Hx _ _ Ec) as Hc.
    destruct (llast rest).
    + destruct (trl f G u th None) as [t'|] eqn:Et; [|discriminate].
      destruct (trl f G u (lblock_of el) None) as [e'|] eqn:Ee; [|discriminate]. injection H as <-.
      apply nofree_then_k; [|exact Hk]. apply nofree_if; [exact Hc|eapply IH; eauto; exact I|eapply IH; eauto; exact I].
    + destruct (lends (lsize th) th).
      * destruct (llast (lblock_of el)); [|discriminate].
        destruct (trl f G u th None) as [t'|] eqn:Et; [|discriminate].
        destruct (trl f G u rest None) as [r'|] eqn:Er; [|discriminate]. injection H as <-.
        apply nofree_then_k; [|exact Hk]. apply nofree_if; [exact Hc|eapply IH; eauto; exact I|eapply IH; eauto; exact I].
      * destruct (trl f G ULocal th None) as [t'|] eqn:Et; [|discriminate].
        destruct (trl f G ULocal (lblock_of el) None) as [e'|] eqn:Ee; [|discriminate].
        destruct (trl f G u rest k) as [r'|] eqn:Er; [|discriminate]. injection H as <-.
        apply nofree_seq; [|eapply IH; eauto]. apply nofree_if; [exact Hc|eapply IH; eauto; exact I|eapply IH; eauto; exact I].
  - (* return *)
    destruct rest; cbn [trl] in H; [|discriminate]. destruct u; try discriminate.
    destruct (tr_expr G e0) as [e'|] eqn:Ee; [|discriminate]. injection H as <-.
    apply nofree_then_k; [eapply tr_expr_nofree; eauto|exact Hk].
  - (* for *)
    cbn [trl] in H.
    set (G1 := match init with Some (i, e1) => (i, (true, type_of G e1)) :: G | None => G end) in *.
    destruct (match cond with Some c => tr_expr G1 c | None => Some (BoolE true) end) as [c'|] eqn:Ec; [|discriminate].
    destruct (match post with Some g => match tr_simple G1 g with Some (BAnon, e1, _) => Some e1 | _ => None end | None => Some SkipE end) as [p'|] eqn:Ep; [|discriminate].
    destruct (trl f G1 ULoop body None) as [b'|] eqn:Eb; [|discriminate].
    (* facts inside the loop, provided x is not the loop variable *)
    assert (Hin : tlookup x G1 = None -> nofree x (ForE (Thunk c') (Thunk b') (Thunk p'))).
    { intros Hx1. unfold ForE. repeat apply nofree_app; try apply nofree_val; apply nofree_thunk.
      - destruct cond as [c|]; [eapply tr_expr_nofree; eauto|injection Ec as <-; apply nofree_val].
      - eapply IH; eauto. exact I.
      - destruct post as [g|]; [|injection Ep as <-; apply nofree_app; apply nofree_val].
        destruct (tr_simple G1 g) as [[[[|?] e1] G2]|] eqn:Es; try discriminate. injection Ep as <-.
        eapply tr_simple_nofree; eauto. }
    set (after := if llast rest then match final_of u with Some fin => Some (Some (then_k fin k)) | None => Some k end
                  else match trl f G u rest k with Some r' => Some (Some r') | None => None end) in *.
    destruct after as [aft|] eqn:Ea; [|discriminate].
    assert (Haft : knofree x aft).
    { unfold after in Ea. destruct (llast rest).
      - destruct (final_of u) as [fin|] eqn:Ef; injection Ea as <-; cbn [knofree]; [|exact Hk].
        apply nofree_then_k; [|exact Hk]. destruct u; try discriminate; injection Ef as <-; apply nofree_val.
      - destruct (trl f G u rest k) as [r'|] eqn:Er; [|discriminate]. injection Ea as <-. cbn [knofree]. eapply IH; eauto. }
    destruct init as [[i e1]|].
    + destruct (tr_expr G e1) as [e1'|] eqn:Ee1; [|discriminate].
      assert (Hcell : nofree x (RefTo (ty_of (type_of G e1)) e1')).
      { apply nofree_app; [apply nofree_val|eapply tr_expr_nofree; eauto]. }
      assert (Hloop : BNamed x <> BNamed i -> nofree x (ForE (Thunk c') (Thunk b') (Thunk p'))).
      { intros Hne. apply Hin. unfold G1. cbn. destruct (String.eqb x i) eqn:E; [apply String.eqb_eq in E; congruence|exact Hx]. }
      destruct (negb (llast rest) && shadows G (LFor (Some (i, e1)) cond post body)); injection H as <-.
      * apply nofree_then_k; [|exact Haft]. apply nofree_letin; auto.
      * apply nofree_letin; [exact Hcell|]. intros Hne. apply nofree_then_k; auto.
    + injection H as <-. apply nofree_seq; [apply nofree_app; apply nofree_val|]. apply nofree_then_k; [apply Hin, Hx|exact Haft].
  - (* break *)
    destruct rest; cbn [trl] in H; [|discriminate]. destruct u; try discriminate. injection H as <-.
    apply nofree_then_k; [apply nofree_val|exact Hk].
  - (* continue *)
    destruct rest; cbn [trl] in H; [|discriminate]. destruct u; try discriminate. injection H as <-.
    apply nofree_then_k; [apply nofree_val|exact Hk].
  - (* nested block *)
    destruct rest as [|st2 rest2]; cbn [trl] in H.
    + eapply IH; eauto.
    + destruct (trl f G u (LCons st2 rest2) k) as [r'|] eqn:Er; [|discriminate].
      assert (Hr : nofree x r') by (eapply IH; eauto).
      destruct (shadows G (LBlock inner)).
      * destruct (trl f G ULocal inner None) as [i'|] eqn:Ei; [|discriminate]. injection H as <-.
        apply nofree_seq; [eapply IH; eauto; exact I|exact Hr].
      * eapply IH; eauto.
Qed.

(* ---------------------------------------------------------------- the For loop of the library *)
Definition thunkV (e : expr) : val := RecV BAnon BAnon e.

Definition loop_body (cv bv pv : val) : expr :=
  LetIn (BNamed "__continue")
    (If (App (Val cv) U) (App (Val bv) U) (Val (vbool false)))
    (If (Var "__continue") (Seq (App (Val pv) U) (App (Var "__loop") U)) U).

Definition loopV (cv bv pv : val) : val := RecV (BNamed "__loop") BAnon (loop_body cv bv pv).

Lemma for_loop_unfold cv bv pv : for_loop cv bv pv = App (Rec (BNamed "__loop") BAnon (loop_body cv bv pv)) U.
Proof. reflexivity. Qed.

Lemma evals_thunk_call e s w s' : evals e s w s' -> evals (App (Val (thunkV e)) U) s w s'.
Proof.
  intros [n H]. exists (S (S n)). rewrite eval_S_unfold. unfold eval_step at 1. unfold U at 1.
  change (eval (S n) (Val vunit) s) with (RVal vunit s). cbv iota.
  change (eval (S n) (Val (thunkV e)) s) with (RVal (thunkV e) s). cbv iota. unfold thunkV at 1. cbn [subst'].
  apply (evals_fuel _ _ _ _ _ (S n) H). lia.
Qed.

(* calling the loop function once: its body with itself substituted *)
Lemma evals_loop_call cv bv pv s w s' :
  evals (LetIn (BNamed "__continue")
           (If (App (Val cv) U) (App (Val bv) U) (Val (vbool false)))
           (If (Var "__continue") (Seq (App (Val pv) U) (App (Val (loopV cv bv pv)) U)) U)) s w s' ->
  evals (App (Val (loopV cv bv pv)) U) s w s'.
Proof.
  intros [n H]. exists (S (S n)). rewrite eval_S_unfold. unfold eval_step at 1. unfold U at 1.
  change (eval (S n) (Val vunit) s) with (RVal vunit s). cbv iota.
  change (eval (S n) (Val (loopV cv bv pv)) s) with (RVal (loopV cv bv pv) s). cbv iota.
  unfold loopV at 1. cbn [subst']. apply (evals_fuel _ _ _ _ _ (S n) H). lia.
Qed.

Lemma sim_rec_val f x b : sim (Rec f x b) (Val (RecV f x b)).
Proof.
  intros s w s' [n H]. destruct n as [|n]; [discriminate|]. cbn in H. injection H as <- <-. exists 1. reflexivity.
Qed.

Lemma evals_for_loop cv bv pv s w s' :
  evals (App (Val (loopV cv bv pv)) U) s w s' -> evals (for_loop cv bv pv) s w s'.
Proof.
  rewrite for_loop_unfold. unfold U. apply (sim_app_val _ _ vunit (sim_rec_val (BNamed "__loop") BAnon (loop_body cv bv pv))).
Qed.

Lemma evals_seq e1 e2 s v s1 w s2 : evals e1 s v s1 -> evals e2 s1 w s2 -> evals (Seq e1 e2) s w s2.
Proof. intros H1 H2. unfold Seq. eapply evals_letin; [exact H1|]. cbn [subst']. exact H2. Qed.

(* the condition fails: the loop ends *)
Lemma loop_exit c b p s s1 :
  evals c s (vbool false) s1 -> evals (App (Val (loopV (thunkV c) (thunkV b) (thunkV p))) U) s vunit s1.
Proof.
  intros Hc. apply evals_loop_call. eapply evals_letin.
  - eapply evals_if; [apply evals_thunk_call, Hc|]. cbn. apply evals_val.
  - cbn [subst' subst String.eqb Ascii.eqb Bool.eqb binder_is orb]. cbn. eapply evals_if; [apply evals_val|]. cbn. apply evals_val.
Qed.

(* the body breaks *)
Lemma loop_break c b p s s1 s2 :
  evals c s (vbool true) s1 -> evals b s1 (vbool false) s2 ->
  evals (App (Val (loopV (thunkV c) (thunkV b) (thunkV p))) U) s vunit s2.
Proof.
  intros Hc Hb. apply evals_loop_call. eapply evals_letin.
  - eapply evals_if; [apply evals_thunk_call, Hc|]. cbn. apply evals_thunk_call, Hb.
  - cbn. eapply evals_if; [apply evals_val|]. cbn. apply evals_val.
Qed.

(* the body continues: the post statement runs and the loop goes round *)
Lemma loop_continue c b p s s1 s2 wp s3 w s4 :
  evals c s (vbool true) s1 -> evals b s1 (vbool true) s2 -> evals p s2 wp s3 ->
  evals (App (Val (loopV (thunkV c) (thunkV b) (thunkV p))) U) s3 w s4 ->
  evals (App (Val (loopV (thunkV c) (thunkV b) (thunkV p))) U) s w s4.
Proof.
  intros Hc Hb Hp Hl. apply evals_loop_call. eapply evals_letin.
  - eapply evals_if; [apply evals_thunk_call, Hc|]. cbn. apply evals_thunk_call, Hb.
  - cbn. eapply evals_if; [apply evals_val|]. cbn. eapply evals_seq; [apply evals_thunk_call, Hp|exact Hl].
Qed.

(* For applied to three thunks runs the loop function *)
Lemma evals_ForE c b p s w s' :
  evals (App (Val (loopV (thunkV c) (thunkV b) (thunkV p))) U) s w s' ->
  evals (ForE (Thunk c) (Thunk b) (Thunk p)) s w s'.
Proof.
  intros Hl. apply evals_for_loop in Hl. destruct Hl as [n H].
  exists (S (S (S (S (S n))))). unfold ForE, Thunk.
  rewrite eval_S_unfold. unfold eval_step at 1.
  change (eval (S (S (S (S n)))) (Rec BAnon BAnon p) s) with (RVal (thunkV p) s). cbv iota.
  rewrite eval_S_unfold. unfold eval_step at 1.
  change (eval (S (S (S n))) (Rec BAnon BAnon b) s) with (RVal (thunkV b) s). cbv iota.
  rewrite eval_S_unfold. unfold eval_step at 1.
  change (eval (S (S n)) (Rec BAnon BAnon c) s) with (RVal (thunkV c) s). cbv iota.
  change (eval (S (S n)) (Val (PrimV PFor [])) s) with (RVal (PrimV PFor []) s). cbv iota.
  cbn [app length arity Nat.ltb Nat.leb is_loop expand_loop].
  apply (evals_fuel _ _ _ _ _ _ H). lia.
Qed.

(* ---------------------------------------------------------------- statements *)
Fixpoint noblocks (b : lblock) : bool :=
  match b with
  | LNil => true
  | LCons s rest => noblocks_stmt s && noblocks rest
  end
with noblocks_stmt (s : lstmt) : bool :=
  match s with
  | LBlock _ => false
  | LIf _ th el => noblocks th && match el with Some e => noblocks e | None => true end
  | LFor _ _ _ body => noblocks body
  | _ => true
  end.

Definition lpost (u : lusage) (e : expr) (r : genv) (s : state) (o : lout) : Prop :=
  match o with
  | LRet v s' => u = UReturned /\ evals (close (cs_of r) e) s v s'
  | LNormal _ s' => cells_kept s s' /\ exists w, evals (close (cs_of r) e) s w s' /\
                      (u = UReturned -> w = vunit) /\ (u = ULoop -> w = vbool true)
  | LBrk s' => u = ULoop /\ cells_kept s s' /\ evals (close (cs_of r) e) s (vbool false) s'
  | LCont s' => u = ULoop /\ cells_kept s s' /\ evals (close (cs_of r) e) s (vbool true) s'
  | LErr | LFuelOut => True
  end.

Lemma lpost_letin u x e1 e2 r s v1 r1 s1 o :
  evals (close (cs_of r) e1) s v1 s1 -> cs_of r1 = bind x v1 (cs_of r) -> cells_kept s s1 ->
  lpost u e2 r1 s1 o -> lpost u (LetIn x e1 e2) r s o.
Proof.
  intros H1 Hcs Hk Hp.
  assert (Hev : forall w s', evals (close (cs_of r1) e2) s1 w s' -> evals (close (cs_of r) (LetIn x e1 e2)) s w s').
  { intros w s' Hw. eapply evals_close_letin; [exact H1|]. rewrite <- Hcs. exact Hw. }
  destruct o as [r' s'|v s'|s'|s'| |]; cbn [lpost] in *; auto.
  - destruct Hp as [Hk' (w & Hw & Hu)]. split; [eapply cells_kept_trans; eauto|]. exists w. split; auto.
  - destruct Hp as [Hu Hw]. auto.
  - destruct Hp as (Hu & Hk' & Hw). split; [exact Hu|]. split; [eapply cells_kept_trans; eauto|auto].
  - destruct Hp as (Hu & Hk' & Hw). split; [exact Hu|]. split; [eapply cells_kept_trans; eauto|auto].
Qed.

Lemma lpost_if u c' (cb : bool) t' e' r s o :
  evals (close (cs_of r) c') s (vbool cb) s ->
  lpost u (if cb then t' else e') r s o -> lpost u (If c' t' e') r s o.
Proof.
  intros Hc Hp.
  assert (Hev : forall w s', evals (close (cs_of r) (if cb then t' else e')) s w s' -> evals (close (cs_of r) (If c' t' e')) s w s').
  { intros w s' Hw. rewrite close_if. eapply evals_if; [exact Hc|]. destruct cb; exact Hw. }
  destruct o as [r' s'|v s'|s'|s'| |]; cbn [lpost] in *; auto.
  - destruct Hp as [Hk' (w & Hw & Hu)]. split; [exact Hk'|]. exists w. auto.
  - destruct Hp as [Hu Hw]. auto.
  - destruct Hp as (Hu & Hk' & Hw). auto.
  - destruct Hp as (Hu & Hk' & Hw). auto.
Qed.

Lemma lgo_nil n r s : lgo n r s LNil = match n with O => LFuelOut | S _ => LNormal r s end.
Proof. destruct n; reflexivity. Qed.

Lemma llast_stmt_cons st st2 rest : llast_stmt (LCons st (LCons st2 rest)) = llast_stmt (LCons st2 rest).
Proof. reflexivity. Qed.

Lemma lends_cons k st st2 rest : lends k (LCons st (LCons st2 rest)) = lends k (LCons st2 rest).
Proof. destruct k; [reflexivity|]. cbn [lends]. rewrite llast_stmt_cons. reflexivity. Qed.

(* a list that ends with return / break / continue never falls off its end *)
Lemma lends_not_normal : forall n,
  (forall k b r s r' s', lends k b = true -> lgo n r s b <> LNormal r' s').
Proof.
  induction n as [|n IH]; intros k b r s r' s' He; [discriminate|].
  destruct b as [|st [|st2 rest]].
  - destruct k; discriminate.
  - destruct k as [|k]; [discriminate|]. cbn [lends llast_stmt] in He.
    destruct st as [g|c th [el|]|e0|init cond post body| | |inner]; try discriminate He; cbn [lgo]; try discriminate.
    + apply andb_true_iff in He as [H1 H2].
      destruct (go_expr r s c) as [[[| | |cb| | | |]| | |]|]; try discriminate.
      destruct (lgo n r s (if cb then th else lblock_of (Some el))) eqn:E; try discriminate.
      exfalso. destruct cb; [exact (IH _ _ _ _ _ _ H1 E)|exact (IH _ _ _ _ _ _ H2 E)].
    + destruct (go_expr r s e0); discriminate.
  - rewrite lends_cons in He.
    destruct st as [g|c th el|e0|init cond post body| | |inner]; cbn [lgo].
    + destruct (go_simple r s g) as [[r1 s1]|]; [exact (IH _ _ _ _ _ _ He)|discriminate].
    + destruct (go_expr r s c) as [[[| | |cb| | | |]| | |]|]; try discriminate.
      destruct (lgo n r s (if cb then th else lblock_of el)) eqn:E; try discriminate. exact (IH _ _ _ _ _ _ He).
    + destruct (go_expr r s e0); discriminate.
    + match goal with |- context [lloop n ?a ?b cond post body] => idtac | _ => idtac end.
      destruct init as [[i e]|].
      * destruct (go_expr r s e) as [v|]; [|discriminate]. destruct (alloc_cell v s) as [bb s1].
        destruct (lloop n ((i, Cell bb) :: r) s1 cond post body); try discriminate. exact (IH _ _ _ _ _ _ He).
      * destruct (lloop n r s cond post body); try discriminate. exact (IH _ _ _ _ _ _ He).
    + discriminate.
    + discriminate.
    + destruct (lgo n r s inner); try discriminate. exact (IH _ _ _ _ _ _ He).
Qed.

Lemma close_thunk cs e : close cs (Thunk e) = Thunk (close cs e).
Proof. unfold Thunk. apply close_lam_anon. Qed.

Lemma close_ForE cs c b p : close cs (ForE c b p) = ForE (close cs c) (close cs b) (close cs p).
Proof. unfold ForE. rewrite !close_app, close_val. reflexivity. Qed.

Lemma close_skip cs : close cs SkipE = SkipE.
Proof. unfold SkipE. rewrite close_app, !close_val. reflexivity. Qed.

Lemma evals_skip s : evals SkipE s vunit s.
Proof. unfold SkipE. apply (evals_thunk_call (Val vunit)). apply evals_val. Qed.

Lemma lpost_seq u X a r s w s1 o :
  evals (close (cs_of r) X) s w s1 -> cells_kept s s1 -> lpost u a r s1 o -> lpost u (Seq X a) r s o.
Proof. intros H Hk Hp. unfold Seq. eapply lpost_letin with (r1 := r) (v1 := w); eauto. Qed.

Lemma lpost_final u fin r s : final_of u = Some fin -> lpost u fin r s (LNormal r s).
Proof.
  intros Hf. cbn [lpost]. split; [apply cells_kept_refl|].
  destruct u; cbn in Hf; try discriminate; injection Hf as <-.
  - exists vunit. unfold UnitE. rewrite close_val. split; [apply evals_val|]. split; [reflexivity|discriminate].
  - exists (vbool true). unfold ContinueE. rewrite close_val. split; [apply evals_val|]. split; [discriminate|reflexivity].
Qed.

Lemma lpost_local_value X r s w s1 : evals (close (cs_of r) X) s w s1 -> cells_kept s s1 -> lpost ULocal X r s (LNormal r s1).
Proof. intros H Hk. cbn [lpost]. split; [exact Hk|]. exists w. split; [exact H|]. split; discriminate. Qed.

Lemma lpost_drop_binding u a i bnd r s o : nofree i a -> lpost u a r s o -> lpost u a ((i, bnd) :: r) s o.
Proof.
  intros Hn Hp. assert (Hc : close (cs_of ((i, bnd) :: r)) a = close (cs_of r) a) by (cbn [cs_of map fst snd close]; rewrite Hn; reflexivity).
  destruct o; cbn [lpost] in *; try rewrite Hc; exact Hp.
Qed.

Lemma shadows_false_lookup G s x : shadows G s = false -> In x (names_stmt s) -> tlookup x G = None.
Proof.
  unfold shadows. intros H Hin. destruct (tlookup x G) eqn:E; [|reflexivity]. exfalso.
  assert (existsb (fun x => match tlookup x G with Some _ => true | None => false end) (names_stmt s) = true).
  { apply existsb_exists. exists x. rewrite E. auto. }
  congruence.
Qed.

Definition P_lgo (n : nat) : Prop := forall tf G u b e r s,
  trl tf G u b None = Some e -> noblocks b = true -> agree G r s -> lpost u e r s (lgo n r s b).

Definition loop_expr (cs : csub) (c' b' p' : expr) : expr :=
  App (Val (loopV (thunkV (close cs c')) (thunkV (close cs b')) (thunkV (close cs p')))) U.

Definition P_lloop (n : nat) : Prop := forall tf G1 r1 s1 cond post body c' p' b',
  (match cond with Some c => tr_expr G1 c | None => Some (BoolE true) end) = Some c' ->
  (match post with Some g => match tr_simple G1 g with Some (BAnon, e, _) => Some e | _ => None end | None => Some SkipE end) = Some p' ->
  trl tf G1 ULoop body None = Some b' -> noblocks body = true -> agree G1 r1 s1 ->
  match lloop n r1 s1 cond post body with
  | LNormal _ s2 => cells_kept s1 s2 /\ evals (loop_expr (cs_of r1) c' b' p') s1 vunit s2
  | LRet _ _ | LBrk _ | LCont _ => False
  | LErr | LFuelOut => True
  end.

Lemma loop_step n : P_lgo n -> P_lloop n -> P_lloop (S n).
Proof.
  intros Hgo Hloop tf G1 r1 s1 cond post body c' p' b' Hc Hp Hb Hnb Hag.
  cbn [lloop].
  (* the condition *)
  assert (Hcond : forall cv, (match cond with Some c => go_expr r1 s1 c | None => Some (LitV (LitBool true)) end) = Some cv ->
                     evals (close (cs_of r1) c') s1 cv s1).
  { intros cv Hcv. destruct cond as [c|].
    - eapply tr_expr_correct; eauto.
    - injection Hc as <-. injection Hcv as <-. unfold BoolE. rewrite close_val. apply evals_val. }
  destruct (match cond with Some c => go_expr r1 s1 c | None => Some (LitV (LitBool true)) end) as [cv|] eqn:Ecv; [|exact I].
  specialize (Hcond cv eq_refl).
  destruct cv as [[| | |[]| | | |]| | |]; try exact I.
  2: { split; [apply cells_kept_refl|]. apply loop_exit. exact Hcond. }
  (* the body *)
  pose proof (Hgo _ _ _ _ _ _ _ Hb Hnb Hag) as Hbody.
  (* what happens after a completed body *)
  assert (Hnext : forall s', cells_kept s1 s' -> evals (close (cs_of r1) b') s1 (vbool true) s' ->
            match (match (match post with Some g => match go_simple r1 s' g with Some (_, s'') => Some s'' | None => None end | None => Some s' end) with
                   | Some s'' => lloop n r1 s'' cond post body
                   | None => LErr
                   end) with
            | LNormal _ s2 => cells_kept s1 s2 /\ evals (loop_expr (cs_of r1) c' b' p') s1 vunit s2
            | LRet _ _ | LBrk _ | LCont _ => False
            | LErr | LFuelOut => True
            end).
  { intros s' Hk Hbev.
    assert (Hag' : agree G1 r1 s') by (eapply agree_kept; eauto).
    assert (Hpost : forall s'', (match post with Some g => match go_simple r1 s' g with Some (_, s'') => Some s'' | None => None end | None => Some s' end) = Some s'' ->
                      cells_kept s' s'' /\ exists wp, evals (close (cs_of r1) p') s' wp s'').
    { intros s'' Hs''. destruct post as [g|].
      - destruct (tr_simple G1 g) as [[[[|?] ep] G2]|] eqn:Es; try discriminate. injection Hp as <-.
        destruct (go_simple r1 s' g) as [[r2 s2']|] eqn:Eg; [|discriminate]. injection Hs'' as <-.
        destruct (simple_correct _ _ _ _ _ _ _ _ _ Hag' Es Eg) as (v1 & Hv1 & _ & _ & Hk2). split; [exact Hk2|eauto].
      - injection Hp as <-. injection Hs'' as <-. split; [apply cells_kept_refl|]. exists vunit. rewrite close_skip. apply evals_skip. }
    destruct (match post with Some g => match go_simple r1 s' g with Some (_, s'') => Some s'' | None => None end | None => Some s' end) as [s''|] eqn:Epost; [|exact I].
    destruct (Hpost s'' eq_refl) as [Hk2 (wp & Hwp)].
    assert (Hag'' : agree G1 r1 s'') by (eapply agree_kept; eauto).
    pose proof (Hloop _ _ _ _ _ _ _ _ _ _ Hc Hp Hb Hnb Hag'') as Hrec.
    destruct (lloop n r1 s'' cond post body) as [r3 s3| | | | |]; auto.
    destruct Hrec as [Hk3 Hev]. split; [eapply cells_kept_trans; [exact Hk|eapply cells_kept_trans; eauto]|].
    eapply loop_continue; eauto. }
  destruct (lgo n r1 s1 body) as [r2 s2|v s2|s2|s2| |]; cbn [lpost] in Hbody.
  - destruct Hbody as [Hk (w & Hw & _ & Hu)]. rewrite (Hu eq_refl) in Hw. apply Hnext; assumption.
  - destruct Hbody as [Hu _]. discriminate.
  - destruct Hbody as (_ & Hk & Hw). split; [exact Hk|]. eapply loop_break; eauto.
  - destruct Hbody as (_ & Hk & Hw). apply Hnext; assumption.
  - exact I.
  - exact I.
Qed.

Lemma then_k_none e : then_k e None = e.
Proof. reflexivity. Qed.

Lemma block_step n : P_lgo n -> P_lloop n -> P_lgo (S n).
Proof.
  intros IH IHloop tf G u b e r s Htr Hnb Hag.
  destruct tf as [|tf]; [discriminate|].
  destruct b as [|st rest].
  - (* empty list *)
    cbn [trl then_k] in Htr. injection Htr as <-. cbn [lgo lpost]. split; [apply cells_kept_refl|].
    destruct u; cbn [final_of].
    + exists vunit. unfold UnitE. rewrite close_val. split; [apply evals_val|]. split; [reflexivity|discriminate].
    + exists vunit. unfold UnitE. rewrite close_val. split; [apply evals_val|]. split; discriminate.
    + exists (vbool true). unfold ContinueE. rewrite close_val. split; [apply evals_val|]. split; [discriminate|reflexivity].
  - cbn [noblocks] in Hnb. apply andb_true_iff in Hnb as [Hnb1 Hnb2].
    destruct st as [g|c th el|e0|init cond post body| | |inner].
    + (* simple statement *)
      cbn [lgo]. destruct rest as [|st2 rest2]; cbn [trl] in Htr.
      * destruct (tr_simple G g) as [[[x e1] G']|] eqn:Es; [|discriminate].
        destruct (go_simple r s g) as [[r1 s1]|] eqn:Eg; [|exact I].
        destruct (simple_correct _ _ _ _ _ _ _ _ _ Hag Es Eg) as (v1 & Hv1 & Hag1 & Hcs & Hk).
        rewrite lgo_nil. destruct n; [exact I|].
        destruct (final_of u) as [fin|] eqn:Ef; injection Htr as <-.
        -- eapply lpost_letin; [exact Hv1|exact Hcs|exact Hk|]. apply lpost_final, Ef.
        -- destruct u; try discriminate. cbn [then_k]. cbn [lpost]. split; [exact Hk|]. exists v1. split; [exact Hv1|]. split; discriminate.
      * destruct (tr_simple G g) as [[[x e1] G']|] eqn:Es; [|discriminate].
        destruct (trl tf G' u (LCons st2 rest2) None) as [r'|] eqn:Er; [|discriminate]. injection Htr as <-.
        destruct (go_simple r s g) as [[r1 s1]|] eqn:Eg; [|exact I].
        destruct (simple_correct _ _ _ _ _ _ _ _ _ Hag Es Eg) as (v1 & Hv1 & Hag1 & Hcs & Hk).
        eapply lpost_letin; [exact Hv1|exact Hcs|exact Hk|]. eapply IH; eauto.
    + (* if *)
      cbn [noblocks_stmt] in Hnb1. apply andb_true_iff in Hnb1 as [Hnth Hnel].
      assert (Hnel' : noblocks (lblock_of el) = true) by (destruct el; [exact Hnel|reflexivity]).
      cbn [trl] in Htr. destruct (tr_expr G c) as [c'|] eqn:Ec; [|discriminate].
      cbn [lgo]. destruct (go_expr r s c) as [[[| | |cb| | | |]| | |]|] eqn:Gc; try exact I.
      pose proof (tr_expr_correct _ _ _ Hag _ _ _ Ec Gc) as Hc.
      destruct (llast rest) eqn:Elast.
      * destruct rest; [|discriminate].
        destruct (trl tf G u th None) as [t'|] eqn:Et; [|discriminate].
        destruct (trl tf G u (lblock_of el) None) as [e'|] eqn:Ee; [|discriminate]. injection Htr as <-. cbn [then_k].
        assert (Hb : lpost u (if cb then t' else e') r s (lgo n r s (if cb then th else lblock_of el)))
          by (destruct cb; eapply IH; eauto).
        destruct (lgo n r s (if cb then th else lblock_of el)) as [r2 s2|v s2|s2|s2| |] eqn:Eo; try exact I.
        -- rewrite lgo_nil. destruct n; [exact I|]. eapply lpost_if; [exact Hc|]. cbn [lpost] in Hb |- *. exact Hb.
        -- eapply lpost_if; [exact Hc|exact Hb].
        -- eapply lpost_if; [exact Hc|exact Hb].
        -- eapply lpost_if; [exact Hc|exact Hb].
      * destruct (lends (lsize th) th) eqn:Eends.
        -- destruct (llast (lblock_of el)) eqn:Eel; [|discriminate].
           destruct (trl tf G u th None) as [t'|] eqn:Et; [|discriminate].
           destruct (trl tf G u rest None) as [r'|] eqn:Er; [|discriminate]. injection Htr as <-. cbn [then_k].
           destruct cb.
           ++ pose proof (IH _ _ _ _ _ _ _ Et Hnth Hag) as Hb.
              destruct (lgo n r s th) as [r2 s2|v s2|s2|s2| |] eqn:Eo; try exact I.
              ** exfalso. eapply lends_not_normal; eauto.
              ** eapply (lpost_if u c' true); [exact Hc|exact Hb].
              ** eapply (lpost_if u c' true); [exact Hc|exact Hb].
              ** eapply (lpost_if u c' true); [exact Hc|exact Hb].
           ++ destruct (lblock_of el); [|discriminate]. rewrite lgo_nil. destruct n; [exact I|].
              eapply (lpost_if u c' false); [exact Hc|]. eapply IH; eauto.
        -- destruct (trl tf G ULocal th None) as [t'|] eqn:Et; [|discriminate].
           destruct (trl tf G ULocal (lblock_of el) None) as [e'|] eqn:Ee; [|discriminate].
           destruct (trl tf G u rest None) as [r'|] eqn:Er; [|discriminate]. injection Htr as <-.
           assert (Hb : lpost ULocal (if cb then t' else e') r s (lgo n r s (if cb then th else lblock_of el)))
             by (destruct cb; eapply IH; eauto).
           destruct (lgo n r s (if cb then th else lblock_of el)) as [r2 s2|v s2|s2|s2| |] eqn:Eo; try exact I.
           ++ cbn [lpost] in Hb. destruct Hb as [Hk (w & Hw & _)].
              eapply lpost_seq; [|exact Hk|].
              ** rewrite close_if. eapply evals_if; [exact Hc|]. destruct cb; exact Hw.
              ** eapply IH; [exact Er|exact Hnb2|]. eapply agree_kept; eauto.
           ++ cbn [lpost] in Hb. destruct Hb as [Hu _]. discriminate.
           ++ cbn [lpost] in Hb. destruct Hb as [Hu _]. discriminate.
           ++ cbn [lpost] in Hb. destruct Hb as [Hu _]. discriminate.
    + (* return *)
      destruct rest; cbn [trl] in Htr; [|discriminate]. destruct u; try discriminate.
      destruct (tr_expr G e0) as [e'|] eqn:Ee; [|discriminate]. injection Htr as <-. cbn [then_k].
      cbn [lgo]. destruct (go_expr r s e0) as [v|] eqn:Ge; [|exact I].
      cbn [lpost]. split; [reflexivity|]. eapply tr_expr_correct; eauto.
    + (* for *)
      cbn [noblocks_stmt] in Hnb1.
      cbn [trl] in Htr.
      set (G1 := match init with Some (i, e1) => (i, (true, type_of G e1)) :: G | None => G end) in *.
      destruct (match cond with Some c => tr_expr G1 c | None => Some (BoolE true) end) as [c'|] eqn:Ec; [|discriminate].
      destruct (match post with Some g => match tr_simple G1 g with Some (BAnon, e1, _) => Some e1 | _ => None end | None => Some SkipE end) as [p'|] eqn:Ep; [|discriminate].
      destruct (trl tf G1 ULoop body None) as [b'|] eqn:Eb; [|discriminate].
      set (loop := ForE (Thunk c') (Thunk b') (Thunk p')) in *.
      (* the statements after the loop, seen from the environment r *)
      assert (Hafter : forall aft, (if llast rest then match final_of u with Some fin => Some (Some (then_k fin None)) | None => Some None end
                                    else match trl tf G u rest None with Some r' => Some (Some r') | None => None end) = Some aft ->
                forall s2, cells_kept s s2 ->
                match aft with
                | Some a => lpost u a r s2 (lgo n r s2 rest)
                | None => u = ULocal /\ rest = LNil
                end).
      { intros aft Haft s2 Hk2. destruct (llast rest) eqn:El.
        - destruct rest; [|discriminate]. destruct (final_of u) as [fin|] eqn:Ef; injection Haft as <-.
          + cbn [then_k]. rewrite lgo_nil. destruct n; [exact I|]. apply lpost_final, Ef.
          + destruct u; try discriminate. auto.
        - destruct (trl tf G u rest None) as [r'|] eqn:Er; [|discriminate]. injection Haft as <-.
          eapply IH; [exact Er|exact Hnb2|]. eapply agree_kept; eauto. }
      destruct (if llast rest then match final_of u with Some fin => Some (Some (then_k fin None)) | None => Some None end
                else match trl tf G u rest None with Some r' => Some (Some r') | None => None end) as [aft|] eqn:Eaft; [|discriminate].
      specialize (Hafter aft eq_refl).
      (* combining a finished loop with what follows *)
      assert (Hcomb : forall X rr ss s2 (Hrr : forall a, aft = Some a -> lpost u a r s2 (lgo n r s2 rest) -> lpost u a rr s2 (lgo n r s2 rest)),
                 cells_kept s s2 -> cells_kept ss s2 ->
                 evals (close (cs_of rr) X) ss vunit s2 ->
                 lpost u (then_k X aft) rr ss (lgo n r s2 rest)).
      { intros X rr ss s2 Hrr Hk2 Hkss HX. specialize (Hafter s2 Hk2). destruct aft as [a|]; cbn [then_k].
        - eapply lpost_seq; [exact HX|exact Hkss|]. apply Hrr; auto.
        - destruct Hafter as [-> ->]. rewrite lgo_nil. destruct n; [exact I|]. eapply lpost_local_value; eauto. }
      cbn [lgo].
      destruct init as [[i e1]|].
      * (* with a loop variable *)
        destruct (tr_expr G e1) as [e1'|] eqn:Ee1; [|discriminate].
        destruct (go_expr r s e1) as [v|] eqn:Ge1; [|exact I].
        destruct (alloc_cell v s) as [bb s1] eqn:Ea.
        assert (Hs1 : s1 = snd (alloc_cell v s)) by (rewrite Ea; reflexivity).
        assert (Hbb : bb = fst (alloc_cell v s)) by (rewrite Ea; reflexivity).
        assert (Hk1 : cells_kept s s1) by (rewrite Hs1; apply alloc_kept).
        assert (Hag1 : agree G1 ((i, Cell bb) :: r) s1).
        { unfold G1. econstructor; [eapply agree_kept; eauto|]. rewrite Hs1, Hbb. apply read_alloc_new. }
        assert (Hcell : evals (close (cs_of r) (RefTo (ty_of (type_of G e1)) e1')) s (LitV (LitLoc bb 0)) s1).
        { unfold RefTo. rewrite close_app, close_val.
          eapply evals_prim1; [reflexivity|reflexivity|eapply tr_expr_correct; eauto|].
          unfold alloc_cell in Ea. injection Ea as <- <-. destruct (type_of G e1); reflexivity. }
        pose proof (IHloop _ _ _ _ _ _ _ _ _ _ Ec Ep Eb Hnb1 Hag1) as Hl.
        destruct (lloop n ((i, Cell bb) :: r) s1 cond post body) as [r3 s2| | | | |]; try (exact I || contradiction).
        destruct Hl as [Hk12 Hlev].
        assert (Hloopev : evals (close (cs_of ((i, Cell bb) :: r)) loop) s1 vunit s2).
        { unfold loop. rewrite close_ForE, !close_thunk. apply evals_ForE. exact Hlev. }
        assert (Hk2 : cells_kept s s2) by (eapply cells_kept_trans; eauto).
        destruct (negb (llast rest) && shadows G (LFor (Some (i, e1)) cond post body)) eqn:Eparen; injection Htr as <-.
        -- (* the loop and its variable are printed in parentheses *)
           apply (Hcomb (LetIn (BNamed i) (RefTo (ty_of (type_of G e1)) e1') loop) r s s2); auto.
           eapply evals_close_letin; [exact Hcell|]. exact Hloopev.
        -- (* the variable's binding extends over what follows *)
           eapply lpost_letin with (r1 := (i, Cell bb) :: r); [exact Hcell|reflexivity|exact Hk1|].
           apply (Hcomb loop ((i, Cell bb) :: r) s1 s2); auto.
           intros a Ha Hp. subst aft. apply lpost_drop_binding; [|exact Hp].
           (* a does not mention i *)
           destruct (llast rest) eqn:El.
           ++ destruct (final_of u) as [fin|] eqn:Ef; [|discriminate]. injection Eaft as <-. cbn [then_k].
              destruct u; try discriminate; injection Ef as <-; apply nofree_val.
           ++ destruct (trl tf G u rest None) as [r'|] eqn:Er; [|discriminate]. injection Eaft as <-.
              cbn [negb andb] in Eparen.
              eapply trl_nofree; [exact Er| |exact I].
              eapply shadows_false_lookup; [exact Eparen|]. cbn [names_stmt]. left; reflexivity.
      * (* without a loop variable *)
        injection Htr as <-.
        pose proof (IHloop _ _ _ _ _ _ _ _ _ _ Ec Ep Eb Hnb1 Hag) as Hl.
        destruct (lloop n r s cond post body) as [r3 s2| | | | |]; try (exact I || contradiction).
        destruct Hl as [Hk12 Hlev].
        eapply lpost_seq; [rewrite close_skip; apply evals_skip|apply cells_kept_refl|].
        apply (Hcomb loop r s s2); auto.
        unfold loop. rewrite close_ForE, !close_thunk. apply evals_ForE. exact Hlev.
    + (* break *)
      destruct rest; cbn [trl] in Htr; [|discriminate]. destruct u; try discriminate. injection Htr as <-. cbn [then_k lgo lpost].
      split; [reflexivity|]. split; [apply cells_kept_refl|]. unfold BreakE. rewrite close_val. apply evals_val.
    + (* continue *)
      destruct rest; cbn [trl] in Htr; [|discriminate]. destruct u; try discriminate. injection Htr as <-. cbn [then_k lgo lpost].
      split; [reflexivity|]. split; [apply cells_kept_refl|]. unfold ContinueE. rewrite close_val. apply evals_val.
    + (* nested blocks are excluded *)
      discriminate.
Qed.

(* the translation of loops, conditionals, early returns, break and continue preserves meaning *)
Theorem trl_correct : forall n, P_lgo n /\ P_lloop n.
Proof.
  induction n as [|n [IH1 IH2]].
  - split; [intros tf G u b e r s _ _ _; exact I|intros tf G1 r1 s1 cond post body c' p' b' _ _ _ _ _; exact I].
  - split; [apply block_step; assumption|apply loop_step; assumption].
Qed.

(* function bodies with loops *)
Theorem lbody_correct n tf fn e args v s' :
  trl tf (params_env (lf_params fn)) UReturned (lf_body fn) None = Some e ->
  noblocks (lf_body fn) = true ->
  length args = length (lf_params fn) ->
  lgo_call n fn args = LRet v s' ->
  evals (close (cs_of (rev (combine (map fst (lf_params fn)) (map Imm args)))) e) state0 v s'.
Proof.
  intros Htr Hnb Hlen Hgo. unfold lgo_call in Hgo.
  pose proof (proj1 (trl_correct n) tf _ UReturned _ e _ state0 Htr Hnb (agree_params _ _ state0 Hlen)) as Hp.
  rewrite Hgo in Hp. cbn [lpost] in Hp. apply Hp.
Qed.

(* non-vacuity: a function with a counted loop, continue, break and an early return *)
Definition example_loop : lfunc :=
  {| lf_name := "F"; lf_params := [("k", TU64)];
     lf_body :=
       LCons (LSimple (SVar "n" TU64 None))
      (LCons (LFor (Some ("i", ELit 0)) (Some (EBin OLt (EVar "i") (ELit 10))) (Some (SIncDec true "i"))
                (LCons (LIf (EBin OEq (EBin ORem (EVar "i") (ELit 2)) (ELit 0)) (LCons LContinue LNil) None)
                (LCons (LIf (EBin OGt (EVar "i") (EVar "k")) (LCons LBreak LNil) None)
                (LCons (LSimple (SOpAssign OAdd "n" (EVar "i"))) LNil))))
      (LCons (LIf (EBin OGt (EVar "n") (ELit 20)) (LCons (LReturn (ELit 99)) LNil) None)
      (LCons (LReturn (EVar "n")) LNil))) |}.

Example example_loop_accepted_and_returns :
  (exists e, trl 30 (params_env (lf_params example_loop)) UReturned (lf_body example_loop) None = Some e) /\
  noblocks (lf_body example_loop) = true /\
  (exists s', lgo_call 200 example_loop [LitV (LitInt 6)] = LRet (LitV (LitInt 9)) s') /\
  (exists s', lgo_call 200 example_loop [LitV (LitInt 100)] = LRet (LitV (LitInt 99)) s').
Proof. repeat split; try eexists; vm_compute; reflexivity. Qed.
