From Coq Require Import String Ascii List Bool Arith Lia Sorted Permutation.
From GV Require Import Tr.Header.
Import ListNotations.
Open Scope string_scope.

Lemma mem_In x l : mem x l = true <-> In x l.
Proof.
  unfold mem. rewrite existsb_exists. split.
  - intros (y & Hy & E). apply String.eqb_eq in E. now subst.
  - intros H. exists x. split; [exact H|apply String.eqb_refl].
Qed.

Section Visit.
Variable ffi_mapping : list (string * string).
Variable g : graph.
Notation visit := (visit ffi_mapping g).
Notation is_ffi := (is_ffi ffi_mapping).
Notation reach := (reach ffi_mapping g).

(* what one call of visit guarantees *)
Definition closed (S T : list string) : Prop :=
  forall x, In x T -> ~ In x S -> is_ffi x = false -> incl (imports_of g x) T.

Definition good (s s' : vstate) : Prop :=
  incl (seen s) (seen s') /\ incl (ffis s) (ffis s') /\
  (fuel_ok s' = true -> fuel_ok s = true) /\
  (fuel_ok s' = true -> closed (seen s) (seen s')) /\
  (* every newly visited FFI package has its FFI recorded, and nothing else is recorded *)
  (forall x f, In x (seen s') -> ~ In x (seen s) -> assoc x ffi_mapping = Some f -> In f (ffis s')) /\
  (forall f, In f (ffis s') -> In f (ffis s) \/ exists x, In x (seen s') /\ ~ In x (seen s) /\ assoc x ffi_mapping = Some f) /\
  (* every newly visited package is reachable from a package ... (stated for the root below) *)
  True.

Lemma good_refl s : good s s.
Proof.
  unfold good, closed. repeat split; auto using incl_refl; try (intros; contradiction).
Qed.

Lemma good_trans a b c : good a b -> good b c -> good a c.
Proof.
  intros (A1 & A2 & A3 & A4 & A5 & A6 & _) (B1 & B2 & B3 & B4 & B5 & B6 & _). unfold good.
  split; [eapply incl_tran; eauto|]. split; [eapply incl_tran; eauto|].
  split; [auto|]. split; [|split; [|split; [|exact I]]].
  - intros Hok x Hx Hn Hf. destruct (in_dec string_dec x (seen b)) as [Hb|Hb].
    + eapply incl_tran; [apply (A4 (B3 Hok)); auto|exact B1].
    + apply (B4 Hok); auto.
  - intros x f Hx Hn Hf. destruct (in_dec string_dec x (seen b)) as [Hb|Hb].
    + apply B2. eapply A5; eauto.
    + eapply B5; eauto.
  - intros f Hf. destruct (B6 f Hf) as [H|(x & H1 & H2 & H3)].
    + destruct (A6 f H) as [H'|(x & H1 & H2 & H3)]; [now left|].
      right. exists x. repeat split; auto.
    + right. exists x. repeat split; auto.
Qed.

Lemma fold_good (f : string -> vstate -> vstate) l :
  (forall q s, good s (f q s) /\ (fuel_ok (f q s) = true -> In q (seen (f q s)))) ->
  forall s, good s (fold_left (fun st q => f q st) l s) /\
            (fuel_ok (fold_left (fun st q => f q st) l s) = true -> incl l (seen (fold_left (fun st q => f q st) l s))).
Proof.
  intros Hf. induction l as [|q l IH]; intros s; cbn [fold_left].
  - split; [apply good_refl|]. intros _ x [].
  - destruct (Hf q s) as [G1 Hq]. destruct (IH (f q s)) as [G2 Hl].
    split; [eapply good_trans; eauto|].
    intros Hok x [<-|Hx]; [|now apply Hl].
    destruct G2 as (S2 & _ & Ok2 & _). apply S2. apply Hq. auto.
Qed.

Lemma visit_good fuel : forall p s, good s (visit fuel p s) /\ (fuel_ok (visit fuel p s) = true -> In p (seen (visit fuel p s))).
Proof.
  induction fuel as [|f IH]; intros p s; cbn [Header.visit].
  - split; [|discriminate]. unfold good, closed; cbn [seen ffis fuel_ok].
    repeat split; auto using incl_refl; try discriminate; try (intros; contradiction).
  - destruct (mem p (seen s)) eqn:Em; [split; [apply good_refl|intros _; now apply mem_In]|].
    assert (Hnp : ~ In p (seen s)) by (intros H; apply mem_In in H; congruence).
    destruct (assoc p ffi_mapping) as [x|] eqn:Ea.
    + split; [|intros _; now left]. unfold good, closed; cbn [seen ffis fuel_ok].
      split; [intros y Hy; now right|]. split; [intros y Hy; now right|]. split; [auto|].
      split. { intros _ y [<-|Hy] Hn Hf; [|contradiction]. unfold Header.is_ffi in Hf. rewrite Ea in Hf. discriminate. }
      split. { intros y f0 [<-|Hy] Hn Hf; [|contradiction]. left. congruence. }
      split; [|exact I]. intros f0 [<-|Hf]; [right; exists p; repeat split; auto; now left|now left].
    + set (s1 := {| seen := p :: seen s; ffis := ffis s; fuel_ok := fuel_ok s |}).
      destruct (fold_good (fun q st => visit f q st) (imports_of g p) (fun q st => IH q st) s1) as [G Hl].
      set (s' := fold_left (fun st q => visit f q st) (imports_of g p) s1) in *.
      destruct G as (G1 & G2 & G3 & G4 & G5 & G6 & _).
      split; [|intros _; apply G1; now left].
      unfold good. split; [intros y Hy; apply G1; now right|]. split; [exact G2|]. split; [exact G3|].
      split.
      { intros Hok y Hy Hn Hf. destruct (string_dec y p) as [->|Hne].
        - now apply Hl.
        - apply (G4 Hok); auto. intros [E|H]; [congruence|contradiction]. }
      split.
      { intros y f0 Hy Hn Hf. destruct (string_dec y p) as [->|Hne]; [congruence|].
        eapply G5; eauto. intros [E|H]; [congruence|contradiction]. }
      split; [|exact I].
      intros f0 Hf. destruct (G6 f0 Hf) as [H|(y & H1 & H2 & H3)]; [now left|].
      right. exists y. repeat split; auto. intros H. apply H2. now right.
Qed.

(* soundness: every visited package is reachable from the root through non-FFI packages *)
Lemma visit_sound root fuel : forall p s, reach root p -> (forall x, In x (seen s) -> reach root x) ->
  forall x, In x (seen (visit fuel p s)) -> reach root x.
Proof.
  induction fuel as [|f IH]; intros p s Hp Hs x; cbn [Header.visit]; [apply Hs|].
  destruct (mem p (seen s)); [apply Hs|].
  destruct (assoc p ffi_mapping) as [y|] eqn:Ea; cbn [seen].
  - intros [<-|H]; auto.
  - assert (Hnf : is_ffi p = false) by (unfold Header.is_ffi; now rewrite Ea).
    assert (Hall : forall q, In q (imports_of g p) -> reach root q) by (intros q Hq; eapply reach_import; eauto).
    generalize dependent (imports_of g p). intros l.
    assert (Hs1 : forall x, In x (seen {| seen := p :: seen s; ffis := ffis s; fuel_ok := fuel_ok s |}) -> reach root x)
      by (cbn [seen]; intros z [<-|Hz]; auto).
    generalize dependent {| seen := p :: seen s; ffis := ffis s; fuel_ok := fuel_ok s |}.
    induction l as [|q l IHl]; intros s1 Hs1 Hall; cbn [fold_left]; [apply Hs1|].
    apply IHl.
    + intros z Hz. eapply IH; [apply Hall; now left|exact Hs1|exact Hz].
    + intros q' Hq'. apply Hall. now right.
Qed.

(* THE THEOREM: with enough fuel, the FFIs found are exactly the FFIs of the
   packages reachable from the root through imports of non-FFI packages *)
Theorem visit_spec fuel root f : fuel_ok (visit_root ffi_mapping g fuel root) = true ->
  (In f (ffis (visit_root ffi_mapping g fuel root)) <-> exists q, reach root q /\ assoc q ffi_mapping = Some f).
Proof.
  intros Hok. unfold visit_root in *.
  set (s0 := {| seen := []; ffis := []; fuel_ok := true |}) in *.
  destruct (visit_good fuel root s0) as [(G1 & G2 & G3 & G4 & G5 & G6 & _) Hroot].
  split.
  - intros Hf. destruct (G6 f Hf) as [[]|(x & Hx & _ & Ha)].
    exists x. split; [|exact Ha].
    eapply (visit_sound root fuel root s0); [constructor|intros y []|exact Hx].
  - assert (Hall : forall q, reach root q -> In q (seen (visit fuel root s0))).
    { intros q Hr. induction Hr as [|p q' Hr IH Hnf Hin]; [now apply Hroot|].
      apply (G4 Hok p); auto. }
    intros (q & Hr & Ha). apply (G5 q f); [now apply Hall|intros []|exact Ha].
Qed.

End Visit.

(* ---------------------------------------------------------------- the choice *)
Lemma choose_spec l :
  match choose l with
  | FfiNone => l = []
  | FfiOne x => (forall y, In y l <-> y = x)
  | FfiRefuse => exists a b, In a l /\ In b l /\ a <> b
  end.
Proof.
  unfold choose. pose proof (nodup_In string_dec l) as Hin. pose proof (NoDup_nodup string_dec l) as Hnd.
  destruct (nodup string_dec l) as [|x [|y t]] eqn:E.
  - destruct l as [|a l']; [reflexivity|]. exfalso. apply (proj2 (Hin a)). now left.
  - intros y. rewrite <- Hin. cbn. intuition.
  - exists x, y. repeat split.
    + apply Hin. now left.
    + apply Hin. right. now left.
    + inversion Hnd as [|? ? Hn _]; subst. intros ->. apply Hn. now left.
Qed.

(* ---------------------------------------------------------------- Requires: no duplicates, sorted, exactly the non-builtin imports *)
Definition le_str (a b : string) : Prop := String.leb a b = true.

Lemma In_insert_sorted x y l : In y (insert_sorted x l) <-> y = x \/ In y l.
Proof.
  induction l as [|z t IH]; cbn [insert_sorted]; [cbn; intuition|].
  destruct (String.leb x z); cbn [In]; [intuition|]. rewrite IH. intuition.
Qed.

Lemma In_sort_strings y l : In y (sort_strings l) <-> In y l.
Proof.
  induction l as [|x t IH]; [reflexivity|]. cbn [sort_strings fold_right]. fold (sort_strings t).
  rewrite In_insert_sorted, IH. cbn [In]. intuition.
Qed.

Lemma insert_sorted_Sorted x l : Sorted le_str l -> Sorted le_str (insert_sorted x l).
Proof.
  induction 1 as [|y t Ht IH Hhd]; cbn [insert_sorted]; [repeat constructor|].
  destruct (String.leb x y) eqn:E.
  - constructor; [constructor; assumption|]. constructor. exact E.
  - constructor; [exact IH|].
    assert (Hyx : le_str y x) by (destruct (String.leb_total x y) as [H|H]; [congruence|exact H]).
    destruct t as [|z t']; cbn [insert_sorted]; [constructor; exact Hyx|].
    destruct (String.leb x z); constructor; [exact Hyx|]. inversion Hhd; assumption.
Qed.

Lemma sort_strings_Sorted l : Sorted le_str (sort_strings l).
Proof. induction l as [|x t IH]; [constructor|]. cbn [sort_strings fold_right]. now apply insert_sorted_Sorted. Qed.

Lemma insert_sorted_NoDup x l : ~ In x l -> NoDup l -> NoDup (insert_sorted x l).
Proof.
  induction l as [|y t IH]; intros Hx Hnd; cbn [insert_sorted]; [repeat constructor; auto|].
  destruct (String.leb x y); [constructor; assumption|].
  inversion Hnd as [|? ? Hy Ht]; subst. constructor.
  - rewrite In_insert_sorted. intros [->|H]; [apply Hx; now left|contradiction].
  - apply IH; [intros H; apply Hx; now right|exact Ht].
Qed.

Lemma sort_strings_NoDup l : NoDup l -> NoDup (sort_strings l).
Proof.
  induction 1 as [|x t Hx Ht IH]; [constructor|]. cbn [sort_strings fold_right].
  apply insert_sorted_NoDup; [now rewrite In_sort_strings|exact IH].
Qed.

Theorem print_imports_spec builtin imports :
  NoDup (print_imports builtin imports) /\ Sorted le_str (print_imports builtin imports) /\
  forall line, In line (print_imports builtin imports) <->
               exists p, In p imports /\ mem p builtin = false /\ line = require_line p.
Proof.
  unfold print_imports. split; [apply sort_strings_NoDup, NoDup_nodup|]. split; [apply sort_strings_Sorted|].
  intros line. rewrite In_sort_strings, nodup_In, in_map_iff. split.
  - intros (p & <- & Hp). apply filter_In in Hp as [Hin Hb]. exists p. repeat split; auto. now apply negb_true_iff.
  - intros (p & Hin & Hb & ->). exists p. split; [reflexivity|]. apply filter_In. split; [exact Hin|now rewrite Hb].
Qed.

(* the order and repetition of imports across files do not matter *)
Theorem print_imports_permutation builtin l l' : (forall p, In p l <-> In p l') ->
  forall line, In line (print_imports builtin l) <-> In line (print_imports builtin l').
Proof.
  intros H line. destruct (print_imports_spec builtin l) as (_ & _ & H1). destruct (print_imports_spec builtin l') as (_ & _ & H2).
  rewrite H1, H2. split; intros (p & Hp & Hb & E); exists p; repeat split; auto; now apply H.
Qed.

(* ---------------------------------------------------------------- paths *)
Lemma map_string_app f a b : map_string f (a ++ b) = map_string f a ++ map_string f b.
Proof. induction a as [|c a IH]; cbn; [reflexivity|now rewrite IH]. Qed.

(* the Require's logical path is the output file's path with '/' read as '.'
   (and without the ".v"): both are computed from the same mapped import path *)
Theorem require_matches_output_path p : is_trusted p = false ->
  require_line p = "From Goose Require " ++ map_string slash_to_dot (path_to_coq_path p) ++ "." /\
  output_path p = path_to_coq_path p ++ ".v".
Proof. intros H. unfold require_line, output_path, logical_path. rewrite H. split; reflexivity. Qed.

(* '.' and '-' are mapped to '_', every other character is kept *)
Lemma map_char_spec c : map_char c = if (Ascii.eqb c "." || Ascii.eqb c "-")%bool then "_"%char else c.
Proof. reflexivity. Qed.

Lemma path_to_coq_path_length p : String.length (path_to_coq_path p) = String.length p.
Proof. induction p as [|c p IH]; [reflexivity|]. unfold path_to_coq_path in *. cbn [map_string String.length]. now rewrite IH. Qed.
