(* Calls and mutable variables: the translation of MiniGoS preserves meaning.
   For every package the translator model accepts, every function of it, every
   argument vector and every run of Go that returns, the emitted value applied
   to the arguments evaluates to the value Go returns, in the store Go ends in
   (the model of Go works on the very heap of the reference semantics). *)
From Coq Require Import String List ZArith Bool Lia.
From GV Require Import Lang.GlSyntax Lang.GlSem Lang.GlSemProofs Tr.MiniGo Tr.MiniGoProofs Tr.MiniGoC Tr.MiniGoCProofs Tr.MiniGoS.
Import ListNotations.
Local Open Scope nat_scope.
Local Open Scope list_scope.

(* ---------------------------------------------------------------- applications with effects in the arguments *)
Lemma evals_app_arg_st X a v s s1 w s' :
  evals a s v s1 -> evals (App X (Val v)) s1 w s' -> evals (App X a) s w s'.
Proof.
  intros [k Ha] [n H]. destruct n as [|[|n]]; try discriminate.
  assert (Hle : S (S n) <= S (S (k + n))) by lia.
  pose proof (evals_fuel _ _ _ _ _ (S (S (k + n))) H Hle) as H'.
  exists (S (S (k + n))). rewrite eval_S_unfold in H' |- *. unfold eval_step at 1 in H'. unfold eval_step at 1.
  change (eval (S (k + n)) (Val v) s1) with (RVal v s1) in H'. cbv iota in H'.
  rewrite (evals_fuel _ _ _ _ _ (S (k + n)) Ha) by lia. exact H'.
Qed.

(* e from s behaves like e' from s0 *)
Definition simst (e : expr) (s : state) (e' : expr) (s0 : state) : Prop :=
  forall w s', evals e' s0 w s' -> evals e s w s'.

Lemma simst_app_val e s e' s0 a : simst e s e' s0 -> simst (App e (Val a)) s (App e' (Val a)) s0.
Proof.
  intros Hs w s' [n H]. destruct n as [|[|n]]; try discriminate.
  rewrite eval_S_unfold in H. unfold eval_step at 1 in H.
  change (eval (S n) (Val a) s0) with (RVal a s0) in H. cbv iota in H.
  destruct (eval (S n) e' s0) as [vf s1| |] eqn:Ef; try discriminate.
  destruct (Hs vf s1 (ex_intro _ (S n) Ef)) as [m Hm].
  exists (S (S (n + m))). rewrite eval_S_unfold. unfold eval_step at 1.
  change (eval (S (n + m)) (Val a) s) with (RVal a s). cbv iota.
  rewrite (evals_fuel _ _ _ _ _ (S (n + m)) Hm) by lia.
  destruct vf as [l|fb xb body|v1 v2|p args]; try discriminate.
  - apply (evals_fuel _ _ _ _ _ (S (n + m)) H). lia.
  - destruct (Nat.ltb _ _); [exact H|]. destruct (is_loop p).
    + destruct (expand_loop _ _ _); [|discriminate]. apply (evals_fuel _ _ _ _ _ (S (n + m)) H). lia.
    + exact H.
Qed.

Lemma simst_apps e s e' s0 args : simst e s e' s0 ->
  simst (fold_left App (map Val args) e) s (fold_left App (map Val args) e') s0.
Proof. revert e e'; induction args as [|a args IH]; intros e e' H; cbn [map fold_left]; [exact H|]. apply IH, simst_app_val, H. Qed.

(* the arguments of a curried application are evaluated last argument first *)
Inductive evals_rl : list expr -> state -> list val -> state -> Prop :=
| erl_nil s : evals_rl [] s [] s
| erl_cons a es s vs s1 v s2 : evals_rl es s vs s1 -> evals a s1 v s2 -> evals_rl (a :: es) s (v :: vs) s2.

Lemma evals_apps_rl : forall es vs H s s1 w s2,
  evals_rl es s vs s1 -> evals (fold_left App (map Val vs) H) s1 w s2 -> evals (fold_left App es H) s w s2.
Proof.
  induction es as [|a es IH]; intros vs H s s1 w s2 Hrl Hev; inversion Hrl as [|? ? ? vs' s1' v ? Hrest Ha]; subst; cbn [map fold_left] in *; [exact Hev|].
  eapply IH; [exact Hrest|]. revert Hev. apply simst_apps. intros w0 s0' H0. eapply evals_app_arg_st; [exact Ha|exact H0].
Qed.

(* ---------------------------------------------------------------- operators with effects in the operands *)
Lemma binop_st op a b e va vb v s s1 s2 :
  go_binop op va vb = Some v -> tr_binop op a b = Some e -> op <> OLAnd -> op <> OLOr ->
  (swapped op = true -> evals a s va s1 /\ evals b s1 vb s2) ->
  (swapped op = false -> evals b s vb s1 /\ evals a s1 va s2) ->
  evals e s v s2.
Proof.
  intros Hgo Htr N1 N2 Hsw Hno.
  destruct op; try congruence; cbn [tr_binop] in Htr; try discriminate Htr; injection Htr as <-;
    cbn [swapped] in Hsw, Hno;
    first [destruct (Hno eq_refl) as [Hb Ha] | destruct (Hsw eq_refl) as [Ha Hb]];
    destruct va as [[]| | |]; try discriminate;
    destruct vb as [[]| | |]; try discriminate; cbn [go_binop] in Hgo.
  all: try (injection Hgo as <-).
  all: try (eapply evals_binop; [exact Hb|exact Ha|reflexivity]).
  all: try (eapply evals_binop; [exact Ha|exact Hb|reflexivity]).
  - destruct (n0 =? 0)%Z eqn:E; [discriminate|]. injection Hgo as <-.
    eapply evals_binop; [exact Hb|exact Ha|]. cbn [bin_op_eval word_op]. rewrite E. reflexivity.
  - destruct (n0 =? 0)%Z eqn:E; [discriminate|]. injection Hgo as <-.
    eapply evals_binop; [exact Hb|exact Ha|]. cbn [bin_op_eval word_op]. rewrite E. reflexivity.
  - eapply evals_unop; [eapply evals_binop; [exact Hb|exact Ha|reflexivity]|reflexivity].
  - eapply evals_unop; [eapply evals_binop; [exact Hb|exact Ha|reflexivity]|reflexivity].
Qed.

(* ---------------------------------------------------------------- environments *)
Lemma clookup_csf_l x r E k : glookup x r = Some k -> clookup x (cs_of r ++ E) = Some (val_of k).
Proof.
  induction r as [|[y k'] r IH]; cbn [glookup cs_of map app clookup fst snd]; [discriminate|].
  destruct (String.eqb x y); [intros [= <-]; reflexivity|exact IH].
Qed.

Lemma clookup_csf_r f r F : glookup f r = None -> clookup f (cs_of r ++ [(f, F)]) = Some F.
Proof.
  induction r as [|[y k'] r IH]; cbn [glookup cs_of map app clookup fst snd].
  - rewrite String.eqb_refl. reflexivity.
  - destruct (String.eqb f y); [discriminate|exact IH].
Qed.

Lemma agree_none G r s x : agree G r s -> tlookup x G = None -> glookup x r = None.
Proof.
  induction 1 as [s|y t v G r s H IH|y t b v G r s H IH Hc]; cbn [tlookup glookup]; auto;
    destruct (String.eqb x y); auto; discriminate.
Qed.

Lemma evals_load_cs cs x t b v s :
  clookup x cs = Some (LitV (LitLoc b 0)) -> read_cell b s = Some v ->
  evals (close cs (Load (ty_of t) (Var x))) s v s.
Proof.
  intros Hc Hr. rewrite close_load, close_var, Hc.
  eapply evals_prim1; [reflexivity|reflexivity|apply evals_val|]. apply exec_load, Hr.
Qed.

Lemma evals_store_cs cs x t b e v s s1 old s2 :
  clookup x cs = Some (LitV (LitLoc b 0)) -> evals (close cs e) s v s1 ->
  read_cell b s1 = Some old -> write_cell b v s1 = Some s2 ->
  evals (close cs (Store (ty_of t) (Var x) e)) s (LitV LitUnit) s2.
Proof.
  intros Hc He Hr Hw. rewrite close_store, close_var, Hc.
  eapply evals_prim2; [reflexivity|reflexivity|exact He|apply evals_val|]. eapply exec_store; eauto.
Qed.

Lemma cells_kept_read s s' b v : cells_kept s s' -> read_cell b s = Some v -> exists v', read_cell b s' = Some v'.
Proof. intros H Hr. exact (H _ _ Hr). Qed.

(* ---------------------------------------------------------------- tables *)
Lemma find_sfunc_name f P fn : find_sfunc f P = Some fn -> sf_name fn = f.
Proof.
  induction P as [|g P IH]; cbn [find_sfunc]; [discriminate|].
  destruct (String.eqb f (sf_name g)) eqn:E; [|exact IH]. intros [= <-]. apply String.eqb_eq in E. auto.
Qed.

Lemma find_sfunc_app P0 fn P1 : ~ In (sf_name fn) (map sf_name P0) -> find_sfunc (sf_name fn) (P0 ++ fn :: P1) = Some fn.
Proof.
  induction P0 as [|g P0 IH]; cbn [app find_sfunc map In]; intros Hn.
  - rewrite String.eqb_refl. reflexivity.
  - destruct (String.eqb (sf_name fn) (sf_name g)) eqn:E.
    + apply String.eqb_eq in E. exfalso. apply Hn. left. auto.
    + apply IH. tauto.
Qed.

Inductive sgood (P : sprog) : ftable -> Prop :=
| sgood_nil : sgood P []
| sgood_cons T fn v : sgood P T -> find_sfunc (sf_name fn) P = Some fn -> trs_func T fn = Some v ->
    sgood P ((sf_name fn, v) :: T).

Definition sinside (P : sprog) (T : ftable) (fn : sfunc) (F : val) : Prop :=
  sgood P T /\ find_sfunc (sf_name fn) P = Some fn /\ trs_func T fn = Some F.

Lemma sgood_lookup P T g v : sgood P T -> flookup g T = Some v ->
  exists Tg fn, sinside P Tg fn v /\ sf_name fn = g.
Proof.
  induction 1 as [|T fn w Hg IH Hf Ht]; cbn [flookup]; [discriminate|].
  destruct (String.eqb g (sf_name fn)) eqn:E.
  - apply String.eqb_eq in E. subst g. intros [= <-]. exists T, fn. repeat split; auto.
  - exact IH.
Qed.

(* ---------------------------------------------------------------- the theorem *)
Section Main.
Variable P : sprog.

Definition csf (r : genv) (self : string) (F : val) : csub := cs_of r ++ [(self, F)].

Definition QE (n : nat) : Prop := forall T fn F G r s e e' v s', sinside P T fn F -> agree G r s ->
  trs_expr T (sf_name fn) G e = Some e' -> sgo_expr n P r s e = Some (v, s') ->
  evals (close (csf r (sf_name fn) F) e') s v s' /\ cells_kept s s'.

Definition QA (n : nat) : Prop := forall T fn F G r s args acc e' vs s', sinside P T fn F -> agree G r s ->
  trs_args T (sf_name fn) G args acc = Some e' -> sgo_args n P r s args = Some (vs, s') ->
  exists es, e' = fold_left App es acc /\
    evals_rl (map (close (csf r (sf_name fn) F)) es) s vs s' /\ cells_kept s s'.

Definition QB (n : nat) : Prop := forall T fn F G r s b b' v s', sinside P T fn F -> agree G r s ->
  trs_body T (sf_name fn) G b = Some b' -> sgo_body n P r s b = Some (v, s') ->
  evals (close (csf r (sf_name fn) F) b') s v s' /\ cells_kept s s'.

Definition QL (n : nat) : Prop := forall T fn F G r s l l' s', sinside P T fn F -> agree G r s ->
  trs_loc T (sf_name fn) G l = Some l' -> sgo_loc n P r s l = Some s' ->
  (exists w, evals (close (csf r (sf_name fn) F) l') s w s') /\ cells_kept s s'.

(* one statement without control effects *)
Lemma ssimple_correct n T fn F G r s st x e1 G' r1 s1 : QE n -> sinside P T fn F -> agree G r s ->
  trs_simple T (sf_name fn) G st = Some (x, e1, G') -> sgo_simple (sgo_expr n P) r s st = Some (r1, s1) ->
  exists v1, evals (close (csf r (sf_name fn) F) e1) s v1 s1 /\ agree G' r1 s1 /\
             csf r1 (sf_name fn) F = bind x v1 (csf r (sf_name fn) F) /\ cells_kept s s1.
Proof.
  intros IHE Hin Hag Htr Hgo. set (cs := csf r (sf_name fn) F).
  destruct st as [y e|y t [e|]|y e|op y e|inc y]; cbn [trs_simple sgo_simple] in Htr, Hgo.
  - (* y := e *)
    destruct (trs_expr T (sf_name fn) G e) as [e'|] eqn:Ee; [|discriminate]. injection Htr as <- <- <-.
    destruct (sgo_expr n P r s e) as [[v s0]|] eqn:Ge; [|discriminate]. injection Hgo as <- <-.
    destruct (IHE _ _ _ _ _ _ _ _ _ _ Hin Hag Ee Ge) as [He K1].
    exists v. repeat split; [exact He|constructor; eapply agree_kept; eassumption|exact K1].
  - (* var y t = e *)
    destruct (trs_expr T (sf_name fn) G e) as [e'|] eqn:Ee; [|discriminate]. injection Htr as <- <- <-.
    destruct (sgo_expr n P r s e) as [[v s0]|] eqn:Ge; [|discriminate].
    destruct (alloc_cell v s0) as [b s2] eqn:Ea. injection Hgo as <- <-.
    destruct (IHE _ _ _ _ _ _ _ _ _ _ Hin Hag Ee Ge) as [He K1].
    assert (K12 : cells_kept s0 s2) by (replace s2 with (snd (alloc_cell v s0)) by (rewrite Ea; reflexivity); apply alloc_kept).
    exists (LitV (LitLoc b 0)). repeat split.
    + unfold RefTo. rewrite close_app, close_val.
      eapply evals_prim1; [reflexivity|reflexivity|exact He|].
      unfold alloc_cell in Ea. injection Ea as <- <-. destruct t; reflexivity.
    + econstructor; [eapply agree_kept; [exact Hag|eapply cells_kept_trans; eassumption]|].
      replace b with (fst (alloc_cell v s0)) by (rewrite Ea; reflexivity).
      replace s2 with (snd (alloc_cell v s0)) by (rewrite Ea; reflexivity). apply read_alloc_new.
    + eapply cells_kept_trans; eassumption.
  - (* var y t *)
    injection Htr as <- <- <-.
    destruct (alloc_cell (zero_of t) s) as [b s2] eqn:Ea. injection Hgo as <- <-.
    assert (K12 : cells_kept s s2) by (replace s2 with (snd (alloc_cell (zero_of t) s)) by (rewrite Ea; reflexivity); apply alloc_kept).
    exists (LitV (LitLoc b 0)). repeat split.
    + unfold RefZero. rewrite close_app, !close_val.
      eapply evals_prim1; [reflexivity|reflexivity|apply evals_val|].
      unfold alloc_cell in Ea. injection Ea as <- <-. destruct t; reflexivity.
    + econstructor; [eapply agree_kept; [exact Hag|exact K12]|].
      replace b with (fst (alloc_cell (zero_of t) s)) by (rewrite Ea; reflexivity).
      replace s2 with (snd (alloc_cell (zero_of t) s)) by (rewrite Ea; reflexivity). apply read_alloc_new.
    + exact K12.
  - (* y = e *)
    destruct (tlookup y G) as [[[] t]|] eqn:Hl; try discriminate.
    destruct (trs_expr T (sf_name fn) G e) as [e'|] eqn:Ee; [|discriminate]. injection Htr as <- <- <-.
    destruct (agree_lookup _ _ _ _ _ _ Hag Hl) as [_ H]. destruct (H eq_refl) as (b & old & Hg & Hr).
    rewrite Hg in Hgo.
    destruct (sgo_expr n P r s e) as [[v s0]|] eqn:Ge; [|discriminate].
    destruct (write_cell b v s0) as [s2|] eqn:Hw; [|discriminate]. injection Hgo as <- <-.
    destruct (IHE _ _ _ _ _ _ _ _ _ _ Hin Hag Ee Ge) as [He K1].
    destruct (K1 _ _ Hr) as [old1 Hr1].
    pose proof (write_kept _ _ _ _ Hw) as K12.
    exists (LitV LitUnit). repeat split.
    + eapply evals_store_cs; [|exact He|exact Hr1|exact Hw].
      unfold cs, csf. rewrite (clookup_csf_l _ _ _ _ Hg). reflexivity.
    + eapply agree_kept; [exact Hag|eapply cells_kept_trans; eassumption].
    + eapply cells_kept_trans; eassumption.
  - (* y op= e *)
    destruct (tlookup y G) as [[[] t]|] eqn:Hl; try discriminate.
    destruct (trs_expr T (sf_name fn) G e) as [e'|] eqn:Ee; [|discriminate].
    destruct (assign_op op) eqn:Eop; [|discriminate].
    destruct (tr_binop op (Load (ty_of t) (Var y)) e') as [rhs|] eqn:Eb; [|discriminate]. injection Htr as <- <- <-.
    destruct (agree_lookup _ _ _ _ _ _ Hag Hl) as [_ H]. destruct (H eq_refl) as (b & old0 & Hg & Hr).
    rewrite Hg in Hgo.
    destruct (sgo_expr n P r s e) as [[v s0]|] eqn:Ge; [|discriminate].
    destruct (read_cell b s0) as [old|] eqn:Hr1; [|discriminate].
    destruct (go_binop op old v) as [nv|] eqn:Ebin; [|discriminate].
    destruct (write_cell b nv s0) as [s2|] eqn:Hw; [|discriminate]. injection Hgo as <- <-.
    destruct (IHE _ _ _ _ _ _ _ _ _ _ Hin Hag Ee Ge) as [He K1].
    pose proof (write_kept _ _ _ _ Hw) as K12.
    assert (Hloc : clookup y cs = Some (LitV (LitLoc b 0))) by (unfold cs, csf; rewrite (clookup_csf_l _ _ _ _ Hg); reflexivity).
    exists (LitV LitUnit). repeat split.
    + eapply evals_store_cs; [exact Hloc| |exact Hr1|exact Hw].
      eapply binop_st; [exact Ebin|apply close_tr_binop, Eb| | | |].
      * intros ->; discriminate.
      * intros ->; discriminate.
      * intros Hs. destruct op; discriminate.
      * intros _. split; [exact He|]. eapply evals_load_cs; [exact Hloc|exact Hr1].
    + eapply agree_kept; [exact Hag|eapply cells_kept_trans; eassumption].
    + eapply cells_kept_trans; eassumption.
  - (* y++ / y-- *)
    destruct (tlookup y G) as [[[] t]|] eqn:Hl; try discriminate. injection Htr as <- <- <-.
    destruct (agree_lookup _ _ _ _ _ _ Hag Hl) as [_ H]. destruct (H eq_refl) as (b & old0 & Hg & Hr0).
    rewrite Hg in Hgo.
    destruct (read_cell b s) as [old|] eqn:Hr; [|discriminate].
    destruct (go_binop (if inc then OAdd else OSub) old (LitV (LitInt 1))) as [nv|] eqn:Ebin; [|discriminate].
    destruct (write_cell b nv s) as [s2|] eqn:Hw; [|discriminate]. injection Hgo as <- <-.
    pose proof (write_kept _ _ _ _ Hw) as K12.
    assert (Hloc : clookup y cs = Some (LitV (LitLoc b 0))) by (unfold cs, csf; rewrite (clookup_csf_l _ _ _ _ Hg); reflexivity).
    exists (LitV LitUnit). repeat split.
    + eapply evals_store_cs; [exact Hloc| |exact Hr|exact Hw].
      eapply (binop_st (if inc then OAdd else OSub) _ _ _ old (LitV (LitInt 1)) nv s s s); [exact Ebin| | | | |].
      * rewrite close_binop. destruct inc; reflexivity.
      * destruct inc; discriminate.
      * destruct inc; discriminate.
      * intros Hs. destruct inc; discriminate.
      * intros _. split; [unfold Lit; rewrite close_val; apply evals_val|eapply evals_load_cs; [exact Hloc|exact Hr]].
    + eapply agree_kept; [exact Hag|exact K12].
    + exact K12.
Qed.

Lemma sgo_loc_end n r s s' : sgo_loc n P r s LEnd = Some s' -> s' = s.
Proof. destruct n; cbn [sgo_loc]; [discriminate|]. intros [= <-]. reflexivity. Qed.

Lemma lend_true k : lend k = true -> k = LEnd.
Proof. destruct k; cbn [lend]; try discriminate. reflexivity. Qed.

Lemma senter_correct n T fn F args v s s' : QB n -> sinside P T fn F ->
  length args = length (sf_params fn) ->
  sgo_body n P (rev (combine (map fst (sf_params fn)) (map Imm args))) s (sf_body fn) = Some (v, s') ->
  evals (call_expr F args) s v s' /\ cells_kept s s'.
Proof.
  intros HB Hin Hlen Hgo. pose proof Hin as (Hg & Hf & Ht). unfold trs_func in Ht.
  destruct (nodupb (map fst (sf_params fn)) && negb (smem (sf_name fn) (map fst (sf_params fn)))) eqn:Ec; [|discriminate].
  apply andb_true_iff in Ec. destruct Ec as [Hnd Hnm].
  destruct (trs_body T (sf_name fn) (params_env (sf_params fn)) (sf_body fn)) as [body|] eqn:Eb; [|discriminate].
  destruct (HB T fn F _ _ s _ _ v s' Hin (agree_params (sf_params fn) args s Hlen) Eb Hgo) as [Hev Hk].
  split; [|exact Hk]. unfold csf in Hev. rewrite cs_of_rev_combine in Hev.
  assert (Hlen' : length args = length (map fst (sf_params fn))) by (rewrite map_length; exact Hlen).
  destruct (map fst (sf_params fn)) as [|p ps] eqn:Eps.
  - destruct args; [|discriminate]. injection Ht as <-. cbn [call_expr]. apply call_protocol0. exact Hev.
  - destruct args as [|a1 args]; [discriminate|]. injection Ht as <-. cbn [call_expr].
    apply call_protocol; [|exact Hlen'|exact Hev].
    constructor; [|apply nodupb_NoDup, Hnd].
    intros Hin'. apply smem_In in Hin'. rewrite Hin' in Hnm. discriminate.
Qed.

Theorem sall_correct : forall n, QE n /\ QA n /\ QL n /\ QB n.
Proof.
  induction n as [|n (IHE & IHA & IHL & IHB)].
  { unfold QE, QA, QL, QB. split; [|split; [|split]]; intros;
      match goal with H0 : _ O _ _ _ _ = Some _ |- _ => cbn in H0; discriminate H0 end. }
  split; [|split; [|split]].
  - (* expressions *)
    intros T fn F G r s e e' v s' Hin Hag Htr Hgo. set (cs := csf r (sf_name fn) F).
    destruct e as [k|b|x|op a b|a|f args].
    + cbn in Htr, Hgo. injection Htr as <-. injection Hgo as <- <-. split; [|apply cells_kept_refl].
      unfold Lit. rewrite close_val. apply evals_val.
    + cbn in Htr, Hgo. injection Htr as <-. injection Hgo as <- <-. split; [|apply cells_kept_refl].
      unfold BoolE. rewrite close_val. apply evals_val.
    + cbn [trs_expr] in Htr. cbn [sgo_expr] in Hgo.
      destruct (tlookup x G) as [[[] t]|] eqn:Hl; [| |discriminate]; injection Htr as <-.
      * destruct (agree_lookup _ _ _ _ _ _ Hag Hl) as [_ H]. destruct (H eq_refl) as (b & w & Hg & Hr).
        rewrite Hg, Hr in Hgo. injection Hgo as <- <-. split; [|apply cells_kept_refl].
        eapply evals_load_cs; [|exact Hr]. unfold cs, csf. rewrite (clookup_csf_l _ _ _ _ Hg). reflexivity.
      * destruct (agree_lookup _ _ _ _ _ _ Hag Hl) as [H _]. destruct (H eq_refl) as (w & Hg).
        rewrite Hg in Hgo. injection Hgo as <- <-. split; [|apply cells_kept_refl].
        unfold cs, csf. rewrite close_var, (clookup_csf_l _ _ _ _ Hg). apply evals_val.
    + cbn [trs_expr] in Htr.
      destruct (trs_expr T (sf_name fn) G a) as [a'|] eqn:Ea; [|discriminate].
      destruct (trs_expr T (sf_name fn) G b) as [b'|] eqn:Eb; [|discriminate].
      destruct op.
      (* right operand first *)
      all: try (cbn [sgo_expr swapped] in Hgo;
                destruct (sgo_expr n P r s b) as [[vb s1]|] eqn:Gb; [|discriminate];
                destruct (sgo_expr n P r s1 a) as [[va s2]|] eqn:Ga; [|discriminate];
                match type of Hgo with context [go_binop ?o va vb] => destruct (go_binop o va vb) as [v0|] eqn:Ebin; [|discriminate] end;
                injection Hgo as <- <-;
                destruct (IHE _ _ _ _ _ _ _ _ _ _ Hin Hag Eb Gb) as [Hb Kb];
                destruct (IHE _ _ _ _ _ _ _ _ _ _ Hin (agree_kept _ _ _ _ Hag Kb) Ea Ga) as [Ha Ka];
                split; [|eapply cells_kept_trans; eassumption];
                eapply binop_st; [exact Ebin|apply close_tr_binop, Htr|discriminate|discriminate
                                 |intros Hs; discriminate Hs|intros _; split; [exact Hb|exact Ha]]).
      (* > and >=: left operand first *)
      all: try (cbn [sgo_expr swapped] in Hgo;
                destruct (sgo_expr n P r s a) as [[va s1]|] eqn:Ga; [|discriminate];
                destruct (sgo_expr n P r s1 b) as [[vb s2]|] eqn:Gb; [|discriminate];
                match type of Hgo with context [go_binop ?o va vb] => destruct (go_binop o va vb) as [v0|] eqn:Ebin; [|discriminate] end;
                injection Hgo as <- <-;
                destruct (IHE _ _ _ _ _ _ _ _ _ _ Hin Hag Ea Ga) as [Ha Ka];
                destruct (IHE _ _ _ _ _ _ _ _ _ _ Hin (agree_kept _ _ _ _ Hag Ka) Eb Gb) as [Hb Kb];
                split; [|eapply cells_kept_trans; eassumption];
                eapply binop_st; [exact Ebin|apply close_tr_binop, Htr|discriminate|discriminate
                                 |intros _; split; [exact Ha|exact Hb]|intros Hs; discriminate Hs]).
      * (* && *)
        cbn [tr_binop] in Htr. injection Htr as <-. cbn [sgo_expr] in Hgo.
        destruct (sgo_expr n P r s a) as [[[[| | |[]| | | |]| | |] s1]|] eqn:Ga; try discriminate;
          destruct (IHE _ _ _ _ _ _ _ _ _ _ Hin Hag Ea Ga) as [Ha Ka]; rewrite close_if.
        -- destruct (sgo_expr n P r s1 b) as [[[[| | |x| | | |]| | |] s2]|] eqn:Gb; try discriminate. injection Hgo as <- <-.
           destruct (IHE _ _ _ _ _ _ _ _ _ _ Hin (agree_kept _ _ _ _ Hag Ka) Eb Gb) as [Hb Kb].
           split; [|eapply cells_kept_trans; eassumption]. eapply evals_if; [exact Ha|]. cbn. exact Hb.
        -- injection Hgo as <- <-. split; [|exact Ka]. eapply evals_if; [exact Ha|]. cbn. unfold BoolE. rewrite close_val. apply evals_val.
      * (* || *)
        cbn [tr_binop] in Htr. injection Htr as <-. cbn [sgo_expr] in Hgo.
        destruct (sgo_expr n P r s a) as [[[[| | |[]| | | |]| | |] s1]|] eqn:Ga; try discriminate;
          destruct (IHE _ _ _ _ _ _ _ _ _ _ Hin Hag Ea Ga) as [Ha Ka]; rewrite close_if.
        -- injection Hgo as <- <-. split; [|exact Ka]. eapply evals_if; [exact Ha|]. cbn. unfold BoolE. rewrite close_val. apply evals_val.
        -- destruct (sgo_expr n P r s1 b) as [[[[| | |x| | | |]| | |] s2]|] eqn:Gb; try discriminate. injection Hgo as <- <-.
           destruct (IHE _ _ _ _ _ _ _ _ _ _ Hin (agree_kept _ _ _ _ Hag Ka) Eb Gb) as [Hb Kb].
           split; [|eapply cells_kept_trans; eassumption]. eapply evals_if; [exact Ha|]. cbn. exact Hb.
    + cbn [trs_expr] in Htr. destruct (trs_expr T (sf_name fn) G a) as [a'|] eqn:Ea; [|discriminate]. injection Htr as <-.
      cbn [sgo_expr] in Hgo. destruct (sgo_expr n P r s a) as [[[[| | |x| | | |]| | |] s1]|] eqn:Ga; try discriminate. injection Hgo as <- <-.
      destruct (IHE _ _ _ _ _ _ _ _ _ _ Hin Hag Ea Ga) as [Ha Ka]. split; [|exact Ka].
      rewrite close_unop. eapply evals_unop; [exact Ha|reflexivity].
    + (* calls *)
      cbn [trs_expr] in Htr. unfold tbound in Htr. destruct (tlookup f G) eqn:Etl; [discriminate|].
      pose proof (agree_none _ _ _ _ Hag Etl) as El.
      cbn [sgo_expr] in Hgo. rewrite El in Hgo.
      destruct (find_sfunc f P) as [fg|] eqn:Ef; [|discriminate].
      destruct (sgo_args n P r s args) as [[vs s1]|] eqn:Eargs; [|discriminate].
      destruct (Nat.eqb (length vs) (length (sf_params fg))) eqn:Elen; [|discriminate].
      apply Nat.eqb_eq in Elen.
      assert (Hcallee : exists fe, (if String.eqb f (sf_name fn) then Some (Var f) else option_map Val (flookup f T)) = Some fe /\
                exists Tg Fg, sinside P Tg fg Fg /\ close cs fe = Val Fg).
      { destruct (String.eqb f (sf_name fn)) eqn:Eself.
        - apply String.eqb_eq in Eself. subst f. exists (Var (sf_name fn)). split; [reflexivity|].
          exists T, F. destruct Hin as (Hg & Hf & Ht). rewrite Hf in Ef. injection Ef as <-.
          split; [repeat split; assumption|]. unfold cs, csf. rewrite close_var, (clookup_csf_r _ _ _ El). reflexivity.
        - destruct (flookup f T) as [vg|] eqn:Efl; [|exfalso; cbn in Htr; discriminate Htr].
          exists (Val vg). split; [reflexivity|].
          destruct Hin as (Hg & _ & _). destruct (sgood_lookup _ _ _ _ Hg Efl) as (Tg & fn' & Hin' & Hname).
          pose proof Hin' as (_ & Hf' & _). rewrite Hname, Ef in Hf'. injection Hf' as <-.
          exists Tg, vg. split; [exact Hin'|apply close_val]. }
      destruct Hcallee as (fe & Efe & Tg & Fg & Hing & Hcl). rewrite Efe in Htr.
      destruct (senter_correct n Tg fg Fg vs v s1 s' IHB Hing Elen Hgo) as [Hcall Kcall].
      destruct args as [|a rest].
      * injection Htr as <-. destruct n as [|n']; [discriminate|]. cbn [sgo_args] in Eargs. injection Eargs as <- <-.
        split; [|exact Kcall]. cbn [call_expr] in Hcall. rewrite close_app, Hcl. unfold UnitE. rewrite close_val. exact Hcall.
      * destruct (IHA _ _ _ _ _ _ _ _ _ _ _ Hin Hag Htr Eargs) as (es & -> & Hrl & Kargs).
        split; [|eapply cells_kept_trans; eassumption].
        rewrite close_apps, Hcl.
        assert (Hvs : vs <> []).
        { destruct n as [|n']; [discriminate|]. cbn [sgo_args] in Eargs.
          destruct (sgo_args n' P r s rest) as [[? ?]|]; [|discriminate]. destruct (sgo_expr n' P r s0 a) as [[? ?]|]; [|discriminate].
          injection Eargs as <- <-. discriminate. }
        destruct vs as [|v1 vs]; [congruence|]. cbn [call_expr] in Hcall.
        eapply evals_apps_rl; [exact Hrl|exact Hcall].
  - (* arguments *)
    intros T fn F G r s args acc e' vs s' Hin Hag Htr Hgo. destruct args as [|a rest]; cbn [trs_args sgo_args] in Htr, Hgo.
    + injection Htr as <-. injection Hgo as <- <-. exists []. split; [reflexivity|]. split; [constructor|apply cells_kept_refl].
    + destruct (trs_expr T (sf_name fn) G a) as [a'|] eqn:Ea; [|discriminate].
      destruct (sgo_args n P r s rest) as [[vs' s1]|] eqn:Gr; [|discriminate].
      destruct (sgo_expr n P r s1 a) as [[v s2]|] eqn:Ga; [|discriminate]. injection Hgo as <- <-.
      destruct (IHA _ _ _ _ _ _ _ _ _ _ _ Hin Hag Htr Gr) as (es & -> & Hrl & K1).
      destruct (IHE _ _ _ _ _ _ _ _ _ _ Hin (agree_kept _ _ _ _ Hag K1) Ea Ga) as [Ha K2].
      exists (a' :: es). split; [reflexivity|]. split; [|eapply cells_kept_trans; eassumption].
      cbn [map]. econstructor; [exact Hrl|exact Ha].
  - (* lists of statements without control effects *)
    intros T fn F G r s l l' s' Hin Hag Htr Hgo. set (cs := csf r (sf_name fn) F).
    destruct l as [|st k|c th el k]; cbn [trs_loc sgo_loc] in Htr, Hgo.
    + injection Htr as <-. injection Hgo as <-. split; [|apply cells_kept_refl].
      exists (LitV LitUnit). unfold UnitE. rewrite close_val. apply evals_val.
    + destruct (trs_simple T (sf_name fn) G st) as [[[x e1] G']|] eqn:Es; [|discriminate].
      destruct (sgo_simple (sgo_expr n P) r s st) as [[r1 s1]|] eqn:Gs; [|discriminate].
      destruct (ssimple_correct n T fn F G r s st x e1 G' r1 s1 IHE Hin Hag Es Gs) as (v1 & He & Hag1 & Hcs & K1).
      destruct (lend k) eqn:Ek.
      * apply lend_true in Ek. subst k. injection Htr as <-. apply sgo_loc_end in Hgo. subst s'.
        split; [exists v1; exact He|exact K1].
      * destruct (trs_loc T (sf_name fn) G' k) as [k'|] eqn:Etk; [|discriminate]. injection Htr as <-.
        destruct (IHL _ _ _ _ _ _ _ _ _ Hin Hag1 Etk Hgo) as [[w Hk] K2].
        split; [|eapply cells_kept_trans; eassumption].
        exists w. eapply evals_close_letin; [exact He|]. unfold cs. rewrite <- Hcs. exact Hk.
    + destruct (trs_expr T (sf_name fn) G c) as [c'|] eqn:Ec; [|discriminate].
      destruct (trs_loc T (sf_name fn) G th) as [t'|] eqn:Et; [|discriminate].
      destruct (trs_loc T (sf_name fn) G el) as [e'|] eqn:Ee; [|discriminate].
      destruct (sgo_expr n P r s c) as [[[[| | |cb| | | |]| | |] s1]|] eqn:Gc; try discriminate.
      destruct (sgo_loc n P r s1 (if cb then th else el)) as [s2|] eqn:Gb; [|discriminate].
      destruct (IHE _ _ _ _ _ _ _ _ _ _ Hin Hag Ec Gc) as [Hc K1].
      pose proof (agree_kept _ _ _ _ Hag K1) as Hag1.
      assert (Hif : (exists w, evals (close cs (If c' t' e')) s w s2) /\ cells_kept s1 s2).
      { rewrite close_if. destruct cb.
        - destruct (IHL _ _ _ _ _ _ _ _ _ Hin Hag1 Et Gb) as [[w Hw] K2]. split; [|exact K2]. exists w. eapply evals_if; [exact Hc|exact Hw].
        - destruct (IHL _ _ _ _ _ _ _ _ _ Hin Hag1 Ee Gb) as [[w Hw] K2]. split; [|exact K2]. exists w. eapply evals_if; [exact Hc|exact Hw]. }
      destruct Hif as [[w Hw] K2].
      destruct (lend k) eqn:Ek.
      * apply lend_true in Ek. subst k. injection Htr as <-. apply sgo_loc_end in Hgo. subst s'.
        split; [exists w; exact Hw|eapply cells_kept_trans; eassumption].
      * destruct (trs_loc T (sf_name fn) G k) as [k'|] eqn:Etk; [|discriminate]. injection Htr as <-.
        pose proof (agree_kept _ _ _ _ Hag1 K2) as Hag2.
        destruct (IHL _ _ _ _ _ _ _ _ _ Hin Hag2 Etk Hgo) as [[w2 Hk] K3].
        split; [|eapply cells_kept_trans; [eapply cells_kept_trans; eassumption|exact K3]].
        exists w2. unfold Seq. eapply (evals_close_letin _ BAnon _ _ s w s2); [exact Hw|exact Hk].
  - (* bodies *)
    intros T fn F G r s b b' v s' Hin Hag Htr Hgo. set (cs := csf r (sf_name fn) F).
    destruct b as [c th el k|e|x e k|x t eo k|x e k|op x e k|inc x k|c th el]; cbn [trs_body sgo_body] in Htr, Hgo.
    + (* if without control effects, more statements follow *)
      destruct (trs_expr T (sf_name fn) G c) as [c'|] eqn:Ec; [|discriminate].
      destruct (trs_loc T (sf_name fn) G th) as [t'|] eqn:Et; [|discriminate].
      destruct (trs_loc T (sf_name fn) G el) as [e'|] eqn:Ee; [|discriminate].
      destruct (trs_body T (sf_name fn) G k) as [k'|] eqn:Ek; [|discriminate]. injection Htr as <-.
      destruct (sgo_expr n P r s c) as [[[[| | |cb| | | |]| | |] s1]|] eqn:Gc; try discriminate.
      destruct (sgo_loc n P r s1 (if cb then th else el)) as [s2|] eqn:Gb; [|discriminate].
      destruct (IHE _ _ _ _ _ _ _ _ _ _ Hin Hag Ec Gc) as [Hc K1].
      pose proof (agree_kept _ _ _ _ Hag K1) as Hag1.
      assert (Hif : (exists w, evals (close cs (If c' t' e')) s w s2) /\ cells_kept s1 s2).
      { rewrite close_if. destruct cb.
        - destruct (IHL _ _ _ _ _ _ _ _ _ Hin Hag1 Et Gb) as [[w Hw] K2]. split; [|exact K2]. exists w. eapply evals_if; [exact Hc|exact Hw].
        - destruct (IHL _ _ _ _ _ _ _ _ _ Hin Hag1 Ee Gb) as [[w Hw] K2]. split; [|exact K2]. exists w. eapply evals_if; [exact Hc|exact Hw]. }
      destruct Hif as [[w Hw] K2].
      pose proof (agree_kept _ _ _ _ Hag1 K2) as Hag2.
      destruct (IHB _ _ _ _ _ _ _ _ _ _ Hin Hag2 Ek Hgo) as [Hk K3].
      split; [|eapply cells_kept_trans; [eapply cells_kept_trans; eassumption|exact K3]].
      unfold Seq. eapply (evals_close_letin _ BAnon _ _ s w s2); [exact Hw|exact Hk].
    + apply (IHE _ _ _ _ _ _ _ _ _ _ Hin Hag Htr Hgo).
    + (* x := e *)
      destruct (trs_expr T (sf_name fn) G e) as [e1|] eqn:Ee; [|discriminate].
      destruct (trs_body T (sf_name fn) ((x, (false, TU64)) :: G) k) as [k'|] eqn:Ek; [|discriminate]. injection Htr as <-.
      destruct (sgo_expr n P r s e) as [[v1 s1]|] eqn:Ge; [|discriminate].
      destruct (IHE _ _ _ _ _ _ _ _ _ _ Hin Hag Ee Ge) as [He K1].
      destruct (IHB T fn F _ ((x, Imm v1) :: r) s1 k k' v s' Hin (ag_imm x TU64 v1 _ _ _ (agree_kept _ _ _ _ Hag K1)) Ek Hgo) as [Hk K2].
      split; [|eapply cells_kept_trans; eassumption].
      eapply evals_close_letin; [exact He|exact Hk].
    + (* var x t [= e] *)
      destruct eo as [e|].
      * destruct (trs_expr T (sf_name fn) G e) as [e1|] eqn:Ee; [|discriminate].
        destruct (trs_body T (sf_name fn) ((x, (true, t)) :: G) k) as [k'|] eqn:Ek; [|discriminate]. injection Htr as <-.
        destruct (sgo_expr n P r s e) as [[v1 s1]|] eqn:Ge; [|discriminate].
        destruct (alloc_cell v1 s1) as [b s2] eqn:Ea.
        destruct (IHE _ _ _ _ _ _ _ _ _ _ Hin Hag Ee Ge) as [He K1].
        assert (K12 : cells_kept s1 s2) by (replace s2 with (snd (alloc_cell v1 s1)) by (rewrite Ea; reflexivity); apply alloc_kept).
        assert (Hag2 : agree ((x, (true, t)) :: G) ((x, Cell b) :: r) s2).
        { econstructor; [eapply agree_kept; [exact Hag|eapply cells_kept_trans; eassumption]|].
          replace b with (fst (alloc_cell v1 s1)) by (rewrite Ea; reflexivity).
          replace s2 with (snd (alloc_cell v1 s1)) by (rewrite Ea; reflexivity). apply read_alloc_new. }
        destruct (IHB T fn F _ _ s2 k k' v s' Hin Hag2 Ek Hgo) as [Hk K2].
        split; [|eapply cells_kept_trans; [eapply cells_kept_trans; eassumption|exact K2]].
        eapply (evals_close_letin _ (BNamed x) _ _ s (LitV (LitLoc b 0)) s2); [|exact Hk].
        unfold RefTo. rewrite close_app, close_val.
        eapply evals_prim1; [reflexivity|reflexivity|exact He|].
        unfold alloc_cell in Ea. injection Ea as <- <-. destruct t; reflexivity.
      * destruct (trs_body T (sf_name fn) ((x, (true, t)) :: G) k) as [k'|] eqn:Ek; [|discriminate]. injection Htr as <-.
        destruct (alloc_cell (zero_of t) s) as [b s2] eqn:Ea.
        assert (K12 : cells_kept s s2) by (replace s2 with (snd (alloc_cell (zero_of t) s)) by (rewrite Ea; reflexivity); apply alloc_kept).
        assert (Hag2 : agree ((x, (true, t)) :: G) ((x, Cell b) :: r) s2).
        { econstructor; [eapply agree_kept; [exact Hag|exact K12]|].
          replace b with (fst (alloc_cell (zero_of t) s)) by (rewrite Ea; reflexivity).
          replace s2 with (snd (alloc_cell (zero_of t) s)) by (rewrite Ea; reflexivity). apply read_alloc_new. }
        destruct (IHB T fn F _ _ s2 k k' v s' Hin Hag2 Ek Hgo) as [Hk K2].
        split; [|eapply cells_kept_trans; eassumption].
        eapply (evals_close_letin _ (BNamed x) _ _ s (LitV (LitLoc b 0)) s2); [|exact Hk].
        unfold RefZero. rewrite close_app, !close_val.
        eapply evals_prim1; [reflexivity|reflexivity|apply evals_val|].
        unfold alloc_cell in Ea. injection Ea as <- <-. destruct t; reflexivity.
    + (* x = e *)
      destruct (tlookup x G) as [[[] t]|] eqn:Hl; try discriminate.
      destruct (trs_expr T (sf_name fn) G e) as [e1|] eqn:Ee; [|discriminate].
      destruct (trs_body T (sf_name fn) G k) as [k'|] eqn:Ek; [|discriminate]. injection Htr as <-.
      destruct (agree_lookup _ _ _ _ _ _ Hag Hl) as [_ H]. destruct (H eq_refl) as (b & old & Hg & Hr).
      rewrite Hg in Hgo.
      destruct (sgo_expr n P r s e) as [[v1 s1]|] eqn:Ge; [|discriminate].
      destruct (write_cell b v1 s1) as [s2|] eqn:Hw; [|discriminate].
      destruct (IHE _ _ _ _ _ _ _ _ _ _ Hin Hag Ee Ge) as [He K1].
      destruct (K1 _ _ Hr) as [old1 Hr1].
      pose proof (write_kept _ _ _ _ Hw) as K12.
      destruct (IHB T fn F G r s2 k k' v s' Hin (agree_kept _ _ _ _ Hag (cells_kept_trans _ _ _ K1 K12)) Ek Hgo) as [Hk K2].
      split; [|eapply cells_kept_trans; [eapply cells_kept_trans; eassumption|exact K2]].
      unfold Seq. eapply (evals_close_letin _ BAnon _ _ s (LitV LitUnit) s2); [|exact Hk].
      eapply evals_store_cs; [|exact He|exact Hr1|exact Hw].
      unfold cs, csf. rewrite (clookup_csf_l _ _ _ _ Hg). reflexivity.
    + (* x op= e *)
      destruct (tlookup x G) as [[[] t]|] eqn:Hl; try discriminate.
      destruct (trs_expr T (sf_name fn) G e) as [e1|] eqn:Ee; [|discriminate].
      destruct (trs_body T (sf_name fn) G k) as [k'|] eqn:Ek; [|discriminate].
      destruct (assign_op op) eqn:Eop; [|discriminate].
      destruct (tr_binop op (Load (ty_of t) (Var x)) e1) as [rhs|] eqn:Eb; [|discriminate]. injection Htr as <-.
      destruct (agree_lookup _ _ _ _ _ _ Hag Hl) as [_ H]. destruct (H eq_refl) as (b & old0 & Hg & Hr).
      rewrite Hg in Hgo.
      destruct (sgo_expr n P r s e) as [[v1 s1]|] eqn:Ge; [|discriminate].
      destruct (read_cell b s1) as [old|] eqn:Hr1; [|discriminate].
      destruct (go_binop op old v1) as [nv|] eqn:Ebin; [|discriminate].
      destruct (write_cell b nv s1) as [s2|] eqn:Hw; [|discriminate].
      destruct (IHE _ _ _ _ _ _ _ _ _ _ Hin Hag Ee Ge) as [He K1].
      pose proof (write_kept _ _ _ _ Hw) as K12.
      destruct (IHB T fn F G r s2 k k' v s' Hin (agree_kept _ _ _ _ Hag (cells_kept_trans _ _ _ K1 K12)) Ek Hgo) as [Hk K2].
      split; [|eapply cells_kept_trans; [eapply cells_kept_trans; eassumption|exact K2]].
      assert (Hloc : clookup x cs = Some (LitV (LitLoc b 0))) by (unfold cs, csf; rewrite (clookup_csf_l _ _ _ _ Hg); reflexivity).
      unfold Seq. eapply (evals_close_letin _ BAnon _ _ s (LitV LitUnit) s2); [|exact Hk].
      eapply evals_store_cs; [exact Hloc| |exact Hr1|exact Hw].
      eapply binop_st; [exact Ebin|apply close_tr_binop, Eb| | | |].
      * intros ->; discriminate.
      * intros ->; discriminate.
      * intros Hs. destruct op; discriminate.
      * intros _. split; [exact He|]. eapply evals_load_cs; [exact Hloc|exact Hr1].
    + (* x++ / x-- *)
      destruct (tlookup x G) as [[[] t]|] eqn:Hl; try discriminate.
      destruct (trs_body T (sf_name fn) G k) as [k'|] eqn:Ek; [|discriminate]. injection Htr as <-.
      destruct (agree_lookup _ _ _ _ _ _ Hag Hl) as [_ H]. destruct (H eq_refl) as (b & old0 & Hg & Hr0).
      rewrite Hg in Hgo.
      destruct (read_cell b s) as [old|] eqn:Hr; [|discriminate].
      destruct (go_binop (if inc then OAdd else OSub) old (LitV (LitInt 1))) as [nv|] eqn:Ebin; [|discriminate].
      destruct (write_cell b nv s) as [s2|] eqn:Hw; [|discriminate].
      pose proof (write_kept _ _ _ _ Hw) as K12.
      destruct (IHB T fn F G r s2 k k' v s' Hin (agree_kept _ _ _ _ Hag K12) Ek Hgo) as [Hk K2].
      split; [|eapply cells_kept_trans; eassumption].
      assert (Hloc : clookup x cs = Some (LitV (LitLoc b 0))) by (unfold cs, csf; rewrite (clookup_csf_l _ _ _ _ Hg); reflexivity).
      unfold Seq. eapply (evals_close_letin _ BAnon _ _ s (LitV LitUnit) s2); [|exact Hk].
      eapply evals_store_cs; [exact Hloc| |exact Hr|exact Hw].
      eapply (binop_st (if inc then OAdd else OSub) _ _ _ old (LitV (LitInt 1)) nv s s s); [exact Ebin| | | | |].
      * rewrite close_binop. destruct inc; reflexivity.
      * destruct inc; discriminate.
      * destruct inc; discriminate.
      * intros Hs. destruct inc; discriminate.
      * intros _. split; [unfold Lit; rewrite close_val; apply evals_val|eapply evals_load_cs; [exact Hloc|exact Hr]].
    + (* if *)
      destruct (trs_expr T (sf_name fn) G c) as [c'|] eqn:Ec; [|discriminate].
      destruct (trs_body T (sf_name fn) G th) as [t'|] eqn:Et; [|discriminate].
      destruct (trs_body T (sf_name fn) G el) as [l'|] eqn:El; [|discriminate]. injection Htr as <-.
      destruct (sgo_expr n P r s c) as [[[[| | |cb| | | |]| | |] s1]|] eqn:Gc; try discriminate.
      destruct (IHE _ _ _ _ _ _ _ _ _ _ Hin Hag Ec Gc) as [Hc K1].
      pose proof (agree_kept _ _ _ _ Hag K1) as Hag1.
      rewrite close_if. destruct cb.
      * destruct (IHB _ _ _ _ _ _ _ _ _ _ Hin Hag1 Et Hgo) as [Hk K2].
        split; [|eapply cells_kept_trans; eassumption]. eapply evals_if; [exact Hc|exact Hk].
      * destruct (IHB _ _ _ _ _ _ _ _ _ _ Hin Hag1 El Hgo) as [Hk K2].
        split; [|eapply cells_kept_trans; eassumption]. eapply evals_if; [exact Hc|exact Hk].
Qed.
End Main.

(* ---------------------------------------------------------------- packages *)
Lemma sprog_inside P : forall P1 P0 T R, P = (P0 ++ P1)%list -> sgood P T -> map fst T = rev (map sf_name P0) ->
  trs_prog_from T P1 = Some R ->
  Forall2 (fun fn nv => fst nv = sf_name fn /\ exists Tg, sinside P Tg fn (snd nv)) P1 R.
Proof.
  induction P1 as [|fn P1 IH]; intros P0 T R HP Hg Hfst Htr; cbn [trs_prog_from] in Htr.
  - injection Htr as <-. constructor.
  - destruct (negb (smem (sf_name fn) (map fst T))) eqn:Enm; [|discriminate].
    destruct (trs_func T fn) as [v|] eqn:Ef; [|discriminate].
    destruct (trs_prog_from ((sf_name fn, v) :: T) P1) as [R'|] eqn:Er; [|discriminate]. injection Htr as <-.
    assert (Hfind : find_sfunc (sf_name fn) P = Some fn).
    { rewrite HP. apply find_sfunc_app. intros Hin. apply in_rev in Hin. rewrite <- Hfst in Hin.
      apply smem_In in Hin. rewrite Hin in Enm. discriminate. }
    constructor.
    + split; [reflexivity|]. exists T. repeat split; assumption.
    + apply (IH (P0 ++ [fn])%list ((sf_name fn, v) :: T)); [rewrite <- app_assoc; exact HP|constructor; assumption| |exact Er].
      cbn [map fst]. rewrite map_app, rev_app_distr. cbn [map rev app]. rewrite Hfst. reflexivity.
Qed.

(* the i-th emitted value implements the i-th function of the package: applied
   to the arguments, from any store, it evaluates to the value Go returns and
   ends in the store Go ends in *)
Theorem sprog_correct P vs :
  trs_prog P = Some vs ->
  Forall2 (fun fn F => forall n args v s s',
             length args = length (sf_params fn) ->
             sgo_body n P (rev (combine (map fst (sf_params fn)) (map Imm args))) s (sf_body fn) = Some (v, s') ->
             evals (call_expr F args) s v s') P vs.
Proof.
  unfold trs_prog. destruct (trs_prog_from [] P) as [R|] eqn:Er; [|discriminate]. cbn [option_map]. intros [= <-].
  pose proof (sprog_inside P P [] [] R eq_refl (sgood_nil P) eq_refl Er) as HF.
  assert (Hgen : forall Q R1,
            Forall2 (fun fn nv => fst nv = sf_name fn /\ exists Tg, sinside P Tg fn (snd nv)) Q R1 ->
            Forall2 (fun fn F => forall n args v s s',
                       length args = length (sf_params fn) ->
                       sgo_body n P (rev (combine (map fst (sf_params fn)) (map Imm args))) s (sf_body fn) = Some (v, s') ->
                       evals (call_expr F args) s v s') Q (map snd R1)).
  { intros Q R1 H1. induction H1 as [|fn nv Q1 R2 [_ [Tg Hin]] _ IH]; cbn [map]; constructor; [|exact IH].
    intros n args v s s' Hlen Hgo.
    destruct (sall_correct P n) as (_ & _ & _ & HB). eapply (proj1 (senter_correct P n Tg fn (snd nv) args v s s' HB Hin Hlen Hgo)). }
  apply Hgen, HF.
Qed.

Theorem scall_correct P vs n f args v s' :
  trs_prog P = Some vs -> sgo_call n P f args = Some (v, s') ->
  exists i fn F, nth_error P i = Some fn /\ sf_name fn = f /\ nth_error vs i = Some F /\
    evals (call_expr F args) state0 v s'.
Proof.
  intros Htr Hgo. pose proof (sprog_correct P vs Htr) as HF. unfold sgo_call in Hgo.
  destruct (find_sfunc f P) as [fn|] eqn:Ef; [|discriminate].
  destruct (Nat.eqb (length args) (length (sf_params fn))) eqn:El; [|discriminate]. apply Nat.eqb_eq in El.
  assert (Hin : exists i, nth_error P i = Some fn).
  { clear -Ef. induction P as [|g P IH]; cbn [find_sfunc] in Ef; [discriminate|].
    destruct (String.eqb f (sf_name g)); [injection Ef as <-; exists 0; reflexivity|].
    destruct (IH Ef) as [i Hi]. exists (S i). exact Hi. }
  destruct Hin as [i Hi].
  destruct (Forall2_nth _ _ _ _ _ HF Hi) as (F & HnF & Hc). exists i, fn, F. repeat split; auto.
  - eapply find_sfunc_name, Ef.
  - eapply Hc; eassumption.
Qed.

(* ---------------------------------------------------------------- non-vacuity *)
Open Scope string_scope.
(* func Pow(n, x uint64) uint64 { if n == 0 { return 1 }; var acc uint64 = Pow(n-1, x); acc *= ... *)
Definition sx_sum : sfunc := {| sf_name := "Sum"; sf_params := [("n", TU64); ("x", TU64)]; sf_body :=
  SIfT (CBin OEq (CVar "n") (CLit 0)) (SRet (CLit 1))
    (SVarD "acc" TU64 (Some (CCall "Sum" (CACons (CBin OSub (CVar "n") (CLit 1)) (CACons (CVar "x") CANil))))
      (SOpAsg OAdd "acc" (CVar "x")
        (SIncD true "acc"
          (SIfT (CBin OGt (CVar "acc") (CLit 10)) (SAsg "acc" (CBin OSub (CVar "acc") (CLit 3)) (SRet (CVar "acc")))
             (SRet (CVar "acc")))))) |}.
Definition sx_use : sfunc := {| sf_name := "Use"; sf_params := [("y", TU64)]; sf_body :=
  SVarD "t" TU64 None
    (SAsg "t" (CBin OAdd (CCall "Sum" (CACons (CLit 2) (CACons (CVar "y") CANil))) (CCall "Sum" (CACons (CLit 1) (CACons (CLit 5) CANil))))
      (SLet "u" (CBin OMul (CVar "t") (CLit 2)) (SRet (CBin OAdd (CVar "u") (CVar "t"))))) |}.
Definition sx_prog : sprog := [sx_sum; sx_use].

Lemma sx_prog_accepted_and_returns :
  (exists vs, trs_prog sx_prog = Some vs /\ length vs = 2%nat) /\
  (exists s', sgo_call 200 sx_prog "Use" [LitV (LitInt 4)] = Some (LitV (LitInt 45), s')) /\
  (exists s', sgo_call 200 sx_prog "Sum" [LitV (LitInt 3); LitV (LitInt 2)] = Some (LitV (LitInt 10), s')).
Proof. split; [eexists; split; [vm_compute; reflexivity|reflexivity]|split; eexists; vm_compute; reflexivity]. Qed.

(* ---------------------------------------------------------------- rejected or faithful *)
Theorem sprog_rejected_or_faithful P :
  trs_prog P = None \/
  exists vs, trs_prog P = Some vs /\
    Forall2 (fun fn F => forall n args v s s',
               length args = length (sf_params fn) ->
               sgo_body n P (rev (combine (map fst (sf_params fn)) (map Imm args))) s (sf_body fn) = Some (v, s') ->
               evals (call_expr F args) s v s') P vs.
Proof.
  destruct (trs_prog P) as [vs|] eqn:E; [right|left; reflexivity].
  exists vs. split; [reflexivity|apply sprog_correct, E].
Qed.

(* the refusals of the fragment *)
Lemma srejects_assign_to_letbound T self G x t e k :
  tlookup x G = Some (false, t) -> trs_body T self G (SAsg x e k) = None.
Proof. intros H. cbn [trs_body]. rewrite H. reflexivity. Qed.

Lemma srejects_assign_to_undeclared T self G x e k :
  tlookup x G = None -> trs_body T self G (SAsg x e k) = None.
Proof. intros H. cbn [trs_body]. rewrite H. reflexivity. Qed.

Lemma srejects_unsupported_opassign T self G x e k op :
  assign_op op = false -> trs_body T self G (SOpAsg op x e k) = None.
Proof.
  intros H. cbn [trs_body]. destruct (tlookup x G) as [[[] t]|]; try reflexivity.
  destruct (trs_expr T self G e); [|reflexivity]. destruct (trs_body T self G k); [|reflexivity]. rewrite H. reflexivity.
Qed.

Lemma srejects_incdec_of_letbound T self G x t inc k :
  tlookup x G = Some (false, t) -> trs_body T self G (SIncD inc x k) = None.
Proof. intros H. cbn [trs_body]. rewrite H. reflexivity. Qed.

Lemma srejects_param_named_like_function T name ps1 t ps2 body :
  trs_func T {| sf_name := name; sf_params := ps1 ++ (name, t) :: ps2; sf_body := body |} = None.
Proof.
  unfold trs_func. cbn [sf_name sf_params].
  assert (H : smem name (map fst (ps1 ++ (name, t) :: ps2)) = true).
  { apply smem_In. rewrite map_app. apply in_or_app. right. left. reflexivity. }
  rewrite H. cbn [negb]. rewrite andb_false_r. reflexivity.
Qed.

(* ---------------------------------------------------------------- Go's result is well defined *)
Local Open Scope nat_scope.
Lemma sgo_simple_mono (ev1 ev2 : genv -> state -> cexpr -> option (val * state)) r s st x :
  (forall r0 s0 e y, ev1 r0 s0 e = Some y -> ev2 r0 s0 e = Some y) ->
  sgo_simple ev1 r s st = Some x -> sgo_simple ev2 r s st = Some x.
Proof.
  intros Hev. destruct st as [y e|y t [e|]|y e|op y e|inc y]; cbn [sgo_simple]; intros H.
  - destruct (ev1 r s e) as [[v s1]|] eqn:E; [|discriminate]. rewrite (Hev _ _ _ _ E). exact H.
  - destruct (ev1 r s e) as [[v s1]|] eqn:E; [|discriminate]. rewrite (Hev _ _ _ _ E). exact H.
  - exact H.
  - destruct (glookup y r) as [[|b]|]; try discriminate.
    destruct (ev1 r s e) as [[v s1]|] eqn:E; [|discriminate]. rewrite (Hev _ _ _ _ E). exact H.
  - destruct (glookup y r) as [[|b]|]; try discriminate.
    destruct (ev1 r s e) as [[v s1]|] eqn:E; [|discriminate]. rewrite (Hev _ _ _ _ E). exact H.
  - exact H.
Qed.

Lemma sgo_mono P : forall n m, n <= m ->
  (forall r s e x, sgo_expr n P r s e = Some x -> sgo_expr m P r s e = Some x) /\
  (forall r s a x, sgo_args n P r s a = Some x -> sgo_args m P r s a = Some x) /\
  (forall r s l x, sgo_loc n P r s l = Some x -> sgo_loc m P r s l = Some x) /\
  (forall r s b x, sgo_body n P r s b = Some x -> sgo_body m P r s b = Some x).
Proof.
  induction n as [|n IH]; intros m Hle.
  { repeat split; intros; discriminate. }
  destruct m as [|m]; [lia|]. assert (Hle' : n <= m) by lia.
  destruct (IH m Hle') as (IHE & IHA & IHL & IHB).
  repeat split.
  - intros r s e x H. destruct e as [k|b|y|op a b|a|f args]; cbn [sgo_expr] in H |- *; try exact H.
    + destruct op; cbn [swapped] in H |- *;
        try (destruct (sgo_expr n P r s b) as [[vb s1]|] eqn:Eb; [|discriminate]; rewrite (IHE _ _ _ _ Eb);
             destruct (sgo_expr n P r s1 a) as [[va s2]|] eqn:Ea; [|discriminate]; rewrite (IHE _ _ _ _ Ea); exact H);
        try (destruct (sgo_expr n P r s a) as [[va s1]|] eqn:Ea; [|discriminate]; rewrite (IHE _ _ _ _ Ea);
             destruct (sgo_expr n P r s1 b) as [[vb s2]|] eqn:Eb; [|discriminate]; rewrite (IHE _ _ _ _ Eb); exact H).
      * destruct (sgo_expr n P r s a) as [[va s1]|] eqn:Ea; [|discriminate]. rewrite (IHE _ _ _ _ Ea).
        destruct va as [[| | |[]| | | |]| | |]; try discriminate; [|exact H].
        destruct (sgo_expr n P r s1 b) as [[vb s2]|] eqn:Eb; [|discriminate]. rewrite (IHE _ _ _ _ Eb). exact H.
      * destruct (sgo_expr n P r s a) as [[va s1]|] eqn:Ea; [|discriminate]. rewrite (IHE _ _ _ _ Ea).
        destruct va as [[| | |[]| | | |]| | |]; try discriminate; [exact H|].
        destruct (sgo_expr n P r s1 b) as [[vb s2]|] eqn:Eb; [|discriminate]. rewrite (IHE _ _ _ _ Eb). exact H.
    + destruct (sgo_expr n P r s a) as [[va s1]|] eqn:Ea; [|discriminate]. rewrite (IHE _ _ _ _ Ea). exact H.
    + destruct (glookup f r); [discriminate|]. destruct (find_sfunc f P) as [fg|]; [|discriminate].
      destruct (sgo_args n P r s args) as [[vs s1]|] eqn:Ea; [|discriminate]. rewrite (IHA _ _ _ _ Ea).
      destruct (Nat.eqb (length vs) (length (sf_params fg))); [|discriminate]. apply IHB, H.
  - intros r s a x H. destruct a as [|a rest]; cbn [sgo_args] in H |- *; [exact H|].
    destruct (sgo_args n P r s rest) as [[vs s1]|] eqn:Er; [|discriminate]. rewrite (IHA _ _ _ _ Er).
    destruct (sgo_expr n P r s1 a) as [[v s2]|] eqn:Ea; [|discriminate]. rewrite (IHE _ _ _ _ Ea). exact H.
  - intros r s l x H. destruct l as [|st k|c th el k]; cbn [sgo_loc] in H |- *; [exact H| |].
    + destruct (sgo_simple (sgo_expr n P) r s st) as [[r1 s1]|] eqn:Es; [|discriminate].
      rewrite (sgo_simple_mono _ (sgo_expr m P) _ _ _ _ IHE Es). apply IHL, H.
    + destruct (sgo_expr n P r s c) as [[vc s1]|] eqn:Ec; [|discriminate]. rewrite (IHE _ _ _ _ Ec).
      destruct vc as [[| | |cb| | | |]| | |]; try discriminate.
      destruct (sgo_loc n P r s1 (if cb then th else el)) as [s2|] eqn:Eb; [|discriminate]. rewrite (IHL _ _ _ _ Eb). apply IHL, H.
  - intros r s b x H. destruct b as [c th el k|e|y e k|y t eo k|y e k|op y e k|inc y k|c th el]; cbn [sgo_body] in H |- *.
    + destruct (sgo_expr n P r s c) as [[vc s1]|] eqn:Ec; [|discriminate]. rewrite (IHE _ _ _ _ Ec).
      destruct vc as [[| | |cb| | | |]| | |]; try discriminate.
      destruct (sgo_loc n P r s1 (if cb then th else el)) as [s2|] eqn:Eb; [|discriminate]. rewrite (IHL _ _ _ _ Eb). apply IHB, H.
    + apply IHE, H.
    + destruct (sgo_expr n P r s e) as [[v s1]|] eqn:Ee; [|discriminate]. rewrite (IHE _ _ _ _ Ee). apply IHB, H.
    + destruct eo as [e|].
      * destruct (sgo_expr n P r s e) as [[v s1]|] eqn:Ee; [|discriminate]. rewrite (IHE _ _ _ _ Ee).
        destruct (alloc_cell v s1). apply IHB, H.
      * destruct (alloc_cell (zero_of t) s). apply IHB, H.
    + destruct (glookup y r) as [[|b]|]; try discriminate.
      destruct (sgo_expr n P r s e) as [[v s1]|] eqn:Ee; [|discriminate]. rewrite (IHE _ _ _ _ Ee).
      destruct (write_cell b v s1); [|discriminate]. apply IHB, H.
    + destruct (glookup y r) as [[|b]|]; try discriminate.
      destruct (sgo_expr n P r s e) as [[v s1]|] eqn:Ee; [|discriminate]. rewrite (IHE _ _ _ _ Ee).
      destruct (read_cell b s1); [|discriminate]. destruct (go_binop op v0 v); [|discriminate].
      destruct (write_cell b v1 s1); [|discriminate]. apply IHB, H.
    + destruct (glookup y r) as [[|b]|]; try discriminate.
      destruct (read_cell b s); [|discriminate]. destruct (go_binop _ v _); [|discriminate].
      destruct (write_cell b v0 s); [|discriminate]. apply IHB, H.
    + destruct (sgo_expr n P r s c) as [[vc s1]|] eqn:Ec; [|discriminate]. rewrite (IHE _ _ _ _ Ec).
      destruct vc as [[| | |cb| | | |]| | |]; try discriminate. apply IHB, H.
Qed.

Theorem sgo_call_fuel_irrelevant P f args n m x y :
  sgo_call n P f args = Some x -> sgo_call m P f args = Some y -> x = y.
Proof.
  unfold sgo_call. destruct (find_sfunc f P) as [fn|]; [|discriminate].
  destruct (Nat.eqb (length args) (length (sf_params fn))); [|discriminate].
  intros Hn Hm.
  pose proof (proj2 (proj2 (proj2 (sgo_mono P n (n + m) ltac:(lia)))) _ _ _ _ Hn) as H1.
  pose proof (proj2 (proj2 (proj2 (sgo_mono P m (n + m) ltac:(lia)))) _ _ _ _ Hm) as H2.
  rewrite H1 in H2. injection H2 as ->. reflexivity.
Qed.
