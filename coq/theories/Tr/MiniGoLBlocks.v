(* Preservation for MiniGoL including nested blocks: the statement is
   generalised over the continuation k that trl splices after a nested block
   that is printed without delimiters. *)
From Coq Require Import String List ZArith Bool Lia.
From GV Require Import Lang.GlSyntax Lang.GlSem Lang.GlSemProofs Tr.MiniGo Tr.MiniGoProofs Tr.MiniGoL Tr.MiniGoLProofs.
Import ListNotations.
Local Open Scope nat_scope.

(* the continuation does not mention the names the statements declare *)
Definition kok (b : lblock) (k : option expr) : Prop :=
  forall kr, k = Some kr -> forall y, In y (names_block b) -> nofree y kr.

Definition normal_k (u : lusage) (k : option expr) (e : expr) (r : genv) (s s' : state) : Prop :=
  match k with
  | None => exists w, evals (close (cs_of r) e) s w s' /\ (u = UReturned -> w = vunit) /\ (u = ULoop -> w = vbool true)
  | Some kr => forall wk sk, evals (close (cs_of r) kr) s' wk sk -> evals (close (cs_of r) e) s wk sk
  end.

Definition lpostk (u : lusage) (k : option expr) (e : expr) (r : genv) (s : state) (o : lout) : Prop :=
  match o with
  | LRet v s' => u = UReturned /\ evals (close (cs_of r) e) s v s'
  | LNormal _ s' => cells_kept s s' /\ normal_k u k e r s s'
  | LBrk s' => u = ULoop /\ cells_kept s s' /\ evals (close (cs_of r) e) s (vbool false) s'
  | LCont s' => u = ULoop /\ cells_kept s s' /\ evals (close (cs_of r) e) s (vbool true) s'
  | LErr | LFuelOut => True
  end.

Lemma lpostk_none u e r s o : lpostk u None e r s o <-> lpost u e r s o.
Proof. destruct o; cbn [lpostk lpost normal_k]; tauto. Qed.

(* prefixing with an evaluation step that binds x; the continuation must not mention x *)
Lemma lpostk_letin u k x e1 e2 r s v1 r1 s1 o :
  evals (close (cs_of r) e1) s v1 s1 -> cs_of r1 = bind x v1 (cs_of r) -> cells_kept s s1 ->
  (forall kr y, k = Some kr -> x = BNamed y -> nofree y kr) ->
  lpostk u k e2 r1 s1 o -> lpostk u k (LetIn x e1 e2) r s o.
Proof.
  intros H1 Hcs Hk Hfree Hp.
  assert (Hev : forall w s', evals (close (cs_of r1) e2) s1 w s' -> evals (close (cs_of r) (LetIn x e1 e2)) s w s').
  { intros w s' Hw. eapply evals_close_letin; [exact H1|]. rewrite <- Hcs. exact Hw. }
  destruct o as [r' s'|v s'|s'|s'| |]; cbn [lpostk] in *; auto.
  - destruct Hp as [Hk' Hn]. split; [eapply cells_kept_trans; eauto|].
    destruct k as [kr|]; cbn [normal_k] in *.
    + intros wk sk Hkr. apply Hev, Hn. rewrite Hcs. destruct x as [|y]; cbn [bind close]; [exact Hkr|].
      rewrite (Hfree kr y eq_refl eq_refl). exact Hkr.
    + destruct Hn as (w & Hw & Hu). exists w. auto.
  - destruct Hp as [Hu Hw]. auto.
  - destruct Hp as (Hu & Hk' & Hw). split; [exact Hu|]. split; [eapply cells_kept_trans; eauto|auto].
  - destruct Hp as (Hu & Hk' & Hw). split; [exact Hu|]. split; [eapply cells_kept_trans; eauto|auto].
Qed.

Lemma lpostk_seq u k X a r s w s1 o :
  evals (close (cs_of r) X) s w s1 -> cells_kept s s1 -> lpostk u k a r s1 o -> lpostk u k (Seq X a) r s o.
Proof.
  intros H Hk Hp. unfold Seq. eapply lpostk_letin with (r1 := r) (v1 := w); eauto. discriminate.
Qed.

Lemma lpostk_if u k c' (cb : bool) t' e' r s o :
  evals (close (cs_of r) c') s (vbool cb) s ->
  lpostk u k (if cb then t' else e') r s o -> lpostk u k (If c' t' e') r s o.
Proof.
  intros Hc Hp.
  assert (Hev : forall w s', evals (close (cs_of r) (if cb then t' else e')) s w s' -> evals (close (cs_of r) (If c' t' e')) s w s').
  { intros w s' Hw. rewrite close_if. eapply evals_if; [exact Hc|]. destruct cb; exact Hw. }
  destruct o as [r' s'|v s'|s'|s'| |]; cbn [lpostk] in *; auto.
  - destruct Hp as [Hk' Hn]. split; [exact Hk'|]. destruct k as [kr|]; cbn [normal_k] in *.
    + intros wk sk Hkr. apply Hev, Hn, Hkr.
    + destruct Hn as (w & Hw & Hu). exists w. auto.
  - destruct Hp as [Hu Hw]. auto.
  - destruct Hp as (Hu & Hk' & Hw). auto.
  - destruct Hp as (Hu & Hk' & Hw). auto.
Qed.

(* a delimited expression X followed by the continuation *)
Lemma lpostk_then_k u (k : option expr) X r s w s1 :
  evals (close (cs_of r) X) s w s1 -> cells_kept s s1 ->
  (k = None -> (u = UReturned -> w = vunit) /\ (u = ULoop -> w = vbool true)) ->
  lpostk u k (then_k X k) r s (LNormal r s1).
Proof.
  intros H Hk Hw. cbn [lpostk]. split; [exact Hk|]. destruct k as [kr|]; cbn [normal_k then_k].
  - intros wk sk Hkr. unfold Seq. eapply evals_close_letin; [exact H|]. cbn [bind]. exact Hkr.
  - exists w. split; [exact H|]. apply Hw. reflexivity.
Qed.

Lemma lpostk_drop_binding u k a i bnd r s o :
  nofree i a -> (forall kr, k = Some kr -> nofree i kr) ->
  lpostk u k a r s o -> lpostk u k a ((i, bnd) :: r) s o.
Proof.
  intros Hn Hkn Hp.
  assert (Hc : forall x, nofree i x -> close (cs_of ((i, bnd) :: r)) x = close (cs_of r) x)
    by (intros x Hx; cbn [cs_of map fst snd close]; rewrite Hx; reflexivity).
  destruct o; cbn [lpostk] in *; try rewrite (Hc a Hn); auto.
  destruct Hp as [Hk Hnk]. split; [exact Hk|]. destruct k as [kr|]; cbn [normal_k] in *.
  - rewrite (Hc a Hn), (Hc kr (Hkn kr eq_refl)). exact Hnk.
  - rewrite (Hc a Hn). exact Hnk.
Qed.

Lemma kok_cons_rest st rest k : kok (LCons st rest) k -> kok rest k.
Proof. intros H kr Hk y Hy. apply (H kr Hk). cbn [names_block]. apply in_or_app. right; exact Hy. Qed.

Lemma kok_cons_head st rest k kr y : kok (LCons st rest) k -> k = Some kr -> In y (names_stmt st) -> nofree y kr.
Proof. intros H Hk Hy. apply (H kr Hk). cbn [names_block]. apply in_or_app. left; exact Hy. Qed.

Lemma kok_none b : kok b None.
Proof. intros kr H. discriminate. Qed.

Lemma simple_binder_name G g x e G' y : tr_simple G g = Some (x, e, G') -> x = BNamed y -> In y (simple_names g).
Proof.
  destruct g as [z e0|z t [e0|]|z e0|op z e0|inc z|c th el|e0]; cbn [tr_simple simple_names]; intros H Hx; try discriminate.
  - destruct (tr_expr G e0); [|discriminate]. injection H as <- _ _. injection Hx as <-. left; reflexivity.
  - destruct (tr_expr G e0); [|discriminate]. injection H as <- _ _. injection Hx as <-. left; reflexivity.
  - injection H as <- _ _. injection Hx as <-. left; reflexivity.
  - destruct (tlookup z G) as [[[] ?]|]; try discriminate. destruct (tr_expr G e0); [|discriminate]. injection H as <- _ _. discriminate.
  - destruct (tlookup z G) as [[[] ?]|]; try discriminate. destruct (tr_expr G e0); [|discriminate].
    destruct (assign_op op); [|discriminate]. destruct (tr_binop op _ _); [|discriminate]. injection H as <- _ _. discriminate.
  - destruct (tlookup z G) as [[[] ?]|]; try discriminate. injection H as <- _ _. discriminate.
Qed.

Definition Q_lgo (n : nat) : Prop := forall tf G u b k e r s,
  trl tf G u b k = Some e -> agree G r s -> (k <> None -> u = ULocal) -> kok b k ->
  lpostk u k e r s (lgo n r s b).

Lemma final_of_local_k u (k : option expr) fin : (k <> None -> u = ULocal) -> final_of u = Some fin -> k = None.
Proof. intros H Hf. destruct k; [|reflexivity]. rewrite H in Hf by discriminate. discriminate. Qed.

Lemma lpostk_final u fin r s : final_of u = Some fin -> lpostk u None fin r s (LNormal r s).
Proof. intros Hf. apply lpostk_none. apply lpost_final, Hf. Qed.

Definition Q_lloop (n : nat) : Prop := forall tf G1 r1 s1 cond post body c' p' b',
  (match cond with Some c => tr_expr G1 c | None => Some (BoolE true) end) = Some c' ->
  (match post with Some g => match tr_simple G1 g with Some (BAnon, e, _) => Some e | _ => None end | None => Some SkipE end) = Some p' ->
  trl tf G1 ULoop body None = Some b' -> agree G1 r1 s1 ->
  match lloop n r1 s1 cond post body with
  | LNormal _ s2 => cells_kept s1 s2 /\ evals (loop_expr (cs_of r1) c' b' p') s1 vunit s2
  | LRet _ _ | LBrk _ | LCont _ => False
  | LErr | LFuelOut => True
  end.

Lemma loop_stepk n : Q_lgo n -> Q_lloop n -> Q_lloop (S n).
Proof.
  intros Hgo Hloop tf G1 r1 s1 cond post body c' p' b' Hc Hp Hb Hag.
  cbn [lloop].
  (* the condition *)
  assert (Hcond : forall cv, (match cond with Some c => go_expr r1 s1 c | None => Some (LitV (LitBool true)) end) = Some cv ->
                     evals (close (cs_of r1) c') s1 cv s1).
  { intros cv Hcv. destruct cond as [c|].
    - eapply tr_expr_correct; eauto.
    - injection Hc as <-. injection Hcv as <-. unfold BoolE. rewrite close_val. apply evals_val. }
  destruct (match cond with Some c => go_expr r1 s1 c | None => Some (LitV (LitBool true)) end) as [cv|] eqn:Ecv; [|exact I].
  specialize (Hcond cv eq_refl).
  destruct cv as [[| | |[]| | | |]| | |]; try exact I.
  2: { split; [apply cells_kept_refl|]. apply loop_exit. exact Hcond. }
  (* the body *)
  pose proof (proj1 (lpostk_none _ _ _ _ _) (Hgo _ _ _ _ _ _ _ _ Hb Hag ltac:(congruence) (kok_none _))) as Hbody.
  (* what happens after a completed body *)
  assert (Hnext : forall s', cells_kept s1 s' -> evals (close (cs_of r1) b') s1 (vbool true) s' ->
            match (match (match post with Some g => match go_simple r1 s' g with Some (_, s'') => Some s'' | None => None end | None => Some s' end) with
                   | Some s'' => lloop n r1 s'' cond post body
                   | None => LErr
                   end) with
            | LNormal _ s2 => cells_kept s1 s2 /\ evals (loop_expr (cs_of r1) c' b' p') s1 vunit s2
            | LRet _ _ | LBrk _ | LCont _ => False
            | LErr | LFuelOut => True
            end).
  { intros s' Hk Hbev.
    assert (Hag' : agree G1 r1 s') by (eapply agree_kept; eauto).
    assert (Hpost : forall s'', (match post with Some g => match go_simple r1 s' g with Some (_, s'') => Some s'' | None => None end | None => Some s' end) = Some s'' ->
                      cells_kept s' s'' /\ exists wp, evals (close (cs_of r1) p') s' wp s'').
    { intros s'' Hs''. destruct post as [g|].
      - destruct (tr_simple G1 g) as [[[[|?] ep] G2]|] eqn:Es; try discriminate. injection Hp as <-.
        destruct (go_simple r1 s' g) as [[r2 s2']|] eqn:Eg; [|discriminate]. injection Hs'' as <-.
        destruct (simple_correct _ _ _ _ _ _ _ _ _ Hag' Es Eg) as (v1 & Hv1 & _ & _ & Hk2). split; [exact Hk2|eauto].
      - injection Hp as <-. injection Hs'' as <-. split; [apply cells_kept_refl|]. exists vunit. rewrite close_skip. apply evals_skip. }
    destruct (match post with Some g => match go_simple r1 s' g with Some (_, s'') => Some s'' | None => None end | None => Some s' end) as [s''|] eqn:Epost; [|exact I].
    destruct (Hpost s'' eq_refl) as [Hk2 (wp & Hwp)].
    assert (Hag'' : agree G1 r1 s'') by (eapply agree_kept; eauto).
    pose proof (Hloop _ _ _ _ _ _ _ _ _ _ Hc Hp Hb Hag'') as Hrec.
    destruct (lloop n r1 s'' cond post body) as [r3 s3| | | | |]; auto.
    destruct Hrec as [Hk3 Hev]. split; [eapply cells_kept_trans; [exact Hk|eapply cells_kept_trans; eauto]|].
    eapply loop_continue; eauto. }
  destruct (lgo n r1 s1 body) as [r2 s2|v s2|s2|s2| |]; cbn [lpost] in Hbody.
  - destruct Hbody as [Hk (w & Hw & _ & Hu)]. rewrite (Hu eq_refl) in Hw. apply Hnext; assumption.
  - destruct Hbody as [Hu _]. discriminate.
  - destruct Hbody as (_ & Hk & Hw). split; [exact Hk|]. eapply loop_break; eauto.
  - destruct Hbody as (_ & Hk & Hw). apply Hnext; assumption.
  - exact I.
  - exact I.
Qed.


(* under local usage no accepted list ends with return, break or continue *)
Lemma local_not_ends : forall tf m G b k e, trl tf G ULocal b k = Some e -> lends m b = false.
Proof.
  induction tf as [|tf IH]; intros m G b k e H; [discriminate|].
  destruct m as [|m]; [reflexivity|].
  destruct b as [|st [|st2 rest]]; [reflexivity| |].
  - (* last statement *)
    cbn [lends llast_stmt]. destruct st as [g|c th [el|]|e0|init cond post body| | |inner]; try reflexivity; cbn [trl] in H; try discriminate.
    destruct (tr_expr G c); [|discriminate]. cbn [llast lblock_of] in H.
    destruct (trl tf G ULocal th None) eqn:Et; [|discriminate]. rewrite (IH _ _ _ _ _ Et). reflexivity.
  - rewrite lends_cons.
    destruct st as [g|c th el|e0|init cond post body| | |inner]; cbn [trl] in H; try discriminate.
    + destruct (tr_simple G g) as [[[x e1] G']|]; [|discriminate].
      destruct (trl tf G' ULocal (LCons st2 rest) k) eqn:Er; [|discriminate]. eapply IH; eauto.
    + destruct (tr_expr G c); [|discriminate]. cbn [llast] in H.
      destruct (lends (lsize th) th).
      * destruct (llast (lblock_of el)); [|discriminate]. destruct (trl tf G ULocal th None); [|discriminate].
        destruct (trl tf G ULocal (LCons st2 rest) None) eqn:Er; [|discriminate]. eapply IH; eauto.
      * destruct (trl tf G ULocal th None); [|discriminate]. destruct (trl tf G ULocal (lblock_of el) None); [|discriminate].
        destruct (trl tf G ULocal (LCons st2 rest) k) eqn:Er; [|discriminate]. eapply IH; eauto.
    + destruct (match cond with Some c => _ | None => _ end); [|discriminate].
      destruct (match post with Some g => _ | None => _ end); [|discriminate].
      destruct (trl tf _ ULoop body None); [|discriminate]. cbn [llast] in H.
      destruct (trl tf G ULocal (LCons st2 rest) k) eqn:Er; [|discriminate]. eapply IH; eauto.
    + destruct (trl tf G ULocal (LCons st2 rest) k) eqn:Er; [|discriminate]. eapply IH; eauto.
Qed.

Lemma names_in_for_init i e1 cond post body : In i (names_stmt (LFor (Some (i, e1)) cond post body)).
Proof. cbn [names_stmt]. left; reflexivity. Qed.

Lemma block_stepk n : Q_lgo n -> Q_lloop n -> Q_lgo (S n).
Proof.
  intros IH IHloop tf G u b k e r s Htr Hag Hku Hkok.
  destruct tf as [|tf]; [discriminate|].
  destruct b as [|st rest].
  - (* empty list *)
    cbn [trl] in Htr. injection Htr as <-. cbn [lgo].
    apply lpostk_then_k with (w := match u with ULoop => vbool true | _ => vunit end).
    + destruct u; cbn [final_of]; unfold UnitE, ContinueE; rewrite close_val; apply evals_val.
    + apply cells_kept_refl.
    + intros _. destruct u; split; intros; congruence.
  - pose proof (kok_cons_rest _ _ _ Hkok) as Hkok_rest.
    destruct st as [g|c th el|e0|init cond post body| | |inner].
    + (* simple statement *)
      cbn [lgo]. destruct rest as [|st2 rest2]; cbn [trl] in Htr.
      * destruct (tr_simple G g) as [[[x e1] G']|] eqn:Es; [|discriminate].
        destruct (go_simple r s g) as [[r1 s1]|] eqn:Eg; [|exact I].
        destruct (simple_correct _ _ _ _ _ _ _ _ _ Hag Es Eg) as (v1 & Hv1 & Hag1 & Hcs & Hk).
        assert (Hfree : forall kr y, k = Some kr -> x = BNamed y -> nofree y kr).
        { intros kr y Hkr Hx. apply (Hkok kr Hkr). cbn [names_block names_stmt]. apply in_or_app. left. eapply simple_binder_name; eauto. }
        rewrite lgo_nil. destruct n; [exact I|].
        destruct (final_of u) as [fin|] eqn:Ef; injection Htr as <-.
        -- rewrite (final_of_local_k _ _ _ Hku Ef) in *. cbn [then_k].
           eapply lpostk_letin; [exact Hv1|exact Hcs|exact Hk|exact Hfree|]. apply lpostk_final, Ef.
        -- destruct u; try discriminate.
           assert (Hx : lpostk ULocal k (then_k e1 k) r s (LNormal r s1)).
           { apply lpostk_then_k with (w := v1); auto. intros _. split; discriminate. }
           cbn [lpostk] in Hx |- *. exact Hx.
      * destruct (tr_simple G g) as [[[x e1] G']|] eqn:Es; [|discriminate].
        destruct (trl tf G' u (LCons st2 rest2) k) as [r'|] eqn:Er; [|discriminate]. injection Htr as <-.
        destruct (go_simple r s g) as [[r1 s1]|] eqn:Eg; [|exact I].
        destruct (simple_correct _ _ _ _ _ _ _ _ _ Hag Es Eg) as (v1 & Hv1 & Hag1 & Hcs & Hk).
        eapply lpostk_letin; [exact Hv1|exact Hcs|exact Hk| |].
        -- intros kr y Hkr Hx. apply (Hkok kr Hkr). cbn [names_block names_stmt]. apply in_or_app. left. eapply simple_binder_name; eauto.
        -- eapply IH; eauto.
    + (* if *)
      assert (Hkth : kok th None) by apply kok_none. assert (Hkel : kok (lblock_of el) None) by apply kok_none.
      cbn [trl] in Htr. destruct (tr_expr G c) as [c'|] eqn:Ec; [|discriminate].
      cbn [lgo]. destruct (go_expr r s c) as [[[| | |cb| | | |]| | |]|] eqn:Gc; try exact I.
      pose proof (tr_expr_correct _ _ _ Hag _ _ _ Ec Gc) as Hc.
      assert (Hnone : forall u0 bb ee, trl tf G u0 bb None = Some ee -> lpost u0 ee r s (lgo n r s bb)).
      { intros u0 bb ee Hee. apply (proj1 (lpostk_none _ _ _ _ _)). eapply IH; eauto; [congruence|apply kok_none]. }
      destruct (llast rest) eqn:Elast.
      * destruct rest; [|discriminate].
        destruct (trl tf G u th None) as [t'|] eqn:Et; [|discriminate].
        destruct (trl tf G u (lblock_of el) None) as [e'|] eqn:Ee; [|discriminate]. injection Htr as <-.
        assert (Hb : lpost u (if cb then t' else e') r s (lgo n r s (if cb then th else lblock_of el)))
          by (destruct cb; apply Hnone; assumption).
        assert (Hif : forall w s', evals (close (cs_of r) (if cb then t' else e')) s w s' -> evals (close (cs_of r) (If c' t' e')) s w s').
        { intros w s' Hw. rewrite close_if. eapply evals_if; [exact Hc|]. destruct cb; exact Hw. }
        destruct (lgo n r s (if cb then th else lblock_of el)) as [r2 s2|v s2|s2|s2| |] eqn:Eo; try exact I; cbn [lpost] in Hb.
        -- rewrite lgo_nil. destruct n; [exact I|]. destruct Hb as [Hk (w & Hw & Hu1 & Hu2)].
           apply lpostk_then_k with (w := w); auto.
        -- destruct Hb as [Hu Hw]. cbn [lpostk]. rewrite (final_of_local_k u k UnitE Hku) by (subst u; reflexivity). cbn [then_k]. auto.
        -- destruct Hb as (Hu & Hk & Hw). cbn [lpostk]. rewrite (final_of_local_k u k ContinueE Hku) by (subst u; reflexivity). cbn [then_k]. auto.
        -- destruct Hb as (Hu & Hk & Hw). cbn [lpostk]. rewrite (final_of_local_k u k ContinueE Hku) by (subst u; reflexivity). cbn [then_k]. auto.
      * destruct (lends (lsize th) th) eqn:Eends.
        -- destruct (llast (lblock_of el)) eqn:Eel; [|discriminate].
           destruct (trl tf G u th None) as [t'|] eqn:Et; [|discriminate].
           destruct (trl tf G u rest None) as [r'|] eqn:Er; [|discriminate]. injection Htr as <-.
           (* the conditional with the remainder inside: under usage u; a continuation can only be there for local usage,
              where th cannot end with return/break/continue *)
           assert (Hb : lpost u (If c' t' r') r s (match lgo n r s (if cb then th else lblock_of el) with LNormal _ s' => lgo n r s' rest | o => o end)).
           { destruct cb.
             - pose proof (Hnone _ _ _ Et) as Hb.
               destruct (lgo n r s th) as [r2 s2|v s2|s2|s2| |] eqn:Eo; try exact I.
               + exfalso. eapply lends_not_normal; eauto.
               + eapply (lpost_if u c' true); [exact Hc|exact Hb].
               + eapply (lpost_if u c' true); [exact Hc|exact Hb].
               + eapply (lpost_if u c' true); [exact Hc|exact Hb].
             - destruct (lblock_of el); [|discriminate]. rewrite lgo_nil. destruct n; [exact I|].
               eapply (lpost_if u c' false); [exact Hc|]. apply Hnone; assumption. }
           destruct k as [kr|]; [|apply (proj2 (lpostk_none _ _ _ _ _)); exact Hb].
           (* k = Some: u = ULocal; then th, translated under ULocal, ending with return/break/continue, is impossible *)
           exfalso. rewrite (Hku ltac:(discriminate)) in *.
           rewrite (local_not_ends _ _ _ _ _ _ Et) in Eends. discriminate.
        -- destruct (trl tf G ULocal th None) as [t'|] eqn:Et; [|discriminate].
           destruct (trl tf G ULocal (lblock_of el) None) as [e'|] eqn:Ee; [|discriminate].
           destruct (trl tf G u rest k) as [r'|] eqn:Er; [|discriminate]. injection Htr as <-.
           assert (Hb : lpost ULocal (if cb then t' else e') r s (lgo n r s (if cb then th else lblock_of el)))
             by (destruct cb; apply Hnone; assumption).
           destruct (lgo n r s (if cb then th else lblock_of el)) as [r2 s2|v s2|s2|s2| |] eqn:Eo; try exact I; cbn [lpost] in Hb.
           ++ destruct Hb as [Hk (w & Hw & _)].
              eapply lpostk_seq; [|exact Hk|].
              ** rewrite close_if. eapply evals_if; [exact Hc|]. destruct cb; exact Hw.
              ** eapply IH; eauto. eapply agree_kept; eauto.
           ++ destruct Hb as [Hu _]. discriminate.
           ++ destruct Hb as [Hu _]. discriminate.
           ++ destruct Hb as [Hu _]. discriminate.
    + (* return *)
      destruct rest; cbn [trl] in Htr; [|discriminate]. destruct u; try discriminate.
      destruct (tr_expr G e0) as [e'|] eqn:Ee; [|discriminate]. injection Htr as <-.
      rewrite (final_of_local_k UReturned k UnitE Hku eq_refl). cbn [then_k].
      cbn [lgo]. destruct (go_expr r s e0) as [v|] eqn:Ge; [|exact I].
      cbn [lpostk]. split; [reflexivity|]. eapply tr_expr_correct; eauto.
    + (* for *)
      cbn [trl] in Htr.
      set (G1 := match init with Some (i, e1) => (i, (true, type_of G e1)) :: G | None => G end) in *.
      destruct (match cond with Some c => tr_expr G1 c | None => Some (BoolE true) end) as [c'|] eqn:Ec; [|discriminate].
      destruct (match post with Some g => match tr_simple G1 g with Some (BAnon, e1, _) => Some e1 | _ => None end | None => Some SkipE end) as [p'|] eqn:Ep; [|discriminate].
      destruct (trl tf G1 ULoop body None) as [b'|] eqn:Eb; [|discriminate].
      set (loop := ForE (Thunk c') (Thunk b') (Thunk p')) in *.
      destruct (if llast rest then match final_of u with Some fin => Some (Some (then_k fin k)) | None => Some k end
                else match trl tf G u rest k with Some r' => Some (Some r') | None => None end) as [aft|] eqn:Eaft; [|discriminate].
      (* what follows the loop, from the state s2 the loop ends in, seen from r *)
      assert (Hafter : forall s2, cells_kept s s2 ->
                match aft with
                | Some a => lpostk u k a r s2 (lgo n r s2 rest)
                | None => k = None /\ u = ULocal /\ rest = LNil
                end).
      { intros s2 Hk2. destruct (llast rest) eqn:El.
        - destruct rest; [|discriminate]. rewrite lgo_nil. destruct (final_of u) as [fin|] eqn:Ef; injection Eaft as <-.
          + rewrite (final_of_local_k _ _ _ Hku Ef). cbn [then_k]. destruct n; [exact I|]. apply lpostk_final, Ef.
          + destruct u; try discriminate. destruct k as [kr|]; [|auto].
            destruct n; [exact I|]. cbn [lpostk normal_k]. split; [apply cells_kept_refl|]. intros wk sk H; exact H.
        - destruct (trl tf G u rest k) as [r'|] eqn:Er; [|discriminate]. injection Eaft as <-.
          eapply IH; eauto. eapply agree_kept; eauto. }
      assert (Hcomb : forall X rr ss s2,
                 (forall a o, aft = Some a -> lpostk u k a r s2 o -> lpostk u k a rr s2 o) ->
                 cells_kept s s2 -> cells_kept ss s2 ->
                 evals (close (cs_of rr) X) ss vunit s2 ->
                 lpostk u k (then_k X aft) rr ss (lgo n r s2 rest)).
      { intros X rr ss s2 Htrans Hk2 Hkss HX. specialize (Hafter s2 Hk2). destruct aft as [a|]; cbn [then_k].
        - eapply lpostk_seq; [exact HX|exact Hkss|]. apply Htrans; auto.
        - destruct Hafter as (-> & -> & ->). rewrite lgo_nil. destruct n; [exact I|].
          apply (lpostk_then_k ULocal None X rr ss vunit s2 HX Hkss). intros _. split; discriminate. }
      cbn [lgo].
      destruct init as [[i e1]|].
      * destruct (tr_expr G e1) as [e1'|] eqn:Ee1; [|discriminate].
        destruct (go_expr r s e1) as [v|] eqn:Ge1; [|exact I].
        destruct (alloc_cell v s) as [bb s1] eqn:Ea.
        assert (Hs1 : s1 = snd (alloc_cell v s)) by (rewrite Ea; reflexivity).
        assert (Hbb : bb = fst (alloc_cell v s)) by (rewrite Ea; reflexivity).
        assert (Hk1 : cells_kept s s1) by (rewrite Hs1; apply alloc_kept).
        assert (Hag1 : agree G1 ((i, Cell bb) :: r) s1).
        { unfold G1. econstructor; [eapply agree_kept; eauto|]. rewrite Hs1, Hbb. apply read_alloc_new. }
        assert (Hcell : evals (close (cs_of r) (RefTo (ty_of (type_of G e1)) e1')) s (LitV (LitLoc bb 0)) s1).
        { unfold RefTo. rewrite close_app, close_val.
          eapply evals_prim1; [reflexivity|reflexivity|eapply tr_expr_correct; eauto|].
          unfold alloc_cell in Ea. injection Ea as <- <-. destruct (type_of G e1); reflexivity. }
        pose proof (IHloop _ _ _ _ _ _ _ _ _ _ Ec Ep Eb Hag1) as Hl.
        destruct (lloop n ((i, Cell bb) :: r) s1 cond post body) as [r3 s2| | | | |]; try (exact I || contradiction).
        destruct Hl as [Hk12 Hlev].
        assert (Hloopev : evals (close (cs_of ((i, Cell bb) :: r)) loop) s1 vunit s2).
        { unfold loop. rewrite close_ForE, !close_thunk. apply evals_ForE. exact Hlev. }
        assert (Hk2 : cells_kept s s2) by (eapply cells_kept_trans; eauto).
        assert (Hik : forall kr, k = Some kr -> nofree i kr).
        { intros kr Hkr. apply (Hkok kr Hkr). cbn [names_block]. apply in_or_app. left. apply names_in_for_init. }
        destruct (negb (llast rest) && shadows G (LFor (Some (i, e1)) cond post body)) eqn:Eparen; injection Htr as <-.
        -- apply (Hcomb (LetIn (BNamed i) (RefTo (ty_of (type_of G e1)) e1') loop) r s s2); auto.
           eapply evals_close_letin; [exact Hcell|]. exact Hloopev.
        -- eapply lpostk_letin with (r1 := (i, Cell bb) :: r); [exact Hcell|reflexivity|exact Hk1| |].
           ++ intros kr y Hkr [= <-]. apply Hik, Hkr.
           ++ apply (Hcomb loop ((i, Cell bb) :: r) s1 s2); auto.
              intros a o Ha Hp. subst aft. apply lpostk_drop_binding; [|exact Hik|exact Hp].
              destruct (llast rest) eqn:El.
              ** destruct (final_of u) as [fin|] eqn:Ef.
                 --- injection Eaft as <-. apply nofree_then_k; [destruct u; try discriminate; injection Ef as <-; apply nofree_val|].
                     destruct k as [kr|]; cbn [knofree]; [apply Hik; reflexivity|exact I].
                 --- injection Eaft as Hka. apply Hik. exact Hka.
              ** destruct (trl tf G u rest k) as [r'|] eqn:Er; [|discriminate]. injection Eaft as <-.
                 cbn [negb andb] in Eparen.
                 eapply trl_nofree; [exact Er| |].
                 --- eapply shadows_false_lookup; [exact Eparen|]. apply names_in_for_init.
                 --- destruct k as [kr|]; cbn [knofree]; [apply Hik; reflexivity|exact I].
      * injection Htr as <-.
        pose proof (IHloop _ _ _ _ _ _ _ _ _ _ Ec Ep Eb Hag) as Hl.
        destruct (lloop n r s cond post body) as [r3 s2| | | | |]; try (exact I || contradiction).
        destruct Hl as [Hk12 Hlev].
        eapply lpostk_seq; [rewrite close_skip; apply evals_skip|apply cells_kept_refl|].
        apply (Hcomb loop r s s2); auto.
        unfold loop. rewrite close_ForE, !close_thunk. apply evals_ForE. exact Hlev.
    + (* break *)
      destruct rest; cbn [trl] in Htr; [|discriminate]. destruct u; try discriminate. injection Htr as <-.
      rewrite (final_of_local_k ULoop k ContinueE Hku eq_refl). cbn [then_k lgo lpostk].
      split; [reflexivity|]. split; [apply cells_kept_refl|]. unfold BreakE. rewrite close_val. apply evals_val.
    + (* continue *)
      destruct rest; cbn [trl] in Htr; [|discriminate]. destruct u; try discriminate. injection Htr as <-.
      rewrite (final_of_local_k ULoop k ContinueE Hku eq_refl). cbn [then_k lgo lpostk].
      split; [reflexivity|]. split; [apply cells_kept_refl|]. unfold ContinueE. rewrite close_val. apply evals_val.
    + (* nested block *)
      assert (Hkok_in : kok inner k).
      { intros kr Hkr y Hy. apply (Hkok kr Hkr). cbn [names_block names_stmt]. apply in_or_app. left; exact Hy. }
      cbn [lgo]. destruct rest as [|st2 rest2]; cbn [trl] in Htr.
      * (* the last statement: the block is printed in place *)
        pose proof (IH _ _ _ _ _ _ r s Htr Hag Hku Hkok_in) as Hb.
        destruct (lgo n r s inner) as [r2 s2|v s2|s2|s2| |] eqn:Eo; try exact I; try exact Hb.
        rewrite lgo_nil. destruct n; [exact I|]. exact Hb.
      * destruct (trl tf G u (LCons st2 rest2) k) as [r'|] eqn:Er; [|discriminate].
        destruct (shadows G (LBlock inner)) eqn:Esh.
        -- (* printed in parentheses *)
           destruct (trl tf G ULocal inner None) as [i'|] eqn:Ei; [|discriminate]. injection Htr as <-.
           pose proof (proj1 (lpostk_none _ _ _ _ _) (IH _ _ _ _ _ _ r s Ei Hag ltac:(congruence) (kok_none _))) as Hb.
           destruct (lgo n r s inner) as [r2 s2|v s2|s2|s2| |] eqn:Eo; try exact I; cbn [lpost] in Hb.
           ++ destruct Hb as [Hk (w & Hw & _)]. eapply lpostk_seq; [exact Hw|exact Hk|].
              eapply IH; eauto. eapply agree_kept; eauto.
           ++ destruct Hb as [Hu _]. discriminate.
           ++ destruct Hb as [Hu _]. discriminate.
           ++ destruct Hb as [Hu _]. discriminate.
        -- (* its bindings extend over the remainder, which does not mention them *)
           assert (Hkok' : kok inner (Some r')).
           { intros kr [= <-] y Hy. eapply trl_nofree; [exact Er| |].
             - eapply shadows_false_lookup; [exact Esh|]. cbn [names_stmt]. exact Hy.
             - destruct k as [kr|]; cbn [knofree]; [|exact I]. apply (Hkok kr eq_refl). cbn [names_block names_stmt]. apply in_or_app. left; exact Hy. }
           pose proof (IH _ _ _ _ _ _ r s Htr Hag ltac:(reflexivity) Hkok') as Hb.
           destruct (lgo n r s inner) as [r2 s2|v s2|s2|s2| |] eqn:Eo; try exact I; cbn [lpostk] in Hb.
           ++ destruct Hb as [Hk Hn]. cbn [normal_k] in Hn.
              assert (Hag2 : agree G r s2) by (eapply agree_kept; eauto).
              pose proof (IH _ _ _ _ _ _ r s2 Er Hag2 Hku Hkok_rest) as Hr.
              destruct (lgo n r s2 (LCons st2 rest2)) as [r3 s3|v s3|s3|s3| |] eqn:Eo2; try exact I; cbn [lpostk] in Hr |- *.
              ** destruct Hr as [Hk2 Hn2]. split; [eapply cells_kept_trans; eauto|].
                 destruct k as [kr|]; cbn [normal_k] in *.
                 --- intros wk sk Hkr. apply Hn, Hn2, Hkr.
                 --- destruct Hn2 as (w & Hw & Hu). exists w. split; [apply Hn, Hw|exact Hu].
              ** destruct Hr as [Hu Hw]. split; [exact Hu|apply Hn, Hw].
              ** destruct Hr as (Hu & Hk2 & Hw). split; [exact Hu|]. split; [eapply cells_kept_trans; eauto|apply Hn, Hw].
              ** destruct Hr as (Hu & Hk2 & Hw). split; [exact Hu|]. split; [eapply cells_kept_trans; eauto|apply Hn, Hw].
           ++ destruct Hb as [Hu _]. discriminate.
           ++ destruct Hb as [Hu _]. discriminate.
           ++ destruct Hb as [Hu _]. discriminate.
Qed.

(* loops, nested blocks, conditionals, early returns: every accepted statement
   list, under every usage, with every continuation spliced after it *)
Theorem trlk_correct : forall n, Q_lgo n /\ Q_lloop n.
Proof.
  induction n as [|n [IH1 IH2]].
  - split; [intros tf G u b k e r s _ _ _ _; exact I|intros tf G1 r1 s1 cond post body c' p' b' _ _ _ _; exact I].
  - split; [apply block_stepk; assumption|apply loop_stepk; assumption].
Qed.

Theorem lbodyk_correct n tf fn e args v s' :
  trl tf (params_env (lf_params fn)) UReturned (lf_body fn) None = Some e ->
  length args = length (lf_params fn) ->
  lgo_call n fn args = LRet v s' ->
  evals (close (cs_of (rev (combine (map fst (lf_params fn)) (map Imm args)))) e) state0 v s'.
Proof.
  intros Htr Hlen Hgo. unfold lgo_call in Hgo.
  pose proof (proj1 (trlk_correct n) tf _ UReturned _ None e _ state0 Htr (agree_params _ _ state0 Hlen) ltac:(congruence) (kok_none _)) as Hp.
  rewrite Hgo in Hp. cbn [lpostk] in Hp. apply Hp.
Qed.