(* machine/filesys: the reference model (FsRef) and a mirror of MemFs (mem.go).
   Directory and file names are natural numbers (the drivers use a pool of
   simple names; only equality of names matters), file contents are lists of
   bytes (Z).  Descriptors are numbered by order of allocation in both models
   and in the drivers (the k-th successful Create/Open yields descriptor k), so
   descriptor identity can be compared although the OS re-uses numbers. *)
From Coq Require Import List ZArith Lia Bool Arith.
Import ListNotations.
Open Scope Z_scope.

Definition bytes := list Z.
Definition path := (nat * nat)%type.              (* directory, name *)

Inductive fop :=
| FMkdir (d : nat)
| FCreate (d n : nat)
| FAppend (fd : nat) (data : bytes)
| FClose (fd : nat)
| FOpen (d n : nat)
| FReadAt (fd : nat) (off len : Z)
| FDelete (d n : nat)
| FLink (od on nd nn : nat)
| FAtomicCreate (d n : nat) (data : bytes)
| FList (d : nat).

Inductive fout :=
| OFd (fd : nat)            (* Create succeeded / Open *)
| ONoFd                     (* Create: name exists (ok = false) *)
| OUnit
| OBytes (b : bytes)
| OBool (b : bool)
| ONames (l : list nat)     (* sorted, as a set *)
| OInvalid.                 (* precondition violated: the implementation may panic / is unspecified *)

(* ---------------------------------------------------------------- association lists *)
Section Assoc.
  Context {K V : Type} (eqb : K -> K -> bool).
  Fixpoint alookup (k : K) (l : list (K * V)) : option V :=
    match l with
    | [] => None
    | (k', v) :: t => if eqb k k' then Some v else alookup k t
    end.
  Fixpoint aremove (k : K) (l : list (K * V)) : list (K * V) :=
    match l with
    | [] => []
    | (k', v) :: t => if eqb k k' then aremove k t else (k', v) :: aremove k t
    end.
  Definition aset (k : K) (v : V) (l : list (K * V)) : list (K * V) := (k, v) :: aremove k l.
End Assoc.

Definition path_eqb (p q : path) : bool := Nat.eqb (fst p) (fst q) && Nat.eqb (snd p) (snd q).

Fixpoint insert_sorted (x : nat) (l : list nat) : list nat :=
  match l with
  | [] => [x]
  | y :: t => if Nat.leb x y then x :: l else y :: insert_sorted x t
  end.
Definition sort_names (l : list nat) : list nat := fold_right insert_sorted [] l.

Definition mem_nat (x : nat) (l : list nat) : bool := existsb (Nat.eqb x) l.

(* ---------------------------------------------------------------- the reference model *)
Record fs := {
  dirs : list nat;
  ents : list (path * nat);            (* (dir, name) -> inode *)
  inos : list (nat * bytes);           (* inode -> contents; never collected *)
  fdt : list (nat * (nat * bool));     (* descriptor -> (inode, append mode?) *)
  nfd : nat;                           (* next descriptor *)
  nino : nat                           (* number of inodes allocated so far; the next one is S nino *)
}.

Definition fs_init : fs := {| dirs := []; ents := []; inos := []; fdt := []; nfd := 0; nino := 0 |}.

Definition names_in (d : nat) (s : fs) : list nat :=
  sort_names (map (fun e => snd (fst e)) (filter (fun e => Nat.eqb (fst (fst e)) d) (ents s))).

Definition data_of (i : nat) (s : fs) : bytes :=
  match alookup Nat.eqb i (inos s) with Some b => b | None => [] end.

Definition read_range (b : bytes) (off len : Z) : bytes :=
  firstn (Z.to_nat len) (skipn (Z.to_nat off) b).

Definition ref_step (s : fs) (o : fop) : fs * fout :=
  match o with
  | FMkdir d =>
      if mem_nat d (dirs s) then (s, OInvalid)
      else ({| dirs := d :: dirs s; ents := ents s; inos := inos s; fdt := fdt s; nfd := nfd s; nino := nino s |}, OUnit)
  | FCreate d n =>
      if negb (mem_nat d (dirs s)) then (s, OInvalid)
      else match alookup path_eqb (d, n) (ents s) with
           | Some _ => (s, ONoFd)
           | None =>
               ({| dirs := dirs s; ents := aset path_eqb (d, n) (S (nino s)) (ents s);
                   inos := aset Nat.eqb (S (nino s)) [] (inos s);
                   fdt := aset Nat.eqb (nfd s) (S (nino s), true) (fdt s);
                   nfd := S (nfd s); nino := S (nino s) |}, OFd (nfd s))
           end
  | FAppend fd data =>
      match alookup Nat.eqb fd (fdt s) with
      | Some (i, true) =>
          ({| dirs := dirs s; ents := ents s; inos := aset Nat.eqb i (data_of i s ++ data) (inos s);
              fdt := fdt s; nfd := nfd s; nino := nino s |}, OUnit)
      | _ => (s, OInvalid)
      end
  | FClose fd =>
      match alookup Nat.eqb fd (fdt s) with
      | Some _ => ({| dirs := dirs s; ents := ents s; inos := inos s; fdt := aremove Nat.eqb fd (fdt s);
                      nfd := nfd s; nino := nino s |}, OUnit)
      | None => (s, OInvalid)
      end
  | FOpen d n =>
      if negb (mem_nat d (dirs s)) then (s, OInvalid)
      else match alookup path_eqb (d, n) (ents s) with
           | Some i => ({| dirs := dirs s; ents := ents s; inos := inos s;
                           fdt := aset Nat.eqb (nfd s) (i, false) (fdt s); nfd := S (nfd s); nino := nino s |},
                        OFd (nfd s))
           | None => (s, OInvalid)
           end
  | FReadAt fd off len =>
      match alookup Nat.eqb fd (fdt s) with
      | Some (i, false) => (s, OBytes (read_range (data_of i s) off len))
      | _ => (s, OInvalid)
      end
  | FDelete d n =>
      match alookup path_eqb (d, n) (ents s) with
      | Some _ => ({| dirs := dirs s; ents := aremove path_eqb (d, n) (ents s); inos := inos s; fdt := fdt s;
                      nfd := nfd s; nino := nino s |}, OUnit)
      | None => (s, OInvalid)
      end
  | FLink od on nd nn =>
      if negb (mem_nat od (dirs s)) || negb (mem_nat nd (dirs s)) then (s, OInvalid)
      else match alookup path_eqb (od, on) (ents s) with
           | None => (s, OInvalid)
           | Some i =>
               match alookup path_eqb (nd, nn) (ents s) with
               | Some _ => (s, OBool false)
               | None => ({| dirs := dirs s; ents := aset path_eqb (nd, nn) i (ents s); inos := inos s;
                             fdt := fdt s; nfd := nfd s; nino := nino s |}, OBool true)
               end
           end
  | FAtomicCreate d n data =>
      if negb (mem_nat d (dirs s)) then (s, OInvalid)
      else ({| dirs := dirs s; ents := aset path_eqb (d, n) (S (nino s)) (ents s);
               inos := aset Nat.eqb (S (nino s)) data (inos s); fdt := fdt s; nfd := nfd s; nino := S (nino s) |}, OUnit)
  | FList d =>
      if negb (mem_nat d (dirs s)) then (s, OInvalid) else (s, ONames (names_in d s))
  end.

(* ---------------------------------------------------------------- mirror of MemFs (mem.go) *)
(* maps as association lists; inode numbers are len(inodes)+1; descriptors come
   from nextFdNum (here shifted to start at 0 like the driver's numbering);
   [None] = the method panicked.  Differences from the reference model, all
   outside valid histories: Mkdir of an existing directory is accepted; Delete
   of a missing file is a no-op and does not check the directory; Link panics
   on a missing source; ReadAt beyond the end returns nil. *)
Record memfs := {
  m_dirs : list nat;
  m_inodes : list (nat * bytes);
  m_dirents : list (path * nat);
  m_open : list (nat * (nat * bool));
  m_nextfd : nat
}.

Definition memfs_init : memfs := {| m_dirs := []; m_inodes := []; m_dirents := []; m_open := []; m_nextfd := 0 |}.

(* len(fs.inodes) + 1: the map never shrinks and keys are distinct *)
Definition m_next_inode (s : memfs) : nat := S (length (m_inodes s)).

Definition m_data (i : nat) (s : memfs) : bytes :=
  match alookup Nat.eqb i (m_inodes s) with Some b => b | None => [] end.

Definition memfs_step (s : memfs) (o : fop) : memfs * fout :=
  match o with
  | FMkdir d =>
      ({| m_dirs := if mem_nat d (m_dirs s) then m_dirs s else d :: m_dirs s; m_inodes := m_inodes s;
          m_dirents := m_dirents s; m_open := m_open s; m_nextfd := m_nextfd s |}, OUnit)
  | FCreate d n =>
      if negb (mem_nat d (m_dirs s)) then (s, OInvalid)
      else match alookup path_eqb (d, n) (m_dirents s) with
           | Some _ => (s, ONoFd)
           | None =>
               let i := m_next_inode s in
               ({| m_dirs := m_dirs s; m_inodes := aset Nat.eqb i [] (m_inodes s);
                   m_dirents := aset path_eqb (d, n) i (m_dirents s);
                   m_open := aset Nat.eqb (m_nextfd s) (i, true) (m_open s);
                   m_nextfd := S (m_nextfd s) |}, OFd (m_nextfd s))
           end
  | FAppend fd data =>
      match alookup Nat.eqb fd (m_open s) with
      | Some (i, true) =>
          ({| m_dirs := m_dirs s; m_inodes := aset Nat.eqb i (m_data i s ++ data) (m_inodes s);
              m_dirents := m_dirents s; m_open := m_open s; m_nextfd := m_nextfd s |}, OUnit)
      | _ => (s, OInvalid)
      end
  | FClose fd =>
      match alookup Nat.eqb fd (m_open s) with
      | Some _ => ({| m_dirs := m_dirs s; m_inodes := m_inodes s; m_dirents := m_dirents s;
                      m_open := aremove Nat.eqb fd (m_open s); m_nextfd := m_nextfd s |}, OUnit)
      | None => (s, OInvalid)
      end
  | FOpen d n =>
      if negb (mem_nat d (m_dirs s)) then (s, OInvalid)
      else match alookup path_eqb (d, n) (m_dirents s) with
           | Some i => ({| m_dirs := m_dirs s; m_inodes := m_inodes s; m_dirents := m_dirents s;
                           m_open := aset Nat.eqb (m_nextfd s) (i, false) (m_open s);
                           m_nextfd := S (m_nextfd s) |}, OFd (m_nextfd s))
           | None => (s, OInvalid)
           end
  | FReadAt fd off len =>
      match alookup Nat.eqb fd (m_open s) with
      | Some (i, false) =>
          let data := m_data i s in
          if Z.of_nat (length data) <=? off then (s, OBytes [])
          else (s, OBytes (firstn (Z.to_nat len) (skipn (Z.to_nat off) data)))   (* copy(p, data[offset:]); p[:n] *)
      | _ => (s, OInvalid)
      end
  | FDelete d n =>
      ({| m_dirs := m_dirs s; m_inodes := m_inodes s; m_dirents := aremove path_eqb (d, n) (m_dirents s);
          m_open := m_open s; m_nextfd := m_nextfd s |}, OUnit)
  | FLink od on nd nn =>
      if negb (mem_nat od (m_dirs s)) || negb (mem_nat nd (m_dirs s)) then (s, OInvalid)
      else match alookup path_eqb (od, on) (m_dirents s) with
           | None => (s, OInvalid)
           | Some i =>
               match alookup path_eqb (nd, nn) (m_dirents s) with
               | Some _ => (s, OBool false)
               | None => ({| m_dirs := m_dirs s; m_inodes := m_inodes s;
                             m_dirents := aset path_eqb (nd, nn) i (m_dirents s);
                             m_open := m_open s; m_nextfd := m_nextfd s |}, OBool true)
               end
           end
  | FAtomicCreate d n data =>
      if negb (mem_nat d (m_dirs s)) then (s, OInvalid)
      else let i := m_next_inode s in
           ({| m_dirs := m_dirs s; m_inodes := aset Nat.eqb i data (m_inodes s);
               m_dirents := aset path_eqb (d, n) i (m_dirents s); m_open := m_open s; m_nextfd := m_nextfd s |}, OUnit)
  | FList d =>
      if negb (mem_nat d (m_dirs s)) then (s, OInvalid)
      else (s, ONames (sort_names (map (fun e => snd (fst e))
                                       (filter (fun e => Nat.eqb (fst (fst e)) d) (m_dirents s)))))
  end.

(* ---------------------------------------------------------------- running histories *)
Section Run.
  Context {S : Type} (step : S -> fop -> S * fout).
  Fixpoint frun (s : S) (h : list fop) : S * list fout :=
    match h with
    | [] => (s, [])
    | o :: h' => let '(s', r) := step s o in
                 let '(s'', rs) := frun s' h' in (s'', r :: rs)
    end.
  Definition fouts (s : S) (h : list fop) : list fout := snd (frun s h).
End Run.

(* a history is valid when the reference model never answers OInvalid *)
Definition valid_history (h : list fop) : Prop := ~ In OInvalid (fouts ref_step fs_init h).
