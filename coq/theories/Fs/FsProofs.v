From Coq Require Import List ZArith Lia Bool Arith.
From GV Require Import Fs.Fs.
Import ListNotations.
Open Scope Z_scope.

(* ---------------------------------------------------------------- association-list facts *)
Section AssocFacts.
  Context {K V : Type} (eqb : K -> K -> bool).
  Hypothesis eqb_spec : forall a b, eqb a b = true <-> a = b.

  Lemma eqb_refl' a : eqb a a = true.
  Proof. now apply eqb_spec. Qed.
  Lemma eqb_neq a b : a <> b -> eqb a b = false.
  Proof. intros H. destruct (eqb a b) eqn:E; [apply eqb_spec in E; contradiction|reflexivity]. Qed.

  Lemma alookup_aremove_same k (l : list (K * V)) : alookup eqb k (aremove eqb k l) = None.
  Proof.
    induction l as [|[k' v] t IH]; [reflexivity|]. cbn [aremove].
    destruct (eqb k k') eqn:E; [exact IH|]. cbn [alookup]. now rewrite E.
  Qed.

  Lemma alookup_aremove_other k k' (l : list (K * V)) : k' <> k ->
    alookup eqb k' (aremove eqb k l) = alookup eqb k' l.
  Proof.
    intros Hne. induction l as [|[k'' v] t IH]; [reflexivity|]. cbn [aremove alookup].
    destruct (eqb k k'') eqn:E.
    - apply eqb_spec in E. subst k''. rewrite (eqb_neq k' k Hne). exact IH.
    - cbn [alookup]. destruct (eqb k' k''); [reflexivity|exact IH].
  Qed.

  Lemma alookup_aset_same k v (l : list (K * V)) : alookup eqb k (aset eqb k v l) = Some v.
  Proof. unfold aset. cbn [alookup]. now rewrite eqb_refl'. Qed.

  Lemma alookup_aset_other k k' v (l : list (K * V)) : k' <> k ->
    alookup eqb k' (aset eqb k v l) = alookup eqb k' l.
  Proof.
    intros Hne. unfold aset. cbn [alookup]. rewrite (eqb_neq k' k Hne).
    now apply alookup_aremove_other.
  Qed.

  Lemma alookup_In k v (l : list (K * V)) : alookup eqb k l = Some v -> In (k, v) l.
  Proof.
    induction l as [|[k' v'] t IH]; [discriminate|]. cbn [alookup].
    destruct (eqb k k') eqn:E.
    - apply eqb_spec in E. intros H; injection H as <-. subst. now left.
    - intros H. right. now apply IH.
  Qed.

  Lemma alookup_None_notin k (l : list (K * V)) : alookup eqb k l = None -> ~ In k (map fst l).
  Proof.
    induction l as [|[k' v'] t IH]; [intros _ []|]. cbn [alookup map fst].
    destruct (eqb k k') eqn:E; [discriminate|]. intros H [Hk|Hin].
    - subst k'. rewrite eqb_refl' in E. discriminate.
    - now apply IH.
  Qed.

  Lemma notin_alookup_None k (l : list (K * V)) : ~ In k (map fst l) -> alookup eqb k l = None.
  Proof.
    induction l as [|[k' v'] t IH]; [reflexivity|]. cbn [alookup map fst]. intros H.
    destruct (eqb k k') eqn:E.
    - apply eqb_spec in E. subst. exfalso. apply H. now left.
    - apply IH. intros Hin. apply H. now right.
  Qed.

  Lemma aremove_notin k (l : list (K * V)) : ~ In k (map fst l) -> aremove eqb k l = l.
  Proof.
    induction l as [|[k' v'] t IH]; [reflexivity|]. cbn [aremove map fst]. intros H.
    rewrite eqb_neq by (intros ->; apply H; now left). f_equal. apply IH. intros Hin. apply H. now right.
  Qed.

  Lemma keys_aremove k (l : list (K * V)) : forall x, In x (map fst (aremove eqb k l)) <-> (In x (map fst l) /\ x <> k).
  Proof.
    induction l as [|[k' v'] t IH]; intros x; [cbn; tauto|]. cbn [aremove].
    destruct (eqb k k') eqn:E.
    - apply eqb_spec in E. subst k'. rewrite IH. cbn [map fst]. split.
      + intros [H1 H2]. split; auto. now right.
      + intros [[H1|H1] H2]; [congruence|auto].
    - cbn [map fst]. cbn [In]. rewrite IH. split.
      + intros [->|[H1 H2]]; [split; [now left|]|split; [now right|exact H2]].
        intros ->. rewrite eqb_refl' in E. discriminate.
      + intros [[H1|H1] H2]; auto.
  Qed.

  Lemma NoDup_keys_aremove k (l : list (K * V)) : NoDup (map fst l) -> NoDup (map fst (aremove eqb k l)).
  Proof.
    induction l as [|[k' v'] t IH]; intros H; [constructor|]. cbn [aremove].
    inversion H as [|? ? Hn Ht]; subst.
    destruct (eqb k k'); [now apply IH|]. cbn [map fst]. constructor; [|now apply IH].
    rewrite keys_aremove. tauto.
  Qed.

  Lemma NoDup_keys_aset k v (l : list (K * V)) : NoDup (map fst l) -> NoDup (map fst (aset eqb k v l)).
  Proof.
    intros H. unfold aset. cbn [map fst]. constructor; [|now apply NoDup_keys_aremove].
    rewrite keys_aremove. tauto.
  Qed.

  Lemma length_aset_fresh k v (l : list (K * V)) : ~ In k (map fst l) -> length (aset eqb k v l) = S (length l).
  Proof. intros H. unfold aset. cbn [length]. now rewrite aremove_notin. Qed.

  Lemma length_aremove_present k (l : list (K * V)) : NoDup (map fst l) -> In k (map fst l) ->
    S (length (aremove eqb k l)) = length l.
  Proof.
    induction l as [|[k' v'] t IH]; intros Hnd Hin; [destruct Hin|]. cbn [aremove].
    inversion Hnd as [|? ? Hn Ht]; subst. cbn [map fst] in Hin.
    destruct (eqb k k') eqn:E.
    - apply eqb_spec in E. subst k'. rewrite aremove_notin by exact Hn. reflexivity.
    - destruct Hin as [->|Hin]; [rewrite eqb_refl' in E; discriminate|].
      cbn [length]. f_equal. now apply IH.
  Qed.

  Lemma length_aset_present k v (l : list (K * V)) : NoDup (map fst l) -> In k (map fst l) ->
    length (aset eqb k v l) = length l.
  Proof. intros Hnd Hin. unfold aset. cbn [length]. now apply length_aremove_present. Qed.
End AssocFacts.

Lemma nat_eqb_spec a b : Nat.eqb a b = true <-> a = b.
Proof. apply Nat.eqb_eq. Qed.

Lemma path_eqb_spec (p q : path) : path_eqb p q = true <-> p = q.
Proof.
  destruct p as [a b], q as [c d]. unfold path_eqb; cbn [fst snd]. rewrite andb_true_iff, !Nat.eqb_eq.
  split; [intros [-> ->]; reflexivity|intros H; injection H; auto].
Qed.

Lemma mem_nat_In x l : mem_nat x l = true <-> In x l.
Proof.
  unfold mem_nat. rewrite existsb_exists. split.
  - intros (y & Hy & E). apply Nat.eqb_eq in E. now subst.
  - intros H. exists x. split; [exact H|apply Nat.eqb_refl].
Qed.

(* ---------------------------------------------------------------- sorting = a set *)
Lemma In_insert_sorted x y l : In y (insert_sorted x l) <-> y = x \/ In y l.
Proof.
  induction l as [|z t IH]; cbn [insert_sorted]; [cbn; intuition|].
  destruct (Nat.leb x z); cbn [In]; [intuition|]. rewrite IH. intuition.
Qed.

Lemma In_sort_names y l : In y (sort_names l) <-> In y l.
Proof.
  induction l as [|x t IH]; [reflexivity|]. cbn [sort_names fold_right].
  fold (sort_names t). rewrite In_insert_sorted, IH. cbn [In]. intuition.
Qed.

(* ---------------------------------------------------------------- ReadAt *)
Lemma read_range_length b off len : 0 <= off -> 0 <= len ->
  length (read_range b off len) = Nat.min (Z.to_nat len) (length b - Z.to_nat off).
Proof. intros _ _. unfold read_range. now rewrite firstn_length, skipn_length. Qed.

Lemma read_range_nth b off len i d : (i < length (read_range b off len))%nat ->
  nth i (read_range b off len) d = nth (Z.to_nat off + i) b d.
Proof.
  unfold read_range. intros Hi. rewrite firstn_length, skipn_length in Hi.
  rewrite <- (firstn_skipn (Z.to_nat len) (skipn (Z.to_nat off) b)) at 2 || idtac.
  assert (E : nth i (firstn (Z.to_nat len) (skipn (Z.to_nat off) b)) d = nth i (skipn (Z.to_nat off) b) d).
  { rewrite <- (firstn_skipn (Z.to_nat len) (skipn (Z.to_nat off) b)) at 2.
    rewrite app_nth1; [reflexivity|]. rewrite firstn_length, skipn_length. lia. }
  rewrite E. clear E.
  rewrite <- (firstn_skipn (Z.to_nat off) b) at 2.
  rewrite app_nth2 by (rewrite firstn_length; lia).
  rewrite firstn_length. f_equal. lia.
Qed.

(* ---------------------------------------------------------------- invariants of the reference model *)
Definition ref_inv (s : fs) : Prop :=
  NoDup (map fst (ents s)) /\ NoDup (map fst (inos s)) /\ NoDup (map fst (fdt s)) /\
  (forall fd, In fd (map fst (fdt s)) -> (fd < nfd s)%nat) /\
  (forall i, In i (map fst (inos s)) -> (1 <= i <= nino s)%nat) /\
  length (inos s) = nino s /\
  (forall p i, In (p, i) (ents s) -> In i (map fst (inos s))) /\
  (forall fd i m, In (fd, (i, m)) (fdt s) -> In i (map fst (inos s))).

Lemma ref_inv_init : ref_inv fs_init.
Proof. unfold ref_inv, fs_init; cbn. repeat split; try constructor; intros; try contradiction; lia. Qed.

Ltac inv_keys :=
  repeat match goal with
  | |- NoDup (map fst (aset _ _ _ _)) => apply NoDup_keys_aset; [first [exact path_eqb_spec|exact nat_eqb_spec]|]
  | |- NoDup (map fst (aremove _ _ _)) => apply NoDup_keys_aremove; [first [exact path_eqb_spec|exact nat_eqb_spec]|]
  end; try assumption.

Lemma In_aset_inv {K V} (eqb : K -> K -> bool) (Hs : forall a b, eqb a b = true <-> a = b) k v (l : list (K * V)) k' v' :
  In (k', v') (aset eqb k v l) -> (k' = k /\ v' = v) \/ In (k', v') l.
Proof.
  unfold aset. intros [H|H]; [injection H as <- <-; now left|right].
  induction l as [|[k'' v''] t IH]; [destruct H|]. cbn [aremove] in H.
  destruct (eqb k k''); [right; now apply IH|]. destruct H as [H|H]; [now left|right; now apply IH].
Qed.

Lemma In_aremove_inv {K V} (eqb : K -> K -> bool) k (l : list (K * V)) x : In x (aremove eqb k l) -> In x l.
Proof.
  induction l as [|[k'' v''] t IH]; [intros []|]. cbn [aremove].
  destruct (eqb k k''); [intros H; right; now apply IH|]. intros [H|H]; [now left|right; now apply IH].
Qed.

Lemma In_keys {K V} (l : list (K * V)) k v : In (k, v) l -> In k (map fst l).
Proof. intros H. apply (in_map fst) in H. exact H. Qed.

Ltac isplit := repeat apply conj.
Ltac same_inv := unfold ref_inv; cbn [ents inos fdt nfd nino]; isplit; assumption.

Lemma keys_aset_fresh_bound (l : list (nat * bytes)) k v b x :
  (forall i, In i (map fst l) -> (1 <= i <= b)%nat) -> k = S b ->
  In x (map fst (aset Nat.eqb k v l)) -> (1 <= x <= S b)%nat.
Proof.
  intros Hb -> H. cbn [aset map fst In] in H. destruct H as [<-|H]; [lia|].
  apply (keys_aremove Nat.eqb nat_eqb_spec) in H. destruct H as [H _]. apply Hb in H. lia.
Qed.

Lemma ref_step_inv s o : ref_inv s -> ref_inv (fst (ref_step s o)).
Proof.
  intros (He & Hi & Hf & Hfd & Hib & Hlen & Hei & Hfi).
  assert (Hfresh : ~ In (S (nino s)) (map fst (inos s))) by (intros H; apply Hib in H; lia).
  assert (Hfdfresh : ~ In (nfd s) (map fst (fdt s))) by (intros H; apply Hfd in H; lia).
  assert (Hnewfd : forall v x, In x (map fst (aset Nat.eqb (nfd s) v (fdt s))) -> (x < S (nfd s))%nat).
  { intros v x H. cbn [aset map fst In] in H. destruct H as [<-|H]; [lia|].
    apply (keys_aremove Nat.eqb nat_eqb_spec) in H. destruct H as [H _]. apply Hfd in H. lia. }
  destruct o as [d|d n|fd data|fd|d n|fd off len|d n|od on nd nn|d n data|d]; cbn [ref_step].
  - destruct (mem_nat d (dirs s)); cbn [fst]; same_inv.
  - destruct (negb (mem_nat d (dirs s))); [cbn [fst]; same_inv|].
    destruct (alookup path_eqb (d, n) (ents s)); cbn [fst]; [same_inv|].
    unfold ref_inv; cbn [ents inos fdt nfd nino]. isplit; inv_keys.
    + apply Hnewfd.
    + intros x H. eapply keys_aset_fresh_bound; eauto.
    + rewrite (length_aset_fresh Nat.eqb nat_eqb_spec) by exact Hfresh. now rewrite Hlen.
    + intros p i H. apply (In_aset_inv path_eqb path_eqb_spec) in H. cbn [aset map fst In].
      destruct H as [[_ ->]|H]; [now left|right].
      rewrite (aremove_notin Nat.eqb nat_eqb_spec) by exact Hfresh. eapply Hei; eauto.
    + intros fd i m H. apply (In_aset_inv Nat.eqb nat_eqb_spec) in H. cbn [aset map fst In].
      destruct H as [[_ E]|H]; [injection E as -> _; now left|right].
      rewrite (aremove_notin Nat.eqb nat_eqb_spec) by exact Hfresh. eapply Hfi; eauto.
  - destruct (alookup Nat.eqb fd (fdt s)) as [[i [|]]|] eqn:E; cbn [fst]; try same_inv.
    assert (Hin : In i (map fst (inos s))) by (eapply Hfi; eapply alookup_In; [exact nat_eqb_spec|exact E]).
    assert (Hkeys : forall x, In x (map fst (aset Nat.eqb i (data_of i s ++ data) (inos s))) <-> In x (map fst (inos s))).
    { intros x. cbn [aset map fst In]. rewrite (keys_aremove Nat.eqb nat_eqb_spec). split.
      - intros [<-|[H _]]; auto.
      - intros H. destruct (Nat.eq_dec x i) as [->|Hne]; [now left|right; auto]. }
    unfold ref_inv; cbn [ents inos fdt nfd nino]. isplit; inv_keys.
    + intros x H. apply Hkeys in H. now apply Hib.
    + rewrite (length_aset_present Nat.eqb nat_eqb_spec) by assumption. exact Hlen.
    + intros p j H. apply Hkeys. eapply Hei; eauto.
    + intros fd' j m H. apply Hkeys. eapply Hfi; eauto.
  - destruct (alookup Nat.eqb fd (fdt s)) eqn:E; cbn [fst]; [|same_inv].
    unfold ref_inv; cbn [ents inos fdt nfd nino]. isplit; inv_keys.
    + intros x H. apply (keys_aremove Nat.eqb nat_eqb_spec) in H. destruct H as [H _]. now apply Hfd.
    + intros fd' j m H. apply In_aremove_inv in H. eapply Hfi; eauto.
  - destruct (negb (mem_nat d (dirs s))); [cbn [fst]; same_inv|].
    destruct (alookup path_eqb (d, n) (ents s)) as [i|] eqn:E; cbn [fst]; [|same_inv].
    assert (Hin : In i (map fst (inos s))) by (eapply Hei; eapply alookup_In; [exact path_eqb_spec|exact E]).
    unfold ref_inv; cbn [ents inos fdt nfd nino]. isplit; inv_keys.
    + apply Hnewfd.
    + intros fd' j m H. apply (In_aset_inv Nat.eqb nat_eqb_spec) in H.
      destruct H as [[_ E']|H]; [injection E' as -> _; exact Hin|eapply Hfi; eauto].
  - destruct (alookup Nat.eqb fd (fdt s)) as [[i [|]]|]; cbn [fst]; same_inv.
  - destruct (alookup path_eqb (d, n) (ents s)); cbn [fst]; [|same_inv].
    unfold ref_inv; cbn [ents inos fdt nfd nino]. isplit; inv_keys.
    intros p j H. apply In_aremove_inv in H. eapply Hei; eauto.
  - destruct (negb (mem_nat od (dirs s)) || negb (mem_nat nd (dirs s))); [cbn [fst]; same_inv|].
    destruct (alookup path_eqb (od, on) (ents s)) as [i|] eqn:E; cbn [fst]; [|same_inv].
    destruct (alookup path_eqb (nd, nn) (ents s)); cbn [fst]; [same_inv|].
    assert (Hin : In i (map fst (inos s))) by (eapply Hei; eapply alookup_In; [exact path_eqb_spec|exact E]).
    unfold ref_inv; cbn [ents inos fdt nfd nino]. isplit; inv_keys.
    intros p j H. apply (In_aset_inv path_eqb path_eqb_spec) in H.
    destruct H as [[_ ->]|H]; [exact Hin|eapply Hei; eauto].
  - destruct (negb (mem_nat d (dirs s))); [cbn [fst]; same_inv|]. cbn [fst].
    unfold ref_inv; cbn [ents inos fdt nfd nino]. isplit; inv_keys.
    + intros x H. eapply keys_aset_fresh_bound; eauto.
    + rewrite (length_aset_fresh Nat.eqb nat_eqb_spec) by exact Hfresh. now rewrite Hlen.
    + intros p i H. apply (In_aset_inv path_eqb path_eqb_spec) in H. cbn [aset map fst In].
      destruct H as [[_ ->]|H]; [now left|right].
      rewrite (aremove_notin Nat.eqb nat_eqb_spec) by exact Hfresh. eapply Hei; eauto.
    + intros fd i m H. cbn [aset map fst In]. right.
      rewrite (aremove_notin Nat.eqb nat_eqb_spec) by exact Hfresh. eapply Hfi; eauto.
  - destruct (negb (mem_nat d (dirs s))); cbn [fst]; same_inv.
Qed.

(* ---------------------------------------------------------------- MemFs refines the reference model on valid histories *)
Definition Rmemfs (m : memfs) (s : fs) : Prop :=
  m_dirs m = dirs s /\ m_inodes m = inos s /\ m_dirents m = ents s /\ m_open m = fdt s /\ m_nextfd m = nfd s.

Lemma Rmemfs_init : Rmemfs memfs_init fs_init.
Proof. repeat split. Qed.

Lemma read_at_mem_eq data off len :
  (if Z.of_nat (length data) <=? off then [] else firstn (Z.to_nat len) (skipn (Z.to_nat off) data))
  = read_range data off len.
Proof.
  unfold read_range. destruct (Z.leb_spec (Z.of_nat (length data)) off) as [H|H]; [|reflexivity].
  rewrite skipn_all2 by lia. now rewrite firstn_nil.
Qed.

Ltac fin_sim :=
  cbn [fst snd]; split; [reflexivity|];
  unfold Rmemfs; cbn [m_dirs m_inodes m_dirents m_open m_nextfd dirs inos ents fdt nfd];
  repeat split; congruence.

Lemma memfs_sim m s o : Rmemfs m s -> ref_inv s -> snd (ref_step s o) <> OInvalid ->
  snd (memfs_step m o) = snd (ref_step s o) /\ Rmemfs (fst (memfs_step m o)) (fst (ref_step s o)).
Proof.
  intros (Hd & Hi & He & Ho & Hn) Hinv Hvalid.
  destruct Hinv as (_ & _ & _ & _ & _ & Hlen & _ & _).
  assert (Hni : m_next_inode m = S (nino s)) by (unfold m_next_inode; now rewrite Hi, Hlen).
  assert (Hdata : forall i, m_data i m = data_of i s) by (intros i; unfold m_data, data_of; now rewrite Hi).
  destruct o as [d|d n|fd data|fd|d n|fd off len|d n|od on nd nn|d n data|d];
    cbn [ref_step memfs_step] in *; rewrite ?Hd, ?He, ?Ho, ?Hn, ?Hni, ?Hdata in *.
  - destruct (mem_nat d (dirs s)); cbn [fst snd] in *; [contradiction Hvalid; reflexivity|]. fin_sim.
  - destruct (negb (mem_nat d (dirs s))); [fin_sim|].
    destruct (alookup path_eqb (d, n) (ents s)); fin_sim.
  - destruct (alookup Nat.eqb fd (fdt s)) as [[i [|]]|]; rewrite ?Hdata; fin_sim.
  - destruct (alookup Nat.eqb fd (fdt s)); fin_sim.
  - destruct (negb (mem_nat d (dirs s))); [fin_sim|].
    destruct (alookup path_eqb (d, n) (ents s)); fin_sim.
  - destruct (alookup Nat.eqb fd (fdt s)) as [[i [|]]|]; try fin_sim.
    cbv zeta. rewrite Hdata. rewrite <- (read_at_mem_eq (data_of i s) off len).
    destruct (Z.of_nat (length (data_of i s)) <=? off); fin_sim.
  - destruct (alookup path_eqb (d, n) (ents s)); cbn [fst snd] in *; [|contradiction Hvalid; reflexivity]. fin_sim.
  - destruct (negb (mem_nat od (dirs s)) || negb (mem_nat nd (dirs s))); [fin_sim|].
    destruct (alookup path_eqb (od, on) (ents s)); [|fin_sim].
    destruct (alookup path_eqb (nd, nn) (ents s)); fin_sim.
  - destruct (negb (mem_nat d (dirs s))); fin_sim.
  - destruct (negb (mem_nat d (dirs s))); fin_sim.
Qed.

Lemma fouts_cons {S} (step : S -> fop -> S * fout) s o h :
  fouts step s (o :: h) = snd (step s o) :: fouts step (fst (step s o)) h.
Proof.
  unfold fouts. cbn [frun]. destruct (step s o) as [s' r]. cbn [fst snd].
  destruct (frun step s' h). reflexivity.
Qed.

Theorem memfs_refines_gen h : forall m s, Rmemfs m s -> ref_inv s ->
  ~ In OInvalid (fouts ref_step s h) -> fouts memfs_step m h = fouts ref_step s h.
Proof.
  induction h as [|o h IH]; intros m s HR Hinv Hv; [reflexivity|].
  rewrite !fouts_cons in *.
  assert (Hv1 : snd (ref_step s o) <> OInvalid) by (intros E; apply Hv; left; now rewrite E).
  destruct (memfs_sim m s o HR Hinv Hv1) as [E HR'].
  rewrite E. f_equal. apply IH; auto.
  - now apply ref_step_inv.
  - intros Hin. apply Hv. now right.
Qed.

Theorem memfs_refines h : valid_history h -> fouts memfs_step memfs_init h = fouts ref_step fs_init h.
Proof. intros Hv. apply memfs_refines_gen; auto using Rmemfs_init, ref_inv_init. Qed.

(* ---------------------------------------------------------------- properties of the reference model *)
Lemma ref_run_inv h : forall s, ref_inv s -> ref_inv (fst (frun ref_step s h)).
Proof.
  induction h as [|o h IH]; intros s Hs; [exact Hs|]. cbn [frun].
  pose proof (ref_step_inv s o Hs) as H1. destruct (ref_step s o) as [s' r]. cbn [fst] in H1.
  specialize (IH s' H1). destruct (frun ref_step s' h). exact IH.
Qed.

(* every Create/Open yields a fresh, independent descriptor *)
Theorem ref_fresh_descriptor s o fd : ref_inv s -> snd (ref_step s o) = OFd fd ->
  alookup Nat.eqb fd (fdt s) = None /\ fd = nfd s /\ nfd (fst (ref_step s o)) = S fd /\
  (forall fd', fd' <> fd -> alookup Nat.eqb fd' (fdt (fst (ref_step s o))) = alookup Nat.eqb fd' (fdt s)).
Proof.
  intros (_ & _ & _ & Hfd & _) H.
  assert (Hnone : alookup Nat.eqb (nfd s) (fdt s) = None).
  { apply (notin_alookup_None Nat.eqb nat_eqb_spec). intros Hin. apply Hfd in Hin. lia. }
  destruct o as [d|d n|fd0 data|fd0|d n|fd0 off len|d n|od on nd nn|d n data|d]; cbn [ref_step] in *;
    repeat match type of H with context [if ?c then _ else _] => destruct c end;
    repeat match type of H with context [match ?c with _ => _ end] => destruct c eqn:? end;
    cbn [snd fst] in *; try discriminate; injection H as <-; cbn [fdt nfd];
    (split; [exact Hnone|split; [reflexivity|split; [reflexivity|]]]);
    intros fd' Hne; apply (alookup_aset_other Nat.eqb nat_eqb_spec); exact Hne.
Qed.

(* closing one descriptor leaves every other descriptor as it was *)
Theorem ref_close_independent s fd fd' : fd' <> fd ->
  alookup Nat.eqb fd' (fdt (fst (ref_step s (FClose fd)))) = alookup Nat.eqb fd' (fdt s).
Proof.
  intros Hne. cbn [ref_step]. destruct (alookup Nat.eqb fd (fdt s)); cbn [fst fdt]; [|reflexivity].
  now apply (alookup_aremove_other Nat.eqb nat_eqb_spec).
Qed.

(* Create fails iff the name exists (in a valid directory), and then changes nothing *)
Theorem ref_create_fails_iff s d n :
  snd (ref_step s (FCreate d n)) = ONoFd <->
  (mem_nat d (dirs s) = true /\ exists i, alookup path_eqb (d, n) (ents s) = Some i).
Proof.
  cbn [ref_step]. destruct (mem_nat d (dirs s)); cbn [negb].
  - destruct (alookup path_eqb (d, n) (ents s)) as [i|]; cbn [snd]; split.
    + intros _. split; eauto.
    + reflexivity.
    + discriminate.
    + intros [_ [i H]]. discriminate.
  - cbn [snd]. split; [discriminate|intros [H _]; discriminate].
Qed.

Theorem ref_create_fail_no_side_effect s d n :
  snd (ref_step s (FCreate d n)) = ONoFd -> fst (ref_step s (FCreate d n)) = s.
Proof.
  cbn [ref_step]. destruct (negb (mem_nat d (dirs s))); [reflexivity|].
  destruct (alookup path_eqb (d, n) (ents s)); cbn [fst snd]; [reflexivity|discriminate].
Qed.

(* hard links share contents: after a successful Link both names denote the same inode *)
Theorem ref_link_shares s od on nd nn :
  snd (ref_step s (FLink od on nd nn)) = OBool true ->
  let s' := fst (ref_step s (FLink od on nd nn)) in
  exists i, alookup path_eqb (od, on) (ents s') = Some i /\ alookup path_eqb (nd, nn) (ents s') = Some i.
Proof.
  cbn [ref_step]. destruct (negb (mem_nat od (dirs s)) || negb (mem_nat nd (dirs s))); [discriminate|].
  destruct (alookup path_eqb (od, on) (ents s)) as [i|] eqn:E1; [|discriminate].
  destruct (alookup path_eqb (nd, nn) (ents s)) eqn:E2; cbn [fst snd]; [discriminate|].
  intros _. exists i. cbn [ents]. split.
  - rewrite (alookup_aset_other path_eqb path_eqb_spec); [exact E1|]. intros Heq. rewrite Heq in E1. congruence.
  - apply (alookup_aset_same path_eqb path_eqb_spec).
Qed.

(* contents are per inode: appending through any descriptor of the inode is seen through every other *)
Theorem ref_read_sees_appends s fd i data fd' off len :
  alookup Nat.eqb fd (fdt s) = Some (i, true) -> alookup Nat.eqb fd' (fdt s) = Some (i, false) ->
  snd (ref_step (fst (ref_step s (FAppend fd data))) (FReadAt fd' off len)) =
  OBytes (read_range (data_of i s ++ data) off len).
Proof.
  intros H1 H2. cbn [ref_step]. rewrite H1. cbn [fst fdt]. rewrite H2. cbn [snd]. f_equal. f_equal.
  unfold data_of at 1. cbn [inos]. now rewrite (alookup_aset_same Nat.eqb nat_eqb_spec).
Qed.

(* a deleted file stays readable through open descriptors: Delete touches neither inodes nor descriptors *)
Theorem ref_delete_keeps_open_files s d n :
  inos (fst (ref_step s (FDelete d n))) = inos s /\ fdt (fst (ref_step s (FDelete d n))) = fdt s.
Proof. cbn [ref_step]. destruct (alookup path_eqb (d, n) (ents s)); cbn [fst]; split; reflexivity. Qed.

(* ReadAt returns exactly the bytes of [off, off+len) that exist *)
Theorem ref_readat_spec s fd i off len : alookup Nat.eqb fd (fdt s) = Some (i, false) -> 0 <= off -> 0 <= len ->
  exists b, snd (ref_step s (FReadAt fd off len)) = OBytes b /\
            length b = Nat.min (Z.to_nat len) (length (data_of i s) - Z.to_nat off) /\
            forall k d, (k < length b)%nat -> nth k b d = nth (Z.to_nat off + k) (data_of i s) d.
Proof.
  intros H Ho Hl. cbn [ref_step]. rewrite H. cbn [snd]. eexists. split; [reflexivity|]. split.
  - now apply read_range_length.
  - intros k d Hk. now apply read_range_nth.
Qed.

(* List returns exactly the set of names in that directory *)
Theorem ref_list_spec s d n : mem_nat d (dirs s) = true ->
  exists l, snd (ref_step s (FList d)) = ONames l /\
            (In n l <-> exists i, alookup path_eqb (d, n) (ents s) = Some i).
Proof.
  intros Hd. cbn [ref_step]. rewrite Hd. cbn [negb snd]. eexists. split; [reflexivity|].
  unfold names_in. rewrite In_sort_names, in_map_iff. split.
  - intros ([[d' n'] i] & E & Hin). cbn [fst snd] in E. subst n'.
    apply filter_In in Hin as [Hin Hd']. cbn [fst] in Hd'. apply Nat.eqb_eq in Hd'. subst d'.
    destruct (alookup path_eqb (d, n) (ents s)) as [j|] eqn:El; [eauto|].
    exfalso. apply (alookup_None_notin path_eqb path_eqb_spec) in El. apply El.
    change (d, n) with (fst ((d, n), i)). now apply in_map.
  - intros [i Hl]. exists ((d, n), i). split; [reflexivity|]. apply filter_In. split.
    + eapply alookup_In; [exact path_eqb_spec|exact Hl].
    + cbn [fst]. apply Nat.eqb_refl.
Qed.

(* AtomicCreate installs exactly data under the name, whatever was there *)
Theorem ref_atomic_create_spec s d n data : mem_nat d (dirs s) = true ->
  let s' := fst (ref_step s (FAtomicCreate d n data)) in
  exists i, alookup path_eqb (d, n) (ents s') = Some i /\ data_of i s' = data /\
            forall p, p <> (d, n) -> alookup path_eqb p (ents s') = alookup path_eqb p (ents s).
Proof.
  intros Hd. cbn [ref_step]. rewrite Hd. cbn [negb fst]. exists (S (nino s)). cbn [ents]. split; [|split].
  - apply (alookup_aset_same path_eqb path_eqb_spec).
  - unfold data_of. cbn [inos]. now rewrite (alookup_aset_same Nat.eqb nat_eqb_spec).
  - intros p Hp. now apply (alookup_aset_other path_eqb path_eqb_spec).
Qed.

(* ---------------------------------------------------------------- two-operation facts used for C14 *)
Theorem ref_create_twice s d n : mem_nat d (dirs s) = true ->
  alookup path_eqb (d, n) (ents s) = None ->
  exists fd, snd (ref_step s (FCreate d n)) = OFd fd /\
             snd (ref_step (fst (ref_step s (FCreate d n))) (FCreate d n)) = ONoFd.
Proof.
  intros Hd He. exists (nfd s). cbn [ref_step]. rewrite Hd, He. cbn [negb fst snd dirs ents].
  split; [reflexivity|]. rewrite Hd. cbn [negb].
  now rewrite (alookup_aset_same path_eqb path_eqb_spec).
Qed.

Theorem ref_two_appends s fd1 fd2 i d1 d2 : fd1 <> fd2 ->
  alookup Nat.eqb fd1 (fdt s) = Some (i, true) -> alookup Nat.eqb fd2 (fdt s) = Some (i, true) ->
  data_of i (fst (ref_step (fst (ref_step s (FAppend fd1 d1))) (FAppend fd2 d2))) = (data_of i s ++ d1) ++ d2.
Proof.
  intros Hne H1 H2. cbn [ref_step]. rewrite H1. cbn [fst fdt]. rewrite H2. cbn [fst].
  unfold data_of at 1. cbn [inos]. rewrite (alookup_aset_same Nat.eqb nat_eqb_spec). f_equal.
  unfold data_of at 1. cbn [inos]. now rewrite (alookup_aset_same Nat.eqb nat_eqb_spec).
Qed.

Theorem ref_two_fds_distinct s o1 o2 fd1 fd2 : ref_inv s ->
  snd (ref_step s o1) = OFd fd1 -> snd (ref_step (fst (ref_step s o1)) o2) = OFd fd2 -> fd1 <> fd2.
Proof.
  intros Hinv H1 H2.
  destruct (ref_fresh_descriptor s o1 fd1 Hinv H1) as (_ & -> & Hn & _).
  destruct (ref_fresh_descriptor _ o2 fd2 (ref_step_inv s o1 Hinv) H2) as (_ & -> & _). lia.
Qed.
