(* Two concurrent AtomicCreate calls with distinct (unique) temp names: under
   EVERY interleaving of their system calls, calls for different names do not
   disturb each other, and calls for the same name leave the complete data of
   one of them. *)
From Coq Require Import String List ZArith Lia Bool Arith.
From GV Require Import Base.Skel Base.Tables Fs.Fs Fs.FsProofs Disk.Faults Fs.Posix Fs.PosixProofs.
Import ListNotations.
Local Open Scope list_scope.
Local Open Scope nat_scope.

Record call := { c_tmp : nat; c_dst : nat; c_chunks : list bytes }.
Definition c_data (c : call) : bytes := concat (c_chunks c).

Definition only_name (s : pst) (i tmp : nat) : Prop := forall n, alk n (pnames s) = Some i -> n = tmp.

(* where a call stands, as a function of its remaining program *)
Inductive call_inv (c : call) (p : list pop) (l : ploc) (s : pst) : Prop :=
| ci_start : p = ac_prog true (c_chunks c) -> alk (c_tmp c) (pnames s) = None -> l = ploc0 -> call_inv c p l s
| ci_writing i written cs :
    p = map PWrite cs ++ [PFsync; PRename] -> written ++ concat cs = c_data c ->
    pfd l = Some i -> ppos l = length written -> vol_of i s = written ->
    alk (c_tmp c) (pnames s) = Some i -> only_name s i (c_tmp c) -> call_inv c p l s
| ci_synced i :
    p = [PRename] -> pfd l = Some i -> vol_of i s = c_data c -> alk i (pdur s) = Some (c_data c) ->
    alk (c_tmp c) (pnames s) = Some i -> only_name s i (c_tmp c) -> call_inv c p l s
| ci_done : p = [] -> call_inv c p l s.

(* one step of a call: what it may change *)
Definition untouched_by (c : call) (l : ploc) (s s' : pst) : Prop :=
  (* names other than the call's temp and destination keep their inode *)
  (forall n, n <> c_tmp c -> n <> c_dst c -> alk n (pnames s') = alk n (pnames s)) /\
  (* inodes other than the call's own keep their contents *)
  (forall j, pfd l <> Some j -> j < pnext s -> vol_of j s' = vol_of j s /\ alk j (pdur s') = alk j (pdur s)) /\
  pnext s <= pnext s'.

Lemma pwf_step c o s l : pwf s -> (forall i, pfd l = Some i -> i < pnext s) ->
  pwf (fst (pstep (c_tmp c) (c_dst c) o s l)) /\
  (forall i, pfd (snd (pstep (c_tmp c) (c_dst c) o s l)) = Some i -> i < pnext (fst (pstep (c_tmp c) (c_dst c) o s l))).
Proof.
  intros Hwf Hfd. destruct o as [tr|ch| |]; cbn [pstep].
  - destruct (alk (c_tmp c) (pnames s)) as [i|] eqn:E; cbn [fst snd pfd pnames pnext].
    + split; [exact Hwf|]. intros j Hj. injection Hj as <-. eapply Hwf; eauto.
    + split.
      * intros n j Hn. cbn [pnames pnext] in *. destruct (Nat.eq_dec n (c_tmp c)) as [->|Hne].
        -- rewrite alk_set_same in Hn. injection Hn as <-. lia.
        -- rewrite alk_set_other in Hn by exact Hne. apply Hwf in Hn. lia.
      * intros j Hj. injection Hj as <-. lia.
  - destruct (pfd l) as [i|] eqn:E; cbn [fst snd pfd pnames pnext]; split; auto;
      intros j Hj; apply Hfd; congruence.
  - destruct (pfd l) as [i|] eqn:E; cbn [fst snd pfd pnames pnext]; split; auto;
      intros j Hj; apply Hfd; congruence.
  - destruct (alk (c_tmp c) (pnames s)) as [i|] eqn:E; cbn [fst snd pfd pnames pnext]; split; auto.
    intros n j Hn. cbn [pnames pnext] in *. destruct (Nat.eq_dec n (c_dst c)) as [->|Hne].
    + rewrite alk_set_same in Hn. injection Hn as <-. eapply Hwf; eauto.
    + rewrite alk_set_other in Hn by exact Hne.
      destruct (Nat.eq_dec n (c_tmp c)) as [->|Hne2].
      * rewrite alk_rem_same in Hn. discriminate.
      * rewrite alk_rem_other in Hn by exact Hne2. eapply Hwf; eauto.
Qed.

Lemma call_inv_fd_bound c p l s : call_inv c p l s -> pwf s -> p <> [] -> forall i, pfd l = Some i -> i < pnext s.
Proof.
  intros Hc Hwf Hp i Hi. destruct Hc as [_ _ ->|j w cs _ _ Hfd _ _ Ht _|j _ Hfd _ _ Ht _|Hd].
  - discriminate.
  - rewrite Hfd in Hi. injection Hi as <-. eapply Hwf; eauto.
  - rewrite Hfd in Hi. injection Hi as <-. eapply Hwf; eauto.
  - contradiction.
Qed.

(* a call's own next step moves it to its next phase; the last step makes the data visible *)
Lemma own_step c o p l s : call_inv c (o :: p) l s -> pwf s -> c_tmp c <> c_dst c ->
  call_inv c p (snd (pstep (c_tmp c) (c_dst c) o s l)) (fst (pstep (c_tmp c) (c_dst c) o s l)) /\
  (p = [] -> content (fst (pstep (c_tmp c) (c_dst c) o s l)) (c_dst c) = Some (c_data c)).
Proof.
  intros Hc Hwf Hne.
  destruct Hc as [Hp Ht ->|i w cs Hp Hw Hfd Hpos Hv Ht Hon|i Hp Hfd Hv Hd Ht Hon|Hp]; [| | |discriminate].
  - (* open *)
    unfold ac_prog in Hp. injection Hp as -> ->. cbn [pstep]. rewrite Ht. cbn [fst snd].
    split; [|intros E; destruct (c_chunks c); discriminate].
    eapply (ci_writing c _ _ _ (pnext s) [] (c_chunks c)); cbn [pfd ppos pnames]; auto.
    + unfold vol_of. cbn [pvol]. now rewrite alk_set_same.
    + apply alk_set_same.
    + intros n Hn. cbn [pnames] in Hn. destruct (Nat.eq_dec n (c_tmp c)) as [->|Hn']; [reflexivity|].
      rewrite alk_set_other in Hn by exact Hn'. apply Hwf in Hn. lia.
  - destruct cs as [|c0 cs]; cbn [map app] in Hp; injection Hp as -> ->.
    + (* fsync *)
      cbn [pstep]. rewrite Hfd. cbn [fst snd]. split; [|discriminate].
      cbn [concat] in Hw. rewrite app_nil_r in Hw. subst w.
      eapply (ci_synced c _ _ _ i); cbn [pnames pdur]; auto.
      rewrite alk_set_same. now rewrite Hv.
    + (* write *)
      cbn [pstep]. rewrite Hfd. cbn [fst snd]. split; [|intros E; destruct cs; discriminate].
      eapply (ci_writing c _ _ _ i (w ++ c0) cs); cbn [pfd ppos pnames]; auto.
      * cbn [concat] in Hw. now rewrite <- app_assoc.
      * now rewrite app_length, Hpos.
      * unfold vol_of at 1. cbn [pvol]. rewrite alk_set_same, Hpos, <- Hv. apply overwrite_at_end.
  - (* rename *)
    injection Hp as -> ->. cbn [pstep]. rewrite Ht. cbn [fst snd]. split; [now apply ci_done|]. intros _.
    unfold content. cbn [pnames]. rewrite alk_set_same. unfold vol_of. cbn [pvol]. fold (vol_of i s). now rewrite Hv.
Qed.

(* the inode a call is working on differs from any inode another call works on *)
Lemma inodes_distinct (cx cy : call) s ix iy : c_tmp cx <> c_tmp cy ->
  alk (c_tmp cx) (pnames s) = Some ix -> only_name s iy (c_tmp cy) -> ix <> iy.
Proof. intros Hne Hx Hon E. subst iy. apply Hne. now apply Hon. Qed.

(* what one step of call X does to the namespace and to the inodes *)
Lemma step_names cx o s lx n : n <> c_tmp cx -> n <> c_dst cx ->
  alk n (pnames (fst (pstep (c_tmp cx) (c_dst cx) o s lx))) = alk n (pnames s).
Proof.
  intros H1 H2. destruct o as [tr|ch| |]; cbn [pstep].
  - destruct (alk (c_tmp cx) (pnames s)); cbn [fst pnames]; [reflexivity|now apply alk_set_other].
  - destruct (pfd lx); reflexivity.
  - destruct (pfd lx); reflexivity.
  - destruct (alk (c_tmp cx) (pnames s)); cbn [fst pnames]; [|reflexivity].
    rewrite alk_set_other by exact H2. now apply alk_rem_other.
Qed.

Lemma step_inodes cx o s lx j : j < pnext s -> pfd lx <> Some j ->
  (forall i, alk (c_tmp cx) (pnames s) = Some i -> i <> j) ->
  vol_of j (fst (pstep (c_tmp cx) (c_dst cx) o s lx)) = vol_of j s /\
  alk j (pdur (fst (pstep (c_tmp cx) (c_dst cx) o s lx))) = alk j (pdur s).
Proof.
  intros Hj Hfd Htmp. destruct o as [tr|ch| |]; cbn [pstep].
  - destruct (alk (c_tmp cx) (pnames s)) as [i|] eqn:E; cbn [fst pdur].
    + split; [|reflexivity]. unfold vol_of. cbn [pvol]. destruct tr; [|reflexivity].
      rewrite alk_set_other; [reflexivity|]. intros ->. now apply (Htmp i).
    + split; [|reflexivity]. unfold vol_of. cbn [pvol]. rewrite alk_set_other; [reflexivity|lia].
  - destruct (pfd lx) as [i|]; cbn [fst pdur]; [|auto]. split; [|reflexivity].
    unfold vol_of. cbn [pvol]. rewrite alk_set_other; [reflexivity|congruence].
  - destruct (pfd lx) as [i|]; cbn [fst pdur]; [|auto]. split; [reflexivity|].
    rewrite alk_set_other; [reflexivity|congruence].
  - destruct (alk (c_tmp cx) (pnames s)); cbn [fst]; auto.
Qed.

Lemma step_rev cx o s lx n j :
  alk n (pnames (fst (pstep (c_tmp cx) (c_dst cx) o s lx))) = Some j ->
  alk n (pnames s) = Some j \/ (j = pnext s /\ alk (c_tmp cx) (pnames s) = None) \/
  alk (c_tmp cx) (pnames s) = Some j.
Proof.
  intros H. destruct o as [tr|ch| |]; cbn [pstep] in H.
  - destruct (alk (c_tmp cx) (pnames s)) as [i|] eqn:E; cbn [fst pnames] in H; [now left|].
    destruct (Nat.eq_dec n (c_tmp cx)) as [->|Hn].
    + rewrite alk_set_same in H. injection H as <-. right. left. auto.
    + rewrite alk_set_other in H by exact Hn. now left.
  - destruct (pfd lx); now left.
  - destruct (pfd lx); now left.
  - destruct (alk (c_tmp cx) (pnames s)) as [i|] eqn:E; cbn [fst pnames] in H; [|now left].
    destruct (Nat.eq_dec n (c_dst cx)) as [->|Hn].
    + rewrite alk_set_same in H. injection H as <-. right. right. reflexivity.
    + rewrite alk_set_other in H by exact Hn.
      destruct (Nat.eq_dec n (c_tmp cx)) as [->|Hn2].
      * rewrite alk_rem_same in H. discriminate.
      * rewrite alk_rem_other in H by exact Hn2. now left.
Qed.

Lemma call_fd_is_tmp cx p lx s i : call_inv cx p lx s -> p <> [] -> pfd lx = Some i ->
  alk (c_tmp cx) (pnames s) = Some i.
Proof.
  intros Hx Hp Hi. destruct Hx as [_ _ ->|j w cs _ _ Hfd _ _ Ht _|j _ Hfd _ _ Ht _|Hd]; try discriminate; congruence.
Qed.

(* a step of call X leaves call Y where it was *)
Lemma other_step cx cy o px lx py ly s :
  call_inv cx (o :: px) lx s -> call_inv cy py ly s -> pwf s ->
  c_tmp cx <> c_tmp cy -> c_tmp cy <> c_dst cx ->
  call_inv cy py ly (fst (pstep (c_tmp cx) (c_dst cx) o s lx)).
Proof.
  intros Hx Hy Hwf Htt Htd.
  pose proof (step_names cx o s lx) as Hnames.
  pose proof (step_inodes cx o s lx) as Hino.
  pose proof (step_rev cx o s lx) as Hrev.
  assert (Hxfd : forall i, pfd lx = Some i -> alk (c_tmp cx) (pnames s) = Some i)
    by (intros i Hi; eapply call_fd_is_tmp; eauto; discriminate).
  assert (Hown : forall iy, only_name s iy (c_tmp cy) -> alk (c_tmp cy) (pnames s) = Some iy ->
            iy < pnext s /\ pfd lx <> Some iy /\ (forall i, alk (c_tmp cx) (pnames s) = Some i -> i <> iy) /\
            only_name (fst (pstep (c_tmp cx) (c_dst cx) o s lx)) iy (c_tmp cy)).
  { intros iy Hon Hty. assert (Hb : iy < pnext s) by (eapply Hwf; eauto).
    assert (Hd : forall i, alk (c_tmp cx) (pnames s) = Some i -> i <> iy)
      by (intros i Hi; eapply inodes_distinct; eauto).
    split; [exact Hb|]. split; [intros Hf; apply Hxfd in Hf; now apply (Hd iy)|]. split; [exact Hd|].
    intros n Hn. apply Hrev in Hn. destruct Hn as [Hn|[[-> _]|Hn]]; [now apply Hon|lia|].
    exfalso. now apply (Hd iy). }
  assert (Hty : alk (c_tmp cy) (pnames (fst (pstep (c_tmp cx) (c_dst cx) o s lx))) = alk (c_tmp cy) (pnames s))
    by (apply Hnames; auto).
  destruct Hy as [Hp Ht ->|i w cs Hp Hw Hfd Hpos Hv Ht Hon|i Hp Hfd Hv Hd Ht Hon|Hp].
  - apply ci_start; auto. now rewrite Hty.
  - destruct (Hown i Hon Ht) as (Hb & Hf & Hdist & Hon').
    destruct (Hino i Hb Hf Hdist) as [Hv' Hd'].
    eapply (ci_writing cy _ _ _ i w cs); auto; [now rewrite Hv'|now rewrite Hty].
  - destruct (Hown i Hon Ht) as (Hb & Hf & Hdist & Hon').
    destruct (Hino i Hb Hf Hdist) as [Hv' Hd'].
    eapply (ci_synced cy _ _ _ i); auto; [now rewrite Hv'|now rewrite Hd'|now rewrite Hty].
  - now apply ci_done.
Qed.

Lemma pop_is_rename o : o = PRename \/ o <> PRename.
Proof. destruct o; auto; right; discriminate. Qed.

(* once call X is complete, its destination holds its data — until (possibly)
   the other call, creating the SAME name, completes and replaces it *)
Definition post (cx cy : call) (py : list pop) (s : pst) : Prop :=
  content s (c_dst cx) = Some (c_data cx) \/
  (c_dst cx = c_dst cy /\ py = [] /\ content s (c_dst cx) = Some (c_data cy)).

Lemma step_names_norename cx o s lx n : o <> PRename -> n <> c_tmp cx ->
  alk n (pnames (fst (pstep (c_tmp cx) (c_dst cx) o s lx))) = alk n (pnames s).
Proof.
  intros Ho H1. destruct o as [tr|ch| |]; cbn [pstep]; try contradiction.
  - destruct (alk (c_tmp cx) (pnames s)); cbn [fst pnames]; [reflexivity|now apply alk_set_other].
  - destruct (pfd lx); reflexivity.
  - destruct (pfd lx); reflexivity.
Qed.

(* the inode behind a name other than Y's temp is not the inode Y works on *)
Lemma foreign_inode cy p ly s n j : call_inv cy p ly s -> p <> [] -> pwf s ->
  alk n (pnames s) = Some j -> n <> c_tmp cy ->
  j < pnext s /\ pfd ly <> Some j /\ (forall i, alk (c_tmp cy) (pnames s) = Some i -> i <> j).
Proof.
  intros Hy Hp Hwf Hn Hne. split; [eapply Hwf; eauto|].
  assert (Hd : forall i, alk (c_tmp cy) (pnames s) = Some i -> i <> j).
  { intros i Hi ->.
    destruct Hy as [_ Ht _|i w cs _ _ _ _ _ Ht Hon|i _ _ _ _ Ht Hon|Hd]; try contradiction; try congruence;
      (assert (i = j) by congruence; subst i; apply Hne; now apply Hon). }
  split; [|exact Hd]. intros Hf. eapply call_fd_is_tmp in Hf; eauto. now apply (Hd j).
Qed.

Lemma post_step cx cy o py ly s :
  call_inv cy (o :: py) ly s -> pwf s -> c_tmp cy <> c_dst cx -> c_tmp cy <> c_dst cy ->
  post cx cy (o :: py) s -> post cx cy py (fst (pstep (c_tmp cy) (c_dst cy) o s ly)).
Proof.
  intros Hy Hwf Htd Htd' [Hc|[_ [Hnil _]]]; [|discriminate].
  destruct (own_step cy o py ly s Hy Hwf Htd') as [_ Hlast].
  unfold content in Hc. destruct (alk (c_dst cx) (pnames s)) as [j|] eqn:Ej; [|discriminate].
  injection Hc as Hc.
  destruct (foreign_inode cy (o :: py) ly s (c_dst cx) j Hy ltac:(discriminate) Hwf Ej ltac:(congruence))
    as (Hjb & Hjf & Hjd).
  assert (Hkeep : alk (c_dst cx) (pnames (fst (pstep (c_tmp cy) (c_dst cy) o s ly))) = Some j ->
                  post cx cy py (fst (pstep (c_tmp cy) (c_dst cy) o s ly))).
  { intros Hn. left. unfold content. rewrite Hn. f_equal. rewrite <- Hc. now apply step_inodes. }
  destruct (pop_is_rename o) as [->|Ho].
  - (* Y renames *)
    assert (Hpy : py = []).
    { destruct Hy as [Hp _ _|i w cs Hp _ _ _ _ _ _|i Hp _ _ _ _ _|Hp]; try discriminate.
      - destruct cs; cbn in Hp; discriminate.
      - now injection Hp. }
    destruct (Nat.eq_dec (c_dst cx) (c_dst cy)) as [Hsame|Hdiff].
    + right. split; [exact Hsame|]. split; [exact Hpy|]. rewrite Hsame. now apply Hlast.
    + apply Hkeep. rewrite step_names by congruence. exact Ej.
  - apply Hkeep. rewrite step_names_norename by congruence. exact Ej.
Qed.

(* ---------------------------------------------------------------- all interleavings *)
Section Two.
Variables ca cb : call.

Record cfg2 := { g_s : pst; g_pa : list pop; g_la : ploc; g_pb : list pop; g_lb : ploc }.

(* the scheduler picks which call performs its next system call *)
Definition step2 (pick_a : bool) (g : cfg2) : cfg2 :=
  if pick_a then
    match g_pa g with
    | [] => g
    | o :: pa' => let '(s', la') := pstep (c_tmp ca) (c_dst ca) o (g_s g) (g_la g) in
                  {| g_s := s'; g_pa := pa'; g_la := la'; g_pb := g_pb g; g_lb := g_lb g |}
    end
  else
    match g_pb g with
    | [] => g
    | o :: pb' => let '(s', lb') := pstep (c_tmp cb) (c_dst cb) o (g_s g) (g_lb g) in
                  {| g_s := s'; g_pa := g_pa g; g_la := g_la g; g_pb := pb'; g_lb := lb' |}
    end.

Definition run2 (sched : list bool) (g : cfg2) : cfg2 := fold_left (fun g b => step2 b g) sched g.

Hypothesis tmps_distinct : c_tmp ca <> c_tmp cb.
Hypothesis ta_da : c_tmp ca <> c_dst ca.
Hypothesis ta_db : c_tmp ca <> c_dst cb.
Hypothesis tb_da : c_tmp cb <> c_dst ca.
Hypothesis tb_db : c_tmp cb <> c_dst cb.

Definition inv2 (g : cfg2) : Prop :=
  pwf (g_s g) /\ call_inv ca (g_pa g) (g_la g) (g_s g) /\ call_inv cb (g_pb g) (g_lb g) (g_s g) /\
  (g_pa g = [] -> post ca cb (g_pb g) (g_s g)) /\ (g_pb g = [] -> post cb ca (g_pa g) (g_s g)).

Lemma inv2_step b g : inv2 g -> inv2 (step2 b g).
Proof.
  intros (Hwf & Ha & Hb & Hpa & Hpb). destruct b; cbn [step2].
  - destruct (g_pa g) as [|o pa'] eqn:Epa; [unfold inv2; rewrite Epa; auto|].
    pose proof (own_step ca o pa' (g_la g) (g_s g) Ha Hwf ta_da) as [Ha' Hlast].
    pose proof (other_step ca cb o pa' (g_la g) (g_pb g) (g_lb g) (g_s g) Ha Hb Hwf tmps_distinct tb_da) as Hb'.
    pose proof (pwf_step ca o (g_s g) (g_la g) Hwf
                  (call_inv_fd_bound ca (o :: pa') (g_la g) (g_s g) Ha Hwf ltac:(discriminate))) as [Hwf' _].
    destruct (pstep (c_tmp ca) (c_dst ca) o (g_s g) (g_la g)) as [s' la'] eqn:Es. cbn [fst snd] in *.
    unfold inv2; cbn [g_s g_pa g_la g_pb g_lb]. repeat split; auto.
    + intros ->. left. now apply Hlast.
    + intros Hnil. specialize (Hpb Hnil).
      pose proof (post_step cb ca o pa' (g_la g) (g_s g) Ha Hwf ta_db ta_da Hpb) as H. now rewrite Es in H.
  - destruct (g_pb g) as [|o pb'] eqn:Epb; [unfold inv2; rewrite Epb; auto|].
    pose proof (own_step cb o pb' (g_lb g) (g_s g) Hb Hwf tb_db) as [Hb' Hlast].
    pose proof (other_step cb ca o pb' (g_lb g) (g_pa g) (g_la g) (g_s g) Hb Ha Hwf (not_eq_sym tmps_distinct) ta_db) as Ha'.
    pose proof (pwf_step cb o (g_s g) (g_lb g) Hwf
                  (call_inv_fd_bound cb (o :: pb') (g_lb g) (g_s g) Hb Hwf ltac:(discriminate))) as [Hwf' _].
    destruct (pstep (c_tmp cb) (c_dst cb) o (g_s g) (g_lb g)) as [s' lb'] eqn:Es. cbn [fst snd] in *.
    unfold inv2; cbn [g_s g_pa g_la g_pb g_lb]. repeat split; auto.
    + intros Hnil. specialize (Hpa Hnil).
      pose proof (post_step ca cb o pb' (g_lb g) (g_s g) Hb Hwf tb_da tb_db Hpa) as H. now rewrite Es in H.
    + intros ->. left. now apply Hlast.
Qed.

Lemma inv2_run sched : forall g, inv2 g -> inv2 (run2 sched g).
Proof. induction sched as [|b sc IH]; intros g Hg; [exact Hg|]. cbn [run2 fold_left]. apply IH, inv2_step, Hg. Qed.

Definition start2 (s : pst) : cfg2 :=
  {| g_s := s; g_pa := ac_prog true (c_chunks ca); g_la := ploc0; g_pb := ac_prog true (c_chunks cb); g_lb := ploc0 |}.

Lemma inv2_start s : pwf s -> alk (c_tmp ca) (pnames s) = None -> alk (c_tmp cb) (pnames s) = None -> inv2 (start2 s).
Proof.
  intros Hwf Ha Hb. unfold inv2, start2; cbn [g_s g_pa g_la g_pb g_lb]. repeat split; auto.
  - now apply ci_start.
  - now apply ci_start.
  - discriminate.
  - discriminate.
Qed.

(* THE THEOREM: for every kernel state in which the two (unique) temp names are
   unused and EVERY interleaving of the two calls' system calls, once both
   calls have completed each destination holds exactly its call's data — or, if
   both calls create the same name, the complete data of one of them. *)
Theorem two_calls_any_interleaving s sched :
  pwf s -> alk (c_tmp ca) (pnames s) = None -> alk (c_tmp cb) (pnames s) = None ->
  let g := run2 sched (start2 s) in
  g_pa g = [] -> g_pb g = [] ->
  (content (g_s g) (c_dst ca) = Some (c_data ca) \/
   (c_dst ca = c_dst cb /\ content (g_s g) (c_dst ca) = Some (c_data cb))) /\
  (content (g_s g) (c_dst cb) = Some (c_data cb) \/
   (c_dst cb = c_dst ca /\ content (g_s g) (c_dst cb) = Some (c_data ca))).
Proof.
  intros Hwf Ha Hb g Hpa Hpb.
  destruct (inv2_run sched (start2 s) (inv2_start s Hwf Ha Hb)) as (_ & _ & _ & HA & HB).
  fold g in HA, HB. split.
  - destruct (HA Hpa) as [H|(H1 & _ & H3)]; auto.
  - destruct (HB Hpb) as [H|(H1 & _ & H3)]; auto.
Qed.

Corollary two_calls_different_names s sched :
  pwf s -> alk (c_tmp ca) (pnames s) = None -> alk (c_tmp cb) (pnames s) = None ->
  c_dst ca <> c_dst cb ->
  let g := run2 sched (start2 s) in
  g_pa g = [] -> g_pb g = [] ->
  content (g_s g) (c_dst ca) = Some (c_data ca) /\ content (g_s g) (c_dst cb) = Some (c_data cb).
Proof.
  intros Hwf Ha Hb Hne g Hpa Hpb.
  destruct (two_calls_any_interleaving s sched Hwf Ha Hb Hpa Hpb) as [[H1|[E _]] [H2|[E' _]]]; try congruence.
  auto.
Qed.

End Two.
