(* A small model of the part of POSIX that DirFs.AtomicCreate relies on, and the
   interpretation of AtomicCreate's regenerated statement skeleton in it.

   State: a flat namespace name -> inode, per inode the volatile contents and
   the contents made durable by the last fsync.  Failure modes:
     kill        the process dies between two system calls; kernel state survives
     power loss  only the namespace and the durable contents survive
   Assumptions of the power-loss clause (trusted, see DESIGN.md §6): fsync(fd)
   makes that inode's bytes durable; rename is atomic and is not reordered
   before an earlier fsync of the renamed inode. *)
From Coq Require Import String List ZArith Lia Bool Arith.
From GV Require Import Base.Skel Base.Tables Fs.Fs Fs.FsProofs Disk.Faults.
Import ListNotations.
Local Open Scope list_scope.
Local Open Scope nat_scope.

Record pst := {
  pnames : list (nat * nat);      (* name -> inode *)
  pvol : list (nat * bytes);      (* inode -> contents (page cache) *)
  pdur : list (nat * bytes);      (* inode -> contents at the last fsync *)
  pnext : nat                     (* inode numbers >= pnext are unused *)
}.

(* the state of one AtomicCreate call: its descriptor and file offset *)
Record ploc := { pfd : option nat; ppos : nat }.
Definition ploc0 : ploc := {| pfd := None; ppos := 0 |}.

Inductive pop :=
| POpen (trunc : bool)          (* openat(root, tmp, O_CREAT|O_WRONLY [|O_TRUNC]) *)
| PWrite (chunk : bytes)        (* write(fd, chunk): all of chunk is written at the offset *)
| PFsync                        (* fsync(fd) *)
| PRename.                      (* renameat(root, tmp, root, dst) *)

Definition vol_of (i : nat) (s : pst) : bytes :=
  match alookup Nat.eqb i (pvol s) with Some b => b | None => [] end.

Definition overwrite (old : bytes) (pos : nat) (c : bytes) : bytes :=
  firstn pos old ++ c ++ skipn (pos + length c) old.

Section Call.
Variables tmp dst : nat.

Definition pstep (o : pop) (s : pst) (l : ploc) : pst * ploc :=
  match o with
  | POpen trunc =>
      match alookup Nat.eqb tmp (pnames s) with
      | Some i =>
          ({| pnames := pnames s;
              pvol := if trunc then aset Nat.eqb i [] (pvol s) else pvol s;
              pdur := pdur s; pnext := pnext s |},
           {| pfd := Some i; ppos := 0 |})
      | None =>
          let i := pnext s in
          ({| pnames := aset Nat.eqb tmp i (pnames s); pvol := aset Nat.eqb i [] (pvol s);
              pdur := pdur s; pnext := S i |},
           {| pfd := Some i; ppos := 0 |})
      end
  | PWrite c =>
      match pfd l with
      | Some i => ({| pnames := pnames s; pvol := aset Nat.eqb i (overwrite (vol_of i s) (ppos l) c) (pvol s);
                      pdur := pdur s; pnext := pnext s |},
                   {| pfd := pfd l; ppos := ppos l + length c |})
      | None => (s, l)
      end
  | PFsync =>
      match pfd l with
      | Some i => ({| pnames := pnames s; pvol := pvol s; pdur := aset Nat.eqb i (vol_of i s) (pdur s);
                      pnext := pnext s |}, l)
      | None => (s, l)
      end
  | PRename =>
      match alookup Nat.eqb tmp (pnames s) with
      | Some i => ({| pnames := aset Nat.eqb dst i (aremove Nat.eqb tmp (pnames s)); pvol := pvol s;
                      pdur := pdur s; pnext := pnext s |}, l)
      | None => (s, l)
      end
  end.

Fixpoint prun (p : list pop) (s : pst) (l : ploc) : pst * ploc :=
  match p with
  | [] => (s, l)
  | o :: p' => let '(s', l') := pstep o s l in prun p' s' l'
  end.
End Call.

(* what a reader sees under a name: the volatile contents; after a power loss: the durable ones *)
Definition content (s : pst) (name : nat) : option bytes :=
  match alookup Nat.eqb name (pnames s) with Some i => Some (vol_of i s) | None => None end.
Definition durable_content (s : pst) (name : nat) : option (option bytes) :=
  match alookup Nat.eqb name (pnames s) with
  | Some i => Some (alookup Nat.eqb i (pdur s))
  | None => None
  end.

(* the canonical program: open(trunc or fresh); write all chunks; fsync; rename *)
Definition ac_prog (trunc : bool) (chunks : list bytes) : list pop :=
  POpen trunc :: map PWrite chunks ++ [PFsync; PRename].

(* well-formed kernel state: inodes in use are below pnext *)
Definition pwf (s : pst) : Prop :=
  (forall n i, alookup Nat.eqb n (pnames s) = Some i -> (i < pnext s)%nat).

(* the temp name is safe to use: unused, or (if it is a leftover) truncated on
   open and not a hard link of the destination *)
Definition safe_tmp (s : pst) (tmp dst : nat) (trunc : bool) : Prop :=
  match alookup Nat.eqb tmp (pnames s) with
  | None => True
  | Some i => trunc = true /\ alookup Nat.eqb dst (pnames s) <> Some i
  end.

(* ---------------------------------------------------------------- interpretation of the skeleton *)
(* top-level system calls of a body, the write loop recognised as such *)
Inductive acstep := AOpen (trunc creat : bool) (name : string) | AWriteLoop (ok : bool) | AFsync (arg : string)
                  | ARename (src dstexpr : string) | AOtherSys (c : string).

Definition write_loop_ok (cond : string) (body : list sk) : bool :=
  String.eqb cond "len(data) > 0" &&
  match body with
  | [SCall ["n"; "err"] "unix.Write" ["fd"; "data"]; SIf _ _ _; SAssign ["data"] ["data[n:]"]] => true
  | _ => false
  end.

Fixpoint ac_steps (ss : list sk) : list acstep :=
  match ss with
  | [] => []
  | SCall _ "unix.Openat" [_; name; flags; _] :: t =>
      AOpen (contains "O_TRUNC" flags) (contains "O_CREAT" flags) name :: ac_steps t
  | SCall _ "unix.Fsync" [a] :: t => AFsync a :: ac_steps t
  | SCall _ "unix.Renameat" [_; src; _; d] :: t => ARename src d :: ac_steps t
  | SFor cond body :: t =>
      if existsb (fun s => match s with SCall _ c _ => prefix "unix." c | _ => false end) body
      then AWriteLoop (write_loop_ok cond body) :: ac_steps t else ac_steps t
  | SCall _ c _ :: t => if prefix "unix." c then AOtherSys c :: ac_steps t else ac_steps t
  | _ :: t => ac_steps t
  end.

(* the POSIX program a body denotes, for a given chunking of the data by the write loop *)
Definition prog_of (ss : list sk) (chunks : list bytes) : list pop :=
  flat_map (fun a => match a with
                     | AOpen trunc _ _ => [POpen trunc]
                     | AWriteLoop _ => map PWrite chunks
                     | AFsync _ => [PFsync]
                     | ARename _ _ => [PRename]
                     | AOtherSys _ => []
                     end) (ac_steps ss).

(* the shape that makes AtomicCreate atomic, durable-before-visible and robust:
   open the temp with O_CREAT|O_TRUNC, write ALL the data, fsync that
   descriptor, rename the temp onto path.Join(dir, fname) — in this order, every
   error checked (surfaces), and the temp name unique per call *)
Definition unique_tmp_name (ss : list sk) : bool :=
  existsb (fun s => match s with
                    | SAssign ["tmpFile"] [e] => contains "os.Getpid()" e && contains "atomic.AddUint64(&tmpCounter, 1)" e
                    | SCall ["tmpFile"] _ args => any_contains "os.Getpid()" args && any_contains "atomic.AddUint64(&tmpCounter, 1)" args
                    | _ => false end) ss.

Definition atomic_create_shape (ss : list sk) : bool :=
  surfaces ss && unique_tmp_name ss &&
  match ac_steps ss with
  | [AOpen tr cr nm; AWriteLoop ok; AFsync a; ARename src d] =>
      tr && cr && String.eqb nm "tmpFile" && ok && String.eqb a "fd" && String.eqb src "tmpFile"
      && String.eqb d "path.Join(dir, fname)"
  | _ => false
  end.

Lemma shape_prog ss chunks : atomic_create_shape ss = true -> prog_of ss chunks = ac_prog true chunks.
Proof.
  unfold atomic_create_shape, prog_of. intros H. apply andb_prop in H as [_ H].
  destruct (ac_steps ss) as [|a1 l1]; [discriminate|]. destruct a1 as [tr cr nm| | | |]; try discriminate.
  destruct l1 as [|a2 l2]; [discriminate|]. destruct a2 as [|ok| | |]; try discriminate.
  destruct l2 as [|a3 l3]; [discriminate|]. destruct a3 as [| |a| |]; try discriminate.
  destruct l3 as [|a4 l4]; [discriminate|]. destruct a4 as [| | |src d|]; try discriminate.
  destruct l4; [|discriminate].
  repeat (apply andb_prop in H as [H ?]). subst tr.
  cbn [flat_map]. unfold ac_prog. now rewrite app_nil_r.
Qed.
