From Coq Require Import String List ZArith Lia Bool Arith.
From GV Require Import Base.Skel Base.Tables Fs.Fs Fs.FsProofs Disk.Faults Fs.Posix.
Import ListNotations.
Local Open Scope list_scope.
Local Open Scope nat_scope.

Notation alk := (alookup Nat.eqb).
Notation aset_ := (aset Nat.eqb).

Lemma alk_set_same {V} k (v : V) l : alk k (aset_ k v l) = Some v.
Proof. apply (alookup_aset_same Nat.eqb nat_eqb_spec). Qed.
Lemma alk_set_other {V} k k' (v : V) l : k' <> k -> alk k' (aset_ k v l) = alk k' l.
Proof. apply (alookup_aset_other Nat.eqb nat_eqb_spec). Qed.
Lemma alk_rem_same {V} k (l : list (nat * V)) : alk k (aremove Nat.eqb k l) = None.
Proof. apply (alookup_aremove_same Nat.eqb). Qed.
Lemma alk_rem_other {V} k k' (l : list (nat * V)) : k' <> k -> alk k' (aremove Nat.eqb k l) = alk k' l.
Proof. apply (alookup_aremove_other Nat.eqb nat_eqb_spec). Qed.

Lemma vol_of_set_same i b s' v d n : pvol s' = aset_ i b v -> vol_of i {| pnames := pnames s'; pvol := aset_ i b v; pdur := d; pnext := n |} = b.
Proof. intros _. unfold vol_of. cbn [pvol]. now rewrite alk_set_same. Qed.

Lemma overwrite_at_end old c : overwrite old (length old) c = old ++ c.
Proof.
  unfold overwrite. rewrite firstn_all. rewrite skipn_all2 by lia. now rewrite app_nil_r.
Qed.

Section Call.
Variables tmp dst : nat.
Hypothesis tmp_dst : tmp <> dst.

Notation pstep := (pstep tmp dst).
Notation prun := (prun tmp dst).

(* ---------------------------------------------------------------- steps that do not touch the namespace *)
Definition quiet (o : pop) : Prop := match o with PWrite _ | PFsync => True | _ => False end.

(* while the call only writes and fsyncs its own descriptor i, nothing else changes *)
Lemma quiet_run p : Forall quiet p -> forall s l i, pfd l = Some i ->
  let s' := fst (prun p s l) in let l' := snd (prun p s l) in
  pnames s' = pnames s /\ pnext s' = pnext s /\ pfd l' = Some i /\
  (forall j, j <> i -> vol_of j s' = vol_of j s /\ alk j (pdur s') = alk j (pdur s)).
Proof.
  induction 1 as [|o p Ho Hp IH]; intros s l i Hfd; cbv zeta; cbn [Posix.prun fst snd]; [repeat split; auto|].
  destruct o as [tr|c| |]; try contradiction; cbn [Posix.pstep]; rewrite Hfd.
  - match goal with |- context [prun p ?s1 ?l1] => specialize (IH s1 l1 i eq_refl) end.
    cbv zeta in IH. destruct IH as (Hn & Hx & Hf & Ho').
    cbn [pnames pnext] in *. repeat split; auto.
    + destruct (Ho' _ H) as [H1 _]. rewrite H1. unfold vol_of. cbn [pvol]. now rewrite alk_set_other.
    + destruct (Ho' _ H) as [_ H1]. rewrite H1. reflexivity.
  - match goal with |- context [prun p ?s1 ?l1] => specialize (IH s1 l1 i Hfd) end.
    cbv zeta in IH. destruct IH as (Hn & Hx & Hf & Ho').
    cbn [pnames pnext] in *. repeat split; auto.
    + destruct (Ho' _ H) as [H1 _]. rewrite H1. reflexivity.
    + destruct (Ho' _ H) as [_ H1]. rewrite H1. cbn [pdur]. now rewrite alk_set_other.
Qed.

(* all chunks written from offset = current length: the file becomes old ++ chunks *)
Lemma write_run chunks : forall s l i, pfd l = Some i -> ppos l = length (vol_of i s) ->
  vol_of i (fst (prun (map PWrite chunks) s l)) = vol_of i s ++ concat chunks /\
  pfd (snd (prun (map PWrite chunks) s l)) = Some i.
Proof.
  induction chunks as [|c cs IH]; intros s l i Hfd Hpos; cbn [map Posix.prun fst snd concat].
  - rewrite app_nil_r. auto.
  - cbn [Posix.pstep]. rewrite Hfd.
    set (s1 := {| pnames := pnames s; pvol := aset_ i (overwrite (vol_of i s) (ppos l) c) (pvol s);
                  pdur := pdur s; pnext := pnext s |}).
    set (l1 := {| pfd := Some i; ppos := ppos l + length c |}).
    assert (Hv1 : vol_of i s1 = vol_of i s ++ c).
    { unfold vol_of at 1, s1. cbn [pvol]. rewrite alk_set_same, Hpos. apply overwrite_at_end. }
    destruct (IH s1 l1 i eq_refl) as [H1 H2].
    { unfold l1. cbn [ppos]. rewrite Hv1, Hpos, app_length. reflexivity. }
    rewrite H1, Hv1, <- app_assoc. auto.
Qed.

(* ---------------------------------------------------------------- the state right after open *)
Lemma open_state trunc s : pwf s -> safe_tmp s tmp dst trunc ->
  let s1 := fst (pstep (POpen trunc) s ploc0) in let l1 := snd (pstep (POpen trunc) s ploc0) in
  exists i, pfd l1 = Some i /\ ppos l1 = 0 /\ vol_of i s1 = [] /\ alk tmp (pnames s1) = Some i /\
            alk dst (pnames s1) = alk dst (pnames s) /\ alk dst (pnames s) <> Some i /\
            pdur s1 = pdur s /\
            (forall j, j <> i -> vol_of j s1 = vol_of j s).
Proof.
  intros Hwf Hsafe. unfold safe_tmp in Hsafe. cbn [Posix.pstep].
  destruct (alk tmp (pnames s)) as [i|] eqn:E; cbn [fst snd].
  - destruct Hsafe as [-> Hne]. exists i. cbn [pfd ppos pnames pdur].
    repeat split; auto.
    + unfold vol_of. cbn [pvol]. now rewrite alk_set_same.
    + intros j Hj. unfold vol_of. cbn [pvol]. now rewrite alk_set_other.
  - exists (pnext s). cbn [pfd ppos pnames pdur].
    repeat split; auto.
    + unfold vol_of. cbn [pvol]. now rewrite alk_set_same.
    + apply alk_set_same.
    + apply alk_set_other. auto.
    + intros Hd. apply Hwf in Hd. lia.
    + intros j Hj. unfold vol_of. cbn [pvol]. now rewrite alk_set_other.
Qed.

Lemma prun_app p1 p2 s l : prun (p1 ++ p2) s l = let '(s', l') := prun p1 s l in prun p2 s' l'.
Proof.
  revert s l; induction p1 as [|o p1 IH]; intros s l; [reflexivity|].
  cbn [app Posix.prun]. destruct (pstep o s l) as [s' l']. apply IH.
Qed.

Lemma firstn_map_quiet k chunks : Forall quiet (firstn k (map PWrite chunks ++ [PFsync])).
Proof.
  apply Forall_forall. intros o Hin. apply (In_firstn_incl k) in Hin || idtac.
  assert (H : In o (map PWrite chunks ++ [PFsync])).
  { clear -Hin. revert Hin. generalize (map PWrite chunks ++ [PFsync]). intros l. revert k.
    induction l as [|x l IH]; intros [|k] H; cbn [firstn] in H; try contradiction.
    destruct H as [H|H]; [now left|right; eapply IH; eauto]. }
  apply in_app_or in H as [H|[<-|[]]]; [|exact I].
  apply in_map_iff in H as (c & <- & _). exact I.
Qed.

(* ---------------------------------------------------------------- before the rename nothing is visible *)
Definition same_view (s s' : pst) : Prop :=
  content s' dst = content s dst /\ durable_content s' dst = durable_content s dst.

Lemma before_rename trunc chunks s k : pwf s -> safe_tmp s tmp dst trunc ->
  same_view s (fst (prun (firstn k (POpen trunc :: map PWrite chunks ++ [PFsync])) s ploc0)).
Proof.
  intros Hwf Hsafe. destruct k as [|k]; [split; reflexivity|].
  cbn [firstn Posix.prun].
  destruct (open_state trunc s Hwf Hsafe) as (i & Hfd & Hpos & Hv & Ht & Hd & Hne & Hdur & Hoth).
  destruct (pstep (POpen trunc) s ploc0) as [s1 l1]. cbn [fst snd] in *.
  pose proof (quiet_run _ (firstn_map_quiet k chunks) s1 l1 i Hfd) as Hq. cbv zeta in Hq.
  destruct (prun (firstn k (map PWrite chunks ++ [PFsync])) s1 l1) as [s2 l2]. cbn [fst snd] in *.
  destruct Hq as (Hn & _ & _ & Hj).
  unfold same_view, content, durable_content. rewrite Hn, Hd.
  destruct (alk dst (pnames s)) as [j|] eqn:E; [|split; reflexivity].
  assert (Hji : j <> i) by congruence.
  destruct (Hj j Hji) as [Hv2 Hd2]. rewrite Hv2, Hd2, Hoth, Hdur by exact Hji. split; reflexivity.
Qed.

(* ---------------------------------------------------------------- the complete call *)
Lemma after_rename trunc chunks s : pwf s -> safe_tmp s tmp dst trunc ->
  let s' := fst (prun (ac_prog trunc chunks) s ploc0) in
  content s' dst = Some (concat chunks) /\ durable_content s' dst = Some (Some (concat chunks)).
Proof.
  intros Hwf Hsafe. unfold ac_prog. cbn [Posix.prun].
  destruct (open_state trunc s Hwf Hsafe) as (i & Hfd & Hpos & Hv & Ht & Hd & Hne & Hdur & Hoth).
  destruct (pstep (POpen trunc) s ploc0) as [s1 l1]. cbn [fst snd] in *.
  rewrite prun_app.
  pose proof (write_run chunks s1 l1 i Hfd) as Hw. rewrite Hv in Hw. cbn [length app] in Hw.
  pose proof (quiet_run (map PWrite chunks)) as Hq.
  assert (Hqw : Forall quiet (map PWrite chunks))
    by (apply Forall_forall; intros o Hin; apply in_map_iff in Hin as (c & <- & _); exact I).
  specialize (Hq Hqw s1 l1 i Hfd). cbv zeta in Hq.
  destruct (prun (map PWrite chunks) s1 l1) as [s2 l2]. cbn [fst snd] in *.
  destruct (Hw Hpos) as (Hv2 & Hfd2). destruct Hq as (Hn2 & _ & _ & _).
  cbn [Posix.prun Posix.pstep]. rewrite Hfd2. cbn [pnames]. rewrite Hn2, Ht. cbn [fst].
  unfold content, durable_content, vol_of. cbn [pnames pvol pdur].
  rewrite !alk_set_same. fold (vol_of i s2). rewrite Hv2. split; reflexivity.
Qed.

Lemma firstn_snoc_cases {A} (l : list A) x k : firstn k (l ++ [x]) = firstn k l \/ firstn k (l ++ [x]) = l ++ [x].
Proof.
  destruct (Nat.le_gt_cases k (length l)) as [H|H].
  - left. rewrite firstn_app. replace (k - length l) with 0 by lia. now rewrite firstn_O, app_nil_r.
  - right. apply firstn_all2. rewrite app_length. cbn. lia.
Qed.

(* THE THEOREM (single call): at every instant, and after a crash or a failing
   system call at any step (the call stops there), dst is either as before or
   holds exactly the data — and whenever the new contents are visible they are
   already durable. *)
Theorem ac_atomic_and_durable trunc chunks s k : pwf s -> safe_tmp s tmp dst trunc ->
  let s' := fst (prun (firstn k (ac_prog trunc chunks)) s ploc0) in
  same_view s s' \/
  (content s' dst = Some (concat chunks) /\ durable_content s' dst = Some (Some (concat chunks))).
Proof.
  intros Hwf Hsafe. unfold ac_prog.
  replace (POpen trunc :: map PWrite chunks ++ [PFsync; PRename])
    with ((POpen trunc :: map PWrite chunks ++ [PFsync]) ++ [PRename])
    by (cbn [app]; rewrite <- app_assoc; reflexivity).
  destruct (firstn_snoc_cases (POpen trunc :: map PWrite chunks ++ [PFsync]) PRename k) as [E|E]; rewrite E.
  - left. now apply before_rename.
  - right. replace ((POpen trunc :: map PWrite chunks ++ [PFsync]) ++ [PRename]) with (ac_prog trunc chunks)
      by (unfold ac_prog; cbn [app]; rewrite <- app_assoc; reflexivity).
    now apply after_rename.
Qed.

End Call.

(* the same statements for ANY method body accepted by the shape checker *)
Theorem shape_atomic_and_durable ss chunks tmp dst s k : atomic_create_shape ss = true ->
  tmp <> dst -> pwf s -> safe_tmp s tmp dst true ->
  let s' := fst (prun tmp dst (firstn k (prog_of ss chunks)) s ploc0) in
  same_view dst s s' \/
  (content s' dst = Some (concat chunks) /\ durable_content s' dst = Some (Some (concat chunks))).
Proof. intros Hs Hne Hwf Hsafe. rewrite (shape_prog ss chunks Hs). exact (ac_atomic_and_durable tmp dst Hne true chunks s k Hwf Hsafe). Qed.

Theorem shape_complete ss chunks tmp dst s : atomic_create_shape ss = true ->
  tmp <> dst -> pwf s -> safe_tmp s tmp dst true ->
  content (fst (prun tmp dst (prog_of ss chunks) s ploc0)) dst = Some (concat chunks).
Proof. intros Hs Hne Hwf Hsafe. rewrite (shape_prog ss chunks Hs). exact (proj1 (after_rename tmp dst Hne true chunks s Hwf Hsafe)). Qed.
