(* Reference GooseLang: notations and library names, as goose emits them.
   Levels follow iris/heap_lang/notation.v (from which GooseLang's notation
   file is derived): # 8, ! 9, application 10, * 40, + - 50, = < ≤ 70, ~ 75,
   <-[t] 80, ;; 100, let: if: rec: λ: for: 200. *)
From Coq Require Import String List ZArith.
From GV Require Export Lang.GlSyntax.
Import ListNotations.

Declare Scope expr_scope.
Declare Scope val_scope.
Declare Scope binder_scope.
Declare Scope struct_scope.
Delimit Scope expr_scope with E.
Delimit Scope val_scope with V.
Delimit Scope binder_scope with binder.
Delimit Scope struct_scope with struct.
Bind Scope expr_scope with expr.
Bind Scope val_scope with val.
Bind Scope binder_scope with binder.

Coercion LitInt : Z >-> base_lit.
Coercion LitBool : bool >-> base_lit.
Coercion App : expr >-> Funclass.
Coercion Val : val >-> expr.
Coercion Var : string >-> expr.
Coercion BNamed : string >-> binder.
Notation "<>" := BAnon : binder_scope.

(* literals *)
Definition str (s : string) : base_lit := LitString s.
Definition U32 (n : Z) : base_lit := LitInt32 n.
Definition U8 (n : Z) : base_lit := LitByte n.
Definition null : base_lit := LitNull.
Notation "()" := LitUnit : val_scope.
Notation "# l" := (LitV l%Z%V) (at level 8, format "# l").

Notation "( e1 , e2 , .. , en )" := (Pair .. (Pair e1 e2) .. en) : expr_scope.
Notation "( e1 , e2 , .. , en )" := (PairV .. (PairV e1 e2) .. en) : val_scope.

(* types *)
Notation mapT := mapValT (only parsing).
Definition arrowT (a b : ty) : ty := arrowT_ [a; b].
Definition ProphIdT : ty := extT "ProphId".

(* typed memory *)
Definition ref_to (t : ty) : val := PrimV (PRefTo t) [].
Definition ref : val := PrimV PRef [].
Definition zero_array (t : ty) : val := PrimV (PZeroArray t) [].
Definition load_ty (t : ty) : val := PrimV (PLoad t) [].
Definition store_ty (t : ty) : val := PrimV (PStore t) [].
Notation "![ t ] e" := (load_ty t e%E) (at level 9, right associativity, format "![ t ]  e") : expr_scope.
Notation "e1 <-[ t ] e2" := (store_ty t e1%E e2%E) (at level 80, format "e1  <-[ t ]  e2") : expr_scope.

(* operators *)
Notation "e1 + e2" := (BinOp PlusOp e1%E e2%E) : expr_scope.
Notation "e1 - e2" := (BinOp MinusOp e1%E e2%E) : expr_scope.
Notation "e1 * e2" := (BinOp MultOp e1%E e2%E) : expr_scope.
Notation "e1 `quot` e2" := (BinOp QuotOp e1%E e2%E) (at level 35) : expr_scope.
Notation "e1 `rem` e2" := (BinOp RemOp e1%E e2%E) (at level 35) : expr_scope.
Notation "e1 `and` e2" := (BinOp AndOp e1%E e2%E) (at level 40) : expr_scope.
Notation "e1 `or` e2" := (BinOp OrOp e1%E e2%E) (at level 50) : expr_scope.
Notation "e1 `xor` e2" := (BinOp XorOp e1%E e2%E) (at level 50) : expr_scope.
Notation "e1 ≪ e2" := (BinOp ShiftLOp e1%E e2%E) (at level 35) : expr_scope.
Notation "e1 ≫ e2" := (BinOp ShiftROp e1%E e2%E) (at level 35) : expr_scope.
Notation "e1 ≤ e2" := (BinOp LeOp e1%E e2%E) (at level 70) : expr_scope.
Notation "e1 < e2" := (BinOp LtOp e1%E e2%E) : expr_scope.
Notation "e1 ≥ e2" := (BinOp LeOp e2%E e1%E) (at level 70) : expr_scope.
Notation "e1 > e2" := (BinOp LtOp e2%E e1%E) : expr_scope.
Notation "e1 = e2" := (BinOp EqOp e1%E e2%E) : expr_scope.
Notation "e1 ≠ e2" := (UnOp NegOp (BinOp EqOp e1%E e2%E)) (at level 70) : expr_scope.
Notation "~ e" := (UnOp NegOp e%E) (at level 75, right associativity) : expr_scope.
Notation "e1 && e2" := (If e1%E e2%E (Val (LitV (LitBool false)))) (only parsing) : expr_scope.
Notation "e1 || e2" := (If e1%E (Val (LitV (LitBool true))) e2%E) (only parsing) : expr_scope.
Definition to_u64 : val := PrimV PToU64 [].
Definition to_u32 : val := PrimV PToU32 [].
Definition to_u8 : val := PrimV PToU8 [].

(* binding forms *)
Notation "'rec:' f x := e" := (Rec f%binder x%binder e%E)
  (at level 200, f at level 1, x at level 1, e at level 200) : expr_scope.
Notation "'rec:' f x := e" := (RecV f%binder x%binder e%E)
  (at level 200, f at level 1, x at level 1, e at level 200) : val_scope.
Notation "'rec:' f x y .. z := e" := (Rec f%binder x%binder (Lam y%binder .. (Lam z%binder e%E) ..))
  (at level 200, f, x, y, z at level 1, e at level 200) : expr_scope.
Notation "'rec:' f x y .. z := e" := (RecV f%binder x%binder (Lam y%binder .. (Lam z%binder e%E) ..))
  (at level 200, f, x, y, z at level 1, e at level 200) : val_scope.
Notation "'if:' e1 'then' e2 'else' e3" := (If e1%E e2%E e3%E)
  (at level 200, e1, e2, e3 at level 200) : expr_scope.
Notation "λ: x , e" := (Lam x%binder e%E) (at level 200, x at level 1, e at level 200) : expr_scope.
Notation "λ: x y .. z , e" := (Lam x%binder (Lam y%binder .. (Lam z%binder e%E) ..))
  (at level 200, x, y, z at level 1, e at level 200) : expr_scope.
Notation "λ: x , e" := (LamV x%binder e%E) (at level 200, x at level 1, e at level 200) : val_scope.
Notation "λ: x y .. z , e" := (LamV x%binder (Lam y%binder .. (Lam z%binder e%E) .. ))
  (at level 200, x, y, z at level 1, e at level 200) : val_scope.
Notation "'let:' x := e1 'in' e2" := (LetIn x%binder e1%E e2%E)
  (at level 200, x at level 1, e1, e2 at level 200) : expr_scope.
Notation "e1 ;; e2" := (Seq e1%E e2%E) (at level 100, e2 at level 200) : expr_scope.

(* destructuring lets (multiple results) *)
Notation "'let:' ( a1 , a2 ) := e1 'in' e2" :=
  (LetIn (BNamed "__p") e1%E
     (LetIn a1%binder (Fst (Var "__p")) (LetIn a2%binder (Snd (Var "__p")) e2%E)))
  (at level 200, a1, a2 at level 1, e1, e2 at level 200) : expr_scope.
Notation "'let:' ( ( a1 , a2 ) , a3 ) := e1 'in' e2" :=
  (LetIn (BNamed "__p") e1%E
     (LetIn a1%binder (Fst (Fst (Var "__p"))) (LetIn a2%binder (Snd (Fst (Var "__p")))
        (LetIn a3%binder (Snd (Var "__p")) e2%E))))
  (at level 200, a1, a2, a3 at level 1, e1, e2 at level 200) : expr_scope.
Notation "'let:' ( ( ( a1 , a2 ) , a3 ) , a4 ) := e1 'in' e2" :=
  (LetIn (BNamed "__p") e1%E
     (LetIn a1%binder (Fst (Fst (Fst (Var "__p")))) (LetIn a2%binder (Snd (Fst (Fst (Var "__p"))))
        (LetIn a3%binder (Snd (Fst (Var "__p"))) (LetIn a4%binder (Snd (Var "__p")) e2%E)))))
  (at level 200, a1, a2, a3, a4 at level 1, e1, e2 at level 200) : expr_scope.

(* control *)
Definition Skip : expr := App (Val (LamV BAnon (Val (LitV LitUnit)))) (Val (LitV LitUnit)).
Definition Continue : val := LitV (LitBool true).
Definition Break : val := LitV (LitBool false).
Definition For : val := PrimV PFor [].
Notation "'for:' cond ; post := e" := (For cond%E e%E post%E)
  (at level 200, cond, post at level 99, e at level 200) : expr_scope.
Definition forSlice (t : ty) : val := PrimV (PForSlice t) [].
Notation "'ForSlice' t k v s body" := (forSlice t (Lam k%binder (Lam v%binder body%E)) s%E)
  (at level 10, t, k, v, s, body at level 9) : expr_scope.
Definition MapIter : val := PrimV PMapIter [].
Definition Panic (msg : string) : expr := App (Val (PrimV (PPanic msg) [])) (Val (LitV LitUnit)).
Definition Linearize : expr := App (Val (PrimV PLinearize [])) (Val (LitV LitUnit)).

(* structs *)
Notation "f :: t" := (@pair string ty f%string t) : struct_scope.
(* argument scopes only reach the top-level notation of an argument, so the
   list brackets are given in struct_scope too, with their elements read there *)
Notation "[ ]" := (@nil (string * ty)) : struct_scope.
Notation "[ x ]" := (@cons (string * ty) x%struct nil) : struct_scope.
Notation "[ x ; y ; .. ; z ]" :=
  (@cons (string * ty) x%struct (@cons (string * ty) y%struct .. (@cons (string * ty) z%struct nil) ..)) : struct_scope.
Notation "f ::= v" := (@pair string expr f%string v%E) (at level 60) : expr_scope.
Module struct.
  Definition decl (fs : descriptor) : descriptor := fs.
  Definition t (d : descriptor) : ty := struct_ty d.
  Definition mk (d : descriptor) (fs : list (string * expr)) : expr := struct_mk d fs.
  Definition alloc (d : descriptor) : val := PrimV (PStructAlloc d) [].
  Definition new (d : descriptor) (fs : list (string * expr)) : expr := App (Val (alloc d)) (struct_mk d fs).
  Definition get (d : descriptor) (f : string) : val := PrimV (PStructGet d f) [].
  Definition loadF (d : descriptor) (f : string) : val := PrimV (PStructLoadF d f) [].
  Definition storeF (d : descriptor) (f : string) : val := PrimV (PStructStoreF d f) [].
  Definition fieldRef (d : descriptor) (f : string) : val := PrimV (PStructFieldRef d f) [].
  Definition load (d : descriptor) : val := PrimV (PStructLoad d) [].
  Definition store (d : descriptor) : val := PrimV (PStructStore d) [].
End struct.
Arguments struct.decl fs%struct.
Arguments struct.mk d fs%E.
Arguments struct.new d fs%E.

(* slices *)
Module slice.
  Definition T (t : ty) : ty := sliceT t.
  Definition nil : val := PairV (LitV LitNull) (PairV (LitV (LitInt 0)) (LitV (LitInt 0))).
  Definition len : val := PrimV PSliceLen [].
  Definition cap : val := PrimV PSliceCap [].
End slice.
Definition NewSlice (t : ty) : val := PrimV (PNewSlice t) [].
Definition NewSliceWithCap (t : ty) : val := PrimV (PNewSliceWithCap t) [].
Definition SliceGet (t : ty) : val := PrimV (PSliceGet t) [].
Definition SliceSet (t : ty) : val := PrimV (PSliceSet t) [].
Definition SliceRef (t : ty) : val := PrimV (PSliceRef t) [].
Definition SliceSkip (t : ty) : val := PrimV (PSliceSkip t) [].
Definition SliceTake : val := PrimV PSliceTake [].
Definition SliceSubslice (t : ty) : val := PrimV (PSliceSubslice t) [].
Definition SliceAppend (t : ty) : val := PrimV (PSliceAppend t) [].
Definition SliceAppendSlice (t : ty) : val := PrimV (PSliceAppendSlice t) [].
Definition SliceCopy (t : ty) : val := PrimV (PSliceCopy t) [].
Definition SliceSingleton : val := PrimV PSliceSingleton [].

(* maps *)
Definition NewMap (k v : ty) : val := PrimV (PNewMap k v) [].
Definition MapGet : val := PrimV PMapGet [].
Definition MapInsert : val := PrimV PMapInsert [].
Definition MapDelete : val := PrimV PMapDelete [].
Definition MapLen : val := PrimV PMapLen [].
Definition MapClear : val := PrimV PMapClear [].

(* strings, encoding *)
Definition StringLength : val := PrimV PStringLength [].
Definition StringToBytes : val := PrimV PStringToBytes [].
Definition StringFromBytes : val := PrimV PStringFromBytes [].
Definition uint64_to_string : val := PrimV PUInt64ToString [].
Definition UInt64Get : val := PrimV PUInt64Get [].
Definition UInt64Put : val := PrimV PUInt64Put [].
Definition UInt32Get : val := PrimV PUInt32Get [].
Definition UInt32Put : val := PrimV PUInt32Put [].

(* synchronisation *)
Module lock.
  Definition new : val := PrimV PLockNew [].
  Definition acquire : val := PrimV PLockAcquire [].
  Definition release : val := PrimV PLockRelease [].
  Definition newCond : val := PrimV PNewCond [].
  Definition condSignal : val := PrimV PCondSignal [].
  Definition condBroadcast : val := PrimV PCondBroadcast [].
  Definition condWait : val := PrimV PCondWait [].
  Definition condWaitTimeout : val := PrimV PCondWaitTimeout [].
End lock.
Module waitgroup.
  Definition New : val := PrimV PWaitGroupNew [].
  Definition Add : val := PrimV PWaitGroupAdd [].
  Definition Done : val := PrimV PWaitGroupDone [].
  Definition Wait : val := PrimV PWaitGroupWait [].
End waitgroup.

(* control, time, randomness, prophecy *)
Module control. Module impl.
  Definition Assume : val := PrimV PAssume [].
  Definition Assert : val := PrimV PAssert [].
  Definition Exit : val := PrimV PExit [].
End impl. End control.
Module time.
  Definition Sleep : val := PrimV PTimeSleep [].
  Definition TimeNow : val := PrimV PTimeNow [].
End time.
Module rand.
  Definition RandomUint64 : val := PrimV PRandom [].
End rand.
Definition NewProph : val := PrimV PNewProph [].
Definition ResolveProph : val := PrimV PResolveProph [].

(* the generic (no FFI) header uses these *)
Class ext_types := { ext_types_dummy : unit }.

(* -typecheck emits  Theorem f_t: ⊢ f : (T).  Proof. typecheck. Qed.  — typing is not modelled *)
Declare Scope heap_types.
Delimit Scope heap_types with ht.
Notation "a -> b" := (arrowT a b) : heap_types.
Notation "a * b" := (prodT a b) : heap_types.
Bind Scope heap_types with ty.
Definition has_type (e : expr) (t : ty) : Prop := True.
Notation "⊢ e : t" := (has_type e%E t%ht) (at level 74, e at next level, t at next level).
Definition has_type_ctx (G : list (string * ty)) (e : expr) (t : ty) : Prop := True.
Notation "Γ ⊢ e : t" := (has_type_ctx Γ e%E t%ht) (at level 74, e at next level, t at next level, only parsing).
Ltac typecheck := exact I.
Create HintDb types.
