(* Rendering of interpreter results for the differential harness. *)
From Coq Require Import String List ZArith.
From GV Require Import Lang.GlSyntax Lang.GlSem.
Import ListNotations.
Open Scope string_scope.

Definition show_z (n : Z) : string := digits 25 n.

Fixpoint hex_of_string (s : string) : string :=
  match s with
  | EmptyString => ""
  | String c s' =>
      let n := Ascii.nat_of_ascii c in
      let h d := String (Ascii.ascii_of_nat (if Nat.ltb d 10 then 48 + d else 87 + d)) EmptyString in
      h (Nat.div n 16) ++ h (Nat.modulo n 16) ++ hex_of_string s'
  end.

Fixpoint show_val (v : val) : string :=
  match v with
  | LitV (LitInt n) => "u64:" ++ show_z n
  | LitV (LitInt32 n) => "u32:" ++ show_z n
  | LitV (LitByte n) => "u8:" ++ show_z n
  | LitV (LitBool true) => "bool:true"
  | LitV (LitBool false) => "bool:false"
  | LitV (LitString s) => "str:" ++ hex_of_string s
  | LitV LitUnit => "()"
  | LitV LitNull => "null"
  | LitV (LitLoc b o) => "loc"
  | PairV a b => "(" ++ show_val a ++ "," ++ show_val b ++ ")"
  | RecV _ _ _ => "fun"
  | PrimV _ _ => "prim"
  end.

Definition show_res (r : res) : string :=
  match r with
  | RVal v _ => show_val v
  | RStuck w => "stuck:" ++ hex_of_string w
  | RFuel => "fuel"
  end.

(* outcomes of the concurrent explorer *)
From GV Require Import Lang.GlConc.
Definition show_outcome1 (o : outcome) : string :=
  match o with
  | ODone v => "done:" ++ show_val v
  | ODeadlock => "deadlock"
  | OStuck w => "stuck:" ++ hex_of_string w
  | OFuelOut => "fuel"
  end.
Fixpoint show_outcomes (l : list outcome) : string :=
  match l with
  | [] => ""
  | [o] => show_outcome1 o
  | o :: t => show_outcome1 o ++ "|" ++ show_outcomes t
  end.
