(* Reference GooseLang, concurrently: a small-step machine over the same
   syntax, library functions and state as GlSem.v, thread pools, and an
   exhaustive explorer of the interleavings.

   step1 performs one step of the leftmost redex in GooseLang's evaluation
   order (right operand first).  Steps are classified: SPure (no access to the
   state), SMem (a library function executed on the state: loads, stores,
   allocation, locks, wait groups, maps, slices), SFork.  A thread whose next
   library call cannot proceed (acquire of a held lock, Wait on a non-zero wait
   group) is SBlocked.  Condition variables: condWait c is release; acquire of
   the lock stored in c (spurious wake-ups allowed, as in GooseLang);
   condWaitTimeout likewise; signal and broadcast are no-ops.  For the
   exploration a waiting thread re-acquires only after another thread has moved
   (schedules in which a thread spins alone are unfair and never finish). *)
From Coq Require Import String List ZArith Bool.
From GV Require Import Lang.GlSyntax Lang.GlSem.
Import ListNotations.
Open Scope string_scope.

Inductive sres :=
| SVal (v : val)
| SPure (e' : expr)
| SMem (e' : expr) (s' : state) (progress : bool)   (* progress: other than a read or a lock operation *)
| SFork (e' : expr) (child : expr)
| SYield (e' : expr) (s' : state)     (* a step after which the thread waits for another thread to move (condWait) *)
| SBlocked
| SStuck (why : string).

Definition in_ctx (k : expr -> expr) (r : sres) : sres :=
  match r with
  | SVal v => SStuck "context of a value"
  | SPure e' => SPure (k e')
  | SMem e' s' pr => SMem (k e') s' pr
  | SFork e' c => SFork (k e') c
  | SYield e' s' => SYield (k e') s'
  | SBlocked => SBlocked
  | SStuck w => SStuck w
  end.

(* condition variables as derived forms *)
Definition cond_lock (c : val) (s : state) : option val :=
  match c with
  | LitV (LitLoc b 0) => match nth_error (heap s) b with Some (BCells [l]) => Some l | _ => None end
  | _ => None
  end.

Definition prim1 (p : prim) (a : expr) : expr := App (Val (PrimV p [])) a.

(* reads and lock operations do not count as progress for the fairness of the exploration *)
Definition is_progress (p : prim) : bool :=
  match p with
  | PLoad _ | PStructLoadF _ _ | PStructLoad _ | PStructGet _ _ | PStructFieldRef _ _
  | PSliceGet _ | PSliceLen | PSliceCap | PSliceRef _ | PSliceSkip _ | PSliceTake | PSliceSubslice _
  | PMapGet | PMapLen | PStringLength | PUInt64Get | PUInt32Get
  | PLockAcquire | PLockRelease | PCondSignal | PCondBroadcast | PCondWait | PCondWaitTimeout
  | PTimeSleep | PTimeNow | PLinearize | PAssume | PAssert => false
  | _ => true
  end.

Definition apply_step (vf va : val) (s : state) : sres :=
  match vf with
  | RecV fb xb body => SPure (subst' xb va (subst' fb vf body))
  | PrimV p args =>
      let args' := (args ++ [va])%list in
      if Nat.ltb (length args') (arity p) then SPure (Val (PrimV p args'))
      else if is_loop p then
        match expand_loop p args' s with
        | Some e' => SMem e' s false      (* MapIter reads the map *)
        | None => SStuck "loop applied to unexpected arguments"
        end
      else
        match p, args' with
        | PCondWait, [c] | PCondWaitTimeout, [c; _] =>
            (* release the lock, then wait for some other thread to move, then re-acquire *)
            match cond_lock c s with
            | Some l =>
                match exec_prim PLockRelease [l] s with
                | RVal _ s' => SYield (prim1 PLockAcquire (Val l)) s'
                | RStuck w => SStuck w
                | RFuel => SBlocked
                end
            | None => SStuck "condWait"
            end
        | _, _ =>
            match exec_prim p args' s with
            | RVal v s' => SMem (Val v) s' (is_progress p)
            | RStuck w => SStuck w
            | RFuel => SBlocked
            end
        end
  | _ => SStuck "application of a non-function"
  end.

(* the step function, over the function that performs an application of two values *)
Fixpoint step1g (ap : val -> val -> state -> sres) (e : expr) (s : state) : sres :=
  match e with
  | Val v => SVal v
  | Var x => SStuck ("unbound variable " ++ x)
  | Rec fb xb b => SPure (Val (RecV fb xb b))
  | App e1 e2 =>
      match step1g ap e2 s with
      | SVal v2 =>
          match step1g ap e1 s with
          | SVal v1 => ap v1 v2 s
          | r => in_ctx (fun x => App x e2) r
          end
      | r => in_ctx (fun x => App e1 x) r
      end
  | UnOp op e1 =>
      match step1g ap e1 s with
      | SVal v => match un_op_eval op v with Some r => SPure (Val r) | None => SStuck "unary operator" end
      | r => in_ctx (fun x => UnOp op x) r
      end
  | BinOp op e1 e2 =>
      match step1g ap e2 s with
      | SVal v2 =>
          match step1g ap e1 s with
          | SVal v1 => match bin_op_eval op v1 v2 with Some r => SPure (Val r) | None => SStuck "binary operator" end
          | r => in_ctx (fun x => BinOp op x e2) r
          end
      | r => in_ctx (fun x => BinOp op e1 x) r
      end
  | If e0 e1 e2 =>
      match step1g ap e0 s with
      | SVal (LitV (LitBool true)) => SPure e1
      | SVal (LitV (LitBool false)) => SPure e2
      | SVal _ => SStuck "if: condition is not a boolean"
      | r => in_ctx (fun x => If x e1 e2) r
      end
  | Pair e1 e2 =>
      match step1g ap e2 s with
      | SVal v2 =>
          match step1g ap e1 s with
          | SVal v1 => SPure (Val (PairV v1 v2))
          | r => in_ctx (fun x => Pair x e2) r
          end
      | r => in_ctx (fun x => Pair e1 x) r
      end
  | Fst e1 =>
      match step1g ap e1 s with
      | SVal (PairV a _) => SPure (Val a)
      | SVal _ => SStuck "Fst"
      | r => in_ctx Fst r
      end
  | Snd e1 =>
      match step1g ap e1 s with
      | SVal (PairV _ b) => SPure (Val b)
      | SVal _ => SStuck "Snd"
      | r => in_ctx Snd r
      end
  | Fork e1 => SFork (Val (LitV LitUnit)) e1
  end.

Definition step1 : expr -> state -> sres := step1g apply_step.

(* ---------------------------------------------------------------- threads *)
(* run the local steps of a thread up to its next visible step and perform it *)
Inductive move :=
| MDone (v : val)                           (* the thread is a value *)
| MStep (e' : expr) (s' : state) (forked : list expr) (yields : bool) (progress : bool)
| MBlocked
| MStuck (why : string)
| MFuel.

Fixpoint advance (fuel : nat) (e : expr) (s : state) : move :=
  match fuel with
  | O => MFuel
  | S f =>
      match step1 e s with
      | SVal v => MDone v
      | SPure e' => advance f e' s
      | SMem e' s' pr => MStep e' s' [] false pr
      | SFork e' c => MStep e' s [c] false true
      | SYield e' s' => MStep e' s' [] true false
      | SBlocked => MBlocked
      | SStuck w => MStuck w
      end
  end.

Inductive outcome :=
| ODone (v : val)
| ODeadlock
| OStuck (why : string)
| OFuelOut.

(* a thread: its expression and whether it waits for another thread to move *)
Definition thread := (expr * bool)%type.

Fixpoint set_thread (l : list thread) (i : nat) (x : thread) : list thread :=
  match l, i with
  | [], _ => []
  | _ :: t, O => x :: t
  | h :: t, S i' => h :: set_thread t i' x
  end.

Definition wake (l : list thread) : list thread := map (fun t => (fst t, false)) l.

(* one scheduling decision: thread i (not waiting) takes its next visible step;
   a step that makes progress wakes the waiting threads.  The boolean says
   whether the step made progress. *)
Definition sched_step (lfuel : nat) (pool : list thread) (s : state) (i : nat) : option (list thread * state * bool) :=
  match nth_error pool i with
  | Some (e, false) =>
      match advance lfuel e s with
      | MStep e' s' forked y pr =>
          Some ((set_thread (if pr then wake pool else pool) i (e', y) ++ map (fun c => (c, false)) forked)%list, s', pr)
      | _ => None
      end
  | _ => None
  end.

Definition outcome_eqb (a b : outcome) : bool :=
  match a, b with
  | ODone v, ODone w => match val_eqb v w with Some true => true | _ => false end
  | ODeadlock, ODeadlock => true
  | OStuck _, OStuck _ => true
  | OFuelOut, OFuelOut => true
  | _, _ => false
  end.

Fixpoint add_outcome (o : outcome) (l : list outcome) : list outcome :=
  match l with
  | [] => [o]
  | x :: t => if outcome_eqb o x then l else x :: add_outcome o t
  end.

Definition union (a b : list outcome) : list outcome := fold_left (fun acc o => add_outcome o acc) b a.

Definition classify (lfuel : nat) (pool : list thread) (s : state) : list move :=
  map (fun t => advance lfuel (fst t) s) pool.

Definition is_stuck (m : move) : option string := match m with MStuck w => Some w | _ => None end.

Definition nexts_of (lfuel : nat) (pool : list thread) (s : state) : list (list thread * state * bool) :=
  flat_map (fun i => match sched_step lfuel pool s i with Some ps => [ps] | None => [] end) (seq 0 (length pool)).

(* all outcomes over all schedules (interleaving at visible steps), up to fuel
   decisions.  stale counts the forced wake-ups since the last step that made
   progress: threads that only wait for each other, woken twice without anybody
   making progress, are a livelock (reported as a deadlock). *)
Fixpoint explore (fuel lfuel stale : nat) (pool : list thread) (s : state) : list outcome :=
  match fuel with
  | O => [OFuelOut]
  | S f =>
      let ms := classify lfuel pool s in
      match ms with
      | MDone v :: _ => [ODone v]                 (* the main thread returned: the program ends *)
      | _ =>
          match flat_map (fun m => match is_stuck m with Some w => [w] | None => [] end) ms with
          | w :: _ => [OStuck w]
          | [] =>
              if existsb (fun m => match m with MFuel => true | _ => false end) ms then [OFuelOut]
              else
                let go (st : nat) (nexts : list (list thread * state * bool)) :=
                  fold_left (fun (acc : list outcome) (ps : list thread * state * bool) =>
                               union acc (explore f lfuel (if snd ps then O else st) (fst (fst ps)) (snd (fst ps)))) nexts [] in
                match nexts_of lfuel pool s with
                | [] =>
                    (* nobody can move: if somebody only waits for others, let the waiting threads go on *)
                    if existsb (fun t => snd t) pool then
                      if Nat.ltb 1 stale then [ODeadlock]
                      else
                        match nexts_of lfuel (wake pool) s with
                        | [] => [ODeadlock]
                        | nexts => go (S stale) nexts
                        end
                    else [ODeadlock]
                | nexts => go stale nexts
                end
          end
      end
  end.

(* a given schedule (list of thread indices) *)
Fixpoint run_schedule (lfuel : nat) (sch : list nat) (pool : list thread) (s : state) : option (list thread * state) :=
  match sch with
  | [] => Some (pool, s)
  | i :: sch' =>
      match sched_step lfuel pool s i with
      | Some (pool', s', _) => run_schedule lfuel sch' pool' s'
      | None => None
      end
  end.

Definition run_conc (fuel lfuel : nat) (e : expr) : list outcome := explore fuel lfuel 0 [(e, false)] state0.
